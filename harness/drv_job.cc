// C19 driver: the job front ends of libqpdf, observed (a) at the configuration they build -
// QPDFJob::Members after initializeFromArgv / initializeFromJson, dumped field by field - and (b) end to end through
// the C job API (qpdfjob_run_from_argv / qpdfjob_run_from_json) in a forked child with stdout/stderr captured.
//
// Members is private; the driver reads it (never writes) by compiling the private header with `private` spelled
// `public`. Access specifiers do not change layout or mangling with GCC, and every standard header the qpdf headers use is
// included before the redefinition.
#include "drv.hh"
#include <algorithm>
#include <array>
#include <atomic>
#include <bitset>
#include <cctype>
#include <chrono>
#include <cmath>
#include <concepts>
#include <cstdint>
#include <cstdio>
#include <cstdlib>
#include <cstring>
#include <ctime>
#include <deque>
#include <exception>
#include <fstream>
#include <functional>
#include <iomanip>
#include <iostream>
#include <iterator>
#include <limits>
#include <list>
#include <locale>
#include <map>
#include <memory>
#include <mutex>
#include <numeric>
#include <optional>
#include <ostream>
#include <regex>
#include <set>
#include <span>
#include <sstream>
#include <stdexcept>
#include <string>
#include <string_view>
#include <type_traits>
#include <unordered_map>
#include <unordered_set>
#include <utility>
#include <variant>
#include <vector>
#include <fcntl.h>
#include <sys/types.h>
#include <sys/wait.h>
#include <unistd.h>

#define private public
#define protected public
#include <qpdf/QPDFJob_private.hh>
#undef private
#undef protected
#include <qpdf/QPDFUsage.hh>
#include <qpdf/global_private.hh>
#include <qpdf/qpdfjob-c.h>

namespace
{
    struct Dump
    {
        std::string out;
        void kv(std::string const& k, std::string const& v) { out += k; out += "="; out += hex(v); out += ";"; }
        void b(std::string const& k, bool v) { kv(k, v ? "1" : "0"); }
        template <typename T> void i(std::string const& k, T v) { kv(k, std::to_string(v)); }
    };

    std::string dump_members(QPDFJob& j)
    {
        auto& m = *j.m;
        Dump d;
#define DB(f) d.b(#f, m.f)
#define DI(f) d.i(#f, m.f)
#define DS(f) d.kv(#f, m.f)
        // Doc::Config / Writer::Config
        d.b("d_cfg.password_is_hex_key", m.d_cfg.password_is_hex_key());
        d.b("d_cfg.ignore_xref_streams", m.d_cfg.ignore_xref_streams());
        d.b("d_cfg.suppress_warnings", m.d_cfg.suppress_warnings());
        d.b("d_cfg.surpress_recovery", m.d_cfg.surpress_recovery());
        d.b("d_cfg.check_mode", m.d_cfg.check_mode());
        d.b("w_cfg.linearize", m.w_cfg.linearize());
        d.kv("w_cfg.linearize_pass1", m.w_cfg.linearize_pass1());
        d.i("w_cfg.decode_level", static_cast<int>(m.w_cfg.decode_level()));
        d.b("w_cfg.decode_level_set", m.w_cfg.decode_level_set_);
        d.i("w_cfg.object_streams", static_cast<int>(m.w_cfg.object_streams()));
        d.b("w_cfg.compress_streams", m.w_cfg.compress_streams());
        d.b("w_cfg.compress_streams_set", m.w_cfg.compress_streams_set_);
        d.b("w_cfg.newline_before_endstream", m.w_cfg.newline_before_endstream());
        d.b("w_cfg.recompress_flate", m.w_cfg.recompress_flate());
        d.b("w_cfg.preserve_unreferenced", m.w_cfg.preserve_unreferenced());
        d.b("w_cfg.no_original_object_ids", m.w_cfg.no_original_object_ids());
        d.b("w_cfg.qdf", m.w_cfg.qdf());
        d.b("w_cfg.normalize_content", m.w_cfg.normalize_content());
        d.b("w_cfg.normalize_content_set", m.w_cfg.normalize_content_set_);
        d.b("w_cfg.deterministic_id", m.w_cfg.deterministic_id());
        d.b("w_cfg.static_id", m.w_cfg.static_id());
        d.b("w_cfg.direct_stream_lengths", m.w_cfg.direct_stream_lengths());
        d.b("w_cfg.preserve_encryption", m.w_cfg.preserve_encryption());
        DB(verbose); DS(password); DB(decrypt); DB(remove_restrictions); DI(split_pages); DB(progress);
        DB(warnings_exit_zero); DB(copy_encryption); DB(encrypt); DB(suppress_password_recovery);
        d.i("password_mode", static_cast<int>(m.password_mode));
        DB(allow_insecure); DB(allow_weak_crypto); DS(user_password); DS(owner_password); DI(keylen);
        DB(r2_print); DB(r2_modify); DB(r2_extract); DB(r2_annotate); DB(r3_accessibility); DB(r3_extract);
        DB(r3_assemble); DB(r3_annotate_and_form); DB(r3_form_filling); DB(r3_modify_other);
        d.i("r3_print", static_cast<int>(m.r3_print));
        DB(force_V4); DB(force_R5); DB(cleartext_metadata); DB(use_aes); DI(compression_level); DI(jpeg_quality);
        d.i("remove_unreferenced_page_resources", static_cast<int>(m.remove_unreferenced_page_resources));
        DB(coalesce_contents); DB(flatten_annotations); DI(flatten_annotations_required); DI(flatten_annotations_forbidden);
        DB(generate_appearances); DS(min_version); DS(force_version); DB(show_npages); DB(static_aes_iv);
        DB(show_encryption); DB(show_encryption_key); DB(check_linearization); DB(show_linearization); DB(show_xref);
        DB(show_trailer); DI(show_obj); DI(show_gen); DB(show_raw_stream_data); DB(show_filtered_stream_data);
        DB(show_pages); DB(show_page_images);
        {
            std::string s;
            for (auto c: m.collate) { s += std::to_string(c); s += ","; }
            d.kv("collate", s);
        }
        DB(flatten_rotation); DB(list_attachments); DS(attachment_to_show);
        {
            int n = 0;
            for (auto const& a: m.attachments_to_remove) { d.kv("attachments_to_remove[" + std::to_string(n++) + "]", a); }
            n = 0;
            for (auto const& a: m.attachments_to_add) {
                std::string p = "attachments_to_add[" + std::to_string(n++) + "].";
                d.kv(p + "path", a.path); d.kv(p + "key", a.key); d.kv(p + "filename", a.filename);
                // creationdate/moddate default to "now": reported as "<now>" when they are not what was asked
                d.kv(p + "creationdate", a.creationdate); d.kv(p + "moddate", a.moddate);
                d.kv(p + "mimetype", a.mimetype); d.kv(p + "description", a.description); d.b(p + "replace", a.replace);
            }
            n = 0;
            for (auto const& a: m.attachments_to_copy) {
                std::string p = "attachments_to_copy[" + std::to_string(n++) + "].";
                d.kv(p + "path", a.path); d.kv(p + "password", a.password); d.kv(p + "prefix", a.prefix);
            }
        }
        DI(json_version);
        { std::string s; for (auto const& k: m.json_keys) { s += k; s += ","; } d.kv("json_keys", s); }
        { std::string s; for (auto const& k: m.json_objects) { s += k; s += ","; } d.kv("json_objects", s); }
        d.i("json_stream_data", static_cast<int>(m.json_stream_data));
        DB(json_stream_data_set); DS(json_stream_prefix); DB(test_json_schema); DB(check); DB(optimize_images);
        DB(externalize_inline_images); DB(keep_inline_images); DB(remove_acroform); DB(remove_info); DB(remove_metadata);
        DB(remove_page_labels); DB(remove_structure); DI(oi_min_width); DI(oi_min_height); DI(oi_min_area); DI(ii_min_bytes);
        auto uo = [&d](char const* name, std::vector<QPDFJob::UnderOverlay>& v) {
            int n = 0;
            for (auto& u: v) {
                std::string p = std::string(name) + "[" + std::to_string(n++) + "].";
                d.kv(p + "which", u.which); d.kv(p + "filename", u.filename); d.kv(p + "password", u.password);
                d.kv(p + "to_nr", u.to_nr); d.kv(p + "from_nr", u.from_nr); d.kv(p + "repeat_nr", u.repeat_nr);
            }
        };
        uo("underlay", m.underlay);
        uo("overlay", m.overlay);
        d.b("under_overlay_open", m.under_overlay != nullptr);
        d.kv("inputs.infile_name", m.inputs.infile_name_);
        d.kv("inputs.encryption_file", m.inputs.encryption_file);
        d.kv("inputs.encryption_file_password", m.inputs.encryption_file_password);
        d.b("inputs.keep_files_open", m.inputs.keep_files_open);
        d.b("inputs.keep_files_open_set", m.inputs.keep_files_open_set);
        d.i("inputs.keep_files_open_threshold", m.inputs.keep_files_open_threshold);
        {
            int n = 0;
            for (auto& s: m.inputs.selections) {
                std::string p = "inputs.selections[" + std::to_string(n++) + "].";
                d.kv(p + "filename", s.filename()); d.kv(p + "range", s.range); d.b(p + "password_provided", s.password_provided);
                d.kv(p + "password", s.input().password);
            }
            std::string fs;
            for (auto& f: m.inputs.files) { fs += hex(f.first); fs += ":"; fs += hex(f.second.password); fs += ","; }
            d.kv("inputs.files", fs);
        }
        {
            std::string s;
            for (auto& r: m.rotations) { s += hex(r.first); s += ":"; s += std::to_string(r.second.angle); s += r.second.relative ? "r," : "a,"; }
            d.kv("rotations", s);
        }
        DB(require_outfile); DB(replace_input); DB(check_is_encrypted); DB(check_requires_password); DB(empty_input);
        DS(outfilename); DB(json_input); DB(json_output); DS(update_from_json); DB(report_mem_usage);
        {
            int n = 0;
            for (auto& l: m.page_label_specs) {
                std::string p = "page_label_specs[" + std::to_string(n++) + "].";
                d.i(p + "first_page", l.first_page); d.i(p + "label_type", static_cast<int>(l.label_type));
                d.i(p + "start_num", l.start_num); d.kv(p + "prefix", l.prefix);
            }
        }
        // process-wide limits set by --global / "global"
        namespace g = qpdf::global;
        d.b("global.default_limits", g::Options::default_limits());
        d.i("global.parser_max_nesting", g::Limits::parser_max_nesting());
        d.i("global.parser_max_errors", g::Limits::parser_max_errors());
        d.i("global.parser_max_container_size", g::Limits::parser_max_container_size(false));
        d.i("global.parser_max_container_size_damaged", g::Limits::parser_max_container_size(true));
        d.i("global.max_stream_filters", g::Limits::max_stream_filters());
        return d.out;
    }

    std::string init_and_dump(std::function<void(QPDFJob&)> init)
    {
        QPDFJob j;
        try {
            init(j);
        } catch (QPDFUsage const& e) {
            return "usage " + hex(e.what());
        } catch (std::exception const& e) {
            return "error " + hex(e.what());
        }
        return "ok " + dump_members(j);
    }

    std::string cfg_argv(std::vector<std::string> const& a)
    {
        std::vector<std::string> args;
        args.push_back("qpdf");
        for (auto const& h: a) { args.push_back(unhex(h)); }
        std::vector<char const*> argv;
        for (auto const& s: args) { argv.push_back(s.c_str()); }
        argv.push_back(nullptr);
        return init_and_dump([&argv](QPDFJob& j) { j.initializeFromArgv(argv.data()); });
    }

    std::string cfg_json(std::vector<std::string> const& a)
    {
        std::string json = unhex(a.at(0));
        bool partial = a.size() > 1 && a.at(1) == "partial";
        return init_and_dump([&](QPDFJob& j) { j.initializeFromJson(json, partial); });
    }

    // run fn in a forked child whose stdout is a pipe; the child's single output line is the result
    std::string in_child(std::function<std::string()> fn)
    {
        int fds[2];
        if (pipe(fds) != 0) { return "?pipe"; }
        std::cout.flush();
        pid_t pid = fork();
        if (pid < 0) { return "?fork"; }
        if (pid == 0) {
            close(fds[0]);
            // whatever the library prints in the child (--version / --help print and call exit(0); which stream they go to depends on
            // process-wide logger state left by earlier cases) must not reach the driver's line protocol on stdout
            int nul = open("/dev/null", O_WRONLY);
            if (nul >= 0) { dup2(nul, 1); }
            std::string r;
            try { r = fn(); } catch (std::exception const& e) { r = std::string("!exception ") + e.what(); }
            size_t off = 0;
            while (off < r.size()) {
                ssize_t n = write(fds[1], r.data() + off, r.size() - off);
                if (n <= 0) { break; }
                off += static_cast<size_t>(n);
            }
            _exit(0);
        }
        close(fds[1]);
        std::string r;
        char buf[65536];
        ssize_t n;
        while ((n = read(fds[0], buf, sizeof(buf))) > 0) { r.append(buf, static_cast<size_t>(n)); }
        close(fds[0]);
        int st = 0;
        waitpid(pid, &st, 0);
        if (!WIFEXITED(st) || WEXITSTATUS(st) != 0) { return "?child-died status=" + std::to_string(st) + " " + r; }
        return r;
    }

    // run a whole job through the C API in a child: stdout -> <prefix>.out, stderr -> <prefix>.err; result "rc <n>"
    std::string run_child(std::string const& cwd, std::string const& prefix, std::function<int()> fn)
    {
        std::cout.flush();
        pid_t pid = fork();
        if (pid < 0) { return "?fork"; }
        if (pid == 0) {
            if (chdir(cwd.c_str()) != 0) { _exit(96); }
            int o = open((prefix + ".out").c_str(), O_WRONLY | O_CREAT | O_TRUNC, 0644);
            int e = open((prefix + ".err").c_str(), O_WRONLY | O_CREAT | O_TRUNC, 0644);
            int nul = open("/dev/null", O_RDONLY);
            if (o < 0 || e < 0 || nul < 0) { _exit(97); }
            dup2(nul, 0); dup2(o, 1); dup2(e, 2);
            alarm(60);
            int rc = 98;
            try { rc = fn(); } catch (...) { rc = 99; }
            fflush(stdout); fflush(stderr);
            std::cout.flush(); std::cerr.flush();
            _exit(rc);
        }
        int st = 0;
        waitpid(pid, &st, 0);
        if (WIFSIGNALED(st)) { return "signal " + std::to_string(WTERMSIG(st)); }
        return "rc " + std::to_string(WEXITSTATUS(st));
    }
} // namespace

static Reg r_cfg_argv("cfg_argv", [](std::vector<std::string> const& a) -> std::string { return cfg_argv(a); });
static Reg r_cfg_json("cfg_json", [](std::vector<std::string> const& a) -> std::string { return cfg_json(a); });
// forked variants: needed when the case touches process-wide state (--global)
static Reg r_cfgf_argv("cfgf_argv", [](std::vector<std::string> const& a) -> std::string { return in_child([&a]() { return cfg_argv(a); }); });
static Reg r_cfgf_json("cfgf_json", [](std::vector<std::string> const& a) -> std::string { return in_child([&a]() { return cfg_json(a); }); });

// run_argv <cwd> <prefix> <arg>... ; run_json <cwd> <prefix> <json>   (all hex)
static Reg r_run_argv("run_argv", [](std::vector<std::string> const& a) -> std::string {
    std::string cwd = unhex(a.at(0));
    std::string prefix = unhex(a.at(1));
    std::vector<std::string> args;
    args.push_back("qpdf");
    for (size_t i = 2; i < a.size(); ++i) { args.push_back(unhex(a[i])); }
    return run_child(cwd, prefix, [&args]() {
        std::vector<char const*> argv;
        for (auto const& s: args) { argv.push_back(s.c_str()); }
        argv.push_back(nullptr);
        return qpdfjob_run_from_argv(argv.data());
    });
});

static Reg r_run_json("run_json", [](std::vector<std::string> const& a) -> std::string {
    std::string cwd = unhex(a.at(0));
    std::string prefix = unhex(a.at(1));
    std::string json = unhex(a.at(2));
    return run_child(cwd, prefix, [&json]() { return qpdfjob_run_from_json(json.c_str()); });
});

// ---------------------------------------------------------------------------------------------------------------------
// cfg_replay <end> <call>;<call>;... : the call sequence predicted by the front-end MODEL, applied through the real
// QPDFJob::Config API (the third interface of the manual: the C++ fluent API), then the same dump as cfg_argv/cfg_json.
// call = obj.meth(hexarg,hexarg)   end = fin | front:<kind> | crash | schema | help
namespace
{
    struct Replay
    {
        QPDFJob j;
        std::shared_ptr<QPDFJob::Config> c_main;
        std::shared_ptr<QPDFJob::CopyAttConfig> c_copy_att;
        std::shared_ptr<QPDFJob::AttConfig> c_att;
        std::shared_ptr<QPDFJob::GlobalConfig> c_global;
        std::shared_ptr<QPDFJob::PagesConfig> c_pages;
        std::shared_ptr<QPDFJob::UOConfig> c_uo;
        std::shared_ptr<QPDFJob::EncConfig> c_enc;
    };
    using RFn = std::function<void(Replay&, std::vector<std::string> const&)>;
    template <typename P> P& need(P& p)
    {
        if (!p) { throw std::logic_error("replay: call on a null config object"); }
        return p;
    }
    std::map<std::string, RFn> const& dispatch()
    {
        static std::map<std::string, RFn> t = {
#define D0(obj, meth) {#obj "." #meth "/0", [](Replay& r, std::vector<std::string> const&) { need(r.obj)->meth(); }},
#define D1(obj, meth) {#obj "." #meth "/1", [](Replay& r, std::vector<std::string> const& a) { need(r.obj)->meth(a.at(0)); }},
#include "gen_job_dispatch.inc"
#undef D0
#undef D1
            // calls made by the hand-written handlers of both front ends
            {"c_main.inputFile/1", [](Replay& r, std::vector<std::string> const& a) { r.c_main->inputFile(a.at(0)); }},
            {"c_main.outputFile/1", [](Replay& r, std::vector<std::string> const& a) { r.c_main->outputFile(a.at(0)); }},
            {"c_main.emptyInput/0", [](Replay& r, std::vector<std::string> const&) { r.c_main->emptyInput(); }},
            {"c_main.replaceInput/0", [](Replay& r, std::vector<std::string> const&) { r.c_main->replaceInput(); }},
            {"c_main.encrypt/3", [](Replay& r, std::vector<std::string> const& a) { r.c_enc = r.c_main->encrypt(std::stoi(a.at(0)), a.at(1), a.at(2)); }},
            {"c_enc.endEncrypt/0", [](Replay& r, std::vector<std::string> const&) { need(r.c_enc)->endEncrypt(); r.c_enc = nullptr; }},
            {"c_main.pages/0", [](Replay& r, std::vector<std::string> const&) { r.c_pages = r.c_main->pages(); }},
            {"c_pages.endPages/0", [](Replay& r, std::vector<std::string> const&) { need(r.c_pages)->endPages(); r.c_pages = nullptr; }},
            {"c_main.overlay/0", [](Replay& r, std::vector<std::string> const&) { r.c_uo = r.c_main->overlay(); }},
            {"c_main.underlay/0", [](Replay& r, std::vector<std::string> const&) { r.c_uo = r.c_main->underlay(); }},
            {"c_uo.endUnderlayOverlay/0", [](Replay& r, std::vector<std::string> const&) { need(r.c_uo)->endUnderlayOverlay(); r.c_uo = nullptr; }},
            {"c_main.addAttachment/0", [](Replay& r, std::vector<std::string> const&) { r.c_att = r.c_main->addAttachment(); }},
            {"c_att.file/1", [](Replay& r, std::vector<std::string> const& a) { need(r.c_att)->file(a.at(0)); }},
            {"c_att.endAddAttachment/0", [](Replay& r, std::vector<std::string> const&) { need(r.c_att)->endAddAttachment(); r.c_att = nullptr; }},
            {"c_main.copyAttachmentsFrom/0", [](Replay& r, std::vector<std::string> const&) { r.c_copy_att = r.c_main->copyAttachmentsFrom(); }},
            {"c_copy_att.file/1", [](Replay& r, std::vector<std::string> const& a) { need(r.c_copy_att)->file(a.at(0)); }},
            {"c_copy_att.endCopyAttachmentsFrom/0", [](Replay& r, std::vector<std::string> const&) { need(r.c_copy_att)->endCopyAttachmentsFrom(); r.c_copy_att = nullptr; }},
            {"c_main.global/0", [](Replay& r, std::vector<std::string> const&) { r.c_global = r.c_main->global(); }},
            {"c_global.endGlobal/0", [](Replay& r, std::vector<std::string> const&) { need(r.c_global)->endGlobal(); r.c_global = nullptr; }},
            {"c_main.checkConfiguration/0", [](Replay& r, std::vector<std::string> const&) { r.c_main->checkConfiguration(); }},
        };
        return t;
    }

    std::string cfg_replay(std::vector<std::string> const& a)
    {
        std::string end = a.at(0);
        std::string calls = a.size() > 1 ? a.at(1) : "-";
        Replay r;
        r.c_main = r.j.config();
        try {
            if (calls != "-") {
                std::stringstream ss(calls);
                std::string c;
                while (std::getline(ss, c, ';')) {
                    auto lp = c.find('(');
                    if (lp == std::string::npos || c.back() != ')') { return "?bad-call " + c; }
                    std::string name = c.substr(0, lp);
                    std::string argstr = c.substr(lp + 1, c.size() - lp - 2);
                    std::vector<std::string> args;
                    if (!argstr.empty()) {
                        std::stringstream as(argstr);
                        std::string x;
                        while (std::getline(as, x, ',')) { args.push_back(unhex(x)); }
                    }
                    if (name == "c_main.setPageLabels") {
                        r.c_main->setPageLabels(args);
                        continue;
                    }
                    auto it = dispatch().find(name + "/" + std::to_string(args.size()));
                    if (it == dispatch().end()) { return "?unknown-config-method " + name + "/" + std::to_string(args.size()); }
                    it->second(r, args);
                }
            }
        } catch (QPDFUsage const& e) {
            return "usage " + hex(e.what());
        } catch (std::logic_error const& e) {
            return std::string("?logic_error ") + e.what();
        } catch (std::exception const& e) {
            return "error " + hex(e.what());
        }
        if (end != "fin") { return "end " + end; }
        return "ok " + dump_members(r.j);
    }
} // namespace

static Reg r_cfg_replay("cfg_replay", [](std::vector<std::string> const& a) -> std::string { return cfg_replay(a); });
static Reg r_cfgf_replay("cfgf_replay", [](std::vector<std::string> const& a) -> std::string { return in_child([&a]() { return cfg_replay(a); }); });
