(* non-vacuity: concrete non-trivial instances of the hypotheses *)
Example numrange_example :
  nr_ok (parse_numrange [49;45;51;44;120;50;44;122;44;114;50;45;53;58;101;118;101;110]%N 10)
  = Some [3;9;7;5]%Z.
Proof. vm_compute. reflexivity. Qed.
Example collate_example : collate [[1;2;3;4;5];[10;20];[100;200;300]]%Z [2;1;1]%nat
  = [1;2;10;100;3;4;20;200;5;300]%Z.
Proof. vm_compute. reflexivity. Qed.
Example rotate_negative_example : rotate_angle (-720) (-270) true = Some (-270)%Z.
Proof. vm_compute. reflexivity. Qed.

(* page-tree examples: a three-level tree; the root carries a direct /MediaBox, a direct /Resources dictionary and
   /Rotate 90, the inner node a /CropBox; page 6 overrides /MediaBox and has an explicit /Rotate 0; page 7 uses the
   shared object 8 as /Resources. *)
Definition pa_ex_dict (c m r o : option pa_val) (oth : list N) : pa_dict := PaDict (PaQuad c m r o) oth.
Definition pa_ex_tree : pa_tree :=
  PaNode 3 None (Some 3%Z)
    (pa_ex_dict None (Some (PaD (PaoOther 1 500))) (Some (PaD (PaoOther 2 7))) (Some (PaD (PaoInt 90))) [])
    [PaNode 4 (Some 3%N) (Some 2%Z) (pa_ex_dict (Some (PaD (PaoOther 1 300))) None None None [5%N])
       [PaPage 5 (Some 4%N) (pa_ex_dict None None None None []);
        PaPage 6 (Some 4%N) (pa_ex_dict None (Some (PaD (PaoOther 1 200))) None (Some (PaD (PaoInt 0))) [5%N])];
     PaPage 7 (Some 3%N) (pa_ex_dict None None (Some (PaI 8)) None [])].
Definition pa_ex_doc : pa_doc := PaDoc pa_ex_tree [(8%N, PaoOther 2 9)] 9 false false [] [].

Example pa_ex_fresh : pa_doc_fresh pa_ex_doc.
Proof. unfold pa_doc_fresh, pa_tree_lt. cbn. repeat constructor; intros k v; destruct k; cbn; intros H; inversion H; subst; cbn; try exact I; reflexivity. Qed.

(* the specification's effective attributes: page 5 inherits everything, page 6 keeps its own box and its explicit 0 *)
Example pa_ex_eff : pas_doc_eff (pa_st pa_ex_doc) pa_ex_tree =
  [(5%N, PaQuad (PaoOther 1 300) (PaoOther 1 500) (PaoOther 2 7) (PaoInt 90));
   (6%N, PaQuad (PaoOther 1 300) (PaoOther 1 200) (PaoOther 2 7) (PaoInt 0));
   (7%N, PaQuad PaoNull (PaoOther 1 500) (PaoOther 2 9) (PaoInt 90))].
Proof. vm_compute. reflexivity. Qed.

(* flattening: three kids of the root, /Parent 3, the direct boxes/dictionary became the shared objects 9, 10, 11 *)
Example pa_ex_flatten : pa_root (fst (pa_flatten pa_ex_doc)) =
  PaNode 3 None (Some 3%Z) (pa_ex_dict None None None None [])
    [PaPage 5 (Some 3%N) (pa_ex_dict (Some (PaI 11)) (Some (PaI 9)) (Some (PaI 10)) (Some (PaD (PaoInt 90))) []);
     PaPage 6 (Some 3%N) (pa_ex_dict (Some (PaI 11)) (Some (PaD (PaoOther 1 200))) (Some (PaI 10)) (Some (PaD (PaoInt 0))) [5%N]);
     PaPage 7 (Some 3%N) (pa_ex_dict None (Some (PaI 9)) (Some (PaI 8)) (Some (PaD (PaoInt 90))) [])]
  /\ snd (pa_flatten pa_ex_doc) = None.
Proof. vm_compute. split; reflexivity. Qed.

(* relative rotation of a page whose /Rotate is inherited from two levels up, and of one with an explicit 0 *)
Example pa_ex_rotate :
  map (fun x => pas_rotation (snd x)) (pas_doc_eff (pa_st pa_ex_doc) (pa_rotate_tree (pa_st pa_ex_doc) 5 90 true [] pa_ex_tree))
    = [Some 180%Z; Some 0%Z; Some 90%Z]
  /\ map (fun x => pas_rotation (snd x)) (pas_doc_eff (pa_st pa_ex_doc) (pa_rotate_tree (pa_st pa_ex_doc) 6 (-90) true [] pa_ex_tree))
    = [Some 90%Z; Some 270%Z; Some 90%Z].
Proof. vm_compute. split; reflexivity. Qed.

(* resource pruning: page 10 uses font 4 and paints form 21 (object 11, no /Resources, uses font 1); form 22 (object 12) has its
   own resources and paints 31 (object 14, no /Resources, uses font 2) but not 32: fonts 1, 2, 4 stay, 3 goes *)
Definition rpn_ex_page : rpn_node :=
  RpnNode 10 false false [(4, 0); (21, 1); (22, 1)]%N true [(1, 3); (2, 3); (3, 3); (4, 3)]%N
    [(21%N, RpnNode 11 true false [(1, 0)]%N false [] []);
     (22%N, RpnNode 12 true false [(5, 0); (31, 1)]%N true [(5, 3); (6, 3)]%N
              [(31%N, RpnNode 14 true false [(2, 0)]%N false [] []);
               (32%N, RpnNode 15 true false [(3, 0)]%N false [] [])])].
Example rpn_ex_run : map fst (rpn_fonts (rpn_run rpn_ex_page)) = [1; 2; 4]%N
  /\ map fst (rpn_xobjs (rpn_run rpn_ex_page)) = [21; 22]%N /\ rpns_needed rpn_ex_page = [4; 21; 22; 1; 2]%N.
Proof. vm_compute. repeat split; reflexivity. Qed.

(* page labels: the tree of 11-pages-with-labels.pdf (pre-1.., iv.., p..) and the selection 11-1 reversed to three pages *)
Definition plb_ex_tree : plb_tree :=
  [(0, PlbLab None (Some 1%N) PlbStNone); (4, PlbLab (Some 3%N) None (PlbStInt 4)); (8, PlbLab (Some 5%N) None (PlbStInt 16))]%Z.
Example plb_ex_handle : plb_handle [Some plb_ex_tree; None] [(0%nat, 10); (0%nat, 9); (0%nat, 4); (0%nat, 5); (1%nat, 0); (1%nat, 1)]%Z =
  [(0, PlbLab (Some 5%N) None (PlbStInt 18)); (1, PlbLab (Some 5%N) None (PlbStInt 17)); (2, PlbLab (Some 3%N) None (PlbStInt 4));
   (4, PlbLab None None (PlbStInt 5))]%Z.
Proof. vm_compute. reflexivity. Qed.
