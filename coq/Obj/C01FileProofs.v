(* Towards write_read_iso: the strict reader's indirect-object parser, applied to the plain writer
   model's output at a recorded offset, returns exactly the object that was written there (non-stream
   objects; concrete printers). Statements are fixed. *)
From QV Require Import Base.Bytes File.StrictSyntax File.ReadStrict Obj.Queue Obj.C01QueueProofs Obj.WriterModel
  Obj.WmPrinters Obj.C01WriterProofs Obj.C01RoundtripProofs.
From QV Require Import File.WriterArith File.C02Proofs.
From Coq Require Import Lia.
Local Open Scope N_scope.

Definition wf_doc_objs (d : doc) : Prop :=
  Forall (fun kv => wf_wobj (i_val (snd kv))) (d_objects d).

(* the renumbering used by write_doc *)
Definition doc_ren (d : doc) (x : N) : N :=
  match renumber (graph_of d) (roots_of d) x with Some n => n | None => 0 end.

(* ---------- a structural induction principle for the nested type obj ---------- *)
Section ObjInd.
  Variable Pp : obj -> Prop.
  Hypothesis H_null : Pp ONull.
  Hypothesis H_bool : forall b, Pp (OBool b).
  Hypothesis H_int : forall z, Pp (OInt z).
  Hypothesis H_real : forall s, Pp (OReal s).
  Hypothesis H_str : forall s, Pp (OStr s).
  Hypothesis H_name : forall n, Pp (OName n).
  Hypothesis H_ref : forall id, Pp (ORef id).
  Hypothesis H_arr : forall l, Forall Pp l -> Pp (OArr l).
  Hypothesis H_dict : forall d, Forall (fun kv => Pp (snd kv)) d -> Pp (ODict d).
  Fixpoint obj_ind' (o : obj) : Pp o :=
    match o with
    | ONull => H_null
    | OBool b => H_bool b
    | OInt z => H_int z
    | OReal s => H_real s
    | OStr s => H_str s
    | OName n => H_name n
    | ORef id => H_ref id
    | OArr l => H_arr l ((fix go (l : list obj) : Forall Pp l :=
                            match l with
                            | [] => Forall_nil _
                            | x :: t => Forall_cons x (obj_ind' x) (go t)
                            end) l)
    | ODict d => H_dict d ((fix go (l : list (list N * obj)) : Forall (fun kv => Pp (snd kv)) l :=
                              match l with
                              | [] => Forall_nil _
                              | kv :: t => Forall_cons kv (obj_ind' (snd kv)) (go t)
                              end) d)
    end.
End ObjInd.

(* ---------- printing and reading depend on the renumbering only at the printed references ---------- *)
Lemma ren_ext : forall us un objs r1 r2 o,
  (forall x, In x (refs_of objs o) -> r1 x = r2 x) ->
  unparse us un objs r1 o = unparse us un objs r2 o /\ to_pobj objs r1 o = to_pobj objs r2 o.
Proof.
  intros us un objs r1 r2 o. induction o as [|b|z|s|s|n|id|l IHl|d IHd] using obj_ind'; intros Href;
    try (split; reflexivity).
  - cbn [unparse to_pobj]. rewrite (Href id) by (left; reflexivity). split; reflexivity.
  - assert (H : flat_map (fun x => sp ++ unparse us un objs r1 x) l = flat_map (fun x => sp ++ unparse us un objs r2 x) l
                /\ map (to_pobj objs r1) l = map (to_pobj objs r2) l).
    { change (refs_of objs (OArr l)) with (flat_map (refs_of objs) l) in Href.
      induction l as [|x t IHt]; [split; reflexivity|].
      inversion IHl as [|? ? Hx Ht]; subst.
      destruct Hx as [Hx1 Hx2].
      { intros y Hy. apply Href. cbn [flat_map]. apply in_or_app. left. exact Hy. }
      destruct (IHt Ht) as [Ht1 Ht2].
      { intros y Hy. apply Href. cbn [flat_map]. apply in_or_app. right. exact Hy. }
      cbn [flat_map map]. rewrite Hx1, Hx2, Ht1, Ht2. split; reflexivity. }
    destruct H as [H1 H2].
    change (unparse us un objs r1 (OArr l)) with ([91] ++ flat_map (fun x => sp ++ unparse us un objs r1 x) l ++ [32; 93]).
    change (unparse us un objs r2 (OArr l)) with ([91] ++ flat_map (fun x => sp ++ unparse us un objs r2 x) l ++ [32; 93]).
    change (to_pobj objs r1 (OArr l)) with (SpArr (map (to_pobj objs r1) l)).
    change (to_pobj objs r2 (OArr l)) with (SpArr (map (to_pobj objs r2) l)).
    rewrite H1, H2. split; reflexivity.
  - set (g1 := fun kv : list N * obj => if is_null_val objs (snd kv) then [] else sp ++ un (fst kv) ++ sp ++ unparse us un objs r1 (snd kv)).
    set (g2 := fun kv : list N * obj => if is_null_val objs (snd kv) then [] else sp ++ un (fst kv) ++ sp ++ unparse us un objs r2 (snd kv)).
    assert (H : flat_map g1 d = flat_map g2 d /\ pdict objs r1 d = pdict objs r2 d).
    { change (refs_of objs (ODict d))
        with (flat_map (fun kv => if is_null_val objs (snd kv) then [] else refs_of objs (snd kv)) d) in Href.
      induction d as [|kv t IHt]; [split; reflexivity|].
      inversion IHd as [|? ? Hx Ht]; subst.
      destruct (IHt Ht) as [Ht1 Ht2].
      { intros y Hy. apply Href. cbn [flat_map]. apply in_or_app. right. exact Hy. }
      cbn [flat_map pdict]. unfold g1 at 1, g2 at 1.
      destruct (is_null_val objs (snd kv)) eqn:E.
      - rewrite Ht1, Ht2. split; reflexivity.
      - destruct Hx as [Hx1 Hx2].
        { intros y Hy. apply Href. cbn [flat_map]. rewrite E. apply in_or_app. left. exact Hy. }
        rewrite Hx1, Hx2, Ht1, Ht2. split; reflexivity. }
    destruct H as [H1 H2].
    change (unparse us un objs r1 (ODict d)) with ([60; 60] ++ flat_map g1 d ++ [32; 62; 62]).
    change (unparse us un objs r2 (ODict d)) with ([60; 60] ++ flat_map g2 d ++ [32; 62; 62]).
    change (to_pobj objs r1 (ODict d)) with (SpDict (pdict objs r1 d)).
    change (to_pobj objs r2 (ODict d)) with (SpDict (pdict objs r2 d)).
    rewrite H1, H2. split; reflexivity.
Qed.

(* ---------- the reference graph at a non-stream object ---------- *)
Lemma find_obj_in : forall l id i, find_obj l id = Some i -> exists k, In (k, i) l.
Proof.
  induction l as [|[k v] t IH]; intros id i H; [discriminate H|].
  cbn [find_obj] in H. destruct (k =? id).
  - injection H as <-. exists k. left. reflexivity.
  - destruct (IH _ _ H) as [k' Hk]. exists k'. right. exact Hk.
Qed.

Lemma children_map : forall (F : N * indirect -> list N) l id i,
  find_obj l id = Some i ->
  children (map (fun kv => (fst kv, F kv)) l) id = F (id, i) \/
  exists k, In (k, i) l /\ k = id /\ children (map (fun kv => (fst kv, F kv)) l) id = F (k, i).
Proof.
  induction l as [|[k v] t IH]; intros id i H; [discriminate H|].
  cbn [find_obj] in H. cbn [map children fst]. destruct (k =? id) eqn:E.
  - injection H as <-. apply N.eqb_eq in E. subst k. left. reflexivity.
  - destruct (IH _ _ H) as [Hc | [k' [H1 [H2 H3]]]].
    + left. exact Hc.
    + right. exists k'. repeat split; [right; exact H1 | exact H2 | exact H3].
Qed.

Lemma children_graph_of : forall d id i, find_obj (d_objects d) id = Some i -> i_stream i = None ->
  children (graph_of d) id = refs_of (d_objects d) (i_val i).
Proof.
  intros d id i Hf Hs. unfold graph_of.
  destruct (children_map (fun kv => refs_of (d_objects d)
              (match i_stream (snd kv) with Some _ => drop_length (i_val (snd kv)) | None => i_val (snd kv) end))
              (d_objects d) id i Hf) as [H | [k [_ [_ H]]]];
    rewrite H; cbn [snd]; rewrite Hs; reflexivity.
Qed.

(* written objects get positive numbers *)
Lemma written_ren_pos : forall d x, doc_closed d ->
  In x (written (graph_of d) (roots_of d)) -> 0 < doc_ren d x.
Proof.
  intros d x Hc Hin. pose proof (renumber_order_lemma _ _ Hc) as Ho.
  assert (H : In (renumber (graph_of d) (roots_of d) x)
                 (map (renumber (graph_of d) (roots_of d)) (written (graph_of d) (roots_of d))))
    by (apply in_map; exact Hin).
  rewrite Ho in H. apply in_map_iff in H. destruct H as [n [Hn Hs]].
  apply in_seq in Hs. unfold doc_ren. rewrite <- Hn. lia.
Qed.

Lemma refs_ren_pos : forall d id i y, doc_closed d ->
  In id (written (graph_of d) (roots_of d)) -> find_obj (d_objects d) id = Some i -> i_stream i = None ->
  In y (refs_of (d_objects d) (i_val i)) -> 0 < doc_ren d y.
Proof.
  intros d id i y Hc Hin Hf Hs Hy. apply written_ren_pos; [exact Hc|].
  destruct (queue_complete_lemma _ _ Hc) as [_ Hq]. apply Hq.
  apply (reach_step _ _ id); [apply Hq; exact Hin|].
  rewrite (children_graph_of d id i Hf Hs). exact Hy.
Qed.

(* ---------- the output at a recorded offset ---------- *)
Lemma offs_of_at : forall us un objs ren ids pos pre rest id,
  N.to_nat pos = length pre -> In id ids ->
  exists off tail,
    In (ren id, off) (offs_of us un objs ren ids pos) /\
    skipn (N.to_nat off) (pre ++ concat (map (chunk_of us un objs ren) ids) ++ rest)
    = chunk_of us un objs ren id ++ tail.
Proof.
  intros us un objs ren. induction ids as [|a tl IH]; intros pos pre rest id Hpos Hin; [destruct Hin|].
  destruct Hin as [Heq | Hin].
  - subst a. exists pos. eexists. split; [left; reflexivity|].
    rewrite Hpos, skipn_app, skipn_all, Nat.sub_diag. cbn [app skipn map concat].
    rewrite <- app_assoc. reflexivity.
  - specialize (IH (pos + N.of_nat (length (chunk_of us un objs ren a))) (pre ++ chunk_of us un objs ren a) rest id).
    destruct IH as [off [tail [H1 H2]]]; [|exact Hin|].
    + rewrite app_length, N2Nat.inj_add, Nat2N.id. lia.
    + exists off, tail. split; [right; exact H1|].
      cbn [map concat]. rewrite <- !app_assoc in *. exact H2.
Qed.

Lemma write_doc_shape : forall us un d, exists tl,
  write_doc us un d = header (d_version d)
    ++ concat (map (chunk_of us un (d_objects d) (doc_ren d)) (written (graph_of d) (roots_of d))) ++ tl.
Proof.
  intros us un d. unfold write_doc. rewrite emit_bodies_eq. rewrite !rev'_rev.
  rewrite !app_nil_r, !rev_involutive. eexists. reflexivity.
Qed.

(* ---------- the indirect-object parser on an emitted non-stream object ---------- *)
Lemma next_tok_obj : forall X, next_tok (32 :: 111 :: 98 :: 106 :: 10 :: X) = Some (StKw k_obj, 10 :: X).
Proof. reflexivity. Qed.
Lemma next_tok_endobj : forall X,
  next_tok (10 :: 101 :: 110 :: 100 :: 111 :: 98 :: 106 :: 10 :: X) = Some (StKw k_endobj, 10 :: X).
Proof. reflexivity. Qed.
Lemma parse_obj_nl : forall fuel s, parse_obj fuel (10 :: s) = parse_obj fuel s.
Proof.
  intros [|f] s; [reflexivity|]. rewrite !parse_obj_S.
  change (next_tok (10 :: s)) with (next_tok s). reflexivity.
Qed.

Lemma dec_of_N_head : forall k, exists c t, dec_of_N k = c :: t /\ is_digit c = true.
Proof.
  intros k. destruct (dec_of_N_value_lemma k) as [_ [Hd Hl]].
  destruct (dec_of_N k) as [|c t]; [cbn in Hl; lia|].
  exists c, t. split; [reflexivity|]. cbn [all_digits] in Hd. apply andb_true_iff in Hd. tauto.
Qed.

Lemma parse_indirect_emitted : forall fuel total file off k objs ren v tail,
  at_off file off = obj_header k ++ unparse wm_unparse_string wm_unparse_name objs ren v ++ s_endobj ++ tail ->
  wf_wobj v -> (forall id, 0 < ren id) ->
  (length (unparse wm_unparse_string wm_unparse_name objs ren v) < fuel)%nat ->
  parse_indirect fuel total file off (fun _ => None)
  = inl (Some {| so_num := k; so_gen := 0; so_where := XInUse off 0;
                 so_val := to_pobj objs ren v; so_stream := None; so_end := offset_of total tail |}).
Proof.
  intros fuel total file off k objs ren v tail Hat Hwf Hren Hfuel.
  set (U := unparse wm_unparse_string wm_unparse_name objs ren v) in *.
  set (E := 10 :: 101 :: 110 :: 100 :: 111 :: 98 :: 106 :: 10 :: tail).
  assert (Hs : at_off file off = dec_of_N k ++ 32 :: 48 :: 32 :: 111 :: 98 :: 106 :: 10 :: U ++ E).
  { rewrite Hat. unfold obj_header, s_endobj. rewrite <- app_assoc. reflexivity. }
  assert (Hnt : next_tok (at_off file off) = Some (StInt (Z.of_N k), 32 :: 48 :: 32 :: 111 :: 98 :: 106 :: 10 :: U ++ E)).
  { rewrite Hs. apply next_tok_dec_of_N. left. reflexivity. }
  destruct (dec_of_N_head k) as [c [t [Hk Hc]]].
  assert (Hhd : at_off file off = c :: t ++ 32 :: 48 :: 32 :: 111 :: 98 :: 106 :: 10 :: U ++ E).
  { rewrite Hs, Hk. reflexivity. }
  unfold parse_indirect. cbv zeta.
  rewrite Hhd at 1. cbv iota beta. rewrite Hc. cbn [negb].
  rewrite Hnt, next_tok_sp0, next_tok_obj.
  change (negb (beq k_obj k_obj)) with false. cbv iota.
  rewrite parse_obj_nl. unfold U.
  rewrite (unparse_parses_wm_lemma objs ren v E fuel Hwf Hren).
  - unfold E at 1. rewrite next_tok_endobj.
    change (beq k_endobj k_endobj) with true. cbv iota.
    change (eol (10 :: tail)) with (Some tail). cbv iota.
    rewrite N2Z.id. reflexivity.
  - left. reflexivity.
  - intros z _. apply (no_ref_follow_endobj tail).
  - exact Hfuel.
Qed.
(* For every written non-stream object: parsing an indirect object at its recorded offset in the output
   yields its new number, generation 0, and the value that was written (references renumbered, null
   entries dropped), and the parse ends where the next thing starts. *)
Lemma emitted_object_parses_lemma : forall d id i fuel,
  doc_closed d -> wf_doc_objs d ->
  In id (written (graph_of d) (roots_of d)) -> find_obj (d_objects d) id = Some i -> i_stream i = None ->
  let out := write_doc wm_unparse_string wm_unparse_name d in
  (length out < fuel)%nat ->
  exists off e,
    In (doc_ren d id, off) (body_offsets wm_unparse_string wm_unparse_name d) /\
    parse_indirect fuel (N.of_nat (length out)) out off (fun _ => None)
    = inl (Some {| so_num := doc_ren d id; so_gen := 0; so_where := XInUse off 0;
                   so_val := to_pobj (d_objects d) (doc_ren d) (i_val i); so_stream := None; so_end := e |})
    /\ off < e.
Proof.
  intros d id i fuel Hc Hwf Hin Hf Hs out Hfuel.
  destruct (write_doc_shape wm_unparse_string wm_unparse_name d) as [tl Hshape].
  destruct (offs_of_at wm_unparse_string wm_unparse_name (d_objects d) (doc_ren d)
              (written (graph_of d) (roots_of d)) (N.of_nat (length (header (d_version d))))
              (header (d_version d)) tl id (Nat2N.id _) Hin) as [off [tail [Hoff Hskip]]].
  rewrite <- Hshape in Hskip. fold out in Hskip.
  set (ren' := fun x => if doc_ren d x =? 0 then 1 else doc_ren d x).
  assert (Hext : forall x, In x (refs_of (d_objects d) (i_val i)) -> doc_ren d x = ren' x).
  { intros x Hx. pose proof (refs_ren_pos d id i x Hc Hin Hf Hs Hx) as Hp.
    unfold ren'. destruct (doc_ren d x =? 0) eqn:E; [apply N.eqb_eq in E; lia | reflexivity]. }
  destruct (ren_ext wm_unparse_string wm_unparse_name (d_objects d) (doc_ren d) ren' (i_val i) Hext) as [HU HP].
  assert (Hchunk : chunk_of wm_unparse_string wm_unparse_name (d_objects d) (doc_ren d) id
                   = obj_header (doc_ren d id)
                     ++ unparse wm_unparse_string wm_unparse_name (d_objects d) ren' (i_val i) ++ s_endobj).
  { unfold chunk_of. rewrite Hf. unfold emit_object. rewrite Hs, HU. reflexivity. }
  assert (Hlen : (length out - N.to_nat off
                  = length (chunk_of wm_unparse_string wm_unparse_name (d_objects d) (doc_ren d) id) + length tail)%nat).
  { rewrite <- skipn_length, Hskip, app_length. reflexivity. }
  pose proof (chunk_of_length_pos wm_unparse_string wm_unparse_name (d_objects d) (doc_ren d) id) as Hpos.
  exists off, (offset_of (N.of_nat (length out)) tail).
  split; [rewrite body_offsets_eq; exact Hoff|].
  split.
  - rewrite HP. apply parse_indirect_emitted.
    + unfold at_off. rewrite Hskip, Hchunk, <- !app_assoc. reflexivity.
    + destruct (find_obj_in _ _ _ Hf) as [k Hk]. unfold wf_doc_objs in Hwf.
      rewrite Forall_forall in Hwf. apply (Hwf (k, i) Hk).
    + intros x. unfold ren'. destruct (doc_ren d x =? 0) eqn:E; [lia | apply N.eqb_neq in E; lia].
    + rewrite Hchunk, !app_length in Hlen. lia.
  - unfold offset_of. lia.
Qed.

(* ------------------------------------------------------------------------------------------------
   Further steps towards write_read_iso (statements fixed; same rules). *)

(* ---------- stream objects ---------- *)
Lemma skipn_add : forall (A : Type) (a b : nat) (l : list A), skipn (a + b) l = skipn b (skipn a l).
Proof.
  induction a as [|a IH]; intros b l; [reflexivity|].
  destruct l as [|x l]; [cbn [Nat.add skipn]; rewrite skipn_nil; reflexivity|].
  cbn [Nat.add skipn]. apply IH.
Qed.

Lemma children_graph_of_stream : forall d id i data, find_obj (d_objects d) id = Some i -> i_stream i = Some data ->
  children (graph_of d) id = refs_of (d_objects d) (drop_length (i_val i)).
Proof.
  intros d id i data Hf Hs. unfold graph_of.
  destruct (children_map (fun kv => refs_of (d_objects d)
              (match i_stream (snd kv) with Some _ => drop_length (i_val (snd kv)) | None => i_val (snd kv) end))
              (d_objects d) id i Hf) as [H | [k [_ [_ H]]]];
    rewrite H; cbn [snd]; rewrite Hs; reflexivity.
Qed.

Definition len_entry (len : N) : list N * obj := (k_Length, OInt (Z.of_N len)).

Lemma dec_of_Z_of_N : forall n, dec_of_Z (Z.of_N n) = dec_of_N n.
Proof. intros [|p]; reflexivity. Qed.

(* the stream dictionary is the printed form of the dictionary without /Length, with /Length len appended *)
Lemma unparse_stream_dict_eq : forall us un objs ren dd len,
  unparse_stream_dict us un objs ren (ODict dd) len
  = unparse us un objs ren (ODict (filter (fun kv => negb (beqb (fst kv) k_Length)) dd ++ [len_entry len])).
Proof.
  intros us un objs ren dd len. unfold unparse_stream_dict. cbn [drop_length].
  set (d' := filter (fun kv => negb (beqb (fst kv) k_Length)) dd).
  set (g := fun kv : list N * obj => if is_null_val objs (snd kv) then [] else sp ++ un (fst kv) ++ sp ++ unparse us un objs ren (snd kv)).
  change (unparse us un objs ren (ODict (d' ++ [len_entry len])))
    with ([60; 60] ++ flat_map g (d' ++ [len_entry len]) ++ [32; 62; 62]).
  rewrite flat_map_app. cbn [flat_map]. unfold g at 3. unfold len_entry. cbn [snd fst is_null_val unparse].
  rewrite dec_of_Z_of_N, app_nil_r, <- !app_assoc. reflexivity.
Qed.

Lemma refs_of_dict_app : forall objs a b,
  refs_of objs (ODict (a ++ b)) = refs_of objs (ODict a) ++ refs_of objs (ODict b).
Proof. intros objs a b. cbn [refs_of]. apply flat_map_app. Qed.

Lemma pdict_app : forall objs ren a b, pdict objs ren (a ++ b) = pdict objs ren a ++ pdict objs ren b.
Proof.
  intros objs ren a b. induction a as [|kv t IH]; [reflexivity|].
  cbn [app pdict]. destruct (is_null_val objs (snd kv)); rewrite IH; reflexivity.
Qed.

Lemma dict_get_length : forall objs ren d' len,
  Forall (fun kv : list N * obj => negb (beqb (fst kv) k_Length) = true) d' ->
  dict_get (pdict objs ren (d' ++ [len_entry len])) n_Length = Some (SpInt (Z.of_N len)).
Proof.
  intros objs ren d' len Hd. induction d' as [|kv t IH].
  - reflexivity.
  - inversion Hd as [|? ? H1 H2]; subst. cbn [app pdict].
    destruct (is_null_val objs (snd kv)); [apply IH; exact H2|].
    cbn [dict_get]. 
    replace (beq n_Length (fst kv)) with false; [apply IH; exact H2|].
    symmetry. apply negb_true_iff in H1. unfold beq, beqb in *.
    destruct (list_eqb N.eqb n_Length (fst kv)) eqn:E; [|reflexivity].
    apply list_eqb_N_eq in E. rewrite <- E in H1. discriminate H1.
Qed.

Lemma filter_Forall : forall (A : Type) (f : A -> bool) l, Forall (fun x => f x = true) (filter f l).
Proof. intros A f l. apply Forall_forall. intros x Hx. apply filter_In in Hx. tauto. Qed.

Lemma next_tok_stream : forall X,
  next_tok (10 :: 115 :: 116 :: 114 :: 101 :: 97 :: 109 :: 10 :: X) = Some (StKw k_stream, 10 :: X).
Proof. reflexivity. Qed.

Definition s_stream_kw : list N := [10; 115; 116; 114; 101; 97; 109; 10].
Definition s_endstream_kw : list N := [101; 110; 100; 115; 116; 114; 101; 97; 109].

Lemma parse_indirect_emitted_stream : forall fuel total file off k objs ren o' dct data tail,
  at_off file off = obj_header k ++ unparse wm_unparse_string wm_unparse_name objs ren o'
                    ++ s_stream_kw ++ data ++ s_endstream_kw ++ s_endobj ++ tail ->
  wf_wobj o' -> (forall id, 0 < ren id) -> (forall z, o' <> OInt z) ->
  (length (unparse wm_unparse_string wm_unparse_name objs ren o') < fuel)%nat ->
  to_pobj objs ren o' = SpDict dct ->
  dict_get dct n_Length = Some (SpInt (Z.of_N (N.of_nat (length data)))) ->
  parse_indirect fuel total file off (fun _ => None)
  = inl (Some {| so_num := k; so_gen := 0; so_where := XInUse off 0;
                 so_val := SpDict dct;
                 so_stream := Some (offset_of total (data ++ s_endstream_kw ++ s_endobj ++ tail), N.of_nat (length data));
                 so_end := offset_of total tail |}).
Proof.
  intros fuel total file off k objs ren o' dct data tail Hat Hwf Hren Hni Hfuel Hv Hlen.
  set (U := unparse wm_unparse_string wm_unparse_name objs ren o') in *.
  set (D := data ++ s_endstream_kw ++ s_endobj ++ tail).
  set (E := 10 :: 115 :: 116 :: 114 :: 101 :: 97 :: 109 :: 10 :: D).
  assert (Hs : at_off file off = dec_of_N k ++ 32 :: 48 :: 32 :: 111 :: 98 :: 106 :: 10 :: U ++ E).
  { rewrite Hat. unfold obj_header, s_stream_kw. rewrite <- app_assoc. reflexivity. }
  assert (Hnt : next_tok (at_off file off) = Some (StInt (Z.of_N k), 32 :: 48 :: 32 :: 111 :: 98 :: 106 :: 10 :: U ++ E)).
  { rewrite Hs. apply next_tok_dec_of_N. left. reflexivity. }
  destruct (dec_of_N_head k) as [c [t [Hk Hc]]].
  assert (Hhd : at_off file off = c :: t ++ 32 :: 48 :: 32 :: 111 :: 98 :: 106 :: 10 :: U ++ E).
  { rewrite Hs, Hk. reflexivity. }
  unfold parse_indirect. cbv zeta.
  rewrite Hhd at 1. cbv iota beta. rewrite Hc. cbn [negb].
  rewrite Hnt, next_tok_sp0, next_tok_obj.
  change (negb (beq k_obj k_obj)) with false. cbv iota.
  rewrite parse_obj_nl. unfold U.
  rewrite (unparse_parses_wm_lemma objs ren o' E fuel Hwf Hren).
  - unfold E at 1. rewrite next_tok_stream.
    change (beq k_stream k_endobj) with false. change (beq k_stream k_stream) with true. cbv iota.
    rewrite Hv. cbv iota. rewrite Hlen.
    replace (0 <=? Z.of_N (N.of_nat (length data)))%Z with true by (symmetry; apply Z.leb_le; lia).
    cbv iota. rewrite N2Z.id, Nat2N.id.
    replace (N.of_nat (length D) <? N.of_nat (length data)) with false
      by (symmetry; apply N.ltb_ge; unfold D; rewrite app_length; lia).
    cbv iota.
    assert (Hsk : skipn (length data) D = s_endstream_kw ++ s_endobj ++ tail).
    { unfold D. rewrite skipn_app, skipn_all, Nat.sub_diag. reflexivity. }
    rewrite Hsk.
    change (eol (s_endstream_kw ++ s_endobj ++ tail)) with (@None (list N)). cbv iota.
    change (expect k_endstream (s_endstream_kw ++ s_endobj ++ tail)) with (Some (s_endobj ++ tail)). cbv iota.
    change (s_endobj ++ tail) with (10 :: 101 :: 110 :: 100 :: 111 :: 98 :: 106 :: 10 :: tail).
    rewrite next_tok_endobj.
    change (beq k_endobj k_endobj) with true. cbv iota.
    change (eol (10 :: tail)) with (Some tail). cbv iota.
    rewrite N2Z.id. reflexivity.
  - left. reflexivity.
  - intros z Hz. exfalso. exact (Hni z Hz).
  - exact Hfuel.
Qed.

(* stream objects: the strict parser finds the dictionary, the data at the recorded position with the
   written /Length, and endstream/endobj exactly where the model put them *)
Lemma emitted_stream_parses_lemma : forall d id i data fuel,
  doc_closed d -> wf_doc_objs d ->
  In id (written (graph_of d) (roots_of d)) -> find_obj (d_objects d) id = Some i -> i_stream i = Some data ->
  (exists dd, i_val i = ODict dd) ->
  let out := write_doc wm_unparse_string wm_unparse_name d in
  (length out < fuel)%nat ->
  exists off e doff v,
    In (doc_ren d id, off) (body_offsets wm_unparse_string wm_unparse_name d) /\
    parse_indirect fuel (N.of_nat (length out)) out off (fun _ => None)
    = inl (Some {| so_num := doc_ren d id; so_gen := 0; so_where := XInUse off 0;
                   so_val := v; so_stream := Some (doff, N.of_nat (length data)); so_end := e |})
    /\ firstn (length data) (skipn (N.to_nat doff) out) = data
    /\ off < doff /\ doff + N.of_nat (length data) < e.
Proof.
  intros d id i data fuel Hc Hwf Hin Hf Hs [dd Hdd] out Hfuel.
  destruct (write_doc_shape wm_unparse_string wm_unparse_name d) as [tl Hshape].
  destruct (offs_of_at wm_unparse_string wm_unparse_name (d_objects d) (doc_ren d)
              (written (graph_of d) (roots_of d)) (N.of_nat (length (header (d_version d))))
              (header (d_version d)) tl id (Nat2N.id _) Hin) as [off [tail [Hoff Hskip]]].
  rewrite <- Hshape in Hskip. fold out in Hskip.
  set (objs := d_objects d) in *.
  set (len := N.of_nat (length data)).
  set (d' := filter (fun kv : list N * obj => negb (beqb (fst kv) k_Length)) dd).
  set (o0 := ODict (d' ++ [len_entry len])).
  set (ren' := fun x => if doc_ren d x =? 0 then 1 else doc_ren d x).
  assert (Hrefs : forall x, In x (refs_of objs o0) -> In x (refs_of objs (drop_length (i_val i)))).
  { intros x Hx. unfold o0 in Hx. rewrite refs_of_dict_app in Hx. apply in_app_or in Hx.
    destruct Hx as [Hx|Hx]; [rewrite Hdd; exact Hx | destruct Hx]. }
  assert (Hext : forall x, In x (refs_of objs o0) -> doc_ren d x = ren' x).
  { intros x Hx. apply Hrefs in Hx.
    assert (Hp : 0 < doc_ren d x).
    { apply written_ren_pos; [exact Hc|].
      destruct (queue_complete_lemma _ _ Hc) as [_ Hq]. apply Hq.
      apply (reach_step _ _ id); [apply Hq; exact Hin|].
      rewrite (children_graph_of_stream d id i data Hf Hs). exact Hx. }
    unfold ren'. destruct (doc_ren d x =? 0) eqn:E; [apply N.eqb_eq in E; lia | reflexivity]. }
  destruct (ren_ext wm_unparse_string wm_unparse_name objs (doc_ren d) ren' o0 Hext) as [HU _].
  set (Hd := obj_header (doc_ren d id) ++ unparse wm_unparse_string wm_unparse_name objs ren' o0 ++ s_stream_kw).
  set (D := data ++ s_endstream_kw ++ s_endobj ++ tail).
  assert (Hchunk : chunk_of wm_unparse_string wm_unparse_name objs (doc_ren d) id ++ tail = Hd ++ D).
  { unfold chunk_of. rewrite Hf. unfold emit_object. rewrite Hs, Hdd, unparse_stream_dict_eq.
    fold len d' o0. rewrite HU. unfold Hd, D, s_stream_kw, s_endstream_kw. rewrite <- !app_assoc. reflexivity. }
  rewrite Hchunk in Hskip.
  assert (Hlen : (length out - N.to_nat off = length Hd + length D)%nat).
  { rewrite <- skipn_length, Hskip, app_length. reflexivity. }
  assert (HlenHd : (0 < length Hd)%nat).
  { unfold Hd, obj_header. rewrite !app_length. cbn [length]. lia. }
  assert (HlenD : length D = (length data + 17 + length tail)%nat).
  { unfold D. rewrite !app_length. unfold s_endstream_kw, s_endobj. cbn [length]. lia. }
  assert (Hwf0 : wf_wobj o0).
  { apply wf_dict. apply Forall_app. split.
    - destruct (find_obj_in _ _ _ Hf) as [k Hk]. unfold wf_doc_objs in Hwf.
      rewrite Forall_forall in Hwf. pose proof (Hwf (k, i) Hk) as Hw. cbn [snd] in Hw.
      rewrite Hdd in Hw. apply wf_dict in Hw. rewrite Forall_forall in *.
      intros kv Hkv. apply Hw. unfold d' in Hkv. apply filter_In in Hkv. tauto.
    - constructor; [|constructor]. split; [|exact I]. split.
      + cbn. intros H. repeat (destruct H as [H|H]; [discriminate H|]). exact H.
      + repeat constructor. }
  exists off, (offset_of (N.of_nat (length out)) tail), (offset_of (N.of_nat (length out)) D),
         (SpDict (pdict objs ren' (d' ++ [len_entry len]))).
  split; [rewrite body_offsets_eq; exact Hoff|].
  split; [|split].
  - apply (parse_indirect_emitted_stream fuel (N.of_nat (length out)) out off (doc_ren d id) objs ren' o0).
    + unfold at_off. rewrite Hskip. unfold Hd, D. rewrite <- !app_assoc. reflexivity.
    + exact Hwf0.
    + intros x. unfold ren'. destruct (doc_ren d x =? 0) eqn:E; [lia | apply N.eqb_neq in E; lia].
    + intros z Hz. discriminate Hz.
    + unfold Hd in Hlen. rewrite !app_length in Hlen. lia.
    + reflexivity.
    + apply dict_get_length. unfold d'. apply filter_Forall.
  - assert (Hdoff : N.to_nat (offset_of (N.of_nat (length out)) D) = (N.to_nat off + length Hd)%nat).
    { unfold offset_of. lia. }
    rewrite Hdoff, skipn_add, Hskip, skipn_app, skipn_all, Nat.sub_diag. cbn [skipn app].
    unfold D. rewrite firstn_app, firstn_all, Nat.sub_diag. cbn [firstn]. apply app_nil_r.
  - unfold offset_of. lia.
Qed.

(* the header of the model's output is a strict header *)
Lemma model_header_parses_lemma : forall d a b,
  d_version d = [a; 46; b] -> is_digit a = true -> is_digit b = true ->
  exists rest, parse_header (write_doc wm_unparse_string wm_unparse_name d) = Some ([a; 46; b], rest)
               /\ length rest = (length (write_doc wm_unparse_string wm_unparse_name d) - length (header (d_version d)))%nat.
Proof.
  intros d a b Hv Ha Hb.
  destruct (write_doc_shape wm_unparse_string wm_unparse_name d) as [tl Hshape].
  rewrite Hshape. set (X := concat _ ++ tl). rewrite Hv. unfold header. cbn [app].
  exists X. split.
  - unfold parse_header. cbn [expect]. 
    change (37 =? 37) with true. change (80 =? 80) with true. change (68 =? 68) with true.
    change (70 =? 70) with true. change (45 =? 45) with true. cbv iota.
    rewrite Ha, Hb. reflexivity.
  - cbn [length]. lia.
Qed.

Lemma model_xref_entries_gen : forall offs s acc rest, Forall (fun ko : N * N => snd ko < 10 ^ 10) offs ->
  xref_entries (length offs) (N.of_nat s) (flat_map (fun ko => xref_line (snd ko)) offs ++ rest) acc
  = Some (rev (map (fun p : N * (N * N) => (fst p, XInUse (snd (snd p)) 0))
                   (combine (map N.of_nat (seq s (length offs))) offs)) ++ acc, rest).
Proof.
  induction offs as [|ko t IH]; intros s acc rest Hb.
  - reflexivity.
  - inversion Hb as [|? ? H1 H2]; subst.
    cbn [length flat_map xref_entries]. rewrite <- app_assoc.
    destruct (xref_line_read_lemma (snd ko) (flat_map (fun ko => xref_line (snd ko)) t ++ rest) H1) as [_ Hx].
    rewrite Hx. replace (N.of_nat s + 1) with (N.of_nat (S s)) by lia.
    rewrite IH by exact H2. cbn [seq map combine rev fst snd]. rewrite <- app_assoc. reflexivity.
Qed.

(* the classic cross-reference table the model writes is read by the strict reader as: object 0 free,
   and for every written object an in-use entry with generation 0 pointing exactly at its recorded offset *)
Lemma model_xref_entries_lemma : forall offs rest, Forall (fun ko => snd ko < 10 ^ 10) offs ->
  xref_entries (length offs) 1 (flat_map (fun ko => xref_line (snd ko)) offs ++ rest) []
  = Some (rev (map (fun p : N * (N * N) => (fst p, XInUse (snd (snd p)) 0)) (combine (map N.of_nat (seq 1 (length offs))) offs)), rest).
Proof.
  intros offs rest Hb. pose proof (model_xref_entries_gen offs 1 [] rest Hb) as H.
  rewrite app_nil_r in H. exact H.
Qed.

(* ------------------------------------------------------------------------------------------------
   Capstone: the strict reader (written from ISO 32000-1 only) accepts the WHOLE output of the plain
   writer model and reads back exactly the document that was written: every written object under its
   new number with the same value (references renumbered) and the same stream bytes, nothing else,
   one cross-reference section, the same version, the trailer with /Size = n+1 and the /ID pair.
   Hypotheses other than the ones below may be added by the prover only if they are decidable
   well-formedness conditions of the document (no condition on the output bytes other than its
   length < 10^10, which is the xref format's limit). *)

Definition sobj_view (out : list N) (so : sobj) : N * N * pobj * option (list N) :=
  (so_num so, so_gen so, so_val so,
   match so_stream so with
   | Some (doff, len) => Some (firstn (N.to_nat len) (skipn (N.to_nat doff) out))
   | None => None
   end).

Definition wm_out (d : doc) : list N := write_doc wm_unparse_string wm_unparse_name d.

(* value the reader must return for a written object: the dictionary of a stream carries /Length last *)
Definition expected_val (d : doc) (i : indirect) : pobj :=
  match i_stream i with
  | None => to_pobj (d_objects d) (doc_ren d) (i_val i)
  | Some data =>
      match to_pobj (d_objects d) (doc_ren d) (drop_length (i_val i)) with
      | SpDict l => SpDict (l ++ [(k_Length, SpInt (Z.of_nat (length data)))])
      | v => v
      end
  end.

Definition expected_trailer (d : doc) : list (list N * pobj) :=
  let n := N.of_nat (length (written (graph_of d) (roots_of d))) in
  flat_map (fun kv => if is_null_val (d_objects d) (snd kv) then []
                      else [(fst kv, if beqb (fst kv) k_Size then SpInt (Z.of_N (n + 1))
                                     else to_pobj (d_objects d) (doc_ren d) (snd kv))]) (d_trailer d)
  ++ [([73; 68], SpArr [SpStr (d_id1 d); SpStr (d_id2 d)])].

Record wf_doc (d : doc) : Prop := {
  wfd_closed : doc_closed d;
  wfd_objs : wf_doc_objs d;
  wfd_trailer : wf_wobj (ODict (d_trailer d));
  wfd_streams : forall k i, In (k, i) (d_objects d) -> i_stream i <> None -> exists dd, i_val i = ODict dd;
  wfd_stream_bytes : forall k i data, In (k, i) (d_objects d) -> i_stream i = Some data -> Forall (fun b => b < 256) data;
  wfd_version : exists a b, d_version d = [a; 46; b] /\ is_digit a = true /\ is_digit b = true;
  wfd_ids : Forall (fun b => b < 256) (d_id1 d) /\ Forall (fun b => b < 256) (d_id2 d);
  wfd_root : exists r i, find (fun kv => beqb (fst kv) k_Root) (d_trailer d) = Some (k_Root, ORef r)
                         /\ find_obj (d_objects d) r = Some i /\ is_null_val (d_objects d) (ORef r) = false;
  wfd_size : exists z, find (fun kv => beqb (fst kv) k_Size) (d_trailer d) = Some (k_Size, OInt z);
  wfd_keys_nodup : NoDup (map fst (d_trailer d))
                   /\ ~ In [73; 68] (map fst (d_trailer d))
                   /\ (forall k i dd, In (k, i) (d_objects d) -> i_val i = ODict dd -> NoDup (map fst dd))
}.

Lemma write_read_strict_lemma : forall d, wf_doc d ->
  N.of_nat (length (wm_out d)) < 10 ^ 10 ->
  exists f, read_strict (wm_out d) = RsOk f
    /\ sf_version f = d_version d
    /\ sf_sections f = 1 /\ sf_xref_stream f = false
    /\ sf_trailer f = expected_trailer d
    /\ length (sf_objs f) = length (written (graph_of d) (roots_of d))
    /\ (forall id i, In id (written (graph_of d) (roots_of d)) -> find_obj (d_objects d) id = Some i ->
          exists so, In so (sf_objs f)
                     /\ sobj_view (wm_out d) so = (doc_ren d id, 0, expected_val d i, i_stream i)).
Proof. Abort.
