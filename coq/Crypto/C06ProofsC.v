(* C06 proofs, part C: method selection (the method the model of qpdf's reader undoes for a string / stream is the
   one the ISO rule of IsoEnc.v prescribes) and, with part B, decrypt (reference encrypt x) = x for every leaf and
   every document (list of leaves). The /Crypt forms that rely on the defaults of Table 14 and a crypt filter
   that spells out /CFM /None are the refuted part (findings F1, F2). *)
From QV Require Import Base.Bytes Crypto.Nib Filters.Filters Filters.C15ProofsB.
From QV Require Import Crypto.MD5 Crypto.SHA2Fast Crypto.AES Crypto.AesPdf Crypto.KeyDeriv Crypto.IsoRef Crypto.Perms.
From QV Require Import Crypto.C05Proofs Crypto.CbcProofs Crypto.AesInv Crypto.C05ProofsB Crypto.C05ProofsC.
From QV Require Import Crypto.IsoEnc Crypto.DecReader Crypto.C06ProofsB.
From Coq Require Import Arith.
Local Open Scope N_scope.

Definition c06_method_of_cfm (m : c06_cfm) : c06_method :=
  match m with C6None => C6eNone | C6V2 => C6eRc4 | C6AESV2 => C6eAes | C6AESV3 => C6eAesv3 end.

(* what initialize() leaves in EncryptionParameters for a dictionary written from the producer's choices c
   (crypt filters whose method is None written without /CFM): see c06_open_state in part D *)
Record c06_state_for (c : c06_cfg) (key : list N) (st : c06_state) : Prop := {
  sf_V : c6t_V st = c6_V c;
  sf_key : c6t_key st = key;
  (* crypt filters exist from V 4 on; before that initialize() leaves the defaults and nothing reads them *)
  sf_em : 4 <=? c6_V c = true -> c6t_encmeta st = c6_encmeta c;
  sf_filters : 4 <=? c6_V c = true -> c6t_filters st = map (fun e => (fst e, c06_method_of_cfm (snd e))) (c6_cf c);
  sf_stm : 4 <=? c6_V c = true -> c6t_cf_stream st = c06_interpretCF (c6t_filters st) (Some (c6_stmf c));
  sf_str : 4 <=? c6_V c = true -> c6t_cf_string st = c06_interpretCF (c6t_filters st) (Some (c6_strf c))
}.

(* a well-formed choice: one of the supported schemes, and no /CF entry called Identity (7.6.6: reserved) *)
Definition c06_wf_cfg (c : c06_cfg) : Prop :=
  c06_supported c = true /\
  forallb (fun e => negb (bytes_eqb (fst e) c06_name_identity)) (c6_cf c) = true.

Lemma c06_find_map : forall cf name,
  c06_filters_find (map (fun e => (fst e, c06_method_of_cfm (snd e))) cf) name =
  match c06_cf_lookup cf name with Some m => Some (c06_method_of_cfm m) | None => None end.
Proof.
  induction cf as [|[n m] t IH]; intros name; [reflexivity|].
  cbn [map c06_filters_find c06_cf_lookup fst snd]. destruct (bytes_eqb n name); [reflexivity|apply IH].
Qed.

Lemma c06_lookup_identity_none : forall cf,
  forallb (fun e => negb (bytes_eqb (fst e) c06_name_identity)) cf = true ->
  c06_cf_lookup cf c06_name_identity = None.
Proof.
  induction cf as [|[n m] t IH]; intros H; [reflexivity|].
  cbn [forallb fst] in H. apply andb_true_iff in H. destruct H as [H1 H2].
  cbn [c06_cf_lookup]. apply negb_true_iff in H1. rewrite H1. apply IH. exact H2.
Qed.

Lemma c06_interp_named : forall c name m,
  c06_wf_cfg c -> c06_named_method c name = Some m ->
  c06_interpretCF (map (fun e => (fst e, c06_method_of_cfm (snd e))) (c6_cf c)) (Some name) = c06_method_of_cfm m.
Proof.
  intros c name m [_ Hid] H. unfold c06_named_method in H. unfold c06_interpretCF. rewrite c06_find_map.
  destruct (bytes_eqb name c06_name_identity) eqn:E.
  - inversion H; subst. apply list_eqb_N_eq in E. subst name.
    rewrite c06_lookup_identity_none by exact Hid. reflexivity.
  - rewrite H. reflexivity.
Qed.

Lemma c06_lookup_in : forall cf name m, c06_cf_lookup cf name = Some m -> exists n, In (n, m) cf.
Proof.
  induction cf as [|[n m0] t IH]; intros name m H; [discriminate|].
  cbn [c06_cf_lookup] in H. destruct (bytes_eqb n name).
  - inversion H; subst. exists n. left. reflexivity.
  - destruct (IH name m H) as [n' Hn]. exists n'. right. exact Hn.
Qed.

(* in a supported scheme with crypt filters, AESV2 occurs only for V 4 and AESV3 only for V 5 *)
Lemma c06_named_fits : forall c name m,
  c06_supported c = true -> 4 <=? c6_V c = true -> c06_named_method c name = Some m ->
  (m = C6AESV2 -> c6_V c = 4) /\ (m = C6AESV3 -> c6_V c = 5).
Proof.
  intros c name m Hs H4 H. unfold c06_named_method in H.
  destruct (bytes_eqb name c06_name_identity); [inversion H; subst; split; discriminate|].
  destruct (c06_lookup_in _ _ _ H) as [n Hin].
  unfold c06_supported in Hs.
  apply N.leb_le in H4.
  repeat (apply orb_true_iff in Hs; destruct Hs as [Hs|Hs]); repeat (apply andb_true_iff in Hs; destruct Hs as [Hs ?]).
  - apply N.eqb_eq in Hs. lia.
  - apply N.eqb_eq in Hs. lia.
  - apply N.eqb_eq in Hs. rewrite forallb_forall in H0. specialize (H0 _ Hin). cbn [snd] in H0.
    split; intros ->; [exact Hs|discriminate].
  - apply N.eqb_eq in Hs. rewrite forallb_forall in H0. specialize (H0 _ Hin). cbn [snd] in H0.
    split; intros ->; [discriminate|exact Hs].
Qed.

(* the decision (use_aes, warn) the reader takes for a method of the standard *)
Definition c06_dec_expected (m : c06_cfm) : option (bool * bool) :=
  match m with C6None => None | C6V2 => Some (false, false) | _ => Some (true, false) end.

Lemma c06_switch_of_cfm : forall m, c06_switch (c06_method_of_cfm m) = c06_dec_expected m.
Proof. destruct m; reflexivity. Qed.

Lemma c06_supported_V : forall c, c06_supported c = true ->
  (c6_V c = 1 \/ c6_V c = 2 \/ c6_V c = 4 \/ c6_V c = 5).
Proof.
  intros c Hs. unfold c06_supported in Hs.
  repeat (apply orb_true_iff in Hs; destruct Hs as [Hs|Hs]); repeat (apply andb_true_iff in Hs; destruct Hs as [Hs ?]);
    apply N.eqb_eq in Hs; auto.
Qed.

(* ------------------------------------------------------------------ strings *)
Definition c06_string_dec (st : c06_state) (w : c06_where) : option (bool * bool) :=
  match c06_where_decrypts w with
  | false => None
  | true => if 4 <=? c6t_V st then c06_switch (c6t_cf_string st) else Some (false, false)
  end.

(* every place but the /Contents of a signature dictionary that lacks the (optional) /Type /Sig: finding F10 *)
Definition c06_where_ok (w : c06_where) : Prop :=
  match w with C6InSigContents false => False | _ => True end.

Lemma c06_string_dec_iso : forall c key st w m,
  c06_wf_cfg c -> c06_state_for c key st -> c06_where_ok w -> c06_iso_string_method c w = Some m ->
  c06_string_dec st w = c06_dec_expected m.
Proof.
  intros c key st w m Hwf Hst Hw H. destruct w as [| | |[|]]; try contradiction;
    cbn [c06_iso_string_method c06_string_dec c06_where_decrypts negb] in *;
    try (inversion H; subst; reflexivity).
  unfold c06_default_method in H. rewrite (sf_V _ _ _ Hst).
  destruct (c6_V c <? 4) eqn:E4.
  - inversion H; subst. apply N.ltb_lt in E4. replace (4 <=? c6_V c) with false by (symmetry; apply N.leb_gt; exact E4). reflexivity.
  - apply N.ltb_ge in E4. assert (H4 : 4 <=? c6_V c = true) by (apply N.leb_le; exact E4). rewrite H4.
    rewrite (sf_str _ _ _ Hst H4), (sf_filters _ _ _ Hst H4), (c06_interp_named c _ m Hwf H). apply c06_switch_of_cfm.
Qed.

Lemma c06_method_cfm_expected : forall V m,
  (m = C6AESV2 -> V = 4) -> (m = C6AESV3 -> V = 5) ->
  c06_method_cfm V (c06_dec_expected m) = m.
Proof.
  intros V m H2 H3. destruct m; cbn; try reflexivity.
  - rewrite (H2 eq_refl). reflexivity.
  - rewrite (H3 eq_refl). reflexivity.
Qed.

Lemma c06_iso_string_fits : forall c w m, c06_wf_cfg c -> c06_iso_string_method c w = Some m ->
  (m = C6AESV2 -> c6_V c = 4) /\ (m = C6AESV3 -> c6_V c = 5).
Proof.
  intros c w m [Hs _] H. destruct w as [| | |t]; cbn in H; try (inversion H; subst; split; discriminate).
  unfold c06_default_method in H. destruct (c6_V c <? 4) eqn:E4.
  - inversion H; subst; split; discriminate.
  - apply (c06_named_fits c (c6_strf c) m Hs); [apply N.leb_le; apply N.ltb_ge; exact E4|exact H].
Qed.

(* method_selection_string: for every supported scheme and crypt filter arrangement and every place a string can
   live (an indirect object, an object stream, the trailer, the /Contents of a signature dictionary that carries
   /Type /Sig), the crypt filter method the reader model undoes is the method of the ISO rule *)
Lemma method_selection_string_partial_lemma : forall c key st w m,
  c06_wf_cfg c -> c06_state_for c key st -> c06_where_ok w -> c06_iso_string_method c w = Some m ->
  c06_reader_string_cfm st w = m.
Proof.
  intros c key st w m Hwf Hst Hw H.
  pose proof (c06_string_dec_iso c key st w m Hwf Hst Hw H) as Hd.
  destruct (c06_iso_string_fits c w m Hwf H) as [F2 F3].
  unfold c06_reader_string_cfm. unfold c06_string_dec in Hd.
  destruct (c06_where_decrypts w) eqn:Ew.
  - rewrite Hd. rewrite (sf_V _ _ _ Hst). apply c06_method_cfm_expected; assumption.
  - destruct w as [| | |[|]]; try discriminate; try contradiction; cbn in H; inversion H; reflexivity.
Qed.

(* ------------------------------------------------------------------ streams *)
(* the /Crypt filter of the stream, if any, is written out: dictionary form with /Type (with or without /Name),
   or array form with /DecodeParms of the same length whose entry for /Crypt has a /Name *)
Definition c06_crypt_explicit (s : c06_sdict) : bool :=
  match c6d_filter s with
  | C6FlNone => true
  | C6FlName n =>
      if bytes_eqb n c06_name_crypt then
        match c6d_dparms s with C6DpOne (C6PmDict true _) => true | _ => false end
      else true
  | C6FlArray l =>
      match c06_index_of l 0 with
      | None => true
      | Some i =>
          match c6d_dparms s with
          | C6DpArray ps => Nat.eqb (length l) (length ps) &&
                            match nth i ps C6PmNull with C6PmDict _ (Some _) => true | _ => false end
          | C6DpOne _ => false
          end
      end
  end.

Lemma c06_index_exists : forall l i, existsb c06_is_crypt l = match c06_index_of l i with Some _ => true | None => false end.
Proof.
  induction l as [|x t IH]; intros i; [reflexivity|].
  cbn [existsb c06_index_of]. destruct x as [n|]; cbn [c06_is_crypt].
  - destruct (bytes_eqb n c06_name_crypt); [reflexivity|apply IH].
  - apply IH.
Qed.

Lemma c06_array_name_index : forall l decode i,
  c06_array_crypt_name l decode i =
  match c06_index_of l i with
  | Some k => match nth k decode C6PmNull with C6PmDict _ (Some n) => Some n | _ => None end
  | None => None
  end.
Proof.
  induction l as [|x t IH]; intros decode i; [reflexivity|].
  cbn [c06_array_crypt_name c06_index_of]. destruct x as [n|]; cbn [c06_is_crypt].
  - destruct (bytes_eqb n c06_name_crypt); [reflexivity|apply IH].
  - apply IH.
Qed.

Definition c06_stream_dec (st : c06_state) (s : c06_sdict) : option (bool * bool) :=
  if c6d_xref s then None
  else if 4 <=? c6t_V st then c06_switch (c06_stream_method st s) else Some (false, false).

Lemma c06_stream_method_iso : forall c key st s m,
  c06_wf_cfg c -> c06_state_for c key st -> c06_crypt_explicit s = true ->
  c6d_xref s = false -> c6_V c <? 4 = false ->
  c06_iso_stream_method c s = Some m ->
  c06_stream_method st s = c06_method_of_cfm m.
Proof.
  intros c key st s m Hwf Hst Hex Hx H4 H.
  unfold c06_iso_stream_method in H. rewrite Hx, H4 in H.
  assert (G4 : 4 <=? c6_V c = true) by (apply N.leb_le; apply N.ltb_ge; exact H4).
  unfold c06_stream_method. rewrite (sf_filters _ _ _ Hst G4), (sf_em _ _ _ Hst G4).
  assert (Hnone : forall m', c06_named_method c (c6_stmf c) = Some m' ->
            c6t_cf_stream st = c06_method_of_cfm m').
  { intros m' Hm'. rewrite (sf_stm _ _ _ Hst G4), (sf_filters _ _ _ Hst G4). apply c06_interp_named; assumption. }
  assert (Hplain : c06_crypt_parm s = None ->
            (if negb (c6_encmeta c) && c6d_rootmeta s then C6eNone else c6t_cf_stream st) = c06_method_of_cfm m).
  { intros Hp. rewrite Hp in H. rewrite andb_comm. destruct (c6d_rootmeta s && negb (c6_encmeta c)).
    - inversion H; subst. reflexivity.
    - apply Hnone. exact H. }
  assert (Hnu : forall x, c06_method_of_cfm x <> C6eUnknown) by (destruct x; discriminate).
  unfold c06_crypt_explicit in Hex. unfold c06_crypt_parm in *.
  destruct (c6d_filter s) as [|n|l] eqn:Ef; cbn [c06_is_or_has_crypt].
  - apply Hplain. reflexivity.
  - destruct (bytes_eqb n c06_name_crypt) eqn:En.
    + destruct (c6d_dparms s) as [[|[|] name|]|ps] eqn:Ed; try discriminate.
      cbn [c06_crypt_name] in H.
      assert (Hn : c06_interpretCF (map (fun e => (fst e, c06_method_of_cfm (snd e))) (c6_cf c)) name = c06_method_of_cfm m).
      { destruct name as [nm|]; cbn [c06_crypt_name] in H.
        - apply c06_interp_named; assumption.
        - unfold c06_named_method in H. change (bytes_eqb c06_name_identity c06_name_identity) with true in H.
          inversion H; subst. reflexivity. }
      rewrite Hn. destruct m; reflexivity.
    + apply Hplain. reflexivity.
  - rewrite (c06_index_exists l 0).
    destruct (c06_index_of l 0) as [i|] eqn:Ei.
    + destruct (c6d_dparms s) as [p|ps] eqn:Ed; [discriminate|].
      apply andb_true_iff in Hex. destruct Hex as [Hlen Hnm].
      cbn [c06_filter_items c06_decode_items]. rewrite Hlen.
      rewrite c06_array_name_index, Ei.
      destruct (nth i ps C6PmNull) as [|ht [nm|]|] eqn:En; try discriminate.
      cbn [c06_crypt_name] in H.
      rewrite (c06_interp_named c nm m Hwf H). destruct m; reflexivity.
    + apply Hplain. reflexivity.
Qed.

Lemma c06_stream_dec_iso : forall c key st s m,
  c06_wf_cfg c -> c06_state_for c key st -> c06_crypt_explicit s = true ->
  c06_iso_stream_method c s = Some m ->
  c06_stream_dec st s = c06_dec_expected m.
Proof.
  intros c key st s m Hwf Hst Hex H. unfold c06_stream_dec.
  destruct (c6d_xref s) eqn:Hx.
  - unfold c06_iso_stream_method in H. rewrite Hx in H. inversion H; subst. reflexivity.
  - rewrite (sf_V _ _ _ Hst). destruct (c6_V c <? 4) eqn:E4.
    + unfold c06_iso_stream_method in H. rewrite Hx, E4 in H. inversion H; subst.
      apply N.ltb_lt in E4. replace (4 <=? c6_V c) with false by (symmetry; apply N.leb_gt; exact E4). reflexivity.
    + pose proof E4 as E4'. apply N.ltb_ge in E4'. replace (4 <=? c6_V c) with true by (symmetry; apply N.leb_le; exact E4').
      rewrite (c06_stream_method_iso c key st s m Hwf Hst Hex Hx E4 H). apply c06_switch_of_cfm.
Qed.

Lemma c06_iso_stream_fits : forall c s m, c06_wf_cfg c -> c06_iso_stream_method c s = Some m ->
  (m = C6AESV2 -> c6_V c = 4) /\ (m = C6AESV3 -> c6_V c = 5).
Proof.
  intros c s m [Hs _] H. unfold c06_iso_stream_method in H.
  destruct (c6d_xref s); [inversion H; subst; split; discriminate|].
  destruct (c6_V c <? 4) eqn:E4; [inversion H; subst; split; discriminate|].
  assert (H4 : 4 <=? c6_V c = true) by (apply N.leb_le; apply N.ltb_ge; exact E4).
  destruct (c06_crypt_parm s).
  - apply (c06_named_fits c _ m Hs H4 H).
  - destruct (c6d_rootmeta s && negb (c6_encmeta c)); [inversion H; subst; split; discriminate|].
    apply (c06_named_fits c _ m Hs H4 H).
Qed.

(* method_selection_stream: for every stream dictionary whose /Crypt filter (if any) is written out, every
   supported scheme and crypt filter arrangement, cleartext metadata or not, cross-reference stream or not *)
Lemma method_selection_stream_partial_lemma : forall c key st s m,
  c06_wf_cfg c -> c06_state_for c key st -> c06_crypt_explicit s = true ->
  c06_iso_stream_method c s = Some m ->
  c06_reader_stream_cfm st s = m.
Proof.
  intros c key st s m Hwf Hst Hex H.
  pose proof (c06_stream_dec_iso c key st s m Hwf Hst Hex H) as Hd.
  destruct (c06_iso_stream_fits c s m Hwf H) as [F2 F3].
  unfold c06_reader_stream_cfm. unfold c06_stream_dec in Hd.
  destruct (c6d_xref s) eqn:Hx.
  - unfold c06_iso_stream_method in H. rewrite Hx in H. inversion H. reflexivity.
  - rewrite Hd, (sf_V _ _ _ Hst). apply c06_method_cfm_expected; assumption.
Qed.

(* The full statement (without c06_crypt_explicit) is false on the faithful model: finding F1. A V 4 file with
   /StmF = AESV2 and a stream  << /Filter /Crypt >>  (no /DecodeParms: Table 14 makes the crypt filter Identity). *)
Definition c06_f1_cfg : c06_cfg :=
  {| c6_V := 4; c6_R := 4; c6_keylen := 16; c6_P := 4294967292; c6_encmeta := true; c6_id := [];
     c6_cf := [([83; 116; 100; 67; 70], C6AESV2)]; c6_stmf := [83; 116; 100; 67; 70]; c6_strf := [83; 116; 100; 67; 70] |}.
Definition c06_f1_state : c06_state :=
  {| c6t_V := 4; c6t_R := 4; c6t_P := (-4)%Z; c6t_encmeta := true; c6t_filters := [([83; 116; 100; 67; 70], C6eAes)];
     c6t_cf_stream := C6eAes; c6t_cf_string := C6eAes; c6t_cf_file := C6eAes; c6t_key := repeat 7 16%nat;
     c6t_user_password := []; c6t_user_matched := true; c6t_owner_matched := false |}.
Definition c06_f1_sdict : c06_sdict :=
  {| c6d_xref := false; c6d_filter := C6FlName c06_name_crypt; c6d_dparms := C6DpOne C6PmNull; c6d_rootmeta := false |}.

Lemma c06_f1_state_for : c06_state_for c06_f1_cfg (repeat 7 16%nat) c06_f1_state.
Proof. constructor; intros; reflexivity. Qed.

(* The full statement is false on the faithful model (finding F10): the /Contents of a signature dictionary WITHOUT
   the optional /Type /Sig is clear in the file and the reader model runs it through the /StrF cipher. *)
Lemma method_selection_string_refuted_lemma :
  exists c key st w m, c06_wf_cfg c /\ c06_state_for c key st /\ c06_iso_string_method c w = Some m /\
                       c06_reader_string_cfm st w <> m.
Proof.
  exists c06_f1_cfg, (repeat 7 16%nat), c06_f1_state, (C6InSigContents false), C6None.
  split; [split; reflexivity|]. split; [exact c06_f1_state_for|]. split; [reflexivity|].
  vm_compute. discriminate.
Qed.

Lemma method_selection_stream_refuted_lemma :
  exists c key st s m, c06_wf_cfg c /\ c06_state_for c key st /\ c06_iso_stream_method c s = Some m /\
                       c06_reader_stream_cfm st s <> m.
Proof.
  exists c06_f1_cfg, (repeat 7 16%nat), c06_f1_state, c06_f1_sdict, C6None.
  split; [split; reflexivity|]. split; [exact c06_f1_state_for|]. split; [reflexivity|].
  vm_compute. discriminate.
Qed.

(* ------------------------------------------------------------------ one leaf, then a whole document *)
Definition c06_key_fits (c : c06_cfg) (key : list N) : Prop :=
  rv_consistent (c6_R c) (c6_V c) /\
  (c6_V c = 4 -> length key = 16%nat) /\ (c6_V c = 5 -> length key = 32%nat).

Definition c06_leaf_wf (l : c06_leaf) : Prop :=
  length (c6l_iv l) = 16%nat /\ byte_list (c6l_iv l) /\ byte_list (c6l_data l) /\
  match c6l_kind l with C6Stream s => c06_crypt_explicit s = true | C6String w => c06_where_ok w end.

Lemma c06_decrypt_with_dec : forall st R m num gen iv data,
  c06_method_ok (c6t_V st) R (c6t_key st) m ->
  length iv = 16%nat -> byte_list iv -> byte_list data ->
  match c06_dec_expected m with
  | None => C6LeafOk (c06_iso_encrypt R (c6t_key st) m num gen iv data) false
  | Some (use_aes, warn) =>
      match c06_apply st use_aes num gen (c06_iso_encrypt R (c6t_key st) m num gen iv data) with
      | Some r => C6LeafOk r warn
      | None => C6LeafError
      end
  end = C6LeafOk data false.
Proof.
  intros st R m num gen iv data Hok Hiv Hivb Hd.
  destruct m eqn:Em; [reflexivity| | |];
    match goal with |- context [c06_dec_expected ?mm] =>
      assert (Ha : c06_apply st (c06_use_aes mm) num gen (c06_iso_encrypt R (c6t_key st) mm num gen iv data) = Some data)
        by (apply c06_apply_iso_encrypt; assumption || discriminate);
      cbn [c06_use_aes] in Ha; cbn [c06_dec_expected]; rewrite Ha; reflexivity
    end.
Qed.

Lemma c06_method_ok_of : forall c key st m,
  c06_state_for c key st -> c06_key_fits c key ->
  (m = C6AESV2 -> c6_V c = 4) -> (m = C6AESV3 -> c6_V c = 5) ->
  c06_method_ok (c6t_V st) (c6_R c) (c6t_key st) m.
Proof.
  intros c key st m Hst [Hrv [K4 K5]] F2 F3.
  unfold c06_method_ok. rewrite (sf_V _ _ _ Hst), (sf_key _ _ _ Hst). split; [exact Hrv|].
  destruct m; try exact I.
  - specialize (F2 eq_refl). split; [rewrite F2; reflexivity|apply K4; exact F2].
  - specialize (F3 eq_refl). split; [rewrite F3; reflexivity|apply K5; exact F3].
Qed.

(* decrypt_of_reference_encrypt, data path, one leaf: whatever the reference encryptor made of a string or stream
   (any supported scheme, crypt filter arrangement, place, object number, IV, data), the reader model returns
   the plaintext and issues no warning *)
Lemma c06_decrypt_encrypt_leaf : forall c key st l l',
  c06_wf_cfg c -> c06_state_for c key st -> c06_key_fits c key -> c06_leaf_wf l ->
  c06_iso_encrypt_leaf c key l = Some l' ->
  c06_decrypt_leaf st l' = C6LeafOk (c6l_data l) false.
Proof.
  intros c key st l l' Hwf Hst Hkf [Hiv [Hivb [Hd Hex]]] H.
  unfold c06_iso_encrypt_leaf in H. destruct (c06_leaf_method c l) as [m|] eqn:Em; [|discriminate].
  inversion H; subst l'. clear H.
  unfold c06_decrypt_leaf, c06_with_data. cbn [c6l_kind c6l_num c6l_gen c6l_data].
  unfold c06_leaf_method in Em.
  rewrite <- (sf_key _ _ _ Hst).
  destruct (c6l_kind l) as [w|s] eqn:Ek.
  - pose proof (c06_string_dec_iso c key st w m Hwf Hst Hex Em) as Hdec.
    destruct (c06_iso_string_fits c w m Hwf Em) as [F2 F3].
    pose proof (c06_decrypt_with_dec st (c6_R c) m (c6l_num l) (c6l_gen l) (c6l_iv l) (c6l_data l)
                  (c06_method_ok_of c key st m Hst Hkf F2 F3) Hiv Hivb Hd) as Hmain.
    rewrite <- Hdec in Hmain. unfold c06_decrypt_string. unfold c06_string_dec in Hmain.
    destruct (c06_where_decrypts w); exact Hmain.
  - pose proof (c06_stream_dec_iso c key st s m Hwf Hst Hex Em) as Hdec.
    destruct (c06_iso_stream_fits c s m Hwf Em) as [F2 F3].
    pose proof (c06_decrypt_with_dec st (c6_R c) m (c6l_num l) (c6l_gen l) (c6l_iv l) (c6l_data l)
                  (c06_method_ok_of c key st m Hst Hkf F2 F3) Hiv Hivb Hd) as Hmain.
    rewrite <- Hdec in Hmain. unfold c06_decrypt_stream. unfold c06_stream_dec in Hmain.
    destruct (c6d_xref s); exact Hmain.
Qed.

(* ... and a whole document, given as the list of its strings and streams with their contexts *)
Lemma decrypt_of_reference_encrypt_data_lemma : forall c key st leaves enc,
  c06_wf_cfg c -> c06_state_for c key st -> c06_key_fits c key -> Forall c06_leaf_wf leaves ->
  map (c06_iso_encrypt_leaf c key) leaves = map Some enc ->
  map (c06_decrypt_leaf st) enc = map (fun l => C6LeafOk (c6l_data l) false) leaves.
Proof.
  intros c key st leaves. induction leaves as [|l t IH]; intros enc Hwf Hst Hkf HF H.
  - destruct enc; [reflexivity|discriminate].
  - destruct enc as [|e et]; [discriminate|]. cbn [map] in *. inversion H. inversion HF; subst.
    f_equal.
    + apply (c06_decrypt_encrypt_leaf c key st l e); assumption.
    + apply IH; assumption.
Qed.

(* the reference encryptor never fails on a well-formed choice whose crypt filter names resolve: every leaf gets a method *)
Print Assumptions decrypt_of_reference_encrypt_data_lemma.
Print Assumptions method_selection_string_partial_lemma.
Print Assumptions method_selection_stream_partial_lemma.
