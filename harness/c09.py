# C09 - output is deterministic and reaches a byte-identical fixpoint.
# Proof: Props/Properties_C09.v (non-interference of the explicit environment for static/deterministic ID and
# non-random IV; refutation for fresh V5 encryption = D10; numbering fixpoint of the object queue).
# Tie: paired real runs of the same command under perturbed environments must be byte-identical; generation 2
# and generation 3 must be byte-identical; the static ID / static IV bytes in real outputs equal the model's.
import os, shutil, subprocess, time
import common, filecheck, pdfgen

ASSUMPTIONS = [
    "dependence on locale, ASLR, pointer-keyed ordering or uninitialised memory cannot be exhibited by a Gallina function: only the paired runs observe them (partial, DESIGN §8)",
    "MD5 is a section variable in Sys/EnvModel.v (its model belongs to the crypto layer)",
    "perturbations that the sandbox does not offer (setarch -R, uninstalled locales) are skipped and listed in the evidence",
]

OPTION_SETS = [
    ["--deterministic-id"], ["--deterministic-id", "--object-streams=generate"], ["--deterministic-id", "--linearize"],
    ["--deterministic-id", "--qdf"], ["--deterministic-id", "--object-streams=disable", "--stream-data=uncompress"],
    ["--static-id", "--static-aes-iv", "--linearize", "--object-streams=generate"],
    ["--static-id", "--static-aes-iv", "--allow-weak-crypto", "--encrypt", "--user-password=u", "--owner-password=o", "--bits=128", "--use-aes=y", "--"],
    ["--static-id", "--static-aes-iv", "--allow-weak-crypto", "--encrypt", "--user-password=u", "--owner-password=o", "--bits=128", "--use-aes=n", "--"],
    ["--static-id", "--static-aes-iv", "--allow-weak-crypto", "--encrypt", "--user-password=u", "--owner-password=o", "--bits=40", "--", "--linearize"],
    ["--static-id", "--static-aes-iv", "--encrypt", "--user-password=u", "--owner-password=o", "--bits=256", "--"],      # D10
]


# Random content-preserving option sets (DESIGN §5 C09, extension): the property quantifies over "any option set".  The
# grammar below was explored on the unchanged tree (≈1 900 (input, option set) jobs over generated documents and the
# repository corpus): every completed job reaches its fixpoint at generation 2 except two families that lag or never
# settle BY CONSTRUCTION and are kept out of the quick tier and classified in the thorough tier:
#   * --qdf without --no-original-object-ids when generation 1 and 2 number the objects differently (object streams
#     generated, or encryption added): the '%% Original object ID' comments of generation 2 name generation 1's numbers,
#     those of generation 3 name generation 2's; generation 3 = generation 4 (known finding C09:qdf-original-id-lag);
#   * --linearize together with an option that changes the document in generation 1 (R_TRANSFORM): the order of objects in
#     the linearization parts follows the numbering of the file being read, which settles one generation later (known
#     finding C09:transform-lag); likewise two such options together (QPDFJob applies them in a fixed order, e.g. --coalesce-contents
#     before --flatten-rotation, so generation 2 transforms again and the streams it creates get their keys sorted only in generation 3);
#   * --linearize with content normalisation (--normalize-content=y or --qdf) when the file being rewritten is encrypted:
#     generations 1, 2, 3 are the same document but the file shrinks twice before it settles (known finding
#     C09:linearize-normalize-encrypted-lag; also on the tree as it was before any repair);
#   * --preserve-unreferenced: every generation keeps the previous generation's object streams, xref stream and
#     indirect /Length objects as unreferenced garbage and grows (known finding C09:preserve-unreferenced-accumulates).
R_OBJSTM = [["--object-streams=preserve"], ["--object-streams=disable"], ["--object-streams=generate"]]
R_DATA = [[], ["--stream-data=uncompress"], ["--stream-data=compress"], ["--stream-data=preserve"], ["--compress-streams=n"],
          ["--decode-level=all"], ["--decode-level=specialized"], ["--decode-level=none"], ["--recompress-flate"],
          ["--recompress-flate", "--compression-level=1"]]
R_EXTRA = [["--linearize"], ["--qdf"], ["--normalize-content=y"], ["--coalesce-contents"], ["--newline-before-endstream"],
           ["--remove-unreferenced-resources=yes"], ["--min-version=1.7"], ["--force-version=1.4"], ["--externalize-inline-images"],
           ["--flatten-annotations=all"], ["--generate-appearances"], ["--remove-page-labels"], ["--flatten-rotation"],
           ["--preserve-unreferenced-resources"], ["--remove-restrictions"], ["--remove-info"], ["--remove-metadata"],
           ["--remove-structure"]]
R_TRANSFORM = ("--flatten-rotation", "--coalesce-contents", "--flatten-annotations=all", "--externalize-inline-images", "--generate-appearances")
R_ENC = [[], [], [], ["--allow-weak-crypto", "--encrypt", "--user-password=u", "--owner-password=o", "--bits=128", "--use-aes=n", "--"],
         ["--allow-weak-crypto", "--encrypt", "--user-password=u", "--owner-password=o", "--bits=40", "--"],
         ["--allow-weak-crypto", "--encrypt", "--user-password=u", "--owner-password=o", "--bits=128", "--use-aes=y", "--cleartext-metadata", "--"]]


def random_option_set(rng, lagging=False):
    """one option set of the grammar; lagging=True adds the two families that are known not to settle at generation 2"""
    enc = rng.choice(R_ENC)
    o = ["--static-aes-iv", "--static-id" if (enc or rng.random() < 0.5) else "--deterministic-id"]
    o += rng.choice(R_OBJSTM) + rng.choice(R_DATA)
    for e in rng.sample(R_EXTRA, rng.choice([0, 1, 1, 2, 3])):
        o += [x for x in e if x not in o]
    if lagging:
        r = rng.random()
        if r < 0.4:
            o.append("--preserve-unreferenced")
        elif r < 0.7:
            if "--qdf" not in o:
                o.append("--qdf")
        elif r < 0.85:
            o += [x for x in (rng.choice(["--linearize", rng.choice(R_TRANSFORM)]), rng.choice(R_TRANSFORM)) if x not in o]
            o = [x for x in o if x != "--qdf"]
        else:
            o += [x for x in ("--linearize", "--normalize-content=y") if x not in o]
            o = [x for x in o if x != "--qdf"]
            if not enc:
                enc = R_ENC[3]
    else:
        if "--qdf" in o:
            o.append("--no-original-object-ids")
        tr = [x for x in o if x in R_TRANSFORM]
        if "--linearize" in o:
            # (content normalisation - explicit or through --qdf - of a linearized rewrite of an ENCRYPTED file lags too:
            # known finding C09:linearize-normalize-encrypted-lag, thorough tier only)
            o = [x for x in o if x not in R_TRANSFORM and x not in ("--normalize-content=y", "--qdf", "--no-original-object-ids")]
        elif len(tr) > 1:
            o = [x for x in o if x not in tr[1:]]
    return o + enc


def is_v5(opts):
    return "--bits=256" in opts


def run(chk):
    rng = chk.rng
    quick = chk.tier == "quick"
    runner = os.path.join(common.EXTRACT, "model_runner")
    drv = os.path.join(common.DRV, "drv")
    wd = common.workdir("C09")
    chk.cov["rule"] = ("(input, option set, environment perturbation) triples: the same qpdf command run under TZ / LC_ALL / cwd / output path / ASLR / "
                       "wall-clock / crypto provider / memory-vs-file I/O perturbations must give identical bytes; generation 2 = generation 3; "
                       "non-trivial = a pair of completed runs, distinct by (input, options, perturbation)")
    inputs = []
    for name, data, doc in filecheck.gen_docs(rng, 4 if quick else 25):
        p = os.path.join(wd, name + ".pdf")
        open(p, "wb").write(data)
        inputs.append(p)
    cf = [f for f in filecheck.corpus_files() if os.path.getsize(f) <= 80000]
    inputs += rng.sample(cf, 8 if quick else 150)
    encrypted_inputs = set(i for i in inputs if common.run_qpdf(["--is-encrypted", i])[0] == 0)
    have_setarch = shutil.which("setarch") is not None and subprocess.run(["setarch", "-R", "true"], capture_output=True).returncode == 0
    locales = subprocess.run(["locale", "-a"], capture_output=True).stdout.decode().split()
    alt_locale = next((l for l in locales if l.lower().startswith(("de_de", "fr_fr", "tr_tr", "en_us"))), None)
    perts = [("TZ", {"TZ": "Pacific/Kiritimati"}, None), ("cwd+outname", {}, "cwd"), ("provider-native", {"QPDF_CRYPTO_PROVIDER": "native"}, None),
             ("provider-openssl", {"QPDF_CRYPTO_PROVIDER": "openssl"}, None), ("provider-gnutls", {"QPDF_CRYPTO_PROVIDER": "gnutls"}, None),
             ("stdout", {}, "stdout"), ("later", {}, "sleep")]
    skipped = []
    if alt_locale:
        perts.append(("LC_ALL=" + alt_locale, {"LC_ALL": alt_locale}, None))
    else:
        skipped.append("alternative locale (none installed)")
    if have_setarch:
        perts.append(("no-ASLR", {}, "setarch"))
    else:
        skipped.append("setarch -R (not available)")
    os.makedirs(os.path.join(wd, "other dir"), exist_ok=True)

    jobs = []
    for ip, inp in enumerate(inputs):
        sets = OPTION_SETS if not quick else rng.sample(OPTION_SETS[:-1], 3) + [OPTION_SETS[-1]] * (1 if ip < 2 else 0)
        for oi, opts in enumerate(sets):
            jobs.append((inp, opts, ip * 100 + oi))
    for k in range(12 if quick else 300):
        jobs.append((rng.choice(inputs), random_option_set(rng), 100000 + k))

    def one(job):
        inp, opts, jid = job
        if "--deterministic-id" in opts and inp in encrypted_inputs:
            return job, 2, None, []
        base = os.path.join(wd, "b%d.pdf" % jid)
        rc0, so, se = common.run_qpdf(opts + [inp, base])
        if rc0 not in (0, 3):
            return job, rc0, None, []
        ref = open(base, "rb").read()
        diffs = []
        use = perts if not quick else rng.sample(perts, 4)
        for pname, env, special in use:
            out = os.path.join(wd, "p%d-%s.pdf" % (jid, pname.replace("/", "_").replace("=", "_")))
            args = opts + [inp, out]
            cwd = None
            exe = None
            if special == "cwd":
                out = os.path.join(wd, "other dir", "renamed %d.pdf" % jid)
                args = opts + [inp, os.path.basename(out)]
                cwd = os.path.join(wd, "other dir")
            if special == "sleep":
                time.sleep(1.1)
            if special == "stdout":
                rc, so, se = common.run_qpdf(opts + [inp, "-"], env=env)
                got = so
            elif special == "setarch":
                p = subprocess.run(["setarch", "-R", common.QPDF] + args, capture_output=True)
                rc = p.returncode
                got = open(out, "rb").read() if os.path.exists(out) else b""
            else:
                rc, so, se = common.run_qpdf(args, env=env, cwd=cwd)
                got = open(out, "rb").read() if os.path.exists(out) else b""
            if rc != rc0 or got != ref:
                first = next((i for i, (x, y) in enumerate(zip(got, ref)) if x != y), min(len(got), len(ref)))
                diffs.append((pname, rc, len(got), first))
        return job, rc0, ref, diffs
    results = common.par_map(one, jobs, workers=8)
    nontriv = set()
    static_id_hex, static_iv_hex = common.run_lines(runner, ["envmodel static_id", "envmodel static_iv"])
    tie = []
    for (inp, opts, jid), rc0, ref, diffs in results:
        if ref is None:
            continue
        for pname, rc, n, first in diffs:
            chk.violation({"kind": "property-fails-on-implementation", "why": "output bytes depend on the environment", "input": inp,
                           "argv": ["qpdf"] + opts + [inp, "out.pdf"], "perturbation": pname, "baseline_exit": rc0, "perturbed_exit": rc,
                           "first_difference_at": first, "sizes": [len(ref), n]},
                          signature="C09:encrypt-256-random-key" if is_v5(opts) else "env:%s" % pname)
        nontriv.add((inp, " ".join(opts)))
        # model tie: static ID bytes, static IV bytes
        if "--static-id" in opts and static_id_hex.encode() not in ref.lower().replace(b"\n", b"") and bytes.fromhex(static_id_hex) not in ref:
            tie.append({"input": inp, "opts": opts, "difference": "static /ID bytes of the model not found in the output"})
        if "--static-aes-iv" in opts and ("--use-aes=y" in opts or "--bits=256" in opts) \
                and b"endstream" in ref and (b"/AESV2" in ref or b"/AESV3" in ref) and bytes.fromhex(static_iv_hex) not in ref:
            # (--force-version below the scheme's minimum makes qpdf drop the encryption: then there is no IV to find)
            # (an output without any stream has no place where the raw IV bytes must appear: strings may be re-spelt)
            tie.append({"input": inp, "opts": opts, "difference": "static AES IV bytes of the model not found in the output"})
    chk.count("perturbed-pairs", sum(4 if quick else len(perts) for _ in results), nontriv,
              samples=[{"input": os.path.basename(results[0][0][0]), "opts": results[0][0][1]}])
    chk.cov["parts"]["perturbed-pairs"]["perturbations"] = [p[0] for p in perts]
    chk.cov["parts"]["perturbed-pairs"]["skipped_perturbations"] = skipped

    # ---- memory vs file I/O through the API
    mem_lines, mem_meta = [], []
    for k, inp in enumerate(inputs[: (6 if quick else 60)]):
        for flags in ("det", "det,gen", "det,lin", "static,qdf", "det,dis,nocompress"):
            outs = []
            for im in ("file", "mem"):
                for om in ("file", "mem"):
                    o = os.path.join(wd, "m%d-%s-%s-%s.pdf" % (k, flags.replace(",", "_"), im, om))
                    mem_lines.append("rewrite_mem %s %s %s %s %s" % (inp.replace(" ", "\\ "), im, om, o, flags))
                    outs.append(o)
            mem_meta.append((inp, flags, outs))
    mem_res = common.run_lines(drv, mem_lines, shards=4)
    it = iter(mem_res)
    n_mem = 0
    for inp, flags, outs in mem_meta:
        rs = [next(it) for _ in outs]
        if not all(r.startswith("ok") for r in rs):
            continue
        datas = [open(o, "rb").read() for o in outs]
        n_mem += 1
        if any(d != datas[0] for d in datas):
            chk.violation({"kind": "property-fails-on-implementation", "why": "output differs between file and memory input/output", "input": inp,
                           "writer_flags": flags, "sizes": [len(d) for d in datas]}, signature="memio")
    chk.count("memory-vs-file", len(mem_lines), set((m[0], m[1]) for m in mem_meta), samples=[{"case": mem_lines[0]}] if mem_lines else [])

    # ---- memory vs file input on DAMAGED files whose xref table must be reconstructed, in every end-of-line convention
    # (LF, CR LF, bare CR, mixed): the recovery code walks the file line by line through the InputSource, and the buffer and
    # the file implementation of findAndSkipNextEOL must agree
    def eol_variants(data):
        body = data
        out = {"lf": body, "crlf": body.replace(b"\n", b"\r\n"), "cr": body.replace(b"\n", b"\r")}
        lines = body.split(b"\n")
        out["mixed"] = b"".join(l + (b"\r" if i % 3 == 0 else b"\n" if i % 3 == 1 else b"\r\n") for i, l in enumerate(lines))
        return out
    dmg_lines, dmg_meta = [], []
    ddocs = [pdfgen.page_doc(3, marker="D", kids_levels=1), pdfgen.page_doc(5, marker="E", kids_levels=2, rotate={2: 90})]
    for di, dd in enumerate(ddocs):
        raw = pdfgen.write_classic(dd)[0]
        for ename, ev in eol_variants(raw).items():
            # damage the bookkeeping only: startxref points nowhere, so reconstruct_xref scans the file
            i = ev.rfind(b"startxref")
            dmg = ev[:i] + b"startxref" + (b"\r" if ename == "cr" else b"\n") + b"7" + ev[i + 9 + 1:].lstrip(b"0123456789")
            dp = os.path.join(wd, "dmg%d-%s.pdf" % (di, ename))
            open(dp, "wb").write(dmg)
            for flags in ("static", "static,qdf"):
                outs = []
                for im in ("file", "mem"):
                    o = os.path.join(wd, "dm%d-%s-%s-%s.pdf" % (di, ename, flags.replace(",", "_"), im))
                    dmg_lines.append("rewrite_mem %s %s file %s %s" % (dp, im, o, flags))
                    outs.append(o)
                dmg_meta.append((dp, flags, outs))
    dres = common.run_lines(drv, dmg_lines, shards=4)
    dit = iter(dres)
    n_dmg = set()
    for dp, flags, outs in dmg_meta:
        rs = [next(dit) for _ in outs]
        if all(r.startswith("ok") for r in rs):
            datas = [open(o, "rb").read() for o in outs]
            n_dmg.add((dp, flags))
            same = datas[0] == datas[1]
        else:
            # both must fail alike (an exception text is part of the observable result)
            same = rs[0] == rs[1]
            datas = [b"", b""]
        if not same:
            chk.violation({"kind": "property-fails-on-implementation", "why": "a damaged input is recovered differently from a named file and from a memory buffer",
                           "input": dp, "writer_flags": flags, "results": [r[:120] for r in rs], "sizes": [len(d) for d in datas]}, signature="memio-damaged")
    chk.count("memory-vs-file-damaged-eol", len(dmg_lines), n_dmg, samples=[{"case": dmg_lines[0]}])

    # ---- one QPDF object written twice: the second write must give the bytes a freshly opened document gives with the same
    # options (the writer must not leave traces of the first write - version extensions, encryption, filters - in the document)
    tw_lines, tw_meta = [], []
    firsts = ["static,enc256", "static,minver", "static,lin,enc256", "static,gen", "static,qdf", "static,enc128", "static,force14", "static,lin", "static,uncompress", "static,norm,qdf"]
    seconds = ["static", "static,lin", "static,qdf", "static,gen", "static,dis,nocompress"]
    tw_inputs = inputs[: (5 if quick else 40)]
    for k, inp in enumerate(tw_inputs):
        if inp in encrypted_inputs:
            continue
        for fi, f1 in enumerate(firsts if not quick else rng.sample(firsts, 4)):
            f2 = seconds[(k + fi) % len(seconds)]
            o1 = os.path.join(wd, "tw%d-%d-first.pdf" % (k, fi))
            o2 = os.path.join(wd, "tw%d-%d-second.pdf" % (k, fi))
            of = os.path.join(wd, "tw%d-%d-fresh.pdf" % (k, fi))
            tw_lines.append("rewrite_twice %s file %s %s %s %s" % (inp.replace(" ", "\\ "), o1, f1, o2, f2))
            tw_lines.append("rewrite_twice %s file %s %s" % (inp.replace(" ", "\\ "), of, f2))
            op = os.path.join(wd, "tw%d-%d-freshpush.pdf" % (k, fi))
            tw_lines.append("rewrite_twice %s file %s %s,pushfirst" % (inp.replace(" ", "\\ "), op, f2))
            tw_meta.append((inp, f1, f2, o2, of, op))
    tres = common.run_lines(drv, tw_lines, shards=4)
    tit = iter(tres)
    tw_nt = set()
    for inp, f1, f2, o2, of, op in tw_meta:
        r1, r2, r3 = next(tit), next(tit), next(tit)
        if not (r1.startswith("ok") and r2.startswith("ok")):
            continue
        tw_nt.add((inp, f1, f2))
        d2, df = open(o2, "rb").read(), open(of, "rb").read()
        if d2 != df:
            first = next((i for i, (x, y) in enumerate(zip(d2, df)) if x != y), min(len(d2), len(df)))
            chk.violation({"kind": "property-fails-on-implementation", "why": "the second write of one QPDF object differs from the write of a freshly opened document with the same options",
                           "input": inp, "first_write_flags": f1, "second_write_flags": f2, "first_difference_at": first, "sizes": [len(d2), len(df)],
                           "second": d2[max(0, first - 40):first + 40].decode("latin-1"), "fresh": df[max(0, first - 40):first + 40].decode("latin-1")},
                          signature="C09:write-twice-after-linearize" if ("lin" in f1.split(",") and r3.startswith("ok") and d2 == open(op, "rb").read()) else
                          "C09:write-twice-extensions" if b"/Extensions" in open(inp, "rb").read() else
                          "write-twice:%s" % ("extensions" if b"/Extensions" in d2[max(0, first - 200):first + 200] + df[max(0, first - 200):first + 200] else "other"))
    chk.count("write-twice", len(tw_lines), tw_nt, samples=[{"case": tw_lines[0]}] if tw_lines else [])

    # ---- host locale: the same job in-process under the classic global C++ locale and under one with a decimal comma and
    # digit grouping (std::locale::global of a host application); jobs that make qpdf print real numbers it computed
    ldoc = pdfgen.page_doc(3, marker="L", rotate={1: 90, 2: 270, 3: 180}, mediabox={1: [0, 0, pdfgen.Real("1200.5"), pdfgen.Real("2300.25")], 2: [10, 20, 3000, 4000]})
    lp = os.path.join(wd, "locale-in.pdf")
    open(lp, "wb").write(pdfgen.write_classic(ldoc)[0])
    ljobs = [["--static-id", "--flatten-rotation"], ["--static-id", "--overlay", lp, "--to=1-z", "--"],
             ["--static-id", "--flatten-rotation", "--object-streams=generate"], ["--static-id", "--qdf", "--flatten-rotation"]]
    llines, lmeta = [], []
    for ji, job in enumerate(ljobs):
        outs = []
        for mode in ("classic", "comma"):
            o = os.path.join(wd, "loc%d-%s.pdf" % (ji, mode))
            llines.append("job_locale %s %s %s %s" % (mode, " ".join(job), lp, o))
            outs.append(o)
        lmeta.append((job, outs))
    lres = common.run_lines(drv, llines)
    lit = iter(lres)
    for job, outs in lmeta:
        r1, r2 = next(lit), next(lit)
        if not (r1.startswith("ok") and r2.startswith("ok")):
            tie.append({"input": lp, "opts": job, "difference": "in-process job did not run: %s / %s" % (r1[:80], r2[:80])})
            continue
        d1, d2 = open(outs[0], "rb").read(), open(outs[1], "rb").read()
        if d1 != d2:
            first = next((i for i, (x, y) in enumerate(zip(d1, d2)) if x != y), min(len(d1), len(d2)))
            chk.violation({"kind": "property-fails-on-implementation", "why": "output bytes depend on the global C++ locale of the host process",
                           "input": lp, "argv": ["qpdf"] + job + ["locale-in.pdf", "out.pdf"], "first_difference_at": first,
                           "classic": d1[max(0, first - 30):first + 30].decode("latin-1"), "comma_locale": d2[max(0, first - 30):first + 30].decode("latin-1")},
                          signature="env:host-locale")
    chk.count("host-locale", len(llines), set(" ".join(j) for j, _ in lmeta), samples=[{"case": llines[0]}])

    # ---- fixpoint: generation 2 == generation 3
    fp_jobs = []
    for ip, inp in enumerate(inputs):
        for oi, opts in enumerate(OPTION_SETS[:9]):
            fp_jobs.append((inp, opts, ip * 100 + oi))
    for k in range(60 if quick else 1500):
        fp_jobs.append((rng.choice(inputs), random_option_set(rng), 200000 + k))
    # transformations on documents on which they really act: rotations own and inherited (second /Pages level carries /Rotate 90
    # and its own /MediaBox), every /MediaBox inherited - the shape behind the fixed finding C09-flatten-rotation-inherited
    tdoc = pdfgen.page_doc(8, marker="T", kids_levels=2, rotate={1: 90, 2: 270, 3: 180, 7: 90})
    tp = os.path.join(wd, "transform-in.pdf")
    open(tp, "wb").write(pdfgen.write_classic(tdoc)[0])
    for oi, topts in enumerate([["--flatten-rotation"], ["--flatten-rotation", "--object-streams=generate"],
                                ["--flatten-rotation", "--qdf", "--no-original-object-ids"], ["--coalesce-contents", "--object-streams=disable"],
                                ["--flatten-rotation", "--linearize"]]
                               + ([] if quick else [["--linearize", "--object-streams=generate", "--flatten-rotation", "--coalesce-contents"],
                                                    ["--flatten-rotation", "--coalesce-contents", "--object-streams=disable", "--linearize"],
                                                    ["--flatten-rotation", "--coalesce-contents"]])):
        fp_jobs.append((tp, ["--static-id"] + topts, 400000 + oi))
    if not quick:
        for k in range(200):
            fp_jobs.append((rng.choice(inputs), random_option_set(rng, lagging=True), 300000 + k))

    def fix(job):
        inp, opts, jid = job
        g = [inp] + [os.path.join(wd, "g%d-%d.pdf" % (jid, k)) for k in (1, 2, 3)]
        pw = ["--password=o"] if "--encrypt" in opts else []
        o2 = [o for o in opts]
        if "--encrypt" in opts:
            # later generations keep the encryption of generation 1 (preserved), as a user re-running qpdf would
            i, j = opts.index("--encrypt"), opts.index("--")
            o2 = opts[:i] + opts[j + 1:]
        rcs = []
        for k in range(3):
            rc, so, se = common.run_qpdf((opts if k == 0 else pw + o2) + [g[k], g[k + 1]])
            rcs.append(rc)
            if rc not in (0, 3):
                return job, rcs, None
        return job, rcs, (open(g[2], "rb").read() == open(g[3], "rb").read())
    n_fp = 0
    fp_nt = set()
    for (inp, opts, jid), rcs, same in common.par_map(fix, fp_jobs, workers=8):
        if same is None:
            continue
        n_fp += 1
        fp_nt.add((inp, " ".join(opts)))
        if not same:
            sig = "fixpoint"
            pw = ["--password=o"] if "--encrypt" in opts else []
            o2 = list(opts)
            if "--encrypt" in opts:
                i, j = opts.index("--encrypt"), opts.index("--")
                o2 = opts[:i] + opts[j + 1:]
            g23 = [os.path.join(wd, "g%d-%d.pdf" % (jid, k)) for k in (2, 3)]
            if "--preserve-unreferenced" in opts:
                # explained iff the two generations differ in unreferenced objects only: the same plain rewrite (which drops
                # them) of generation 2 and of generation 3 is byte-identical
                n = [os.path.join(wd, "g%d-n%d.pdf" % (jid, k)) for k in (2, 3)]
                rcs2 = [common.run_qpdf(pw + ["--static-id", "--static-aes-iv", x, y])[0] for x, y in zip(g23, n)]
                if all(r in (0, 3) for r in rcs2) and open(n[0], "rb").read() == open(n[1], "rb").read() \
                        and os.path.getsize(g23[1]) >= os.path.getsize(g23[0]):
                    sig = "C09:preserve-unreferenced-accumulates"
            elif "--qdf" in opts and "--no-original-object-ids" not in opts:
                # explained iff generation 3 = generation 4 and generations 2 and 3 differ in the original-object-ID comments only:
                # the same rewrite without those comments is byte-identical
                g4 = os.path.join(wd, "g%d-4.pdf" % jid)
                rc4 = common.run_qpdf(pw + o2 + [g23[1], g4])[0]
                n = [os.path.join(wd, "g%d-n%d.pdf" % (jid, k)) for k in (2, 3)]
                rcs2 = [common.run_qpdf(pw + o2 + ["--no-original-object-ids", x, y])[0] for x, y in zip(g23, n)]
                if rc4 in (0, 3) and open(g4, "rb").read() == open(g23[1], "rb").read() and all(r in (0, 3) for r in rcs2) \
                        and open(n[0], "rb").read() == open(n[1], "rb").read():
                    sig = "C09:qdf-original-id-lag"
            elif any(t in opts for t in R_TRANSFORM) and ("--linearize" in opts or sum(1 for t in R_TRANSFORM if t in opts) > 1):
                # generation 1 CHANGES the document (new content streams get the highest object numbers of the input); the order of
                # objects inside the parts of a linearized file and inside generated object streams follows the INPUT's numbering,
                # which therefore settles one generation later; and with two transformations QPDFJob applies them in a fixed order
                # (--coalesce-contents before --flatten-rotation), so generation 2 transforms once more and the streams it creates
                # are written with /Length before /Filter, sorted only by the next generation: explained iff generation 3 = generation 4 and generations 2 and 3
                # are the same document (identical QDF form without original-object-ID comments)
                g4 = os.path.join(wd, "g%d-4.pdf" % jid)
                rc4 = common.run_qpdf(pw + o2 + [g23[1], g4])[0]
                q = [common.run_qpdf(pw + ["--static-id", "--static-aes-iv", "--qdf", "--no-original-object-ids", x, "-"])[1] for x in g23]
                ok = rc4 in (0, 3) and open(g4, "rb").read() == open(g23[1], "rb").read() and q[0] and q[0] == q[1]
                if ok and sum(1 for t in R_TRANSFORM if t in opts) == 1:
                    # one transformation only: generation 1 must already have done ALL of it (generation 1 is the same document too)
                    q1 = common.run_qpdf(pw + ["--static-id", "--static-aes-iv", "--qdf", "--no-original-object-ids", os.path.join(wd, "g%d-1.pdf" % jid), "-"])[1]
                    ok = q1 == q[0]
                if ok:
                    sig = "C09:transform-lag"
            elif "--linearize" in opts and ("--normalize-content=y" in opts or "--qdf" in opts) and (pw or inp in encrypted_inputs):
                # explained iff generation 3 = generation 4 and generations 1, 2 and 3 are the same document (identical decrypted QDF forms)
                g4 = os.path.join(wd, "g%d-4.pdf" % jid)
                rc4 = common.run_qpdf(pw + o2 + [g23[1], g4])[0]
                q = [common.run_qpdf(pw + ["--static-id", "--static-aes-iv", "--decrypt", "--qdf", "--no-original-object-ids", x, "-"])[1]
                     for x in [os.path.join(wd, "g%d-1.pdf" % jid)] + g23]
                if rc4 in (0, 3) and open(g4, "rb").read() == open(g23[1], "rb").read() and q[0] and q[0] == q[1] == q[2]:
                    sig = "C09:linearize-normalize-encrypted-lag"
            if sig == "fixpoint" and ("--use-aes=y" in opts or "--bits=256" in opts):
                # D16: an EMPTY stream of an AES-encrypted input has raw /Length 32, is not recognised as empty by the writer's
                # "do not compress empty streams" rule and gains /Filter /FlateDecode in generation 2 (appended) whose position in the
                # dictionary changes in generation 3: generations 3 and 4 are identical. Recognised by: the decrypted, uncompressed
                # QDF forms of generation 2 and 3 are identical, and generation 3 = generation 4.
                g = [os.path.join(wd, "g%d-%d.pdf" % (jid, k)) for k in (2, 3)]
                q = [common.run_qpdf(["--password=o", "--static-id", "--qdf", "--stream-data=uncompress", "--decrypt", x, "-"])[1] for x in g]
                g4 = os.path.join(wd, "g%d-4.pdf" % jid)
                i, j = opts.index("--encrypt"), opts.index("--")
                o2 = opts[:i] + opts[j + 1:]
                common.run_qpdf(["--password=o"] + o2 + [g[1], g4])
                if q[0] == q[1] and q[0] and os.path.exists(g4) and open(g4, "rb").read() == open(g[1], "rb").read():
                    sig = "C09:aes-empty-stream-gen2"
            chk.violation({"kind": "property-fails-on-implementation", "why": "generation 2 and generation 3 differ", "input": inp,
                           "argv": ["qpdf"] + opts, "exits": rcs}, signature=sig)
    chk.count("fixpoint-gen2-gen3", n_fp, fp_nt, samples=[{"input": os.path.basename(fp_jobs[0][0]), "opts": fp_jobs[0][1]}])
    # ---- three generations of the plain static-id writer: real qpdf vs the extracted model pipeline (write_doc, fx_doc_of_file),
    # byte for byte (harness/c09fix.py; theorems gen2_eq_gen3_plain, gen1_eq_gen2_plain in coq/Sys/C09ProofsB.v)
    import c09fix
    c09fix.run_part(chk, wd, runner)
    if tie:
        chk.violation({"kind": "correspondence-broken", "correspondence": "corr:C09:static-id-iv", "differing_cases": len(tie), "first_cases": tie[:3]}, no_input=True)


def replay(chk, rep):
    import json
    print(json.dumps(rep, indent=1)[:3000])
    return 0
