(* C12 (extension) - specification side of unreferenced-resource removal (ISO 32000-1 7.8.3, 8.10.1; qpdf manual,
   --remove-unreferenced-resources): a name that the content of a page uses, or that the content of a form XObject painted
   from the page uses, must still resolve afterwards.  A form XObject without its own /Resources dictionary takes its
   resources from the page on which it is painted (7.8.3, Table 95 /Resources: "... in PDF 1.1 and earlier, all named resources
   used in the form XObject shall be included in the resource dictionary of each page object on which the form XObject
   appears").  Shares only the node type with the model. *)
From QV Require Import Base.Bytes Struct.ResPrune.
From Coq Require Import List NArith Bool.
Import ListNotations.
Local Open Scope N_scope.

(* a form and the forms painted from it through forms that have their own resources: an entry of its /XObject dictionary
   is painted when the content applies Do to its key *)
Fixpoint rpns_painted (n : rpn_node) : list rpn_node :=
  n :: (if rpn_hasres n then
          flat_map (fun kc => match kc with
                              | (k, c) => if rpn_isform c && existsb (fun u => (fst u =? k) && (snd u =? 1)) (rpn_uses n)
                                          then rpns_painted c else []
                              end) (rpn_xobjs n)
        else []).

(* the names the page's own /Font and /XObject dictionaries must keep: those its content uses with any resource operator, and
   those used with Tf or Do by a form without /Resources that can be painted on it.  Every form of the page's /XObject
   dictionary is counted as paintable (a superset of what the content paints: forms without /Resources resolve their own Do
   operands in the page's dictionary too). *)
Definition rpns_needed (p : rpn_node) : list N :=
  map fst (rpn_uses p) ++
  flat_map (fun m => if rpn_hasres m then [] else
                       map fst (filter (fun u => (snd u =? 0) || (snd u =? 1)) (rpn_uses m)))
           (flat_map (fun kc => if rpn_isform (snd kc) then rpns_painted (snd kc) else []) (rpn_xobjs p)).
