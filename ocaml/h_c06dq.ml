(* handlers for the C06 extension: the ISO crypt filter rule for arbitrary encryption dictionaries (Crypto/DqIso.v,
   specification) and the class of the recorded findings (Crypto/DqReader.v). Text <-> extracted types only. *)
open Qvmodel
open Runner

let () =
  (* dqcase <rdict 16> kind -> "<iso method | ?> <in finding class 0/1> <iso file method | ?>" *)
  register "dqcase" (fun args ->
    let (rd, rest) = H_c06.c6_take 16 args in
    match rest with
    | [kind] ->
      let d = H_c06.c6_rdict rd in
      let k = H_c06.c6_kind kind in
      let ms = function Some m -> H_c06.c6_cfm_str m | None -> "?" in
      ms (dq_case_iso d k) ^ " " ^ H_c06.c6_b01 (dq_case_class d k) ^ " " ^ ms (dq_case_file d)
    | _ -> "?args")
