(* C07 - the whole encoder: from the quantities of pass 1 (objects per page, lengths, shared identifiers, group
   lengths) through calculateHPageOffset / calculateHSharedObject (min, max, nbits, deltas) and the bit writer,
   the Annex F decoder recovers the computed tables; all inputs are C ints. *)
From QV Require Import Base.Bytes Filters.Filters Lin.HintTypes Lin.BitIO Lin.Hints Lin.AnnexF Lin.C07Roundtrip Lin.C07Proofs.
Local Open Scope N_scope.

Definition cpage_ok (nst : N) (p : lh_cpage) : Prop :=
  cpg_nobjects p < 2 ^ 31 /\ cpg_length p < 2 ^ 31 /\ N.of_nat (length (cpg_shared p)) < 2 ^ 31 /\ forall i, In i (cpg_shared p) -> i < nst.

Lemma calc_hpage_hp_fits : forall pages off nst,
  (forall p, In p pages -> cpage_ok nst p) -> nst < 2 ^ 31 -> off < 2 ^ 32 ->
  hp_fits (length pages) (calc_hpage pages off nst).
Proof.
  intros pages off nst Hall Hnst Hoff.
  assert (Hent : forall e, In e (hp_entries (calc_hpage pages off nst)) -> pe_fits (calc_hpage pages off nst) e).
  { intros e He.
    pose proof (calc_hpage_fits_lemma pages off nst e Hall Hnst He) as (A & B & C & D & E & F & G & _).
    unfold calc_hpage in He. cbn [hp_entries] in He. apply in_map_iff in He. destruct He as [p [Hp _]].
    unfold pe_fits. repeat split; try assumption.
    - rewrite <- Hp. cbn [pe_identifiers pe_nshared]. rewrite Nat2N.id. reflexivity.
    - rewrite <- Hp. cbn [pe_numerators pe_nshared]. rewrite repeat_length, Nat2N.id. reflexivity.
    - apply Forall_forall. exact E.
    - apply Forall_forall. exact F. }
  assert (Hmax : int_max < 2 ^ 32) by reflexivity.
  unfold hp_fits. split; [unfold calc_hpage; cbn [hp_entries]; apply map_length|].
  unfold calc_hpage at 1 2 3 4 5 6 7 8 9 10 11 12 13. cbn [hp_min_nobjects hp_first_page_offset hp_min_length hp_min_content_offset hp_min_content_length
    hp_denominator hp_bits_nobjects hp_bits_length hp_bits_content_offset hp_bits_content_length hp_bits_nshared hp_bits_identifier hp_bits_numerator].
  unfold lh_fold_min.
  pose proof (fold_min_le _ cpg_nobjects pages int_max). pose proof (fold_min_le _ cpg_length pages int_max).
  split; [lia|]. split; [exact Hoff|]. split; [lia|]. split; [reflexivity|]. split; [lia|]. split; [reflexivity|].
  split; [apply (nbits_fuel_le 32)|]. split; [apply (nbits_fuel_le 32)|]. split; [discriminate|].
  split; [apply (nbits_fuel_le 32)|]. split; [apply (nbits_fuel_le 32)|]. split; [apply (nbits_fuel_le 32)|].
  split; [discriminate|]. exact Hent.
Qed.

Lemma fold_min_plain_le : forall l init, fold_left N.min l init <= init.
Proof. intros l init. exact (fold_min_le N (fun x => x) l init). Qed.
Lemma fold_min_plain_In : forall l init x, In x l -> fold_left N.min l init <= x.
Proof. intros l init x H. exact (fold_min_In N (fun x => x) l init x H). Qed.
Lemma fold_max_plain_In : forall l init x, In x l -> x <= fold_left N.max l init.
Proof. intros l init x H. exact (fold_max_In N (fun x => x) l init x H). Qed.
Lemma fold_max_plain_lt : forall l init b, init < b -> (forall x, In x l -> x < b) -> fold_left N.max l init < b.
Proof. intros l init b H1 H2. exact (fold_max_lt N (fun x => x) l init b H1 H2). Qed.

Lemma calc_hshared_hs_fits : forall lens nfirst fo foff hs,
  calc_hshared lens nfirst fo foff = Some hs ->
  (forall l, In l lens -> l < 2 ^ 31) -> nfirst < 2 ^ 32 -> fo < 2 ^ 32 -> foff < 2 ^ 32 -> N.of_nat (length lens) < 2 ^ 32 ->
  hs_fits hs /\ hs_ntotal hs = N.of_nat (length lens).
Proof.
  intros lens nfirst fo foff hs Hc Hall Hnf Hfo Hfoff Hlen.
  unfold calc_hshared in Hc. destruct lens as [|l0 lens']; [discriminate|].
  assert (Hin0 : In l0 (l0 :: lens')) by (left; reflexivity).
  remember (l0 :: lens') as lens eqn:El. injection Hc as <-.
  set (mn := fold_left N.min lens l0). set (mx := fold_left N.max lens l0).
  assert (Hl0 : l0 < 2 ^ 31) by (apply Hall; exact Hin0).
  assert (Hmn : mn <= l0) by apply fold_min_plain_le.
  assert (Hmx : mx < 2 ^ 31) by (apply fold_max_plain_lt; assumption).
  assert (P31 : 2 ^ 31 < 2 ^ 32) by reflexivity.
  destruct (nbits_bound_lemma (mx - mn) ltac:(lia)) as [HB1 HB2].
  split; [|reflexivity].
  unfold hs_fits. cbn [hs_ntotal hs_entries hs_first_obj hs_first_offset hs_nfirst hs_min_length hs_bits_nobjects hs_bits_length].
  split; [rewrite map_length, Nat2N.id; reflexivity|].
  split; [destruct (_ <? _); lia|]. split; [destruct (_ <? _); lia|].
  split; [exact Hnf|]. split; [exact Hlen|]. split; [lia|]. split; [lia|]. split; [exact HB2|].
  intros e He. apply in_map_iff in He. destruct He as [l [<- Hl]]. cbn [se_length_delta se_signature se_nobjects_m1].
  pose proof (fold_min_plain_In lens l0 l Hl). pose proof (fold_max_plain_In lens l0 l Hl).
  fold mn in H. fold mx in H0. split; [lia|]. split; [reflexivity|]. cbn. lia.
Qed.

Lemma encoder_roundtrip_lemma : forall pages off lens nfirst fo foff ho data pS pO,
  (forall p, In p pages -> cpage_ok (N.of_nat (length lens)) p) -> off < 2 ^ 32 ->
  (forall l, In l lens -> l < 2 ^ 31) -> N.of_nat (length lens) < 2 ^ 31 -> nfirst < 2 ^ 32 -> fo < 2 ^ 32 -> foff < 2 ^ 32 ->
  hg_fits ho ->
  lh_encode pages off lens nfirst fo foff ho = Some (data, pS, pO) ->
  exists hs ends, calc_hshared lens nfirst fo foff = Some hs /\
    af_decode_hints (length pages) data pS (if 0 <? hg_nobjects ho then Some pO else None)
    = Some (calc_hpage pages off (hs_ntotal hs), hs, if 0 <? hg_nobjects ho then Some ho else None, ends).
Proof.
  intros pages off lens nfirst fo foff ho data pS pO Hp Hoff Hl Hn Hnf Hfo Hfoff Hg Henc.
  unfold lh_encode in Henc. destruct (calc_hshared lens nfirst fo foff) as [hs|] eqn:Ehs; [|discriminate].
  assert (P31 : 2 ^ 31 < 2 ^ 32) by reflexivity.
  destruct (calc_hshared_hs_fits lens nfirst fo foff hs Ehs Hl Hnf Hfo Hfoff ltac:(lia)) as [Hsf Hnt].
  assert (Hpf : hp_fits (length pages) (calc_hpage pages off (hs_ntotal hs))).
  { apply calc_hpage_hp_fits; [rewrite Hnt; exact Hp|rewrite Hnt; exact Hn|exact Hoff]. }
  destruct (hint_roundtrip_lemma _ _ _ _ _ _ _ Hpf Hsf Hg Henc) as [ends Hd].
  exists hs, ends. split; [reflexivity|exact Hd].
Qed.
