(* handlers for C06: the reference encryptor (Crypto/IsoEnc.v, specification) and the model of qpdf's
   reader-side decision logic (Crypto/DecReader.v). Text <-> extracted types only. *)
open Qvmodel
open Runner

let c6_n (s : string) : n = n_of_int (int_of_string s)
let c6_optbytes (s : string) : n list option = if s = "~" then None else Some (unhexbytes s)
let c6_optz (s : string) : z option = if s = "~" then None else Some (z_of_int (int_of_string s))
let c6_b01 (b : bool) : string = if b then "1" else "0"
let c6_split (c : char) (s : string) : string list = if s = "" || s = "-" then [] else String.split_on_char c s

let c6_cfm_of = function "0" -> C6None | "1" -> C6V2 | "2" -> C6AESV2 | "3" -> C6AESV3 | s -> failwith ("cfm " ^ s)
let c6_cfm_str = function C6None -> "0" | C6V2 -> "1" | C6AESV2 -> "2" | C6AESV3 -> "3"

(* cfg: V R keylen P em id cf stmf strf ; cf = name:method,... *)
let c6_cfg v r kl p em id cf stmf strf : c06_cfg =
  { c6_V = c6_n v; c6_R = c6_n r; c6_keylen = c6_n kl; c6_P = c6_n p; c6_encmeta = (em = "1"); c6_id = unhexbytes id;
    c6_cf = List.map (fun e -> match String.split_on_char ':' e with
                                | [n; m] -> (unhexbytes n, c6_cfm_of m) | _ -> failwith "cf") (c6_split ',' cf);
    c6_stmf = unhexbytes stmf; c6_strf = unhexbytes strf }

let c6_parm (s : string) : c06_parm =
  if s = "z" then C6PmNull else if s = "o" then C6PmOther
  else match String.split_on_char '.' s with
    | [t] -> C6PmDict (t = "d1", None)
    | [t; n] -> C6PmDict (t = "d1", Some (unhexbytes n))
    | _ -> failwith "parm"

let c6_filter (s : string) : c06_filter =
  if s = "-" then C6FlNone
  else if String.length s >= 2 && String.sub s 0 2 = "n." then C6FlName (unhexbytes (String.sub s 2 (String.length s - 2)))
  else if String.length s >= 2 && String.sub s 0 2 = "a." then
    C6FlArray (List.map (fun i -> if i = "x" then None else Some (unhexbytes i)) (c6_split ',' (String.sub s 2 (String.length s - 2))))
  else failwith "filter"

let c6_dparms (s : string) : c06_dparms =
  if String.length s >= 2 && String.sub s 0 2 = "1." then C6DpOne (c6_parm (String.sub s 2 (String.length s - 2)))
  else if String.length s >= 2 && String.sub s 0 2 = "a." then C6DpArray (List.map c6_parm (c6_split ',' (String.sub s 2 (String.length s - 2))))
  else failwith "dparms"

(* kind: s:o | s:m | s:t | s:g1 | s:g0 (signature /Contents, dictionary with / without /Type /Sig) | t:<xref01><meta01>:<filter>:<dparms> *)
let c6_kind (s : string) : c06_kind =
  match String.split_on_char ':' s with
  | ["s"; "o"] -> C6String C6InObject
  | ["s"; "m"] -> C6String C6InObjStm
  | ["s"; "t"] -> C6String C6InTrailer
  | ["s"; "g1"] -> C6String (C6InSigContents true)
  | ["s"; "g0"] -> C6String (C6InSigContents false)
  | ["t"; fl; f; d] ->
    C6Stream { c6d_xref = (fl.[0] = '1'); c6d_filter = c6_filter f; c6d_dparms = c6_dparms d; c6d_rootmeta = (fl.[1] = '1') }
  | _ -> failwith "kind"

let c6_leaf kind num gen iv data : c06_leaf =
  { c6l_kind = c6_kind kind; c6l_num = c6_n num; c6l_gen = c6_n gen; c6l_iv = unhexbytes iv; c6l_data = unhexbytes data }

let c6_method_of = function "n" -> C6eNone | "u" -> C6eUnknown | "r" -> C6eRc4 | "a" -> C6eAes | "3" -> C6eAesv3 | s -> failwith ("method " ^ s)
let c6_method_str = function C6eNone -> "n" | C6eUnknown -> "u" | C6eRc4 -> "r" | C6eAes -> "a" | C6eAesv3 -> "3"

let c6_warn_str = function
  | C6WInvalidID -> "id" | C6WSubFilter -> "subfilter" | C6WPerms -> "perms" | C6WUnknownStrF -> "strf" | C6WUnknownStmF -> "stmf"
let c6_warns ws = if ws = [] then "-" else String.concat "," (List.map c6_warn_str ws)
let c6_err_str = function C6EPassword -> "password" | C6EUnsupported -> "unsupported" | C6EDamaged -> "damaged"

(* rdict: filter subfilter V R O U P OE UE Perms Length EM CF StmF StrF EFF   (~ = absent)
   CF = name:! (not a dictionary) | name:~ (no /CFM name) | name:cfmhex *)
let c6_rdict = function
  | [f; sf; v; r; o; u; p; oe; ue; pm; l; em; cf; stm; str; eff] ->
    { c6r_filter = c6_optbytes f; c6r_subfilter = (sf = "1"); c6r_V = c6_optz v; c6r_R = c6_optz r; c6r_O = c6_optbytes o;
      c6r_U = c6_optbytes u; c6r_P = c6_optz p; c6r_OE = c6_optbytes oe; c6r_UE = c6_optbytes ue; c6r_Perms = c6_optbytes pm;
      c6r_Length = c6_optz l; c6r_encmeta = (if em = "~" then None else Some (em = "1"));
      c6r_CF = List.map (fun e -> match String.split_on_char ':' e with
                                   | [n; "!"] -> (unhexbytes n, C6CfNotDict)
                                   | [n; "~"] -> (unhexbytes n, C6CfDict None)
                                   | [n; m] -> (unhexbytes n, C6CfDict (Some (unhexbytes m)))
                                   | _ -> failwith "CF") (c6_split ',' cf);
      c6r_StmF = c6_optbytes stm; c6r_StrF = c6_optbytes str; c6r_EFF = c6_optbytes eff }
  | _ -> failwith "rdict"

let c6_filters_str fs =
  if fs = [] then "-" else String.concat "," (List.map (fun (n, m) -> hexbytes n ^ ":" ^ c6_method_str m) fs)
let c6_filters_of s =
  List.map (fun e -> match String.split_on_char ':' e with [n; m] -> (unhexbytes n, c6_method_of m) | _ -> failwith "filters") (c6_split ',' s)

let c6_int32 (x : z) : string = string_of_int (int_of_z x)

(* state: V R P em filters cf_stream cf_string cf_file key userpw um om *)
let c6_state_str (st : c06_state) : string =
  String.concat " " [string_of_int (int_of_n st.c6t_V); string_of_int (int_of_n st.c6t_R); c6_int32 st.c6t_P; c6_b01 st.c6t_encmeta;
                     c6_filters_str st.c6t_filters; c6_method_str st.c6t_cf_stream; c6_method_str st.c6t_cf_string;
                     c6_method_str st.c6t_cf_file; hexbytes st.c6t_key; hexbytes st.c6t_user_password;
                     c6_b01 st.c6t_user_matched; c6_b01 st.c6t_owner_matched]
let c6_state_of = function
  | [v; r; p; em; fs; cs; cstr; cfile; key; upw; um; om] ->
    { c6t_V = c6_n v; c6t_R = c6_n r; c6t_P = z_of_int (int_of_string p); c6t_encmeta = (em = "1"); c6t_filters = c6_filters_of fs;
      c6t_cf_stream = c6_method_of cs; c6t_cf_string = c6_method_of cstr; c6t_cf_file = c6_method_of cfile;
      c6t_key = unhexbytes key; c6t_user_password = unhexbytes upw; c6t_user_matched = (um = "1"); c6t_owner_matched = (om = "1") }
  | _ -> failwith "state"

let c6_opened_str = function
  | C6Ok (st, ws) ->
    "ok " ^ c6_state_str st ^ " " ^ c6_warns ws ^ " " ^
    String.concat "" (List.map c6_b01 (c06_show_perms st)) ^ c6_b01 (c06_allow_modify_all st) ^ " " ^
    hexbytes (c06_trim_user_password st.c6t_user_password)
  | C6Err (e, ws) -> "err " ^ c6_err_str e ^ " " ^ c6_warns ws

let rec c6_take n l = if n = 0 then ([], l) else match l with [] -> failwith "take" | x :: t -> let (a, b) = c6_take (n - 1) t in (x :: a, b)

let () =
  (* c6make V R keylen P em id cf stmf strf user owner rnd -> O U OE UE Perms key supported *)
  register "c6make" (fun args -> match args with
    | [v; r; kl; p; em; id; cf; stmf; strf; u; o; rnd] ->
      let c = c6_cfg v r kl p em id cf stmf strf in
      let (d, key) = c06_iso_make c { c6s_user = unhexbytes u; c6s_owner = unhexbytes o; c6s_rnd = unhexbytes rnd } in
      String.concat " " [hexbytes d.iso_O; hexbytes d.iso_U; hexbytes d.iso_OE; hexbytes d.iso_UE; hexbytes d.iso_Perms; hexbytes key;
                         c6_b01 (c06_supported c)]
    | _ -> "?args");
  (* c6isoleaf <cfg 9> key kind num gen iv data -> "<method> <ciphertext>" | illformed *)
  register "c6isoleaf" (fun args -> match args with
    | [v; r; kl; p; em; id; cf; stmf; strf; key; kind; num; gen; iv; data] ->
      let c = c6_cfg v r kl p em id cf stmf strf in
      let l = c6_leaf kind num gen iv data in
      (match c06_leaf_method c l, c06_iso_encrypt_leaf c (unhexbytes key) l with
       | Some m, Some l' -> c6_cfm_str m ^ " " ^ hexbytes l'.c6l_data
       | _, _ -> "illformed")
    | _ -> "?args");
  (* c6isodec <cfg 9> key kind num gen data -> "ok <method> <plaintext>" | none : the reference reader on one leaf of a file *)
  register "c6isodec" (fun args -> match args with
    | [v; r; kl; p; em; id; cf; stmf; strf; key; kind; num; gen; data] ->
      let c = c6_cfg v r kl p em id cf stmf strf in
      let l = c6_leaf kind num gen "-" data in
      (match c06_leaf_method c l, c06_iso_decrypt_leaf c (unhexbytes key) l with
       | Some m, Some d -> "ok " ^ c6_cfm_str m ^ " " ^ hexbytes d
       | _, _ -> "none")
    | _ -> "?args");
  (* c6open <rdict 16> id(~ = invalid) P:<hex> | H:<hex> *)
  register "c6open" (fun args ->
    let (rd, rest) = c6_take 16 args in
    match rest with
    | [id; sec] ->
      let secret = if sec.[0] = 'H' then C6HexKey (unhexbytes (String.sub sec 2 (String.length sec - 2)))
                   else C6Password (unhexbytes (String.sub sec 2 (String.length sec - 2))) in
      c6_opened_str (c06_initialize (c6_rdict rd) (c6_optbytes id) secret)
    | _ -> "?args");
  (* c6jobopen <rdict 16> id hexkey(~) recovery encodings(comma) pw *)
  register "c6jobopen" (fun args ->
    let (rd, rest) = c6_take 16 args in
    match rest with
    | [id; hk; rec_; encs; pw] ->
      c6_opened_str (c06_job_open (c6_rdict rd) (c6_optbytes id) (c6_optbytes hk) (rec_ = "1")
                       (List.map unhexbytes (String.split_on_char ',' encs)) (unhexbytes pw))
    | _ -> "?args");
  (* c6dec <state 12> kind num gen data -> "ok <hex> <warned> <cfm>" | error *)
  register "c6dec" (fun args ->
    let (sl, rest) = c6_take 12 args in
    match rest with
    | [kind; num; gen; data] ->
      let st = c6_state_of sl in
      let l = c6_leaf kind num gen "-" data in
      let cfm = match l.c6l_kind with C6String w -> c06_reader_string_cfm st w | C6Stream s -> c06_reader_stream_cfm st s in
      (match c06_decrypt_leaf st l with
       | C6LeafOk (d, w) -> "ok " ^ hexbytes d ^ " " ^ c6_b01 w ^ " " ^ c6_cfm_str cfm
       | C6LeafError -> "error " ^ c6_cfm_str cfm)
    | _ -> "?args");
  (* c6decseq <state 12> (kind num gen data)* -> one result per leaf, separated by ';': the leaves in the order qpdf meets them,
     through the per-object key cache, starting from an empty cache *)
  register "c6decseq" (fun args ->
    let (sl, rest) = c6_take 12 args in
    let st = c6_state_of sl in
    let rec leaves = function
      | kind :: num :: gen :: data :: t -> c6_leaf kind num gen "-" data :: leaves t
      | [] -> []
      | _ -> failwith "decseq" in
    String.concat ";" (List.map (function C6LeafOk (d, w) -> "ok " ^ hexbytes d ^ " " ^ c6_b01 w | C6LeafError -> "error")
                         (c06_decrypt_seq st None (leaves rest))));
  (* c6perms R P(unsigned) -> "<spec 8 bits>" *)
  register "c6perms" (fun args -> match args with
    | [r; p] -> String.concat "" (List.map c6_b01 (c06_iso_perms (c6_n r) (c6_n p)))
    | _ -> "?args");
  (* c6permsm R P(signed) -> the nine answers of QPDF::allowXxx in showEncryption's order + modify anything *)
  register "c6permsm" (fun args -> match args with
    | [r; p] ->
      let st = { c6t_V = c6_n "1"; c6t_R = c6_n r; c6t_P = z_of_int (int_of_string p); c6t_encmeta = true; c6t_filters = []; c6t_cf_stream = C6eNone;
                 c6t_cf_string = C6eNone; c6t_cf_file = C6eNone; c6t_key = []; c6t_user_password = []; c6t_user_matched = false;
                 c6t_owner_matched = false } in
      String.concat "" (List.map c6_b01 (c06_show_perms st)) ^ c6_b01 (c06_allow_modify_all st)
    | _ -> "?args");
  (* c6exit query(e|p) encrypted ok -> manual's exit code *)
  register "c6exit" (fun args -> match args with
    | [q; e; k] -> string_of_int (int_of_n (c06_manual_exit (if q = "e" then C6QIsEncrypted else C6QRequiresPassword) (e = "1") (k = "1")))
    | _ -> "?args");
  (* c6job act(w|e|p|s) input(none | ok:<warns 0/1> | err:<password|unsupported|damaged>) morewarn -> "events exit" *)
  register "c6job" (fun args -> match args with
    | [a; inp; mw] ->
      let act = match a with "w" -> C6ActWrite | "e" -> C6ActQuery C6QIsEncrypted | "p" -> C6ActQuery C6QRequiresPassword | _ -> C6ActShowEncryption in
      let dummy = { c6t_V = c6_n "1"; c6t_R = c6_n "2"; c6t_P = z_of_int 0; c6t_encmeta = true; c6t_filters = []; c6t_cf_stream = C6eNone;
                    c6t_cf_string = C6eNone; c6t_cf_file = C6eNone; c6t_key = []; c6t_user_password = []; c6t_user_matched = false;
                    c6t_owner_matched = false } in
      let input = match String.split_on_char ':' inp with
        | ["none"] -> None
        | ["ok"; w] -> Some (C6Ok (dummy, if w = "1" then [C6WPerms] else []))
        | ["err"; "password"] -> Some (C6Err (C6EPassword, []))
        | ["err"; "unsupported"] -> Some (C6Err (C6EUnsupported, []))
        | ["err"; _] -> Some (C6Err (C6EDamaged, []))
        | _ -> failwith "input" in
      let (evs, code) = c06_job act input (mw = "1") in
      String.concat "," (List.map (function C6EvOpenInput -> "in" | C6EvOpenOutput -> "out" | C6EvWriteOutput -> "write"
                                          | C6EvMessage e -> "msg-" ^ c6_err_str e) evs) ^ " " ^ string_of_int (int_of_n code)
    | _ -> "?args")
