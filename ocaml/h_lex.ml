(* handlers: Lex/ (tokenizer model, ISO lexical specification) and Obj/Unparse *)
open Qvmodel
open Runner

let tt_name = function
  | TT_bad -> "bad" | TT_array_close -> "array_close" | TT_array_open -> "array_open"
  | TT_brace_close -> "brace_close" | TT_brace_open -> "brace_open" | TT_dict_close -> "dict_close"
  | TT_dict_open -> "dict_open" | TT_integer -> "integer" | TT_name -> "name" | TT_real -> "real"
  | TT_string -> "string" | TT_null -> "null" | TT_bool -> "bool" | TT_word -> "word" | TT_eof -> "eof"
  | TT_space -> "space" | TT_comment -> "comment" | TT_inline_image -> "inline_image"

let err_name = function
  | TE_none -> "0" | TE_rparen -> "rparen" | TE_stray_hash -> "strayhash" | TE_null_in_name -> "nullname"
  | TE_gt -> "gt" | TE_bad_hex c -> "badhex" ^ hexbytes [c] | TE_eof_in_token -> "eoftok"
  | TE_unexpected_eof -> "ueof" | TE_too_long -> "toolong"

let show_tok (t : token) : string =
  tt_name t.tok_type ^ "," ^ hexbytes t.tok_value ^ "," ^ hexbytes t.tok_raw ^ "," ^ err_name t.tok_err

let flags_of s = let f = int_of_string s in (f land 1 <> 0, f land 2 <> 0)

let show_z (z : z) : string = string_of_bytes (dec_of_Z z)

let show_ptoken = function
  | PArrOpen -> "[" | PArrClose -> "]" | PDictOpen -> "<<" | PDictClose -> ">>"
  | PBraceOpen -> "{" | PBraceClose -> "}"
  | PInt z -> "i:" ^ show_z z
  | PReal (m, k) -> "r:" ^ show_z m ^ "/" ^ string_of_int (int_of_n k)
  | PStr s -> "s:" ^ hexbytes s
  | PName n -> "n:" ^ hexbytes n
  | PBool b -> if b then "b:1" else "b:0"
  | PNull -> "null"
  | PKeyword w -> "k:" ^ hexbytes w

let show_ptokens = function
  | None -> "invalid"
  | Some l -> if l = [] then "-" else String.concat " " (List.map show_ptoken l)

let () =
  register "tokstream" (fun args -> match args with
    | [fl; h; eof] ->
      let (ae, ii) = flags_of fl in
      (match tok_stream ae ii (unhexbytes h) (eof = "1") with
       | None -> "logic"
       | Some (toks, bt) ->
         let s = String.concat ";" (List.map (fun (t, u) -> show_tok t ^ "," ^ (if u then "1" else "0")) toks) in
         (if s = "" then "-" else s) ^ " bt=" ^ (if bt then "1" else "0"))
    | _ -> "?args");
  register "tokraw" (fun args -> match args with
    | [fl; h; eof] ->
      let (ae, ii) = flags_of fl in
      (match tokraw_run ae ii (unhexbytes h) (eof = "1") with
       | None -> "logic"
       | Some ((((ready, unread), ch), otok), bt) ->
         (if ready then "1" else "0") ^ "," ^ (if unread then "1" else "0") ^ "," ^ hexbytes [ch] ^ " " ^
         (match otok with Some t -> show_tok t | None -> "-") ^ " bt=" ^ (if bt then "1" else "0"))
    | _ -> "?args");
  register "readtokens" (fun args -> match args with
    | [fl; ml; ab; h] ->
      let (ae, ii) = flags_of fl in
      let res = read_tokens ae ii (n_of_int (int_of_string ml)) (ab = "1") (unhexbytes h) in
      String.concat ";" (List.map (fun (((t, threw), p), l) ->
        (if threw then "exc," ^ err_name t.tok_err else show_tok t)
        ^ "," ^ string_of_int (int_of_n p) ^ "," ^ string_of_int (int_of_n l)) res)
    | _ -> "?args");
  register "lexspec" (fun args -> match args with
    | [h] -> show_ptokens (lex_spec (unhexbytes h))
    | _ -> "?args");
  register "modellex" (fun args -> match args with
    | [h] -> show_ptokens (model_lex (unhexbytes h))
    | _ -> "?args");
  register "strunparse" (fun args -> match args with
    | [h] -> hexbytes (string_unparse false (unhexbytes h)) | _ -> "?args");
  register "strunparsebin" (fun args -> match args with
    | [h] -> hexbytes (string_unparse true (unhexbytes h)) | _ -> "?args");
  register "nameunparse" (fun args -> match args with
    | [h] -> hexbytes (name_normalize (unhexbytes h)) | _ -> "?args")

(* Obj/SynSpec: the ISO object-syntax specification parser, canonical form printed *)
let rec show_sobj = function
  | SyNull -> "null"
  | SyBool b -> if b then "b:1" else "b:0"
  | SyInt z -> "i:" ^ show_z z
  | SyReal (m, k) -> "r:" ^ show_z m ^ "/" ^ string_of_int (int_of_n k)
  | SyStr s -> "s:" ^ hexbytes s
  | SyName n -> "n:" ^ hexbytes n
  | SyArr l -> "[ " ^ String.concat "" (List.map (fun o -> show_sobj o ^ " ") l) ^ "]"
  | SyDict d -> "<< " ^ String.concat "" (List.map (fun (k, v) -> "n:" ^ hexbytes k ^ " " ^ show_sobj v ^ " ") d) ^ ">>"
  | SyRef (i, g) -> "ref:" ^ show_z i ^ ":" ^ show_z g

let () =
  register "objspec" (fun args -> match args with
    | [h] -> (match syn_spec (unhexbytes h) with
              | None -> "invalid"
              | Some o -> show_sobj (syn_canon o))
    | _ -> "?args")

(* Obj/ParseModel: model of impl::Parser / QPDFObjectHandle::parse(context, string) *)
let pwarn_name = function
  | PW_tok e -> err_name e | PW_eof -> "ueof" | PW_brace -> "brace" | PW_arr_close -> "arrclose"
  | PW_dict_close -> "dictclose" | PW_empty -> "empty" | PW_unknown_str -> "unkstr" | PW_unknown_null -> "unknull"
  | PW_unknown_type -> "unktype" | PW_parse_error -> "parseerr" | PW_bad_ref -> "badref" | PW_premature -> "premature"
  | PW_nonname_ignored -> "nonname" | PW_fake_key -> "fakekey" | PW_dup_key -> "dupkey" | PW_too_many -> "toomany"
  | PW_limit_nesting -> "limnest" | PW_limit_container_damaged -> "limcd" | PW_limit_container -> "limc"
  | PW_limit_errors -> "limerr" | PW_giveup_arr -> "giveuparr" | PW_giveup_dict -> "giveupdict"
  | PW_giveup_endobj -> "giveupend" | PW_exception -> "exception"

let rec show_mobj = function
  | MoNull -> "null"
  | MoBool b -> if b then "b:1" else "b:0"
  | MoInt z -> "i:" ^ show_z z
  | MoReal t -> "r:" ^ hexbytes t
  | MoStr s -> "s:" ^ hexbytes s
  | MoName n -> "n:" ^ hexbytes (match n with _ :: r -> r | [] -> [])
  | MoArr l -> "[ " ^ String.concat "" (List.map (fun o -> show_mobj o ^ " ") l) ^ "]"
  | MoDict d -> "<< " ^ String.concat "" (List.map (fun (k, v) -> match v with
        | MoNull -> ""
        | _ -> "n:" ^ hexbytes (match k with _ :: r -> r | [] -> []) ^ " " ^ show_mobj v ^ " ") d) ^ ">>"
  | MoRef (i, g) -> "ref:" ^ show_z i ^ ":" ^ show_z g
  | MoOp w -> "op:" ^ hexbytes w

let show_warns w = if w = [] then "0" else String.concat "," (List.map pwarn_name w)

let () =
  register "objparse" (fun args -> match args with
    | [h] -> (match parse_string (unhexbytes h) with
              | PSR_ok (o, w) -> show_mobj o ^ " w=" ^ show_warns w
              | PSR_trailing w -> "exc:trailing w=" ^ show_warns w)
    | _ -> "?args")
