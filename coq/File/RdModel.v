(* C03 - model of qpdf's object-level READER, written from libqpdf/QPDF_objects.cc of /repo (as it is):
     Objects::parse (header, startxref, read_xref, the /Root and /Pages checks), findHeader + validatePDFVersion
     (+ OffsetInputSource: every offset counted from the header), findStartxref / InputSource::findLast,
     read_xref, read_xrefTable (parse_xrefFirst, the optimistic path of read_xrefEntry), read_xrefStream,
     processXRefW / Size / Index / processXRefStream, the final "highest generation" pass,
     read_object_start, readObjectAtOffset (both overloads), readObject, readStream, validateStreamLineEnd,
     resolve, resolveObjectsInStream, getObjectForParser (a reference to an object that is not in the table is
     the null object), and the top-level VIEW: version, trailer, and for every (obj, gen) of the final table the
     object's value and raw stream bytes.
   Built on the existing models: Lex/TokModel.v (read_token = Tokenizer::readToken), Obj/ParseModel.v
   (parse_object = Parser::parse), File/XrefModel.v (c3_entry = insertXrefEntry / insertFreeXrefEntry, c3_best = the
   highest-generation pass).  zlib is external to qpdf: File/Inflate.v stands for it; Pl_PNGFilter is the model of
   Filters/Filters.v.
   Conventions: a QPDFExc that reaches Objects::parse (and so starts reconstruct_xref), an encrypted file, a
   filter other than a single /FlateDecode: RdOutside code (the model does not follow qpdf there; the harness checks
   that qpdf indeed warns / recovers / is given no such file).  A QPDFExc caught by resolve() is a warning and the
   object reads as null, as in the code.  Stream-length RECOVERY (recoverStreamLength) is not modelled: the object is
   flagged rdo_unmod and carries the warning.  The object cache is modelled only for the objects cached while the
   cross-reference streams are read (rde_pre); everything else is re-read on demand (reading is deterministic, so
   the only observable difference is that a warning may be repeated).  InputSource::findFirst/findLast are modelled
   by their specification (first/last match for which the check holds), not with the 1024-byte block buffering.
   No proofs in this file. *)
From QV Require Import Base.Bytes Lex.TokModel Obj.ParseModel File.XrefModel File.Inflate Filters.Filters.
Local Open Scope N_scope.

(* ------------------------------------------------------------------ constants *)
Definition rd_s_Length : list N := [47; 76; 101; 110; 103; 116; 104].
Definition rd_s_Type : list N := [47; 84; 121; 112; 101].
Definition rd_s_XRef : list N := [47; 88; 82; 101; 102].
Definition rd_s_ObjStm : list N := [47; 79; 98; 106; 83; 116; 109].
Definition rd_s_N : list N := [47; 78].
Definition rd_s_First : list N := [47; 70; 105; 114; 115; 116].
Definition rd_s_W : list N := [47; 87].
Definition rd_s_Size : list N := [47; 83; 105; 122; 101].
Definition rd_s_Index : list N := [47; 73; 110; 100; 101; 120].
Definition rd_s_Prev : list N := [47; 80; 114; 101; 118].
Definition rd_s_XRefStm : list N := [47; 88; 82; 101; 102; 83; 116; 109].
Definition rd_s_Root : list N := [47; 82; 111; 111; 116].
Definition rd_s_Encrypt : list N := [47; 69; 110; 99; 114; 121; 112; 116].
Definition rd_s_Pages : list N := [47; 80; 97; 103; 101; 115].
Definition rd_s_Catalog : list N := [47; 67; 97; 116; 97; 108; 111; 103].
Definition rd_s_Filter : list N := [47; 70; 105; 108; 116; 101; 114].
Definition rd_s_FlateDecode : list N := [47; 70; 108; 97; 116; 101; 68; 101; 99; 111; 100; 101].
Definition rd_s_DecodeParms : list N := [47; 68; 101; 99; 111; 100; 101; 80; 97; 114; 109; 115].
Definition rd_s_Predictor : list N := [47; 80; 114; 101; 100; 105; 99; 116; 111; 114].
Definition rd_s_Columns : list N := [47; 67; 111; 108; 117; 109; 110; 115].
Definition rd_s_Colors : list N := [47; 67; 111; 108; 111; 114; 115].
Definition rd_s_BitsPerComponent : list N := [47; 66; 105; 116; 115; 80; 101; 114; 67; 111; 109; 112; 111; 110; 101; 110; 116].
Definition rd_s_stream : list N := [115; 116; 114; 101; 97; 109].
Definition rd_s_endstream : list N := [101; 110; 100; 115; 116; 114; 101; 97; 109].
Definition rd_s_endobj : list N := [101; 110; 100; 111; 98; 106].
Definition rd_s_obj : list N := [111; 98; 106].
Definition rd_s_trailer : list N := [116; 114; 97; 105; 108; 101; 114].
Definition rd_s_startxref : list N := [115; 116; 97; 114; 116; 120; 114; 101; 102].
Definition rd_s_xref : list N := [120; 114; 101; 102].
Definition rd_s_PDF : list N := [37; 80; 68; 70; 45].

Definition rd_int_max : Z := 2147483647.
Definition rd_beq (a b : list N) : bool := list_eqb N.eqb a b.
Definition rd_len {A} (l : list A) : N := N.of_nat (length l).

(* ------------------------------------------------------------------ warnings and outcomes *)
Inductive rd_w :=
| RdW_parse (w : pwarn)   (* a warning of Parser::parse *)
| RdW_endobj              (* expected endobj *)
| RdW_cr_only             (* stream keyword followed by carriage return only *)
| RdW_no_eol              (* stream keyword not followed by proper line terminator *)
| RdW_extra_ws            (* stream keyword followed by extraneous whitespace *)
| RdW_len (code : N)      (* readStream: 1 lacks /Length, 2 /Length not an integer, 3 expected endstream (+ recovery) *)
| RdW_conv                (* an integer accessor clamped its value (negative /Length, /N, /First out of range) *)
| RdW_offset0             (* object has offset 0 *)
| RdW_exc (code : N)      (* QPDFExc / std::exception caught by resolve(): 1 EOF after endobj, 2 supposed object stream is
                             not a stream, 3 object stream has incorrect keys, 4 invalid /First, 5 expected integer in object
                             stream header, 6 string_to_int out of range, 7 object stream data not decodable *)
| RdW_recon (code : N)    (* readObjectAtOffset would reconstruct the xref table: 1 expected n n obj, 2 object with ID 0,
                             3 expected <og> obj *)
| RdW_loop                (* loop detected resolving object *)
| RdW_objstm (code : N)   (* 1 wrong /Type, 2 claims to contain itself, 3 object id invalid, 4 offset not larger than the
                             previous one, 5 offset too large *)
| RdW_xref (code : N)     (* 1 extraneous whitespace before xref, 2 in-use entry with generation >= 65535, 3 self-referential
                             object stream, 4 object stream id impossibly large, 5 xref stream data larger than expected,
                             6 /Size is not one plus the highest object number, 7 stream keyword found in trailer *)
| RdW_header              (* can't find PDF header *)
| RdW_catalog_type.       (* Catalog: setting missing or invalid /Type entry to /Catalog *)

(* an object as held by the cache: value, (offset, length) of the stream data, not-modelled flag *)
Record rd_obj := mkRdObj { rdo_val : mobj; rdo_stream : option (N * N); rdo_unmod : bool }.
Definition rd_null : rd_obj := mkRdObj MoNull None false.

(* ------------------------------------------------------------------ small helpers *)
Definition rd_at (file : list N) (pos : N) : list N := skipn (N.to_nat pos) file.

Fixpoint rd_dict_get (k : list N) (d : list (list N * mobj)) : mobj :=
  match d with
  | [] => MoNull
  | (k', v) :: r => if rd_beq k k' then v else rd_dict_get k r
  end.
(* hasKey: present and not null *)
Definition rd_has_key (k : list N) (d : list (list N * mobj)) : bool :=
  match rd_dict_get k d with MoNull => false | _ => true end.

(* the tokenizer of a QPDF object: allowEOF() is set, ignorable tokens are not included *)
Definition rd_tk : tk := tk_new true false.
(* Objects::readToken(input, max_len): allow_bad = true, never throws *)
Definition rd_tok (max_len : N) (inp : list N) (pos : N) : token * list N * N * N :=
  let '(tok, _, _, rest, newpos, last) := read_token max_len true rd_tk inp pos in (tok, rest, newpos, last).
Definition rd_is_word (t : token) (w : list N) : bool := ttype_eqb (tok_type t) TT_word && rd_beq (tok_value t) w.
Definition rd_is_int (t : token) : bool := ttype_eqb (tok_type t) TT_integer.

(* QUtil::string_to_int: None = std::range_error *)
Definition rd_to_int (s : list N) : option Z :=
  match text_to_ll s with
  | Some z => if in_int_range z then Some z else None
  | None => None
  end.

(* Integer::value<T>(): clamp with a warning *)
Definition rd_clamp (lo hi : Z) (z : Z) : Z * bool :=
  if (z <? lo)%Z then (lo, true) else if (hi <? z)%Z then (hi, true) else (z, false).

(* getObjectForParser: a reference stays a reference iff the object is cached / in the table (or, while the table is
   being read, its number is below xref_table_max_id); otherwise it is the null object *)
Fixpoint rd_fixrefs (known : Z -> Z -> bool) (o : mobj) : mobj :=
  match o with
  | MoRef id gen => if known id gen then o else MoNull
  | MoArr items => MoArr (map (rd_fixrefs known) items)
  | MoDict es => MoDict (map (fun kv => match kv with (k, v) => (k, rd_fixrefs known v) end) es)
  | _ => o
  end.

Definition rd_tbl := list (N * N * c3_xe).
Fixpoint rd_lookup (t : rd_tbl) (obj gen : N) : option c3_xe :=
  match t with
  | [] => None
  | (o, g, e) :: r => if (o =? obj) && (g =? gen) then Some e else rd_lookup r obj gen
  end.
Fixpoint rd_pre_get (p : list (N * N * rd_obj)) (obj gen : N) : option rd_obj :=
  match p with
  | [] => None
  | (o, g, v) :: r => if (o =? obj) && (g =? gen) then Some v else rd_pre_get r obj gen
  end.

Record rd_env := mkRdEnv { rde_file : list N; rde_tbl : rd_tbl; rde_pre : list (N * N * rd_obj); rde_max_id : N;
                           rde_parsed : bool }.

Definition rd_known (e : rd_env) (id gen : Z) : bool :=
  if ((id <? 0) || (gen <? 0))%Z then false else
  match rd_pre_get (rde_pre e) (Z.to_N id) (Z.to_N gen) with
  | Some _ => true
  | None =>
      match rd_lookup (rde_tbl e) (Z.to_N id) (Z.to_N gen) with
      | Some _ => true
      | None => negb (rde_parsed e) && (Z.to_N id <? rde_max_id e)
      end
  end.

(* ------------------------------------------------------------------ validateStreamLineEnd *)
Fixpoint rd_stream_eol (inp : list N) (pos : N) (w : list rd_w) : list N * N * list rd_w :=
  match inp with
  | [] => (inp, pos, w)
  | ch :: t =>
      if ch =? 10 then (t, pos + 1, w)
      else if ch =? 13 then
        match t with
        | [] => (t, pos + 1, w)
        | c2 :: t2 => if c2 =? 10 then (t2, pos + 2, w) else (t, pos + 1, RdW_cr_only :: w)
        end
      else if negb (util_is_space ch) then (inp, pos, RdW_no_eol :: w)
      else rd_stream_eol t (pos + 1) (RdW_extra_ws :: w)
  end.

(* ------------------------------------------------------------------ recoverStreamLength
   findFirst("end", stream_offset, 0, findEndstream): the first position at or after [pos] where "end" starts a token
   (read with max_len 20) that is the word endstream or endobj *)
Definition rd_s_end : list N := [101; 110; 100].
Fixpoint rd_prefix (p s : list N) : bool :=
  match p, s with
  | [], _ => true
  | a :: p', b :: s' => (a =? b) && rd_prefix p' s'
  | _ :: _, [] => false
  end.
Fixpoint rd_find_end (s : list N) (pos : N) : option (list N * N) :=
  match s with
  | [] => None
  | _ :: t =>
      if rd_prefix rd_s_end s then
        let '(tok, _, _, _) := rd_tok 20 s pos in
        if rd_is_word tok rd_s_endobj || rd_is_word tok rd_s_endstream then Some (s, pos) else rd_find_end t (pos + 1)
      else rd_find_end t (pos + 1)
  end.
(* the in-use entry with the largest offset below [end_]: its (obj, gen); the table is walked in (obj, gen) order *)
Fixpoint rd_insert_sorted (e : N * N * c3_xe) (l : rd_tbl) : rd_tbl :=
  match l with
  | [] => [e]
  | h :: t => let '(o, g, _) := e in let '(o', g', _) := h in
              if (o <? o') || ((o =? o') && (g <? g')) then e :: l
              else if (o =? o') && (g =? g') then l          (* std::map: one entry per key (never happens: c3_has) *)
              else h :: rd_insert_sorted e t
  end.
Definition rd_found_og (t : rd_tbl) (end_ : N) : N * option (N * N) :=
  fold_left (fun (acc : N * option (N * N)) (e : N * N * c3_xe) =>
               match e with
               | (o, g, C3Use off _) => if (fst acc <? off) && (off <? end_) then (off, Some (o, g)) else acc
               | _ => acc
               end) (fold_right rd_insert_sorted [] t) (0, None).
(* (length, input and position afterwards) *)
Definition rd_recover_len (file : list N) (t : rd_tbl) (og : Z * Z) (spos : N) : N * list N * N :=
  match rd_find_end (rd_at file spos) spos with
  | None => (0, [], rd_len file)
  | Some (s, p) =>
      let len0 := p - spos in
      let '(tok, rest, newpos, _) := rd_tok 0 s p in
      let '(rest', pos') := if rd_beq (tok_value tok) rd_s_endobj then (s, p) else (rest, newpos) in
      let len := if len0 =? 0 then 0 else
                 match rd_found_og t (spos + len0) with
                 | (0, _) => len0
                 | (_, Some (o, g)) => if (Z.of_N o =? fst og)%Z && (Z.of_N g =? snd og)%Z then len0 else 0
                 | (_, None) => len0
                 end in
      (len, rest', pos')
  end.

(* ------------------------------------------------------------------ readStream
   [inp] / [pos]: just after the `stream` keyword.  [resolve]: resolution of an indirect /Length.
   Result: the stream object, the input and position afterwards, warnings. *)
Definition rd_read_stream (file : list N) (t : rd_tbl) (resolve : N * N -> rd_obj * list rd_w) (og : Z * Z)
           (d : list (list N * mobj)) (inp : list N) (pos : N) : rd_obj * list N * N * list rd_w :=
  let '(inp1, spos, w1) := rd_stream_eol inp pos [] in
  let lo := rd_dict_get rd_s_Length d in
  let '(lv, w2) := match lo with
                   | MoRef id gen => let '(o, w) := resolve (Z.to_N id, Z.to_N gen) in
                                     (match rdo_stream o with Some _ => MoDict [] | None => rdo_val o end, w)
                   | v => (v, [])
                   end in
  let recover (w : list rd_w) :=
      let '(len, rest, p) := rd_recover_len file t og spos in
      (mkRdObj (MoDict d) (Some (spos, len)) false, rest, p, w) in
  match lv with
  | MoInt z =>
      let '(len, w3) := if (z <? 0)%Z then (0, [RdW_conv]) else (Z.to_N z, []) in
      let epos := spos + len in
      let '(tok, rest, newpos, _) := rd_tok 0 (rd_at file epos) epos in
      if rd_is_word tok rd_s_endstream
      then (mkRdObj (MoDict d) (Some (spos, len)) false, rest, newpos, w1 ++ w2 ++ w3)
      else recover (w1 ++ w2 ++ w3 ++ [RdW_len 3])
  | MoNull => recover (w1 ++ w2 ++ [RdW_len 1])
  | _ => recover (w1 ++ w2 ++ [RdW_len 2])
  end.

(* ------------------------------------------------------------------ read_object_start *)
Inductive rd_start := RdsOk (id gen : Z) (rest : list N) (pos : N) | RdsBad (code : N) | RdsRange.
Definition rd_object_start (file : list N) (off : N) : rd_start :=
  let '(t1, r1, p1, _) := rd_tok 0 (rd_at file off) off in
  if negb (rd_is_int t1) then RdsBad 1 else
  let '(t2, r2, p2, _) := rd_tok 0 r1 p1 in
  if negb (rd_is_int t2) then RdsBad 1 else
  let '(t3, r3, p3, _) := rd_tok 0 r2 p2 in
  if negb (rd_is_word t3 rd_s_obj) then RdsBad 1 else
  match rd_to_int (tok_value t1), rd_to_int (tok_value t2) with
  | Some id, Some gen => if (id =? 0)%Z then RdsBad 2 else RdsOk id gen r3 p3
  | _, _ => RdsRange
  end.

(* ------------------------------------------------------------------ readObject (after read_object_start) *)
(* result: None = `return {}` *)
Definition rd_read_object (e : rd_env) (resolve : N * N -> rd_obj * list rd_w) (sanity : bool) (og : Z * Z)
           (inp : list N) (pos : N) : option rd_obj * list N * N * list rd_w :=
  let r := parse_object false sanity rd_tk inp pos in
  let wp := map RdW_parse (pr_warn r) in
  match pr_obj r with
  | None => (None, pr_rest r, pr_pos r, wp)
  | Some o0 =>
      let o := rd_fixrefs (rd_known e) o0 in
      let '(tok, rest, newpos, _) := rd_tok 0 (pr_rest r) (pr_pos r) in
      match o with
      | MoDict d =>
          if rd_is_word tok rd_s_stream then
            let '(so, rest2, pos2, ws) := rd_read_stream (rde_file e) (rde_tbl e) resolve og d rest newpos in
            let '(tok2, rest3, pos3, _) := rd_tok 0 rest2 pos2 in
            (Some so, rest3, pos3, wp ++ ws ++ (if rd_is_word tok2 rd_s_endobj then [] else [RdW_endobj]))
          else (Some (mkRdObj o None false), rest, newpos, wp ++ (if rd_is_word tok rd_s_endobj then [] else [RdW_endobj]))
      | _ => (Some (mkRdObj o None false), rest, newpos, wp ++ (if rd_is_word tok rd_s_endobj then [] else [RdW_endobj]))
      end
  end.

(* "skip over spaces": true = a non-space character follows; false = EOF (throws "EOF after endobj") *)
Fixpoint rd_skip_cspace (inp : list N) : bool :=
  match inp with
  | [] => false
  | ch :: t => if c_isspace ch then rd_skip_cspace t else true
  end.

(* ------------------------------------------------------------------ readObjectAtOffset(try_recovery = true, offset, "", exp_og) *)
Inductive rd_rdres :=
| RdrObj (id gen : Z) (o : rd_obj) (w : list rd_w)
| RdrNone (w : list rd_w)                 (* nothing cached: the object reads as null *)
| RdrThrow (code : N) (w : list rd_w)     (* exception caught by resolve *)
| RdrRecon (code : N).                    (* reconstruct_xref would run *)

Definition rd_read_at (e : rd_env) (resolve : N * N -> rd_obj * list rd_w) (sanity : bool) (off : N)
           (exp : option (N * N)) : rd_rdres :=
  if (off =? 0) && (match exp with Some _ => true | None => false end) then RdrNone [RdW_offset0] else
  match rd_object_start (rde_file e) off with
  | RdsBad c => RdrRecon c
  | RdsRange => RdrThrow 6 []
  | RdsOk id gen rest pos =>
      if match exp with
         | Some (eo, eg) => negb ((id =? Z.of_N eo)%Z && (gen =? Z.of_N eg)%Z)
         | None => false
         end then RdrRecon 3 else
      let '(oo, rest2, pos2, w) := rd_read_object e resolve sanity (id, gen) rest pos in
      match oo with
      | None => RdrNone w
      | Some o => if rd_skip_cspace rest2 then RdrObj id gen o w else RdrThrow 1 w
      end
  end.

(* ------------------------------------------------------------------ stream data (getStreamData(qpdf_dl_specialized))
   of an object or cross-reference stream: no filter, or one /FlateDecode with an optional PNG predictor *)
Definition rd_get_n (k : list N) (d : list (list N * mobj)) (dflt : N) : option N :=
  match rd_dict_get k d with
  | MoNull => Some dflt
  | MoInt z => if (z <? 0)%Z then None else Some (Z.to_N z)
  | _ => None
  end.
Definition rd_decode (d : list (list N * mobj)) (raw : list N) : option (list N) :=
  match rd_dict_get rd_s_Filter d with
  | MoNull => Some raw
  | MoName f =>
      if negb (rd_beq f rd_s_FlateDecode) then None else
      match zlib_inflate raw with
      | None => None
      | Some (out, _) =>
          match rd_dict_get rd_s_DecodeParms d with
          | MoNull => Some out
          | MoDict dp =>
              match rd_get_n rd_s_Predictor dp 1 with
              | None => None
              | Some p =>
                  if p =? 1 then Some out
                  else if (10 <=? p) && (p <=? 15) then
                    match rd_get_n rd_s_Columns dp 1, rd_get_n rd_s_Colors dp 1, rd_get_n rd_s_BitsPerComponent dp 8 with
                    | Some cols, Some colors, Some bpc =>
                        match png_make cols colors bpc with
                        | Some pp => Some (png_run false pp [out])
                        | None => None
                        end
                    | _, _, _ => None
                    end
                  else None
              end
          | _ => None
          end
      end
  | _ => None
  end.
Definition rd_stream_raw (file : list N) (o : rd_obj) : list N :=
  match rdo_stream o with
  | Some (off, len) => firstn (N.to_nat len) (rd_at file off)
  | None => []
  end.

(* ------------------------------------------------------------------ resolveObjectsInStream *)
(* the header loop: n iterations; each reads two tokens.  acc (reversed): (id, offset, size) *)
Fixpoint rd_objstm_header (n : nat) (inp : list N) (pos : N) (stm first end_off max_id : Z)
         (id last_off : Z) (is_first : bool) (acc : list (Z * Z * Z)) (w : list rd_w)
  : option (Z * Z * bool * list (Z * Z * Z) * list rd_w) (* None = threw "expected integer"/range *) :=
  match n with
  | O => Some (id, last_off, is_first, acc, w)
  | S n' =>
      let '(t1, r1, p1, _) := rd_tok 0 inp pos in
      let '(t2, r2, p2, _) := rd_tok 0 r1 p1 in
      if negb (rd_is_int t1 && rd_is_int t2) then None else
      match rd_to_int (tok_value t1), rd_to_int (tok_value t2) with
      | Some num, Some offset =>
          let skip (c : N) := rd_objstm_header n' r2 p2 stm first end_off max_id id last_off is_first acc (RdW_objstm c :: w) in
          if (num =? stm)%Z then skip 2
          else if (num <? 1)%Z then skip 3
          else if (offset <=? last_off)%Z then skip 4
          else if (max_id <? num)%Z then rd_objstm_header n' r2 p2 stm first end_off max_id id last_off is_first acc w
          else if (end_off <=? first + offset)%Z then skip 5
          else
            let acc' := if is_first then acc else (id, (last_off + first)%Z, (offset - last_off)%Z) :: acc in
            rd_objstm_header n' r2 p2 stm first end_off max_id num offset false acc' w
      | _, _ => None
      end
  end.

Fixpoint rd_assoc_z (k : Z) (l : list (Z * rd_obj)) : option rd_obj :=
  match l with
  | [] => None
  | (k', v) :: r => if (k =? k')%Z then Some v else rd_assoc_z k r
  end.

(* all members that are cached: (id, object), later entries override earlier ones; warnings *)
Definition rd_objstm_members (e : rd_env) (stm : N) (so : rd_obj) : (list (Z * rd_obj) * list rd_w) + (N * list rd_w) :=
  match rdo_stream so, rdo_val so with
  | Some _, MoDict d =>
      let w0 := match rd_dict_get rd_s_Type d with
                | MoName t => if rd_beq t rd_s_ObjStm then [] else [RdW_objstm 1]
                | _ => [RdW_objstm 1]
                end in
      match rd_dict_get rd_s_N d, rd_dict_get rd_s_First d with
      | MoInt nz, MoInt fz =>
          let '(n, c1) := rd_clamp 0 4294967295 nz in
          let '(first, c2) := rd_clamp (-2147483648) 2147483647 fz in
          let wc := (if c1 then [RdW_conv] else []) ++ (if c2 then [RdW_conv] else []) in
          if rdo_unmod so then inr (7, w0 ++ wc) else
          match rd_decode d (rd_stream_raw (rde_file e) so) with
          | None => inr (7, w0 ++ wc)
          | Some data =>
              let end_off := Z.of_N (rd_len data) in
              if (end_off <=? first)%Z then inr (4, w0 ++ wc) else
              let iters := N.to_nat (N.min (Z.to_N n) (rd_len data + 2)) in
              match rd_objstm_header iters data 0 (Z.of_N stm) first end_off (Z.of_N (rde_max_id e)) 0 (-1) true [] [] with
              | None => inr (5, w0 ++ wc)
              | Some (id, last_off, is_first, acc, wh) =>
                  let offsets := rev' (if is_first then acc
                                       else (id, (last_off + first)%Z, (end_off - (last_off + first))%Z) :: acc) in
                  let step (st : list (Z * rd_obj) * list rd_w) (x : Z * Z * Z) :=
                      let '(oid, ooff, osize) := x in
                      match rd_lookup (rde_tbl e) (Z.to_N oid) 0 with
                      | Some (C3Comp s _) =>
                          (* ... && isUnresolved(og) (fix 8639fb91): a member that is cached already - by an earlier pair of
                             this stream with the same number, or while the cross-reference streams were read - is left alone *)
                          if (s =? stm) && negb (match rd_assoc_z oid (fst st) with Some _ => true | None => false end)
                                        && negb (match rd_pre_get (rde_pre e) (Z.to_N oid) 0 with Some _ => true | None => false end) then
                            let r := parse_object false false rd_tk
                                       (firstn (Z.to_nat osize) (skipn (Z.to_nat ooff) data)) (Z.to_N ooff) in
                            let wp := map RdW_parse (pr_warn r) in
                            match pr_obj r with
                            | Some o => ((oid, mkRdObj (rd_fixrefs (rd_known e) o) None false) :: fst st, snd st ++ wp)
                            | None => (fst st, snd st ++ wp)
                            end
                          else st
                      | _ => st
                      end in
                  inl (fold_left step offsets ([], w0 ++ wc ++ rev' wh))
              end
          end
      | _, _ => inr (3, w0)
      end
  | _, _ => inr (2, [])
  end.

(* ------------------------------------------------------------------ resolve *)
Fixpoint rd_resolve (fuel : nat) (e : rd_env) (resolving : list (N * N)) (og : N * N) : rd_obj * list rd_w :=
  match fuel with
  | O => (rd_null, [RdW_loop])
  | S f =>
      match rd_pre_get (rde_pre e) (fst og) (snd og) with
      | Some o => (o, [])
      | None =>
          if existsb (fun x => (fst x =? fst og) && (snd x =? snd og)) resolving then (rd_null, [RdW_loop]) else
          let rec := rd_resolve f e (og :: resolving) in
          match rd_lookup (rde_tbl e) (fst og) (snd og) with
          | Some (C3Use off _) =>
              match rd_read_at e rec false off (Some og) with
              | RdrObj _ _ o w => (o, w)
              | RdrNone w => (rd_null, w)
              | RdrThrow c w => (rd_null, w ++ [RdW_exc c])
              | RdrRecon c => (mkRdObj MoNull None true, [RdW_recon c])
              end
          | Some (C3Comp stm _) =>
              let '(so, ws) := rec (stm, 0) in
              match rd_objstm_members e stm so with
              | inl (members, w) =>
                  (* members are cached in order: the last one with this id stays *)
                  (match rd_assoc_z (Z.of_N (fst og)) members with Some o => o | None => rd_null end, ws ++ w)
              | inr (c, w) => (rd_null, ws ++ w ++ [RdW_exc c])
              end
          | _ => (rd_null, [])
          end
      end
  end.

(* ------------------------------------------------------------------ header *)
(* validatePDFVersion on the text after "%PDF-" ([] and NUL end the text) *)
Fixpoint rd_span_digits (s : list N) : list N * list N :=
  match s with
  | c :: t => if is_digit c then let '(a, b) := rd_span_digits t in (c :: a, b) else ([], s)
  | [] => ([], [])
  end.
Definition rd_version (s : list N) : option (list N) :=
  let '(a, r) := rd_span_digits s in
  match a, r with
  | _ :: _, 46 :: r2 =>
      let '(b, _) := rd_span_digits r2 in
      match b with _ :: _ => Some (a ++ 46 :: b) | [] => None end
  | _, _ => None
  end.
(* readLine(1024): the bytes up to the first CR or LF, at most 1024 *)
Fixpoint rd_line (n : nat) (s : list N) : list N :=
  match n, s with
  | S n', c :: t => if (c =? 10) || (c =? 13) then [] else c :: rd_line n' t
  | _, _ => []
  end.
(* findFirst("%PDF-", 0, 1024, findHeader): (position, version) of the first match below 1024 whose version is valid *)
Fixpoint rd_find_header (n : nat) (s : list N) (pos : N) : option (N * list N) :=
  match n with
  | O => None
  | S n' =>
      match s with
      | [] => None
      | _ :: t =>
          if rd_prefix rd_s_PDF s then
            match rd_version (skipn 5 (rd_line 1024 s)) with
            | Some v => Some (pos, v)
            | None => rd_find_header n' t (pos + 1)
            end
          else rd_find_header n' t (pos + 1)
      end
  end.

(* ------------------------------------------------------------------ startxref *)
(* findStartxref at a position where "startxref" matches: Some (offset of the integer token) *)
Definition rd_check_startxref (inp : list N) (pos : N) : option N :=
  let '(t1, r1, p1, _) := rd_tok 0 inp pos in
  if negb (rd_is_word t1 rd_s_startxref) then None else
  let '(t2, _, _, last) := rd_tok 0 r1 p1 in
  if rd_is_int t2 then Some last else None.
(* findLast("startxref", start, 0, ...): position of the integer token of the last accepted match *)
Fixpoint rd_find_last_sx (fuel : nat) (file : list N) (pos : N) (best : option N) : option N :=
  match fuel with
  | O => best
  | S f =>
      match rd_at file pos with
      | [] => best
      | s =>
          if rd_prefix rd_s_startxref s then
            match rd_check_startxref s pos with
            | Some ipos => rd_find_last_sx f file (N.max ipos (pos + 1)) (Some ipos)
            | None => rd_find_last_sx f file (pos + 1) best
            end
          else rd_find_last_sx f file (pos + 1) best
      end
  end.

(* ------------------------------------------------------------------ cross-reference table *)
Fixpoint rd_skip_space (s : list N) (n : N) : list N * N :=
  match s with
  | c :: t => if util_is_space c then rd_skip_space t (n + 1) else (s, n)
  | [] => ([], n)
  end.
(* parse_xrefFirst on the 50-byte buffer: (obj, num, bytes).  NUL ends the text. *)
Definition rd_xref_first (line : list N) : option (Z * Z * N) :=
  let '(s1, n1) := rd_skip_space line 0 in
  let '(d1, s2) := rd_span_digits s1 in
  match d1 with
  | [] => None
  | _ =>
      let '(s3, n2) := rd_skip_space s2 0 in
      if n2 =? 0 then None else
      let '(d2, s4) := rd_span_digits s3 in
      match d2 with
      | [] => None
      | _ =>
          let '(_, n3) := rd_skip_space s4 0 in
          match rd_to_int d1, rd_to_int d2 with
          | Some a, Some b => Some (a, b, n1 + rd_len d1 + n2 + rd_len d2 + n3)
          | _, _ => None      (* std::range_error: reaches Objects::parse as "error reading xref" *)
          end
      end
  end.

(* c_str(): the text up to the first NUL *)
Fixpoint rd_cstr (s : list N) : list N :=
  match s with c :: t => if c =? 0 then [] else c :: rd_cstr t | [] => [] end.

Fixpoint rd_span_zeros (s : list N) (n : N) : list N * N :=
  match s with
  | 48 :: t => rd_span_zeros t (n + 1)
  | _ => (s, n)
  end.
(* the digit loop `while (is_digit(p[0]) && len++ < lim) v = v*10 + digit` : (rest, value, len) *)
Fixpoint rd_entry_digits (s : list N) (v len lim : N) : list N * N * N :=
  match s with
  | c :: t => if is_digit c then (if len <? lim then rd_entry_digits t (v * 10 + (c - 48)) (len + 1) lim else (s, v, len + 1))
              else (s, v, len)
  | [] => (s, v, len)
  end.
Inductive rd_entry_res := RdeOk (f1 f2 : N) (ty : N) | RdeFalse | RdeBadPath.
(* read_xrefEntry on exactly 20 bytes (the optimistic path) *)
Definition rd_xref_entry (line : list N) : rd_entry_res :=
  if negb (rd_len line =? 20) then RdeFalse else
  let '(s1, z1) := rd_span_zeros line 0 in
  let '(s2, f1, l1) := rd_entry_digits s1 0 z1 10 in
  match s2 with
  | c :: s3 =>
      if negb (util_is_space c) then RdeFalse else
      let '(s4, z2) := rd_span_zeros s3 0 in
      let '(s5, f2, l2) := rd_entry_digits s4 0 z2 5 in
      match s5 with
      | c2 :: ty :: s6 =>
          if util_is_space c2 && ((ty =? 102) || (ty =? 110)) then
            match s6 with
            | a :: b :: _ => if negb (a =? 0) && ((b =? 10) || (b =? 13)) && (l1 =? 10) && (l2 =? 5)
                             then RdeOk f1 f2 ty else RdeBadPath
            | _ => RdeBadPath
            end
          else RdeBadPath
      | _ => RdeBadPath
      end
  | [] => RdeFalse
  end.

(* state while the chain of sections is read *)
Record rd_xst := mkRdXst { rdx_st : c3_state; rdx_trailer : option mobj; rdx_pre : list (N * N * rd_obj);
                           rdx_w : list rd_w }.

Inductive rd_res (A : Type) := RdGo (a : A) | RdOut (code : N).
Arguments RdGo {A} a.
Arguments RdOut {A} code.
(* codes of RdOut: 1 no startxref / offset 0, 2 xref syntax invalid, 3 invalid xref entry, 4 bad-entry path (not
   modelled), 5 trailer not a dictionary, 6 /Size missing or not an integer, 7 invalid /XRefStm, 8 /Prev not an
   integer, 9 loop following xref tables, 10 xref stream not found, 11 /W, 12 /Size of the stream, 13 /Index,
   14 stream data too short, 15 stream not decodable by the model, 16 field out of int range, 17 indirect value
   in a trailer key, 18 no trailer, 19 encrypted, 20 /Root is not a dictionary, 21 out of fuel, 22 negative /Prev *)

(* entries of one subsection, in file order: in-use entries are inserted at once, free ones collected *)
Fixpoint rd_table_entries (n : nat) (file : list N) (pos : N) (i : N) (max_id : N) (st : c3_state)
         (free : list (N * c3_xe)) (w : list rd_w) : rd_res (N * c3_state * list (N * c3_xe) * list rd_w) :=
  match n with
  | O => RdGo (pos, st, free, w)
  | S n' =>
      match rd_xref_entry (firstn 20 (rd_at file pos)) with
      | RdeFalse => RdOut 3
      | RdeBadPath => RdOut 4
      | RdeOk f1 f2 ty =>
          if ty =? 102 then rd_table_entries n' file (pos + 20) (i + 1) max_id st (free ++ [(i, C3Free f2)]) w
          else rd_table_entries n' file (pos + 20) (i + 1) max_id (c3_entry max_id st (i, C3Use f1 f2)) free
                 (if 65535 <=? f2 then RdW_xref 2 :: w else w)
      end
  end.

Fixpoint rd_table_subsections (fuel : nat) (file : list N) (pos : N) (max_id : N) (st : c3_state)
         (free : list (N * c3_xe)) (w : list rd_w) : rd_res (list N * N * c3_state * list (N * c3_xe) * list rd_w) :=
  match fuel with
  | O => RdOut 21
  | S f =>
      match rd_xref_first (rd_cstr (firstn 50 (rd_at file pos))) with
      | None => RdOut 2
      | Some (obj, num, bytes) =>
          (* every entry needs 20 bytes: more iterations than that cannot succeed *)
          match rd_table_entries (N.to_nat (N.min (Z.to_N num) (rd_len file / 20 + 1))) file (pos + bytes) (Z.to_N obj) max_id st free w with
          | RdOut c => RdOut c
          | RdGo (pos2, st2, free2, w2) =>
              let '(tok, rest, newpos, _) := rd_tok 0 (rd_at file pos2) pos2 in
              if rd_is_word tok rd_s_trailer then RdGo (rest, newpos, st2, free2, w2)
              else rd_table_subsections f file pos2 max_id st2 free2 w2
          end
      end
  end.

(* ------------------------------------------------------------------ cross-reference stream *)
Definition rd_wrap64 (z : Z) : Z := ((z + 9223372036854775808) mod 18446744073709551616 - 9223372036854775808)%Z.
Fixpoint rd_field (w : nat) (p : list N) (acc : Z) : Z * list N :=
  match w with
  | O => (acc, p)
  | S w' => match p with
            | b :: t => rd_field w' t (rd_wrap64 (Z.lor (rd_wrap64 (acc * 256)) (Z.of_N b)))
            | [] => (acc, [])
            end
  end.

(* one subsection of the stream data *)
Fixpoint rd_xstream_entries (n : nat) (obj : N) (w0 w1 w2 : nat) (p : list N) (max_id : N) (st : c3_state) (w : list rd_w)
  : rd_res (list N * c3_state * list rd_w) :=
  match n with
  | O => RdGo (p, st, w)
  | S n' =>
      let '(f0, p1) := rd_field w0 p (match w0 with O => 1%Z | _ => 0%Z end) in
      let '(f1, p2) := rd_field w1 p1 0%Z in
      let '(f2, p3) := rd_field w2 p2 0%Z in
      if obj =? 0 then rd_xstream_entries n' (obj + 1) w0 w1 w2 p3 max_id st w
      else if (f0 =? 0)%Z then rd_xstream_entries n' (obj + 1) w0 w1 w2 p3 max_id (c3_insert_free max_id st obj 0) w
      else if negb (in_int_range f0 && in_int_range f2) then RdOut 16
      else if (f0 =? 1)%Z then
        if (f2 <? 0)%Z then rd_xstream_entries n' (obj + 1) w0 w1 w2 p3 max_id st w
        else if (f1 <? 0)%Z then RdOut 16
        else rd_xstream_entries n' (obj + 1) w0 w1 w2 p3 max_id (c3_insert_use max_id st obj (C3Use (Z.to_N f1) (Z.to_N f2))) w
      else if (f0 =? 2)%Z then
        if (f2 <? 0)%Z then rd_xstream_entries n' (obj + 1) w0 w1 w2 p3 max_id st w
        else
          let valid := (obj <=? max_id) && negb (c3_is_deleted st obj) in
          let w' := if valid && (f1 =? Z.of_N obj)%Z then RdW_xref 3 :: w
                    else if valid && (Z.of_N max_id <? f1)%Z then RdW_xref 4 :: w else w in
          if (f1 <? 0)%Z then
            (* a negative stream number: emplaced as it is; the model leaves the table alone and stays outside *)
            RdOut 16
          else rd_xstream_entries n' (obj + 1) w0 w1 w2 p3 max_id (c3_insert_use max_id st obj (C3Comp (Z.to_N f1) (Z.to_N f2))) w'
      else rd_xstream_entries n' (obj + 1) w0 w1 w2 p3 max_id st w
  end.

Fixpoint rd_xstream_index (idx : list (N * N)) (w0 w1 w2 : nat) (p : list N) (max_id : N) (st : c3_state) (w : list rd_w)
  : rd_res (c3_state * list rd_w) :=
  match idx with
  | [] => RdGo (st, w)
  | (first, cnt) :: r =>
      match rd_xstream_entries (N.to_nat cnt) first w0 w1 w2 p max_id st w with
      | RdOut c => RdOut c
      | RdGo (p', st', w') => rd_xstream_index r w0 w1 w2 p' max_id st' w'
      end
  end.

(* processXRefIndex on the /Index array: pairs (first, count) and the number of entries *)
Fixpoint rd_index_pairs (l : list mobj) (max_entries : Z) (num : Z) (acc : list (N * N)) : option (list (N * N) * Z) :=
  match l with
  | [] => Some (rev' acc, num)
  | MoInt first :: MoInt cnt :: r =>
      if (first <? 0)%Z || (max_entries <? first)%Z then None
      else if (cnt <=? 0)%Z then None
      else if (max_entries - cnt <? first)%Z || (max_entries - num <? cnt)%Z then None
      else rd_index_pairs r max_entries (num + cnt)%Z ((Z.to_N first, Z.to_N cnt) :: acc)
  | _ => None
  end.

Definition rd_direct_int (o : mobj) : option Z := match o with MoInt z => Some z | _ => None end.
Definition rd_is_ref (o : mobj) : bool := match o with MoRef _ _ => true | _ => false end.

(* read_xrefStream + processXRefStream at [off]: new state and the /Prev value (0 = none) *)
Definition rd_read_xstream (file : list N) (max_id : N) (x : rd_xst) (off : N) : rd_res (rd_xst * Z) :=
  let e := mkRdEnv file (c3_tbl (rdx_st x)) (rdx_pre x) max_id false in
  match rd_read_at e (fun _ => (rd_null, [])) true off None with
  | RdrObj id gen so wr =>
      match rdo_stream so, rdo_val so with
      | Some _, MoDict d =>
          if rdo_unmod so then RdOut 15 else
          if rd_is_ref (rd_dict_get rd_s_Length d) || rd_is_ref (rd_dict_get rd_s_Type d) || rd_is_ref (rd_dict_get rd_s_W d)
             || rd_is_ref (rd_dict_get rd_s_Size d) || rd_is_ref (rd_dict_get rd_s_Index d) || rd_is_ref (rd_dict_get rd_s_Prev d)
             || rd_is_ref (rd_dict_get rd_s_Filter d) || rd_is_ref (rd_dict_get rd_s_DecodeParms d) then RdOut 17 else
          match rd_dict_get rd_s_Type d with
          | MoName t =>
              if negb (rd_beq t rd_s_XRef) then RdOut 10 else
              (* the object is cached unless it is cached already or its (obj, gen) is in the table *)
              let ido := Z.to_N id in let geno := Z.to_N gen in
              let pre := match rd_pre_get (rdx_pre x) ido geno, rd_lookup (c3_tbl (rdx_st x)) ido geno with
                         | None, None => rdx_pre x ++ [(ido, geno, so)]
                         | _, _ => rdx_pre x
                         end in
              match rd_dict_get rd_s_W d with
              | MoArr (MoInt a :: MoInt b :: MoInt c :: _) =>
                  let '(a', _) := rd_clamp (-2147483648) 2147483647 a in
                  let '(b', _) := rd_clamp (-2147483648) 2147483647 b in
                  let '(c', _) := rd_clamp (-2147483648) 2147483647 c in
                  if ((8 <? a') || (8 <? b') || (8 <? c') || (a' <? 0) || (b' <? 0) || (c' <? 0) || (a' + b' + c' =? 0))%Z then RdOut 11 else
                  let entry_size := (a' + b' + c')%Z in
                  let max_entries := Z.min 2147483647 (9223372036854775807 / entry_size) in
                  match rd_dict_get rd_s_Size d with
                  | MoInt size =>
                      if (size <? 0)%Z || (max_entries <=? size)%Z then RdOut 12 else
                      let idx := match rd_dict_get rd_s_Index d with
                                 | MoArr l => match l with
                                              | [] => None
                                              | _ => if Nat.odd (length l) then None else rd_index_pairs l max_entries 0 []
                                              end
                                 | MoNull => Some ([(0, Z.to_N size)], size)
                                 | _ => None
                                 end in
                      match idx with
                      | None => RdOut 13
                      | Some (pairs, num_entries) =>
                          match rd_decode d (rd_stream_raw file so) with
                          | None => RdOut 15
                          | Some data =>
                              let expected := (entry_size * num_entries)%Z in
                              let actual := Z.of_N (rd_len data) in
                              if (actual <? expected)%Z then RdOut 14 else
                              let w1 := if (expected <? actual)%Z then [RdW_xref 5] else [] in
                              match rd_xstream_index pairs (Z.to_nat a') (Z.to_nat b') (Z.to_nat c') data max_id (rdx_st x) [] with
                              | RdOut c => RdOut c
                              | RdGo (st', w2) =>
                                  let tr := match rdx_trailer x with Some t => Some t | None => Some (MoDict d) end in
                                  let x' := mkRdXst st' tr pre (rdx_w x ++ wr ++ w1 ++ rev' w2) in
                                  match rd_dict_get rd_s_Prev d with
                                  | MoNull => RdGo (x', 0%Z)
                                  | MoInt p => RdGo (x', p)
                                  | _ => RdOut 8
                                  end
                              end
                          end
                      end
                  | _ => RdOut 12
                  end
              | _ => RdOut 11
              end
          | _ => RdOut 10
          end
      | _, _ => RdOut 10
      end
  | _ => RdOut 10
  end.

(* read_xrefTable at [pos] (just after "xref" and the white space counted by read_xref) *)
Definition rd_read_xtable (file : list N) (max_id : N) (x : rd_xst) (pos : N) : rd_res (rd_xst * Z) :=
  match rd_table_subsections (S (length file)) file pos max_id (rdx_st x) [] [] with
  | RdOut c => RdOut c
  | RdGo (rest, tpos, st1, free, w1) =>
      (* readTrailer *)
      let r := parse_object false false rd_tk rest tpos in
      let e := mkRdEnv file (c3_tbl st1) (rdx_pre x) max_id false in
      match pr_obj r with
      | Some (MoDict d0) =>
          let d := match rd_fixrefs (rd_known e) (MoDict d0) with MoDict d' => d' | _ => d0 end in
          let '(tok, _, _, _) := rd_tok 0 (pr_rest r) (pr_pos r) in
          let wt := map RdW_parse (pr_warn r) ++ (if rd_is_word tok rd_s_stream then [RdW_xref 7] else []) in
          if rd_is_ref (rd_dict_get rd_s_Size d) || rd_is_ref (rd_dict_get rd_s_XRefStm d) || rd_is_ref (rd_dict_get rd_s_Prev d)
          then RdOut 17 else
          let first := match rdx_trailer x with None => true | Some _ => false end in
          if first && negb (match rd_dict_get rd_s_Size d with MoInt _ => true | _ => false end) then RdOut 6 else
          let tr := match rdx_trailer x with Some t => Some t | None => Some (MoDict d) end in
          let x1 := mkRdXst st1 tr (rdx_pre x) (rdx_w x ++ rev' w1 ++ wt) in
          let after_stm :=
              match rd_dict_get rd_s_XRefStm d with
              | MoNull => RdGo x1
              | MoInt so => if (so <? 0)%Z then RdOut 7 else
                            match rd_read_xstream file max_id x1 (Z.to_N so) with
                            | RdGo (x2, _) => RdGo x2
                            | RdOut c => RdOut c
                            end
              | _ => RdOut 7
              end in
          match after_stm with
          | RdOut c => RdOut c
          | RdGo x2 =>
              let st3 := fold_left (c3_entry max_id) free (rdx_st x2) in
              let x3 := mkRdXst st3 (rdx_trailer x2) (rdx_pre x2) (rdx_w x2) in
              match rd_dict_get rd_s_Prev d with
              | MoNull => RdGo (x3, 0%Z)
              | MoInt p => RdGo (x3, p)
              | _ => RdOut 8
              end
          end
      | _ => RdOut 5
      end
  end.

(* read_xref: the loop over the sections *)
Fixpoint rd_read_xref (fuel : nat) (file : list N) (max_id : N) (x : rd_xst) (off : N) (visited : list N) : rd_res rd_xst :=
  match fuel with
  | O => RdOut 21
  | S f =>
      let '(s, skipped) := rd_skip_space (rd_at file off) 0 in
      let buf := firstn 6 s in
      let res :=
          if rd_prefix rd_s_xref buf && util_is_space (nth 4 buf 0) then
            let skip := if util_is_space (nth 5 buf 0) then 6 else 5 in
            match rd_read_xtable file max_id x (off + skip) with
            | RdGo (x', prev) => RdGo (mkRdXst (rdx_st x') (rdx_trailer x') (rdx_pre x')
                                               (if 0 <? skipped then RdW_xref 1 :: rdx_w x' else rdx_w x'), prev)
            | RdOut c => RdOut c
            end
          else rd_read_xstream file max_id x off in
      match res with
      | RdOut c => RdOut c
      | RdGo (x', prev) =>
          if (prev <? 0)%Z then RdOut 22 else
          if existsb (N.eqb (Z.to_N prev)) (off :: visited) then RdOut 9 else
          if (prev =? 0)%Z then RdGo x' else rd_read_xref f file max_id x' (Z.to_N prev) (off :: visited)
      end
  end.

(* the final pass of read_xref AS CODED: the table is walked in (obj, gen) order with the previous entry remembered;
   when the current entry has the object number of the remembered one (and the number is positive) the remembered one is
   removed; the current one is remembered.  [l] must be in map order. *)
Fixpoint rd_gen_pass (l : rd_tbl) : rd_tbl :=
  match l with
  | [] => []
  | a :: r =>
      match r with
      | [] => [a]
      | b :: _ => if (fst (fst a) =? fst (fst b)) && (0 <? fst (fst b)) then rd_gen_pass r else a :: rd_gen_pass r
      end
  end.

(* the same pass as a specification: only the highest generation of each object number is kept (not used by rd_view) *)
Definition rd_final_tbl (t : rd_tbl) : rd_tbl :=
  filter (fun e => match c3_best t (fst (fst e)) with
                   | Some (g, _) => g =? snd (fst e)
                   | None => false
                   end) t.
Fixpoint rd_max_obj (t : rd_tbl) (m : N) : N := match t with [] => m | (o, _, _) :: r => rd_max_obj r (N.max o m) end.
Fixpoint rd_max_n (l : list N) (m : N) : N := match l with [] => m | o :: r => rd_max_n r (N.max o m) end.

(* ------------------------------------------------------------------ the view *)
Record rd_item := mkRdItem { rdi_obj : N; rdi_gen : N; rdi_val : mobj; rdi_data : option (list N); rdi_unmod : bool }.
Record rd_doc := mkRdDoc { rdd_version : list N; rdd_shift : N; rdd_trailer : mobj; rdd_tbl : rd_tbl;
                           rdd_items : list rd_item; rdd_warn : list rd_w }.
Inductive rd_result := RdDoc (d : rd_doc) | RdOutside (code : N) (w : list rd_w) | RdFatal (code : N) (w : list rd_w).
(* RdFatal: 1 unable to find page tree *)


(* resolveObjectsInStream caches every member of a stream the first time one of them is asked for: the view does the same
   (one pass per object stream).  Same result as rd_resolve on each member, except on reference loops that run through the
   object stream itself, where qpdf's own result depends on the order of the requests. *)
Definition rd_stm_result := (list rd_w * ((list (Z * rd_obj) * list rd_w) + (N * list rd_w)))%type.
Definition rd_stm_cache (fuel : nat) (e : rd_env) : list (N * rd_stm_result) :=
  fold_left (fun (acc : list (N * rd_stm_result)) (ent : N * N * c3_xe) =>
               match ent with
               | (_, _, C3Comp stm _) =>
                   if existsb (fun x => fst x =? stm) acc then acc
                   else (stm, (let '(so, ws) := rd_resolve fuel e [] (stm, 0) in (ws, rd_objstm_members e stm so))) :: acc
               | _ => acc
               end) (rde_tbl e) [].
Fixpoint rd_cache_get (stm : N) (c : list (N * rd_stm_result)) : option rd_stm_result :=
  match c with
  | [] => None
  | (k, v) :: r => if k =? stm then Some v else rd_cache_get stm r
  end.
Definition rd_resolve_top (fuel : nat) (e : rd_env) (cache : list (N * rd_stm_result)) (ent : N * N * c3_xe) : rd_obj * list rd_w :=
  let '(o, g, x) := ent in
  match x, rd_pre_get (rde_pre e) o g with
  | C3Comp stm _, None =>
      match rd_cache_get stm cache with
      | Some (ws, inl (members, w)) => (match rd_assoc_z (Z.of_N o) members with Some v => v | None => rd_null end, ws ++ w)
      | Some (ws, inr (c, w)) => (rd_null, ws ++ w ++ [RdW_exc c])
      | None => rd_resolve fuel e [] (o, g)
      end
  | _, _ => rd_resolve fuel e [] (o, g)
  end.

(* an object stream whose filters the model does not decode was met: the model abstains *)
Definition rd_is_undecodable (w : rd_w) : bool := match w with RdW_exc 7 => true | _ => false end.

(* everything after the header search: [file] is the input as the OffsetInputSource presents it (offset 0 = the header) *)
Definition rd_view_at (version : list N) (w0 : list rd_w) (file : list N) : rd_result :=
  let shift := 0 in
  let end_off := rd_len file in
  let max_id := N.min 2147483646 (end_off / 3) in
  let start := if 1054 <? end_off then end_off - 1054 else 0 in
  match rd_find_last_sx (S (length file)) file start None with
  | None => RdOutside 1 w0
  | Some ipos =>
      let '(tok, _, _, _) := rd_tok 0 (rd_at file ipos) ipos in
      match text_to_ll (tok_value tok) with
      | None => RdOutside 1 w0
      | Some xoff =>
          if (xoff <=? 0)%Z then RdOutside 1 w0 else
          match rd_read_xref (S (length file)) file max_id (mkRdXst (Build_c3_state [] []) None [] []) (Z.to_N xoff) [] with
          | RdOut c => RdOutside c w0
          | RdGo x =>
              match rdx_trailer x with
              | Some (MoDict tr) =>
                  let tbl0 := c3_tbl (rdx_st x) in
                  let pre := rdx_pre x in
                  (* the /Size check at the end of read_xref *)
                  let max_obj := N.max (rd_max_obj tbl0 0) (rd_max_n (c3_deleted (rdx_st x)) 0) in
                  let wsize := match rd_dict_get rd_s_Size tr with
                               | MoInt size =>
                                   let '(s, _) := rd_clamp (-2147483648) 2147483647 size in
                                   if (s <? 1)%Z || negb (s - 1 =? Z.of_N max_obj)%Z then [RdW_xref 6] else []
                               | _ => [RdW_xref 6]
                               end in
                  let tbl := rd_gen_pass (fold_right rd_insert_sorted [] tbl0) in
                  let e := mkRdEnv file tbl pre max_id true in
                  let fuel := S (S (length tbl)) in
                  if rd_has_key rd_s_Encrypt tr then RdOutside 19 (w0 ++ rdx_w x ++ wsize) else
                  (* getRoot() and the page-tree check of Objects::parse *)
                  let '(root, wr) := match rd_dict_get rd_s_Root tr with
                                     | MoRef id gen => rd_resolve fuel e [] (Z.to_N id, Z.to_N gen)
                                     | v => (mkRdObj v None false, [])
                                     end in
                  match rdo_val root, rdo_stream root with
                  | MoDict rdict, None =>
                      let '(ty, wty) := match rd_dict_get rd_s_Type rdict with
                                        | MoRef id gen => let '(o, w) := rd_resolve fuel e [] (Z.to_N id, Z.to_N gen) in (rdo_val o, w)
                                        | v => (v, [])
                                        end in
                      let is_cat := match ty with MoName t => rd_beq t rd_s_Catalog | _ => false end in
                      let '(pages, wp) := match rd_dict_get rd_s_Pages rdict with
                                          | MoRef id gen => rd_resolve fuel e [] (Z.to_N id, Z.to_N gen)
                                          | v => (mkRdObj v None false, [])
                                          end in
                      let wall := w0 ++ rdx_w x ++ wsize ++ wr ++ wty ++ (if is_cat then [] else [RdW_catalog_type]) ++ wp in
                      match rdo_val pages, rdo_stream pages with
                      | MoDict _, None =>
                          let root_og := match rd_dict_get rd_s_Root tr with MoRef id gen => Some (Z.to_N id, Z.to_N gen) | _ => None end in
                          let cache := rd_stm_cache fuel e in
                          let items_w :=
                              fold_left (fun (acc : list rd_item * list rd_w) (ent : N * N * c3_xe) =>
                                           let '(o, g, _) := ent in
                                           let '(v, w) := rd_resolve_top fuel e cache ent in
                                           (* getRoot() replaces a missing or wrong /Type of the catalog *)
                                           let val := match root_og, rdo_val v with
                                                      | Some (ro, rg), MoDict dd =>
                                                          if (ro =? o) && (rg =? g) && negb is_cat
                                                          then MoDict (fst (map_put rd_s_Type (MoName rd_s_Catalog) dd)) else rdo_val v
                                                      | _, vv => vv
                                                      end in
                                           (mkRdItem o g val
                                              (match rdo_stream v with Some _ => Some (rd_stream_raw file v) | None => None end)
                                              (rdo_unmod v) :: fst acc, snd acc ++ w))
                                        tbl ([], []) in
                          if existsb rd_is_undecodable (wall ++ snd items_w) then RdOutside 15 [] else
                          RdDoc (mkRdDoc version shift (MoDict tr) tbl (rev' (fst items_w)) (wall ++ snd items_w))
                      | _, _ => if existsb rd_is_undecodable wall then RdOutside 15 [] else RdFatal 1 wall
                      end
                  | _, _ => RdOutside 20 (w0 ++ rdx_w x ++ wsize ++ wr)
                  end
              | _ => RdOutside 18 w0
              end
          end
      end
  end.

Definition rd_set_shift (k : N) (r : rd_result) : rd_result :=
  match r with
  | RdDoc d => RdDoc (mkRdDoc (rdd_version d) k (rdd_trailer d) (rdd_tbl d) (rdd_items d) (rdd_warn d))
  | other => other
  end.

(* Objects::parse: header anywhere in the first 1024 bytes; every offset is then counted from the header *)
Definition rd_view (file0 : list N) : rd_result :=
  match rd_find_header 1024 file0 0 with
  | Some (p, v) => rd_set_shift p (rd_view_at v [] (rd_at file0 p))
  | None => rd_view_at [49; 46; 50] [RdW_header] file0
  end.
