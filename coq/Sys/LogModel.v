(* C20 - the process-wide default logger.  Written from libqpdf/QPDFLogger.cc (QPDFLogger::defaultLogger():
   `static auto l = create()`, sinks std::cout / std::cerr) and libqpdf/QPDF.cc (every QPDF starts with
   cf.log() = the default logger; QPDF::setLogger(l) replaces the document's pointer; the deprecated
   QPDF::setOutputStreams(out, err) is `setLogger(QPDFLogger::create()); log->setOutputStreams(out, err)`:
   it installs a PRIVATE logger; Common::warn writes to *cf.log()->getWarn()).
   The default logger is one cell shared by all documents ([lg_default]: the sink it currently writes to);
   the rule is that per-document redirection must not write it.  [wr = false] is the code as it is;
   [wr = true] is the variant in which redirection reconfigures the logger the document already uses (i.e. the
   shared default one) - kept to show what the frame theorem excludes.  No proofs in this file. *)
From QV Require Import Base.Bytes.

Inductive lsink := SkDefault | SkPrivate (k : nat).     (* which logger a document's pointer designates *)
Record lworld := mkLWorld { lg_default : nat;            (* sink of the default logger: 0 = std::cerr / std::cout *)
                            lg_docs : list (nat * lsink) }.
Inductive lop := LCreate | LRedirect (k : nat) | LEmit | LDestroy.

Fixpoint lg_get (m : list (nat * lsink)) (d : nat) : option lsink :=
  match m with [] => None | (d', s) :: t => if Nat.eqb d' d then Some s else lg_get t d end.
Fixpoint lg_del (m : list (nat * lsink)) (d : nat) : list (nat * lsink) :=
  match m with [] => [] | (d', s) :: t => if Nat.eqb d' d then lg_del t d else (d', s) :: lg_del t d end.
Definition lg_set (m : list (nat * lsink)) (d : nat) (s : lsink) : list (nat * lsink) := (d, s) :: lg_del m d.

(* where document d's warnings / info / errors arrive (None: no such document) *)
Definition sink_of (w : lworld) (d : nat) : option nat :=
  match lg_get (lg_docs w) d with
  | Some SkDefault => Some (lg_default w)
  | Some (SkPrivate k) => Some k
  | None => None
  end.

Definition lstep (wr : bool) (a : nat) (w : lworld) (op : lop) : lworld * option nat :=
  match op with
  | LCreate => (mkLWorld (lg_default w) (lg_set (lg_docs w) a SkDefault), None)
  | LRedirect k =>
    match lg_get (lg_docs w) a with
    | None => (w, None)
    | Some cur =>
      if wr then
        (* reconfigure the logger the document already uses *)
        match cur with
        | SkDefault => (mkLWorld k (lg_docs w), None)
        | SkPrivate _ => (mkLWorld (lg_default w) (lg_set (lg_docs w) a (SkPrivate k)), None)
        end
      else (mkLWorld (lg_default w) (lg_set (lg_docs w) a (SkPrivate k)), None)
    end
  | LEmit => (w, sink_of w a)
  | LDestroy => (mkLWorld (lg_default w) (lg_del (lg_docs w) a), None)
  end.

Definition lworld0 : lworld := mkLWorld O [].

Fixpoint log_run_from (wr : bool) (w : lworld) (h : list (nat * lop)) : list (option nat) :=
  match h with
  | [] => []
  | (a, op) :: t => let (w1, r) := lstep wr a w op in r :: log_run_from wr w1 t
  end.
Definition log_run (wr : bool) (h : list (nat * lop)) : list (option nat) := log_run_from wr lworld0 h.
