(* C05: AES data round trip with the FIPS-197 model instantiated, and files written with the
   256-bit schemes (R = 5, 6): Algorithms 8, 9, 10 as qpdf runs them against Algorithms 2.A, 11, 12,
   13 of the reference reader. Lemmas named *_lemma become theorems of Props/Properties_C05.v. *)
From QV Require Import Base.Bytes Crypto.Nib Filters.Filters Filters.C15ProofsB.
From QV Require Import Crypto.MD5 Crypto.SHA2Fast Crypto.AES Crypto.AesPdf Crypto.KeyDeriv Crypto.IsoRef Crypto.Perms.
From QV Require Import Crypto.C05Proofs Crypto.CbcProofs Crypto.AesInv Crypto.C05ProofsB.
Local Open Scope N_scope.

(* the FIPS-197 model satisfies what the CBC lemmas ask of a block cipher *)
Lemma cipher_ok_schedule : forall key, (length key = 16 \/ length key = 32)%nat -> cipher_ok (aes_key_schedule key).
Proof.
  intros key Hk. pose proof (aes_key_schedule_lengths key Hk) as HL. repeat split.
  - intros b Hb. apply aes_cipher_length; assumption.
  - intros b. apply aes_cipher_bytes.
  - intros b Hb Hbb. apply aes_inv_cipher_cipher; assumption.
Qed.

Lemma key_len_ok_iff : forall key, key_len_ok key = true <-> (length key = 16 \/ length key = 32)%nat.
Proof.
  intros key. unfold key_len_ok. rewrite orb_true_iff, !Nat.eqb_eq. tauto.
Qed.

(* what key lengths the writer uses: 16 bytes below V 5 (AESV2), 32 bytes for V 5 (AESV3) *)
Definition aes_file_key_ok (V : N) (key : list N) : Prop :=
  (V <? 5 = true /\ length key = 16%nat) \/ (5 <=? V = true /\ length key = 32%nat).

Lemma data_key_len : forall V key num gen, aes_file_key_ok V key ->
  let k := kd_compute_data_key key num gen true V in (length k = 16 \/ length k = 32)%nat.
Proof.
  intros V key num gen [[HV Hk]|[HV Hk]] k; subst k; unfold kd_compute_data_key.
  - replace (5 <=? V) with false by (symmetry; apply N.leb_gt; apply N.ltb_lt; exact HV).
    left. rewrite firstn_length, length_md5, !app_length, Hk. cbn [length]. lia.
  - rewrite HV. right. exact Hk.
Qed.

(* data_roundtrip_aes: the reference reader (IV = first block, CBC, PKCS#5 padding checked) recovers exactly
   the string / stream the writer encrypted with Pl_AES_PDF under the per-object key; any IV (random or the
   static one), any object and generation number, both AESV2 and AESV3. *)
Lemma data_roundtrip_aes_lemma : forall d key V num gen iv s,
  rv_consistent (iso_R d) V -> aes_file_key_ok V key ->
  length iv = 16%nat -> byte_list iv -> byte_list s ->
  iso_decrypt_data d key true num gen (opt_bytes (kd_encrypt_data key V true num gen iv s)) = Some s.
Proof.
  intros d key V num gen iv s Hrv Hk Hiv Hivb Hs. unfold iso_decrypt_data, kd_encrypt_data.
  rewrite (object_key_agrees d key true num gen V Hrv).
  2:{ right. destruct Hk as [[_ ->]|[_ ->]]; lia. }
  pose proof (data_key_len V key num gen Hk) as HL. cbv zeta in HL.
  apply pl_encrypt_iso_decrypt; try assumption.
  - apply cipher_ok_schedule. exact HL.
  - apply key_len_ok_iff. exact HL.
Qed.

(* aes_length: IV + data padded to the next multiple of 16 (a whole block when already a multiple):
   the value QPDFWriter::adjustAESStreamLength announces as /Length *)
Lemma aes_length_lemma : forall key V num gen iv s,
  aes_file_key_ok V key -> length iv = 16%nat ->
  length (opt_bytes (kd_encrypt_data key V true num gen iv s)) = (16 + 16 * (length s / 16 + 1))%nat.
Proof.
  intros key V num gen iv s Hk Hiv. unfold kd_encrypt_data.
  pose proof (data_key_len V key num gen Hk) as HL. cbv zeta in HL.
  apply pl_encrypt_length; try assumption.
  - apply cipher_ok_schedule. exact HL.
  - apply key_len_ok_iff. exact HL.
Qed.

(* ---------------------------------------------------------------- R = 5, 6 *)
Lemma sub3 : forall a b c : list N, length a = 32%nat -> length b = 8%nat -> length c = 8%nat ->
  iso_sub (a ++ b ++ c) 0 32 = a /\ iso_sub (a ++ b ++ c) 32 8 = b /\ iso_sub (a ++ b ++ c) 40 8 = c /\
  iso_sub (a ++ b ++ c) 0 48 = a ++ b ++ c.
Proof.
  intros a b c Ha Hb Hc. unfold iso_sub. repeat split.
  - cbn [skipn]. apply firstn_app_exact. exact Ha.
  - rewrite (skipn_app_exact a (b ++ c) 32 Ha). apply firstn_app_exact. exact Hb.
  - rewrite app_assoc. rewrite (skipn_app_exact (a ++ b) c 40) by (rewrite app_length; lia).
    apply firstn_all2. lia.
  - cbn [skipn]. apply firstn_all2. rewrite !app_length. lia.
Qed.

Lemma byte_list_firstn : forall n l, byte_list l -> byte_list (firstn n l).
Proof.
  unfold byte_list. induction n as [|n IH]; intros l H; [constructor|].
  destruct l as [|a l]; [constructor|]. inversion H; subst. cbn [firstn]. constructor; [assumption|apply IH; assumption].
Qed.
Lemma byte_list_skipn : forall n l, byte_list l -> byte_list (skipn n l).
Proof.
  unfold byte_list. induction n as [|n IH]; intros l H; [exact H|].
  destruct l as [|a l]; [constructor|]. inversion H; subst. cbn [skipn]. apply IH; assumption.
Qed.

Lemma xor_zero16 : forall b, length b = 16%nat -> xor_bytes b iso_zero_iv = b.
Proof.
  intros b H. do 17 (destruct b as [|? b]; [try discriminate H|]); [|discriminate H].
  cbn. rewrite !N.lxor_0_r. reflexivity.
Qed.

Section V5.
  Variables (R P : N) (id1 : list N) (em : bool) (u o rnd : list N).
  Hypothesis HR : R = 5 \/ R = 6.
  Hypothesis Hrl : length rnd = 68%nat.
  Hypothesis Hrb : byte_list rnd.

  Let ed0 := base_ed 5 R 32 P id1 em.
  Let p := kd_compute_parameters_V5 ed0 u o rnd.
  Let d := to_iso (kd_with_V5 ed0 p).
  Let key := firstn 32 rnd.
  Let uvs := firstn 8 (skipn 32 rnd).
  Let uks := firstn 8 (skipn 40 rnd).
  Let ovs := firstn 8 (skipn 48 rnd).
  Let oks := firstn 8 (skipn 56 rnd).
  Let u' := firstn 127 u.
  Let o' := firstn 127 o.
  Let Uv := kd_hash_V5 R u' uvs [] ++ uvs ++ uks.

  Lemma params_V5_are : kd_compute_parameters ed0 u o rnd = (kd_with_V5 ed0 p, key).
  Proof. reflexivity. Qed.

  Lemma key_len : length key = 32%nat.
  Proof. subst key. rewrite firstn_length. lia. Qed.
  Lemma salt_len : length uvs = 8%nat /\ length uks = 8%nat /\ length ovs = 8%nat /\ length oks = 8%nat.
  Proof. subst uvs uks ovs oks. rewrite !firstn_length, !skipn_length. lia. Qed.
  Lemma key_bytes : byte_list key.
  Proof. apply byte_list_firstn. exact Hrb. Qed.

  Lemma U_is : iso_U d = Uv. Proof. reflexivity. Qed.
  Lemma O_is : iso_O d = kd_hash_V5 R o' ovs Uv ++ ovs ++ oks. Proof. reflexivity. Qed.
  Lemma R_is : iso_R d = R. Proof. reflexivity. Qed.

  Lemma U_parts : iso_sub Uv 0 32 = kd_hash_V5 R u' uvs [] /\ iso_sub Uv 32 8 = uvs /\ iso_sub Uv 40 8 = uks /\ iso_sub Uv 0 48 = Uv.
  Proof. destruct salt_len as (?&?&?&?). apply sub3; try assumption. apply hash_length. Qed.
  Lemma O_parts : iso_sub (iso_O d) 0 32 = kd_hash_V5 R o' ovs Uv /\ iso_sub (iso_O d) 32 8 = ovs /\ iso_sub (iso_O d) 40 8 = oks.
  Proof. destruct salt_len as (?&?&?&?). rewrite O_is. destruct (sub3 (kd_hash_V5 R o' ovs Uv) ovs oks) as (?&?&?&_); try assumption; [apply hash_length|auto]. Qed.

  (* /UE and /OE: AES-256-CBC, zero IV, no padding, of the file key under the intermediate key *)
  Lemma wrap_unwrap : forall ik, length ik = 32%nat ->
    iso_cbc_dec (aes_key_schedule ik) iso_zero_iv
                (iso_blocks (iso_sub (kd_process_with_aes ik true key 1 None) 0 32)) = key.
  Proof.
    intros ik Hik. unfold kd_process_with_aes. cbn [repeat concat]. rewrite app_nil_r.
    assert (Hok : cipher_ok (aes_key_schedule ik)) by (apply cipher_ok_schedule; right; exact Hik).
    assert (Hm : (length key mod 16 = 0)%nat) by (rewrite key_len; reflexivity).
    rewrite pl_encrypt_nopad_zero; [|apply key_len_ok_iff; right; exact Hik|exact Hm]. cbn [opt_bytes].
    unfold iso_sub. cbn [skipn]. rewrite firstn_all2.
    - apply iso_cbc_dec_enc; try assumption; [reflexivity| |apply key_bytes].
      unfold byte_list, iso_zero_iv. apply Forall_forall. intros x Hx. apply repeat_spec in Hx. subst x. reflexivity.
    - rewrite iso_cbc_enc_length; try assumption; [rewrite key_len; lia|reflexivity].
  Qed.

  Lemma user_V5 : iso_is_user_V5 d u = true /\ iso_key_as_user_V5 d u = key.
  Proof.
    destruct U_parts as (H1&H2&H3&H4).
    unfold iso_is_user_V5, iso_key_as_user_V5, iso_pw_V5. rewrite R_is, U_is, H1, H2, H3.
    fold u'. rewrite !(hash_agrees R) by exact HR. split; [apply bytes_eqb_refl|].
    change (iso_UE d) with (kd_process_with_aes (kd_hash_V5 R u' uks []) true key 1 None).
    apply wrap_unwrap. apply hash_length.
  Qed.

  Lemma owner_V5 : iso_is_owner_V5 d o = true /\ iso_key_as_owner_V5 d o = key.
  Proof.
    destruct U_parts as (_&_&_&H4). destruct O_parts as (G1&G2&G3).
    unfold iso_is_owner_V5, iso_key_as_owner_V5, iso_pw_V5. rewrite G1, G2, G3, R_is, U_is, H4.
    fold o'. rewrite !(hash_agrees R) by exact HR. split; [apply bytes_eqb_refl|].
    change (iso_OE d) with (kd_process_with_aes (kd_hash_V5 R o' oks Uv) true key 1 None).
    apply wrap_unwrap. apply hash_length.
  Qed.

  (* /Perms (Algorithm 10) validates under Algorithm 13 *)
  Lemma perms_V5 : iso_perms_ok d key = true.
  Proof.
    set (clear := kd_perms_clear ed0 (firstn 4 (skipn 64 rnd))).
    assert (Hcl : length clear = 16%nat).
    { subst clear. unfold kd_perms_clear. rewrite !app_length, firstn_length, app_length. cbn [length bytes_le32]. lia. }
    assert (Hcb : byte_list clear).
    { subst clear. unfold kd_perms_clear, bytes_le32. unfold byte_list.
      repeat (apply Forall_app; split); try (apply byte_list_firstn; apply Forall_app; split; [apply byte_list_firstn; apply byte_list_skipn; exact Hrb|repeat constructor]).
      - repeat constructor; change 255 with (N.ones 8); rewrite N.land_ones; apply N.mod_lt; discriminate.
      - repeat constructor.
      - destruct (ed_encmeta ed0); repeat constructor.
      - repeat constructor. }
    assert (Hok : cipher_ok (aes_key_schedule key)) by (apply cipher_ok_schedule; right; apply key_len).
    assert (Hbl : iso_blocks clear = [clear]).
    { unfold iso_blocks. rewrite Hcl. change (16 / 16)%nat with 1%nat.
      cbn [chunks16].
      destruct clear as [|c0 cl]; [discriminate Hcl|].
      rewrite firstn_all2 by lia. rewrite skipn_all2 by lia. reflexivity. }
    assert (Hpt : aes_inv_cipher (aes_key_schedule key) (iso_sub (iso_Perms d) 0 16) = clear).
    { change (iso_Perms d) with (kd_process_with_aes key true clear 1 None).
      unfold kd_process_with_aes. cbn [repeat concat]. rewrite app_nil_r.
      rewrite pl_encrypt_nopad_zero; [|apply key_len_ok_iff; right; apply key_len|rewrite Hcl; reflexivity]. cbn [opt_bytes].
      rewrite Hbl. cbn [iso_cbc_enc]. rewrite app_nil_r. rewrite xor_zero16 by exact Hcl.
      destruct Hok as (Hlen&_&Hinv).
      unfold iso_sub. cbn [skipn]. rewrite firstn_all2 by (rewrite (Hlen clear Hcl); lia).
      apply Hinv; assumption. }
    unfold iso_perms_ok. cbv zeta. rewrite Hpt.
    subst clear. unfold kd_perms_clear, iso_sub. rewrite le32_is_iso.
    change (ed_P ed0) with P. change (iso_P d) with P. change (iso_encmeta d) with em. change (ed_encmeta ed0) with em.
    cbn [iso_le32 app skipn firstn nth]. rewrite bytes_eqb_refl. cbn [andb].
    fold (iso_le32 P). rewrite bytes_eqb_refl.
    destruct em; reflexivity.
  Qed.
End V5.

Definition v5_params_of (R P : N) (id1 : list N) (em : bool) (u o rnd : list N) : enc_data * list N :=
  kd_compute_parameters (base_ed 5 R 32 P id1 em) u o rnd.

(* auth_user / file_key_recovered (R = 5, 6): for EVERY user password (over-long ones included: writer and
   reader both truncate to 127 bytes since fix 032abc49) the reader's Algorithm 11 accepts the user password and
   Algorithm 2.A recovers the file key from /UE; rnd = the 68 bytes the random data provider returned. The reader
   tries the owner test first; when that test does not also accept the user password the file opens with the key. *)
Lemma auth_user_V5_lemma : forall R P id1 em u o rnd,
  R = 5 \/ R = 6 -> length rnd = 68%nat -> byte_list rnd ->
  let edk := v5_params_of R P id1 em u o rnd in
  iso_is_user_V5 (to_iso (fst edk)) u = true /\ iso_key_as_user_V5 (to_iso (fst edk)) u = snd edk /\
  (iso_is_owner_V5 (to_iso (fst edk)) u = false -> iso_open (to_iso (fst edk)) u = Some (snd edk)).
Proof.
  intros R P id1 em u o rnd HR Hl Hb edk. subst edk. unfold v5_params_of. rewrite params_V5_are. cbn [fst snd].
  destruct (user_V5 R P id1 em u o rnd HR Hl Hb) as [H1 H2]. repeat split; try assumption.
  intros Hno. unfold iso_open.
  change (iso_R (to_iso (kd_with_V5 (base_ed 5 R 32 P id1 em) (kd_compute_parameters_V5 (base_ed 5 R 32 P id1 em) u o rnd)))) with R.
  replace (R <=? 4) with false by (destruct HR as [-> | ->]; reflexivity).
  unfold iso_open_V5. rewrite Hno, H1, H2. reflexivity.
Qed.

(* auth_owner / file_key_recovered (R = 5, 6): for EVERY owner password (the empty one and over-long ones
   included) Algorithm 12 accepts, /OE yields the file key, the reader opens the file as owner. *)
Lemma auth_owner_V5_lemma : forall R P id1 em u o rnd,
  R = 5 \/ R = 6 -> length rnd = 68%nat -> byte_list rnd ->
  let edk := v5_params_of R P id1 em u o rnd in
  iso_is_owner_V5 (to_iso (fst edk)) o = true /\ iso_key_as_owner_V5 (to_iso (fst edk)) o = snd edk /\
  iso_open (to_iso (fst edk)) o = Some (snd edk).
Proof.
  intros R P id1 em u o rnd HR Hl Hb edk. subst edk. unfold v5_params_of. rewrite params_V5_are. cbn [fst snd].
  destruct (owner_V5 R P id1 em u o rnd HR Hl Hb) as [H1 H2]. repeat split; try assumption.
  unfold iso_open.
  change (iso_R (to_iso (kd_with_V5 (base_ed 5 R 32 P id1 em) (kd_compute_parameters_V5 (base_ed 5 R 32 P id1 em) u o rnd)))) with R.
  replace (R <=? 4) with false by (destruct HR as [-> | ->]; reflexivity).
  unfold iso_open_V5. rewrite H1, H2. reflexivity.
Qed.

(* perms_encodes_P: /Perms as qpdf computes it (Algorithm 10) decrypts, under the file key, to /P, the
   EncryptMetadata flag and "adb": Algorithm 13 of the reader validates it. All P, both flags, any passwords. *)
Lemma perms_encodes_P_lemma : forall R P id1 em u o rnd,
  R = 5 \/ R = 6 -> length rnd = 68%nat -> byte_list rnd ->
  let edk := v5_params_of R P id1 em u o rnd in
  iso_perms_ok (to_iso (fst edk)) (snd edk) = true.
Proof.
  intros R P id1 em u o rnd HR Hl Hb edk. subst edk. unfold v5_params_of. rewrite params_V5_are. cbn [fst snd].
  apply perms_V5; assumption.
Qed.

