(* C16, specification side: locality of the ISO lexer (what a token's reading depends on), the content reading
   c16_sem as a big-step relation, reading of concatenated streams.  Nothing here mentions the tokenizer model. *)
From Coq Require Import FunInd.
From QV Require Import Base.Bytes Lex.TokModel Lex.LexSpec Lex.TokInterp Lex.LexRun Lex.LexProofs Obj.Unparse Obj.UnparseProofs Struct.ContentSem.
Local Open Scope N_scope.

Functional Scheme lit_string_ind := Induction for lit_string Sort Prop.

(* the consumed text of a token never ends in white space *)
Definition ends_nonwhite (p : list N) : Prop :=
  match rev p with c :: _ => iso_white c = false | [] => False end.

Lemma ends_nonwhite_app pre p : ends_nonwhite p -> ends_nonwhite (pre ++ p).
Proof. unfold ends_nonwhite. rewrite rev_app_distr. destruct (rev p); [intros []|]. cbn. auto. Qed.
Lemma ends_nonwhite_cons b p : ends_nonwhite p -> ends_nonwhite (b :: p).
Proof. apply (ends_nonwhite_app [b]). Qed.
Lemma ends_nonwhite_nil : ~ ends_nonwhite [].
Proof. intros []. Qed.
Lemma ends_nonwhite_last pre c : iso_white c = false -> ends_nonwhite (pre ++ [c]).
Proof. intros H. unfold ends_nonwhite. rewrite rev_app_distr. cbn. exact H. Qed.
Lemma ends_nonwhite_nonnil p : ends_nonwhite p -> p <> [].
Proof. intros H ->. exact (ends_nonwhite_nil H). Qed.

Lemma regular_not_white c : iso_regular c = true -> iso_white c = false.
Proof. unfold iso_regular. intros H. apply andb_true_iff in H. destruct H as [H _]. apply negb_true_iff in H. exact H. Qed.
Lemma white_not_regular c : iso_white c = true -> iso_regular c = false.
Proof. unfold iso_regular. intros ->. reflexivity. Qed.

Lemma lit_string_unfold d b r : lit_string d (b :: r) =
      if b =? 41 then match d with O => Some ([], r) | S d' => consb 41 (lit_string d' r) end
      else if b =? 40 then consb 40 (lit_string (S d) r)
      else if b =? 13 then
        match r with
        | c :: r1 => if c =? 10 then consb 10 (lit_string d r1) else consb 10 (lit_string d r)
        | [] => consb 10 (lit_string d r)
        end
      else if b =? 92 then
        match r with
        | [] => None
        | c :: r1 =>
            if c =? 110 then consb 10 (lit_string d r1)
            else if c =? 114 then consb 13 (lit_string d r1)
            else if c =? 116 then consb 9 (lit_string d r1)
            else if c =? 98 then consb 8 (lit_string d r1)
            else if c =? 102 then consb 12 (lit_string d r1)
            else if c =? 10 then lit_string d r1
            else if c =? 13 then
              match r1 with
              | c2 :: r2 => if c2 =? 10 then lit_string d r2 else lit_string d r1
              | [] => lit_string d r1
              end
            else if oct_digit c then
              match r1 with
              | d2 :: r2 =>
                  if oct_digit d2 then
                    match r2 with
                    | d3 :: r3 =>
                        if oct_digit d3
                        then consb (((c - 48) * 64 + (d2 - 48) * 8 + (d3 - 48)) mod 256) (lit_string d r3)
                        else consb ((c - 48) * 8 + (d2 - 48)) (lit_string d r2)
                    | [] => consb ((c - 48) * 8 + (d2 - 48)) (lit_string d r2)
                    end
                  else consb (c - 48) (lit_string d r1)
              | [] => consb (c - 48) (lit_string d r1)
              end
            else consb c (lit_string d r1)
        end
      else consb b (lit_string d r).
Proof. reflexivity. Qed.

Local Arguments lit_string : simpl never.
Local Arguments N.eqb : simpl never.
Local Arguments N.leb : simpl never.
Local Arguments span_while : simpl never.

Ltac prefix_of l rest :=
  match l with
  | ?x :: ?l' => let r := prefix_of l' rest in constr:(x :: r)
  | ?p0 ++ rest => constr:(p0)
  | rest => constr:(@nil N)
  end.

Ltac rw_tests :=
  repeat match goal with
         | E : ?t = true |- context [?t] => rewrite E
         | E : ?t = false |- context [?t] => rewrite E
         end.

Ltac enw := first [eassumption | apply ends_nonwhite_cons; enw].

(* a literal string: the text up to the closing parenthesis decides everything *)
Lemma lit_string_local : forall d inp v rest, lit_string d inp = Some (v, rest) ->
  exists p, inp = p ++ rest /\ ends_nonwhite p /\ forall rest', lit_string d (p ++ rest') = Some (v, rest').
Proof.
  intros d inp. functional induction (lit_string d inp); intros v rest H;
    try discriminate;
    try (cbn in H; discriminate).
  all: try match type of H with Some _ = Some _ => injection H as <- <- end.
  all: try (apply consb_some in H; destruct H as (v' & H & ->)).
  all: try (destruct (IHo _ _ H) as (p0 & Hp & Hend & Hall); clear IHo).
  all: try match type of Hp with
           | _ :: _ = _ => destruct p0 as [|x0 p0]; [exfalso; exact (ends_nonwhite_nil Hend)|]; cbn [app] in Hp; injection Hp as -> Hp
           end.
  all: try subst.
  all: match goal with
       | |- exists p, ?l = p ++ ?rest /\ _ => let w := prefix_of l rest in exists w
       end.
  all: (split; [reflexivity|]).
  all: (split; [ first [ enw | apply N.eqb_eq in e0; subst; vm_compute; reflexivity ] |]).
  all: try (intros rest'; cbn [app]; rewrite lit_string_unfold; rw_tests; cbn beta iota; rw_tests;
            try (specialize (Hall rest'); cbn [app] in Hall; rewrite Hall); reflexivity).
Qed.

(* ---- one token ---- *)
Lemma ends_cleanly_token s : c16_ends_token s = true <-> ends_cleanly s.
Proof.
  destruct s as [|x s]; cbn; [tauto|]. split; intros H.
  - apply negb_true_iff in H. exact H.
  - rewrite H. reflexivity.
Qed.

Lemma forallb_regular_ends w : forallb iso_regular w = true -> w <> [] -> ends_nonwhite w.
Proof.
  intros H Hn. destruct (exists_last Hn) as (w' & c & ->).
  rewrite forallb_app in H. apply andb_true_iff in H. destruct H as [_ H]. cbn in H. rewrite andb_true_r in H.
  apply ends_nonwhite_last, regular_not_white, H.
Qed.

Lemma token_local : forall s t rest, spec_token_at s = LexTok t rest ->
  exists p, s = p ++ rest /\ ends_nonwhite p /\
            forall rest', (ends_cleanly rest -> ends_cleanly rest') -> spec_token_at (p ++ rest') = LexTok t rest'.
Proof.
  intros s t rest H. destruct s as [|b r]; [discriminate|]. cbn [spec_token_at] in H.
  destruct (b =? 40) eqn:E40.
  { destruct (lit_string 0 r) as [[v rest0]|] eqn:El; [|discriminate]. injection H as <- <-.
    destruct (lit_string_local _ _ _ _ El) as (p0 & -> & Hend & Hall).
    exists (b :: p0). split; [reflexivity|]. split; [enw|]. intros rest' _. cbn [app spec_token_at]. rewrite E40, Hall. reflexivity. }
  destruct (b =? 60) eqn:E60.
  { destruct r as [|c r1]; [discriminate|].
    destruct (c =? 60) eqn:Ec.
    - injection H as <- <-. exists [b; c]. split; [reflexivity|]. split.
      + apply N.eqb_eq in Ec. subst c. vm_compute. reflexivity.
      + intros rest' _. cbn [app spec_token_at]. rewrite E40, E60, Ec. reflexivity.
    - unfold hex_string in H. destruct (span_while (fun b => negb (b =? 62)) (c :: r1)) as [body rest0] eqn:Esp.
      destruct rest0 as [|x rest1]; [discriminate|].
      destruct (span_while_spec _ _ _ _ Esp) as (Happ & Hbody & Hx). cbv beta in Hx. apply negb_false_iff in Hx.
      apply N.eqb_eq in Hx. subst x. cbv iota in H.
      destruct (hex_digits body) as [ds|] eqn:Ehd; [|discriminate]. injection H as <- <-.
      exists (b :: body ++ [62]). split; [cbn [app]; rewrite Happ, <- app_assoc; reflexivity|]. split.
      + apply ends_nonwhite_cons, ends_nonwhite_last. vm_compute. reflexivity.
      + intros rest' _. cbn [app]. rewrite <- app_assoc. cbn [app].
        assert (Hhd : exists c' r', body ++ 62 :: rest' = c' :: r' /\ (c' =? 60) = false).
        { destruct body as [|c' body']; cbn [app] in *.
          - injection Happ as -> _. exists 62, rest'. auto.
          - injection Happ as -> _. exists c', (body' ++ 62 :: rest'). auto. }
        destruct Hhd as (c' & r' & Hr & Hc'). cbn [spec_token_at]. rewrite E40, E60, Hr, Hc', <- Hr.
        unfold hex_string. rewrite (span_while_app _ body (62 :: rest') Hbody) by reflexivity.
        change (62 =? 62) with true. rewrite Ehd. reflexivity. }
  destruct (b =? 62) eqn:E62.
  { destruct r as [|c r1]; [discriminate|]. destruct (c =? 62) eqn:Ec; [|discriminate]. injection H as <- <-.
    exists [b; c]. split; [reflexivity|]. split.
    - apply N.eqb_eq in Ec. subst c. vm_compute. reflexivity.
    - intros rest' _. cbn [app spec_token_at]. rewrite E40, E60, E62, Ec. reflexivity. }
  assert (Hone : forall tk0, (forall x, spec_token_at (b :: x) = LexTok tk0 x) -> iso_white b = false ->
                 LexTok tk0 r = LexTok t rest ->
                 exists p, b :: r = p ++ rest /\ ends_nonwhite p /\
                   forall rest', (ends_cleanly rest -> ends_cleanly rest') -> spec_token_at (p ++ rest') = LexTok t rest').
  { intros tk0 Hx Hw Heq. injection Heq as <- <-. exists [b]. split; [reflexivity|]. split; [exact Hw|]. intros rest' _. apply Hx. }
  destruct (b =? 91) eqn:E91.
  { apply (Hone PArrOpen); [intros x; cbn [spec_token_at]; rewrite E40, E60, E62, E91; reflexivity| |exact H].
    apply N.eqb_eq in E91. subst. reflexivity. }
  destruct (b =? 93) eqn:E93.
  { apply (Hone PArrClose); [intros x; cbn [spec_token_at]; rewrite E40, E60, E62, E91, E93; reflexivity| |exact H].
    apply N.eqb_eq in E93. subst. reflexivity. }
  destruct (b =? 123) eqn:E123.
  { apply (Hone PBraceOpen); [intros x; cbn [spec_token_at]; rewrite E40, E60, E62, E91, E93, E123; reflexivity| |exact H].
    apply N.eqb_eq in E123. subst. reflexivity. }
  destruct (b =? 125) eqn:E125.
  { apply (Hone PBraceClose); [intros x; cbn [spec_token_at]; rewrite E40, E60, E62, E91, E93, E123, E125; reflexivity| |exact H].
    apply N.eqb_eq in E125. subst. reflexivity. }
  clear Hone.
  destruct (b =? 47) eqn:E47.
  { destruct (span_while iso_regular r) as [w rest0] eqn:Esp.
    destruct (name_decode w) as [nm|] eqn:End; [|discriminate]. injection H as <- <-.
    destruct (span_while_spec _ _ _ _ Esp) as (-> & Hreg & Hh).
    exists (b :: w). split; [reflexivity|]. split.
    - destruct w as [|x w'].
      + apply N.eqb_eq in E47. subst. vm_compute. reflexivity.
      + apply ends_nonwhite_cons, forallb_regular_ends; [exact Hreg|discriminate].
    - intros rest' Hc. cbn [app spec_token_at]. rewrite E40, E60, E62, E91, E93, E123, E125, E47.
      rewrite (span_while_app _ w rest' Hreg); [rewrite End; reflexivity|].
      apply Hc. destruct rest0; [exact I|exact Hh]. }
  destruct (iso_regular b) eqn:Ereg; [|discriminate].
  destruct (span_while iso_regular (b :: r)) as [w rest0] eqn:Esp. injection H as <- <-.
  destruct (span_while_spec _ _ _ _ Esp) as (Happ & Hreg & Hh).
  assert (Hw : exists w', w = b :: w').
  { unfold span_while in Esp. fold (span_while iso_regular r) in Esp. rewrite Ereg in Esp.
    destruct (span_while iso_regular r) as [a0 r0]. injection Esp as <- _. eauto. }
  destruct Hw as (w' & ->).
  exists (b :: w'). split; [exact Happ|]. split; [apply forallb_regular_ends; [exact Hreg|discriminate]|].
  intros rest' Hc. cbn [app spec_token_at]. rewrite E40, E60, E62, E91, E93, E123, E125, E47, Ereg.
  change (b :: w' ++ rest') with ((b :: w') ++ rest').
  rewrite (span_while_app _ (b :: w') rest' Hreg); [reflexivity|].
  apply Hc. destruct rest0; [exact I|exact Hh].
Qed.

(* ---- white space and comments before a token ---- *)
Definition token_start (b : N) : Prop := iso_white b = false /\ (b =? 37) = false.

Lemma skip_split : forall inp ic,
  exists pre, inp = pre ++ skip_ignorable ic inp /\
    forall b s0 s0', skip_ignorable ic inp = b :: s0 -> skip_ignorable ic (pre ++ b :: s0') = b :: s0'.
Proof.
  induction inp as [|x r IH]; intros ic.
  - exists []. split; [reflexivity|]. intros b s0 s0' H. destruct ic; discriminate.
  - cbn [skip_ignorable]. destruct ic.
    + destruct (IH (negb (iso_eol x))) as (pre & Hp & Hs). exists (x :: pre). split; [cbn; rewrite <- Hp; reflexivity|].
      intros b s0 s0' H. cbn [app skip_ignorable]. apply (Hs _ _ _ H).
    + destruct (iso_white x) eqn:Ew.
      * destruct (IH false) as (pre & Hp & Hs). exists (x :: pre). split; [cbn; rewrite <- Hp; reflexivity|].
        intros b s0 s0' H. cbn [app skip_ignorable]. rewrite Ew. apply (Hs _ _ _ H).
      * destruct (x =? 37) eqn:E37.
        -- destruct (IH true) as (pre & Hp & Hs). exists (x :: pre). split; [cbn; rewrite <- Hp; reflexivity|].
           intros b s0 s0' H. cbn [app skip_ignorable]. rewrite Ew, E37. apply (Hs _ _ _ H).
        -- exists []. split; [reflexivity|]. intros b s0 s0' H. injection H as <- <-. cbn [app skip_ignorable]. rewrite Ew, E37. reflexivity.
Qed.

Lemma skip_head : forall inp ic b s, skip_ignorable ic inp = b :: s -> token_start b.
Proof.
  induction inp as [|x r IH]; intros ic b s H; [destruct ic; discriminate|].
  cbn [skip_ignorable] in H. destruct ic; [exact (IH _ _ _ H)|].
  destruct (iso_white x) eqn:Ew; [exact (IH _ _ _ H)|].
  destruct (x =? 37) eqn:E37; [exact (IH _ _ _ H)|]. injection H as <- <-. split; assumption.
Qed.

Lemma skip_start b s : token_start b -> skip_ignorable false (b :: s) = b :: s.
Proof. intros [A B]. cbn [skip_ignorable]. rewrite A, B. reflexivity. Qed.

Lemma token_at_nonempty s t rest : spec_token_at s = LexTok t rest -> exists b s', s = b :: s'.
Proof. destruct s; [discriminate|eauto]. Qed.

Lemma spec_next_local : forall inp t rest, spec_next inp = LexTok t rest ->
  exists q, inp = q ++ rest /\ ends_nonwhite q /\
            forall rest', (ends_cleanly rest -> ends_cleanly rest') -> spec_next (q ++ rest') = LexTok t rest'.
Proof.
  intros inp t rest H. unfold spec_next in H.
  destruct (skip_split inp false) as (pre & Hp & Hs).
  destruct (token_local _ _ _ H) as (p & Hsp & Hend & Hall).
  exists (pre ++ p). split; [rewrite <- app_assoc, <- Hsp; exact Hp|]. split; [apply ends_nonwhite_app, Hend|].
  intros rest' Hc. unfold spec_next. rewrite <- app_assoc.
  destruct p as [|b p']; [exfalso; exact (ends_nonwhite_nil Hend)|].
  cbn [app] in Hsp. cbn [app]. rewrite (Hs b (p' ++ rest) (p' ++ rest') Hsp). apply (Hall rest' Hc).
Qed.

(* ---- inline image data ---- *)
Lemma image_data_local : forall s pw d rest, c16_image_data pw s = Some (d, rest) ->
  exists p', s = (p' ++ [69; 73]) ++ rest /\ ends_cleanly rest /\
             forall rest', ends_cleanly rest' -> c16_image_data pw ((p' ++ [69; 73]) ++ rest') = Some (d, rest').
Proof.
  induction s as [|b r IH]; intros pw d rest H; [discriminate|].
  cbn [c16_image_data] in H.
  destruct r as [|c r2].
  - cbn in H. discriminate.
  - destruct (pw && (b =? 69) && (c =? 73) && c16_ends_token r2) eqn:Eh.
    + cbn [tl] in H. injection H as <- <-.
      apply andb_true_iff in Eh. destruct Eh as [Eh E4]. apply andb_true_iff in Eh. destruct Eh as [Eh E3].
      apply andb_true_iff in Eh. destruct Eh as [E1 E2]. apply N.eqb_eq in E2, E3. subst b c.
      exists []. split; [reflexivity|]. split; [apply ends_cleanly_token, E4|].
      intros rest' Hc. cbn [app c16_image_data]. rewrite E1. change (69 =? 69) with true. change (73 =? 73) with true.
      apply ends_cleanly_token in Hc. rewrite Hc. reflexivity.
    + destruct (c16_image_data (iso_white b) (c :: r2)) as [[d0 rest0]|] eqn:Er; [|discriminate]. injection H as <- <-.
      destruct (IH _ _ _ Er) as (p' & Hp & Hc0 & Hall).
      exists (b :: p'). split; [cbn [app]; rewrite <- app_assoc in *; cbn [app] in *; rewrite Hp; reflexivity|]. split; [exact Hc0|].
      intros rest' Hc. specialize (Hall rest' Hc).
      rewrite <- app_assoc in Hp, Hall |- *. cbn [app] in Hp, Hall |- *.
      (* the test at b looks at c and at the head of what follows c; both lie inside p' ++ "EI" *)
      destruct p' as [|x p''].
      * cbn [app] in Hp, Hall |- *. injection Hp as -> ->.
        cbn [c16_image_data].
        assert (Eh' : pw && (b =? 69) && (69 =? 73) && c16_ends_token (73 :: rest') = false).
        { change (69 =? 73) with false. rewrite andb_false_r. reflexivity. }
        rewrite Eh'. cbn [c16_image_data] in Hall. rewrite Hall. reflexivity.
      * cbn [app] in Hp, Hall |- *. injection Hp as -> Hp2.
        assert (Hhd : exists y t1 t2, p'' ++ 69 :: 73 :: rest0 = y :: t1 /\ p'' ++ 69 :: 73 :: rest' = y :: t2).
        { destruct p'' as [|y p3]; cbn [app]; eauto. }
        destruct Hhd as (y & t1 & t2 & H1 & H2).
        change (c16_image_data pw (b :: x :: p'' ++ 69 :: 73 :: rest')) with
          (let here := pw && (b =? 69) && (x =? 73) && c16_ends_token (p'' ++ 69 :: 73 :: rest') in
           if here then Some ([], tl (x :: p'' ++ 69 :: 73 :: rest'))
           else match c16_image_data (iso_white b) (x :: p'' ++ 69 :: 73 :: rest') with
                | Some (d1, rest1) => Some (b :: d1, rest1) | None => None end).
        cbv zeta. rewrite H2. rewrite Hp2, H1 in Eh. cbn [c16_ends_token] in Eh |- *. rewrite Eh. rewrite <- H2, Hall. reflexivity.
Qed.

(* ---- one step of the content reading ---- *)
Lemma sem_fuel_step f inp acc :
  c16_sem_fuel (S f) inp acc =
  match c16_step inp with
  | CsEnd => Some (rev' acc)
  | CsInvalid => None
  | CsStep toks rest => c16_sem_fuel f rest (rev toks ++ acc)
  end.
Proof.
  cbn [c16_sem_fuel]. unfold c16_step. destruct (spec_next inp) as [|t rest|]; try reflexivity.
  destruct t; try reflexivity.
  destruct (list_eqb N.eqb w c16_kw_ID); [|reflexivity].
  destruct (c16_after_ID rest) as [[d r]|]; reflexivity.
Qed.

Inductive sem_rel : list N -> list c16_sem_token -> Prop :=
| sem_end inp : c16_step inp = CsEnd -> sem_rel inp []
| sem_step inp toks rest ts : c16_step inp = CsStep toks rest -> sem_rel rest ts -> sem_rel inp (toks ++ ts).

Lemma step_local : forall inp toks rest, c16_step inp = CsStep toks rest ->
  exists q, inp = q ++ rest /\ ends_nonwhite q /\
            forall rest', (ends_cleanly rest -> ends_cleanly rest') -> c16_step (q ++ rest') = CsStep toks rest'.
Proof.
  intros inp toks rest H. unfold c16_step in H.
  destruct (spec_next inp) as [|t rest0|] eqn:Esn; try discriminate.
  destruct (spec_next_local _ _ _ Esn) as (q & Hq & Hend & Hall).
  assert (Hplain : forall tk1, CsStep tk1 rest0 = CsStep toks rest ->
            (forall r', match t with
                        | PKeyword w => if list_eqb N.eqb w c16_kw_ID then match c16_after_ID r' with
                                          | Some (data, rest') => CsStep [CsOp w; CsImage data] rest' | None => CsInvalid end
                                        else CsStep [CsOp w] r'
                        | _ => CsStep [c16_sem_of t] r' end = CsStep tk1 r') ->
            exists q, inp = q ++ rest /\ ends_nonwhite q /\
              forall rest', (ends_cleanly rest -> ends_cleanly rest') -> c16_step (q ++ rest') = CsStep toks rest').
  { intros tk1 Heq Hf. injection Heq as <- <-. exists q. split; [exact Hq|]. split; [exact Hend|].
    intros rest' Hc. unfold c16_step. rewrite (Hall rest' Hc). apply Hf. }
  destruct t; try (apply (Hplain _ H); intros r'; reflexivity).
  destruct (list_eqb N.eqb w c16_kw_ID) eqn:Eid.
  - clear Hplain. destruct (c16_after_ID rest0) as [[data rest1]|] eqn:Ea; [|discriminate]. injection H as <- <-.
    unfold c16_after_ID in Ea. destruct rest0 as [|ws d]; [discriminate|].
    destruct (iso_white ws) eqn:Ews; [|discriminate].
    destruct (image_data_local _ _ _ _ Ea) as (p' & Hd & Hc1 & Himg).
    exists (q ++ ws :: p' ++ [69; 73]). split.
    + rewrite Hq, Hd, <- !app_assoc. cbn [app]. rewrite <- !app_assoc. reflexivity.
    + split.
      * apply ends_nonwhite_app. apply ends_nonwhite_cons. change [69; 73] with ([69] ++ [73]). rewrite app_assoc.
        apply ends_nonwhite_last. reflexivity.
      * intros rest' Hc. specialize (Hc Hc1). unfold c16_step.
        rewrite <- app_assoc. cbn [app].
        rewrite (Hall (ws :: (p' ++ [69; 73]) ++ rest')).
        -- rewrite Eid. unfold c16_after_ID. rewrite Ews, (Himg rest' Hc). reflexivity.
        -- intros _. cbn. apply white_not_regular, Ews.
  - apply (Hplain _ H). intros r'. try rewrite Eid. reflexivity.
Qed.

Lemma step_shorter inp toks rest : c16_step inp = CsStep toks rest -> (length rest < length inp)%nat.
Proof.
  intros H. destruct (step_local _ _ _ H) as (q & -> & Hend & _).
  rewrite app_length. destruct q; [exfalso; exact (ends_nonwhite_nil Hend)|]. cbn. lia.
Qed.

(* the executable reading computes the relation *)
Lemma sem_fuel_rel : forall f inp acc ts, c16_sem_fuel f inp acc = Some ts -> exists ts', sem_rel inp ts' /\ ts = rev acc ++ ts'.
Proof.
  induction f as [|f IH]; intros inp acc ts H; [discriminate|].
  rewrite sem_fuel_step in H. destruct (c16_step inp) as [| |toks rest] eqn:Es; [|discriminate|].
  - injection H as <-. exists []. split; [apply sem_end, Es|]. rewrite rev'_rev, app_nil_r. reflexivity.
  - destruct (IH _ _ _ H) as (ts' & Hr & ->). exists (toks ++ ts'). split; [eapply sem_step; eassumption|].
    rewrite rev_app_distr, rev_involutive, <- app_assoc. reflexivity.
Qed.

Lemma sem_rel_fuel : forall inp ts, sem_rel inp ts -> forall f acc, (length inp < f)%nat -> c16_sem_fuel f inp acc = Some (rev acc ++ ts).
Proof.
  induction 1 as [inp Hs|inp toks rest ts Hs Hr IH]; intros f acc Hf; (destruct f as [|f]; [lia|]); rewrite sem_fuel_step, Hs.
  - rewrite rev'_rev, app_nil_r. reflexivity.
  - pose proof (step_shorter _ _ _ Hs). rewrite IH by lia. rewrite rev_app_distr, rev_involutive, <- app_assoc. reflexivity.
Qed.

Lemma sem_iff inp ts : c16_sem inp = Some ts <-> sem_rel inp ts.
Proof.
  unfold c16_sem. split; intros H.
  - destruct (sem_fuel_rel _ _ _ _ H) as (ts' & Hr & ->). exact Hr.
  - rewrite (sem_rel_fuel _ _ H) by lia. reflexivity.
Qed.

Lemma sem_rel_fun : forall inp ts1, sem_rel inp ts1 -> forall ts2, sem_rel inp ts2 -> ts1 = ts2.
Proof.
  intros inp ts1 H1 ts2 H2. apply sem_iff in H1, H2. congruence.
Qed.

(* ---- white space in front changes nothing ---- *)
Lemma step_white w inp : iso_white w = true -> c16_step (w :: inp) = c16_step inp.
Proof. intros Hw. unfold c16_step, spec_next. cbn [skip_ignorable]. rewrite Hw. reflexivity. Qed.

Lemma sem_rel_white w inp ts : iso_white w = true -> sem_rel inp ts -> sem_rel (w :: inp) ts.
Proof.
  intros Hw H. inversion H; subst.
  - apply sem_end. rewrite step_white; assumption.
  - eapply sem_step; [rewrite step_white; eassumption|assumption].
Qed.

(* ---- reading of a stream followed by more input ---- *)
Definition last_is_eol (a : list N) : Prop := match rev a with c :: _ => iso_eol c = true | [] => False end.

Lemma eol_white c : iso_eol c = true -> iso_white c = true.
Proof. unfold iso_eol, iso_white. intros H. apply orb_true_iff in H. destruct H as [H|H]; apply N.eqb_eq in H; subst; reflexivity. Qed.

(* the glue condition: the stream ends in an end-of-line, or what follows begins with one, or nothing follows *)
Definition glue_ok (a x : list N) : Prop :=
  x = [] \/ (exists e y, x = e :: y /\ iso_eol e = true) \/ last_is_eol a.

Lemma last_is_eol_suffix q rest : last_is_eol (q ++ rest) -> ends_nonwhite q -> last_is_eol rest.
Proof.
  unfold last_is_eol, ends_nonwhite. rewrite rev_app_distr. destruct (rev rest) as [|c l]; [|cbn; auto].
  cbn. destruct (rev q) as [|c l]; [intros []|]. intros H1 H2. apply eol_white in H1. congruence.
Qed.

Lemma glue_suffix q rest x : glue_ok (q ++ rest) x -> ends_nonwhite q -> glue_ok rest x.
Proof.
  intros [H|[H|H]] Hq; [left; exact H|right; left; exact H|right; right; eapply last_is_eol_suffix; eassumption].
Qed.

Lemma skip_end_app : forall a ic x, skip_ignorable ic a = [] -> glue_ok a x ->
  skip_ignorable ic (a ++ x) = skip_ignorable false x.
Proof.
  induction a as [|b r IH]; intros ic x Hs Hg.
  - cbn [app]. destruct ic; [|reflexivity].
    destruct Hg as [->|[(e & y & -> & He)|[]]]; [reflexivity|].
    cbn [skip_ignorable]. rewrite He, (eol_white _ He). reflexivity.
  - assert (Hg' : forall ic', skip_ignorable ic' r = [] -> (r = [] -> ic' = false \/ x = [] \/ exists e y, x = e :: y /\ iso_eol e = true) ->
                  skip_ignorable ic' (r ++ x) = skip_ignorable false x).
    { intros ic' Hs' Hnil. destruct r as [|c r'].
      - cbn [app]. destruct (Hnil eq_refl) as [->|[->|(e & y & -> & He)]]; [reflexivity|destruct ic'; reflexivity|].
        destruct ic'; [|reflexivity]. cbn [skip_ignorable]. rewrite He, (eol_white _ He). reflexivity.
      - apply IH; [exact Hs'|]. destruct Hg as [H|[H|H]]; [left; exact H|right; left; exact H|right; right].
        unfold last_is_eol in *. cbn [rev] in H |- *. destruct (rev r' ++ [c]) eqn:E; [destruct (rev r'); discriminate|].
        cbn in H. exact H. }
    cbn [app skip_ignorable] in Hs |- *. destruct ic.
    + apply Hg'; [exact Hs|]. intros ->. destruct Hg as [H|[H|H]]; [right; left; exact H|right; right; exact H|].
      left. unfold last_is_eol in H. cbn in H. rewrite H. reflexivity.
    + destruct (iso_white b) eqn:Ew.
      * apply Hg'; [exact Hs|]. intros _. left. reflexivity.
      * destruct (b =? 37) eqn:E37; [|discriminate].
        apply Hg'; [exact Hs|]. intros ->. destruct Hg as [H|[H|H]]; [right; left; exact H|right; right; exact H|].
        exfalso. unfold last_is_eol in H. cbn in H. apply eol_white in H. congruence.
Qed.

Lemma token_at_not_end b s : spec_token_at (b :: s) <> LexEnd.
Proof.
  intros H. cbn [spec_token_at] in H.
  destruct (b =? 40). { destruct (lit_string 0 s) as [[? ?]|]; discriminate. }
  destruct (b =? 60).
  { destruct s as [|c r1]; [discriminate|]. destruct (c =? 60); [discriminate|].
    destruct (hex_string (c :: r1)) as [[? ?]|]; discriminate. }
  destruct (b =? 62). { destruct s as [|c r1]; [discriminate|]. destruct (c =? 62); discriminate. }
  destruct (b =? 91); [discriminate|]. destruct (b =? 93); [discriminate|].
  destruct (b =? 123); [discriminate|]. destruct (b =? 125); [discriminate|].
  destruct (b =? 47). { destruct (span_while iso_regular s) as [run rest]. destruct (name_decode run); discriminate. }
  destruct (iso_regular b); [|discriminate]. destruct (span_while iso_regular (b :: s)). discriminate.
Qed.

Lemma step_end_app a x : c16_step a = CsEnd -> glue_ok a x -> c16_step (a ++ x) = c16_step x.
Proof.
  intros H Hg. unfold c16_step, spec_next in *.
  destruct (skip_ignorable false a) as [|b s] eqn:Es.
  - rewrite (skip_end_app _ _ _ Es Hg). reflexivity.
  - exfalso. destruct (spec_token_at (b :: s)) as [|t rest|] eqn:Et; [exact (token_at_not_end _ _ Et)| |discriminate].
    destruct t; try discriminate. destruct (list_eqb N.eqb w c16_kw_ID); [|discriminate].
    destruct (c16_after_ID rest) as [[? ?]|]; discriminate.
Qed.

Lemma ends_cleanly_glue rest x : glue_ok rest x -> (rest = [] -> ~ last_is_eol rest) -> ends_cleanly rest -> ends_cleanly (rest ++ x).
Proof.
  intros Hg _ Hc. destruct rest as [|c r]; [|exact Hc]. cbn [app].
  destruct Hg as [->|[(e & y & -> & He)|[]]]; [exact I|]. cbn. apply white_not_regular, eol_white, He.
Qed.

(* the reading of a stream a followed by x is the reading of a followed by the reading of x *)
Lemma sem_rel_app : forall a ta, sem_rel a ta -> forall x tx, glue_ok a x -> sem_rel x tx -> sem_rel (a ++ x) (ta ++ tx).
Proof.
  induction 1 as [a Hs|a toks rest ts Hs Hr IH]; intros x tx Hg Hx.
  - cbn [app]. inversion Hx; subst.
    + apply sem_end. rewrite (step_end_app _ _ Hs Hg). assumption.
    + eapply sem_step; [rewrite (step_end_app _ _ Hs Hg); eassumption|assumption].
  - destruct (step_local _ _ _ Hs) as (q & -> & Hend & Hall).
    pose proof (glue_suffix _ _ _ Hg Hend) as Hg'.
    rewrite <- !app_assoc. eapply sem_step.
    + apply Hall. apply ends_cleanly_glue; [exact Hg'|]. intros ->. intros [].
    + apply IH; assumption.
Qed.
