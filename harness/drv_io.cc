// C09 driver: the same rewrite through memory input / memory output.
#include "drv.hh"
#include <qpdf/QPDF.hh>
#include <qpdf/QPDFWriter.hh>
#include <qpdf/QUtil.hh>
#include <qpdf/Buffer.hh>
#include <fstream>
#include <iterator>
#include <memory>

// rewrite_mem <input path> <in: file|mem> <out: file|mem> <outpath> <flags: comma list of det,static,lin,qdf,gen,dis,nocompress>
static Reg r_rewrite("rewrite_mem", [](std::vector<std::string> const& a) -> std::string {
    std::string path = a.at(0);
    bool in_mem = a.at(1) == "mem";
    bool out_mem = a.at(2) == "mem";
    std::string outpath = a.at(3);
    std::string flags = "," + a.at(4) + ",";
    auto has = [&](char const* f) { return flags.find(std::string(",") + f + ",") != std::string::npos; };
    QPDF pdf;
    pdf.setSuppressWarnings(true);
    std::string data;
    if (in_mem) {
        std::ifstream f(path, std::ios::binary);
        data.assign(std::istreambuf_iterator<char>(f), std::istreambuf_iterator<char>());
        pdf.processMemoryFile("memory input", data.data(), data.size());
    } else {
        pdf.processFile(path.c_str());
    }
    QPDFWriter w(pdf);
    if (out_mem) w.setOutputMemory(); else w.setOutputFilename(outpath.c_str());
    if (has("det")) w.setDeterministicID(true);
    if (has("static")) w.setStaticID(true);
    if (has("lin")) w.setLinearization(true);
    if (has("qdf")) w.setQDFMode(true);
    if (has("gen")) w.setObjectStreamMode(qpdf_o_generate);
    if (has("dis")) w.setObjectStreamMode(qpdf_o_disable);
    if (has("nocompress")) w.setCompressStreams(false);
    w.write();
    if (out_mem) {
        // the bytes of the memory output are stored in <outpath> by the driver for comparison
        auto b = w.getBufferSharedPointer();
        std::ofstream f(outpath, std::ios::binary);
        f.write(reinterpret_cast<char const*>(b->getBuffer()), static_cast<std::streamsize>(b->getSize()));
        return "ok " + std::to_string(b->getSize());
    }
    return "ok file";
});

// job_locale <classic|comma> <args...> : QPDFJob run in-process under a global C++ locale whose numeric punctuation is
// not the classic one (decimal comma, digit grouping) - what a host application may install with std::locale::global()
#include <qpdf/QPDFJob.hh>
#include <locale>
namespace
{
    struct CommaPunct: std::numpunct<char>
    {
        char do_decimal_point() const override { return ','; }
        char do_thousands_sep() const override { return '.'; }
        std::string do_grouping() const override { return "\3"; }
    };
} // namespace
static Reg r_job_locale("job_locale", [](std::vector<std::string> const& a) -> std::string {
    std::locale saved = std::locale();
    if (a.at(0) == "comma") {
        std::locale::global(std::locale(std::locale::classic(), new CommaPunct));
    }
    std::string res;
    try {
        std::vector<std::string> args(a.begin() + 1, a.end());
        std::vector<char const*> argv;
        argv.push_back("qpdf");
        for (auto const& s: args) argv.push_back(s.c_str());
        argv.push_back(nullptr);
        QPDFJob j;
        j.initializeFromArgv(argv.data());
        j.run();
        res = "ok " + std::to_string(j.getExitCode());
    } catch (std::exception& e) {
        res = std::string("exc ") + e.what();
    }
    std::locale::global(saved);
    return res;
});
