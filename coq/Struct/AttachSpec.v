(* Specification of the attachment operations of the qpdf command line (manual: "Embedded
   Files/Attachments": --add-attachment [--replace], --remove-attachment, --copy-attachments-from
   [--prefix]) over the sorted map of NNTreeSpec: embedded files live in a name tree, keys are
   compared as UTF-8 bytes, a value is (the identity of) a file specification record.
   One qpdf invocation = removals, then additions, then copies, each in command-line order; an
   invocation that meets a missing key (removal) or a key collision (addition without --replace,
   copy) is refused as a whole -- exit 2, nothing written -- and names the offending keys. *)
From QV Require Import Base.Bytes Struct.NNTreeModel Struct.NNTreeSpec.
Local Open Scope Z_scope.

Definition akey := list N.
Definition amap := smap akey.           (* key -> record id *)
Notation a_at := (sm_at akey nn_scmp).
Notation a_ins := (sm_insert akey nn_scmp).
Notation a_del := (sm_remove akey nn_scmp).

Definition a_has (k : akey) (m : amap) : bool := match a_at k m with Some _ => true | None => false end.

(* removals: the first missing key stops the job *)
Fixpoint att_removes (ks : list akey) (m : amap) : amap * list akey :=
  match ks with
  | [] => (m, [])
  | k :: ks' => if a_has k m then att_removes ks' (a_del k m) else (m, [k])
  end.

(* additions: every addition is tried against the LIVE map; collisions are collected *)
Fixpoint att_adds (l : list (bool * akey * Z)) (m : amap) (bad : list akey) : amap * list akey :=
  match l with
  | [] => (m, rev' bad)
  | (replace, k, rid) :: l' =>
      if negb replace && a_has k m then att_adds l' m (k :: bad)
      else att_adds l' (a_ins k rid m) bad
  end.

(* copies: sources in order, each source's entries in key order, target key = prefix ++ key;
   a target key already present in the live map (in the destination before, or put there by an
   earlier source of the same invocation) is a collision *)
Fixpoint att_copy_one (prefix : akey) (src : amap) (m : amap) (bad : list akey) : amap * list akey :=
  match src with
  | [] => (m, bad)
  | (k, rid) :: src' =>
      let nk := prefix ++ k in
      if a_has nk m then att_copy_one prefix src' m (nk :: bad)
      else att_copy_one prefix src' (a_ins nk rid m) bad
  end.
Fixpoint att_copies (l : list (akey * amap)) (m : amap) (bad : list akey) : amap * list akey :=
  match l with
  | [] => (m, rev' bad)
  | (prefix, src) :: l' => let '(m', bad') := att_copy_one prefix src m bad in att_copies l' m' bad'
  end.

Inductive att_res := AttOk (m : amap) | AttRefused (keys : list akey).

Definition att_job (removes : list akey) (adds : list (bool * akey * Z)) (copies : list (akey * amap))
           (m : amap) : att_res :=
  match att_removes removes m with
  | (_, (_ :: _) as bad) => AttRefused bad
  | (m1, []) =>
      match att_adds adds m1 [] with
      | (_, (_ :: _) as bad) => AttRefused bad
      | (m2, []) =>
          match att_copies copies m2 [] with
          | (_, (_ :: _) as bad) => AttRefused bad
          | (m3, []) => AttOk m3
          end
      end
  end.

(* ------------------------------------------------------------------------------------------
   The helper API (QPDFEmbeddedFileDocumentHelper / QPDFFileSpecObjectHelper), as a history over
   two documents: A (the one under test) and B (a source to copy from).  replaceEmbeddedFile
   "adds or replaces" -- whatever file specification is handed in, including the one already
   stored under that key; a record id stands for a file specification with its payload, /Size,
   checksum, dates, MIME type, description and file names. *)
Inductive att_op :=
| APut (k : akey) (rid : Z)        (* replaceEmbeddedFile(k, new file spec)          *)
| APutSame (k : akey)              (* fs = getEmbeddedFile(k); replaceEmbeddedFile(k, *fs) *)
| AMod (k : akey) (rid' : Z)       (* get; setDescription/setFilename; put back: the record becomes rid' *)
| ARemove (k : akey)               (* removeEmbeddedFile(k)                          *)
| BPut (k : akey) (rid : Z)        (* add to the source document                     *)
| ACopy (prefix : akey)            (* for every attachment of B: copyForeignObject + replaceEmbeddedFile(prefix ++ key) *)
| AReread.                         (* write A, read it back                          *)

Fixpoint att_copy_all (prefix : akey) (src : amap) (m : amap) : amap :=
  match src with
  | [] => m
  | (k, rid) :: src' => att_copy_all prefix src' (a_ins (prefix ++ k) rid m)
  end.

(* result of a step: did the call report success (removeEmbeddedFile's bool; true otherwise) *)
Definition att_step (op : att_op) (ab : amap * amap) : bool * (amap * amap) :=
  let '(a, b) := ab in
  match op with
  | APut k rid => (true, (a_ins k rid a, b))
  | APutSame k => (a_has k a, (match a_at k a with Some (_, rid) => a_ins k rid a | None => a end, b))
  | AMod k rid' => (a_has k a, (if a_has k a then a_ins k rid' a else a, b))
  | ARemove k => (a_has k a, (a_del k a, b))
  | BPut k rid => (true, (a, a_ins k rid b))
  | ACopy prefix => (true, (att_copy_all prefix b a, b))
  | AReread => (true, (a, b))
  end.

Fixpoint att_hist (ops : list att_op) (ab : amap * amap) (acc : list (bool * amap)) : list (bool * amap) :=
  match ops with
  | [] => rev' acc
  | op :: ops' => let '(r, ab') := att_step op ab in att_hist ops' ab' ((r, fst ab') :: acc)
  end.
Definition att_hist_run (ops : list att_op) : list (bool * amap) := att_hist ops ([], []) [].
