(* The standard security handler of ISO 32000 (32000-1 section 7.6.3, 32000-2 section 7.6.4) written
   as a READER implements it: given the encryption dictionary, the first /ID string and a password,
   decide whether the password is the user or the owner password, recover the file key, derive
   the per-object keys and decrypt strings and streams. This is the independent specification
   the property C05 is stated against; it shares only the primitives (MD5, SHA-2, AES block
   cipher, RC4) with the model of qpdf's writer in KeyDeriv.v / AesPdf.v. *)
From QV Require Import Base.Bytes Crypto.Nib Filters.Filters Crypto.MD5 Crypto.SHA2Fast Crypto.AES.
Local Open Scope N_scope.

Record iso_dict := {
  iso_R : N;
  iso_keylen : N;                 (* /Length / 8 *)
  iso_P : N;                      (* /P as unsigned 32-bit *)
  iso_O : list N; iso_U : list N; iso_OE : list N; iso_UE : list N; iso_Perms : list N;
  iso_id : list N;                (* first string of /ID *)
  iso_encmeta : bool              (* /EncryptMetadata *)
}.

Definition iso_pad_string : list N :=
  [40;191;78;94;78;117;138;65;100;0;78;86;255;250;1;8;
   46;46;0;182;208;104;62;128;47;12;169;254;100;83;105;122].

Definition bytes_eqb (a b : list N) : bool := list_eqb N.eqb a b.

Fixpoint iso_iter {A} (n : nat) (f : A -> A) (x : A) : A :=
  match n with O => x | S k => f (iso_iter k f x) end.

(* Algorithm 2 step a: the password truncated to 32 bytes or padded from the padding string *)
Definition iso_pad32 (pw : list N) : list N := firstn 32 (pw ++ iso_pad_string).

Definition iso_le32 (p : N) : list N :=
  [p mod 256; (p / 256) mod 256; (p / 65536) mod 256; (p / 16777216) mod 256].

(* key length in bytes: 5 for revision 2 whatever /Length says *)
Definition iso_n (d : iso_dict) : nat := if iso_R d =? 2 then 5%nat else N.to_nat (iso_keylen d).

(* Algorithm 2: file encryption key from the user password (R <= 4) *)
Definition iso_key_alg2 (d : iso_dict) (pw : list N) : list N :=
  let n := iso_n d in
  let h0 := md5 (iso_pad32 pw ++ iso_O d ++ iso_le32 (iso_P d) ++ iso_id d
                 ++ (if (4 <=? iso_R d) && negb (iso_encmeta d) then [255; 255; 255; 255] else [])) in
  firstn n (if 3 <=? iso_R d then iso_iter 50 (fun h => md5 (firstn n h)) h0 else h0).

Definition iso_xor_key (k : list N) (i : N) : list N := map (fun b => N.lxor b i) k.

(* Algorithms 4 and 5: the /U value a password would produce (R >= 3: the 16 significant bytes) *)
Definition iso_U_alg45 (d : iso_dict) (pw : list N) : list N :=
  let k := iso_key_alg2 d pw in
  if iso_R d =? 2 then rc4 k iso_pad_string
  else fold_left (fun x i => rc4 (iso_xor_key k i) x)
                 (map N.of_nat (seq 1 19)) (rc4 k (md5 (iso_pad_string ++ iso_id d))).

(* Algorithm 6: authenticating the user password *)
Definition iso_auth_user_V4 (d : iso_dict) (pw : list N) : bool :=
  if iso_R d =? 2 then bytes_eqb (iso_U_alg45 d pw) (iso_U d)
  else bytes_eqb (iso_U_alg45 d pw) (firstn 16 (iso_U d)).

(* Algorithm 7 (with Algorithm 3 steps a-d): authenticating the owner password: the result is the
   user password recovered from /O *)
Definition iso_owner_key (d : iso_dict) (opw : list N) : list N :=
  let h0 := md5 (iso_pad32 opw) in
  firstn (iso_n d) (if 3 <=? iso_R d then iso_iter 50 md5 h0 else h0).

Definition iso_user_from_owner (d : iso_dict) (opw : list N) : list N :=
  let k := iso_owner_key d opw in
  if iso_R d =? 2 then rc4 k (iso_O d)
  else fold_left (fun x i => rc4 (iso_xor_key k i) x) (map N.of_nat (rev (seq 0 20))) (iso_O d).

Definition iso_auth_owner_V4 (d : iso_dict) (opw : list N) : bool :=
  iso_auth_user_V4 d (iso_user_from_owner d opw).

(* opening a file with R <= 4: the file key, or None when the password is neither *)
Definition iso_open_V4 (d : iso_dict) (pw : list N) : option (list N) :=
  if iso_auth_user_V4 d pw then Some (iso_key_alg2 d pw)
  else if iso_auth_owner_V4 d pw then Some (iso_key_alg2 d (iso_user_from_owner d pw))
  else None.

(* ---- AES in CBC mode over whole blocks, as the reader uses it ---- *)
Fixpoint iso_cbc_enc (rks : list (list hb)) (prev : list N) (blocks : list (list N)) : list N :=
  match blocks with
  | [] => []
  | b :: t => let c := aes_cipher rks (xor_bytes b prev) in c ++ iso_cbc_enc rks c t
  end.
Fixpoint iso_cbc_dec (rks : list (list hb)) (prev : list N) (blocks : list (list N)) : list N :=
  match blocks with
  | [] => []
  | c :: t => xor_bytes (aes_inv_cipher rks c) prev ++ iso_cbc_dec rks c t
  end.
Definition iso_blocks (data : list N) : list (list N) := chunks16 (S (length data / 16)) data.
Definition iso_zero_iv : list N := repeat 0 16%nat.

(* ---- Algorithm 2.B: the hash of revision 6 (revision 5: only the initial SHA-256) ---- *)
Definition iso_be_value (bs : list N) : N := fold_left (fun acc b => acc * 256 + b) bs 0.

Fixpoint iso_2B_rounds (fuel : nat) (i : N) (pw K udata : list N) : list N :=
  match fuel with
  | O => K
  | S f =>
      let K1 := concat (repeat (pw ++ K ++ udata) 64) in
      let E := iso_cbc_enc (aes_key_schedule (firstn 16 K)) (firstn 16 (skipn 16 K)) (iso_blocks K1) in
      let K' := match iso_be_value (firstn 16 E) mod 3 with
                | 0 => sha256f E
                | 1 => sha384f E
                | _ => sha512f E
                end in
      let i' := i + 1 in
      if (i' <? 64) || (i' - 32 <? last E 0) then iso_2B_rounds f i' pw K' udata else K'
  end.

Definition iso_hash (R : N) (pw salt udata : list N) : list N :=
  let K := sha256f (pw ++ salt ++ udata) in
  if R =? 5 then K else firstn 32 (iso_2B_rounds 300 0 pw K udata).

Definition iso_sub (l : list N) (pos len : nat) : list N := firstn len (skipn pos l).

(* Algorithm 2.A: retrieving the file key (R = 5, 6). Algorithms 11 / 12: is the (truncated) password
   the user / the owner password; then the intermediate key and the file key from /UE resp. /OE *)
Definition iso_pw_V5 (password : list N) : list N := firstn 127 password.
Definition iso_is_owner_V5 (d : iso_dict) (password : list N) : bool :=
  bytes_eqb (iso_hash (iso_R d) (iso_pw_V5 password) (iso_sub (iso_O d) 32 8) (iso_sub (iso_U d) 0 48))
            (iso_sub (iso_O d) 0 32).
Definition iso_is_user_V5 (d : iso_dict) (password : list N) : bool :=
  bytes_eqb (iso_hash (iso_R d) (iso_pw_V5 password) (iso_sub (iso_U d) 32 8) []) (iso_sub (iso_U d) 0 32).
Definition iso_key_as_owner_V5 (d : iso_dict) (password : list N) : list N :=
  let ik := iso_hash (iso_R d) (iso_pw_V5 password) (iso_sub (iso_O d) 40 8) (iso_sub (iso_U d) 0 48) in
  iso_cbc_dec (aes_key_schedule ik) iso_zero_iv (iso_blocks (iso_sub (iso_OE d) 0 32)).
Definition iso_key_as_user_V5 (d : iso_dict) (password : list N) : list N :=
  let ik := iso_hash (iso_R d) (iso_pw_V5 password) (iso_sub (iso_U d) 40 8) [] in
  iso_cbc_dec (aes_key_schedule ik) iso_zero_iv (iso_blocks (iso_sub (iso_UE d) 0 32)).
(* the owner test comes first (as the standard says); the flag says "opened as owner" *)
Definition iso_open_V5 (d : iso_dict) (password : list N) : option (list N * bool) :=
  if iso_is_owner_V5 d password then Some (iso_key_as_owner_V5 d password, true)
  else if iso_is_user_V5 d password then Some (iso_key_as_user_V5 d password, false)
  else None.

(* Algorithm 13: validating /Perms against /P and /EncryptMetadata (ECB, one block) *)
Definition iso_perms_ok (d : iso_dict) (file_key : list N) : bool :=
  let pt := aes_inv_cipher (aes_key_schedule file_key) (iso_sub (iso_Perms d) 0 16) in
  bytes_eqb (iso_sub pt 9 3) [97; 100; 98]
  && bytes_eqb (iso_sub pt 0 4) (iso_le32 (iso_P d))
  && (nth 8 pt 0 =? (if iso_encmeta d then 84 else 70)).

Definition iso_open (d : iso_dict) (pw : list N) : option (list N) :=
  if iso_R d <=? 4 then iso_open_V4 d pw
  else match iso_open_V5 d pw with Some (k, _) => Some k | None => None end.

(* ---- Algorithm 1 / 1.A: per-object key and decryption of one string or stream ---- *)
Definition iso_object_key (d : iso_dict) (file_key : list N) (use_aes : bool) (num gen : N) : list N :=
  if 5 <=? iso_R d then file_key else
  let ext := file_key ++ [num mod 256; (num / 256) mod 256; (num / 65536) mod 256; gen mod 256; (gen / 256) mod 256]
                      ++ (if use_aes then [115; 65; 108; 84] else []) in
  firstn (Nat.min (length file_key + 5) 16) (md5 ext).

(* AES data: 16 bytes of IV, whole blocks, PKCS#5 padding of 1..16 bytes; anything else is malformed *)
Definition iso_aes_decrypt (key data : list N) : option (list N) :=
  let n := length data in
  if Nat.ltb n 32 || negb (Nat.eqb (Nat.modulo n 16) 0) then None else
  let pt := iso_cbc_dec (aes_key_schedule key) (firstn 16 data) (iso_blocks (skipn 16 data)) in
  let p := last pt 0 in
  if (1 <=? p) && (p <=? 16) && forallb (N.eqb p) (skipn (length pt - N.to_nat p) pt)
  then Some (firstn (length pt - N.to_nat p) pt) else None.

Definition iso_decrypt_data (d : iso_dict) (file_key : list N) (use_aes : bool) (num gen : N) (data : list N)
  : option (list N) :=
  let k := iso_object_key d file_key use_aes num gen in
  if use_aes then iso_aes_decrypt k data else Some (rc4 k data).
