(* C05 - tie between the C++ source and the crypto models: the tables and constants that harness/translate_leaf.py
   reads on every run out of the clang AST of libqpdf (Gen/Leaf.v) against what the hand-written models are built
   from: the AES T-tables and round constants of rijndael.cc against the S-box, inverse S-box and GF(2^8)
   multiplications of Crypto/AES.v; the 64 steps of MD5_native::transform against md5_table (Crypto/MD5.v); the
   SHA-2 constants of sha2.c / sha2big.c against Crypto/SHA2.v; padding_string and key_bytes of QPDF_encryption.cc
   against Crypto/KeyDeriv.v; the enum values of Constants.h and the bits cleared by
   impl::Writer::interpretR3EncryptionParameters against writer_P_R3 (Crypto/Perms.v). *)
From QV Require Import Base.Bytes Crypto.Nib Crypto.MD5 Crypto.SHA2 Crypto.AES Crypto.KeyDeriv Crypto.Perms.
From Coq Require Import Lia.
From QV Require Import Base.LeafSem Base.LeafSemFacts Gen.Leaf.
Local Open Scope N_scope.

(* ---------------------------------------------------------------- AES *)
Definition tie_sb (x : N) : hb := aes_sbox (hb_of_N x).
Definition tie_isb (x : N) : hb := aes_isbox (hb_of_N x).
(* the big-endian 32-bit word of four bytes *)
Definition tie_word (a b c d : hb) : Z :=
  Z.of_N (((N_of_hb a * 256 + N_of_hb b) * 256 + N_of_hb c) * 256 + N_of_hb d).
(* a 256-entry table of the C++ whose entry x is f x *)
Definition tie_table_spec (tbl : list Z) (f : N -> Z) : Prop :=
  length tbl = 256%nat /\ forall x, x < 256 -> lf_nth tbl (Z.of_N x) = f x.
Definition tie_table_is (tbl : list Z) (f : N -> Z) : bool :=
  Nat.eqb (length tbl) 256 && forallb (fun x => (lf_nth tbl (Z.of_N x) =? f x)%Z) all_bytes.

Lemma tie_table_is_spec : forall tbl f, tie_table_is tbl f = true -> tie_table_spec tbl f.
Proof.
  intros tbl f H. unfold tie_table_is in H. apply andb_prop in H. destruct H as [H1 H2].
  split; [apply Nat.eqb_eq; exact H1|].
  intros x Hx. apply Z.eqb_eq. exact (byte_sweep (fun x => (lf_nth tbl (Z.of_N x) =? f x)%Z) H2 x Hx).
Qed.

(* the encryption T-tables of rijndael.cc are SubBytes followed by the MixColumns column (02 01 01 03) and its
   rotations, computed with the model's own S-box and xtime; Te4 is the S-box replicated *)
Lemma aes_Te0_src_lemma : tie_table_spec lf_Te0 (fun x => tie_word (gmul2 (tie_sb x)) (tie_sb x) (tie_sb x) (gmul3 (tie_sb x))).
Proof. apply tie_table_is_spec. vm_compute. reflexivity. Qed.
Lemma aes_Te1_src_lemma : tie_table_spec lf_Te1 (fun x => tie_word (gmul3 (tie_sb x)) (gmul2 (tie_sb x)) (tie_sb x) (tie_sb x)).
Proof. apply tie_table_is_spec. vm_compute. reflexivity. Qed.
Lemma aes_Te2_src_lemma : tie_table_spec lf_Te2 (fun x => tie_word (tie_sb x) (gmul3 (tie_sb x)) (gmul2 (tie_sb x)) (tie_sb x)).
Proof. apply tie_table_is_spec. vm_compute. reflexivity. Qed.
Lemma aes_Te3_src_lemma : tie_table_spec lf_Te3 (fun x => tie_word (tie_sb x) (tie_sb x) (gmul3 (tie_sb x)) (gmul2 (tie_sb x))).
Proof. apply tie_table_is_spec. vm_compute. reflexivity. Qed.
Lemma aes_Te4_src_lemma : tie_table_spec lf_Te4 (fun x => tie_word (tie_sb x) (tie_sb x) (tie_sb x) (tie_sb x)).
Proof. apply tie_table_is_spec. vm_compute. reflexivity. Qed.

(* the decryption T-tables: InvSubBytes followed by the InvMixColumns column (0e 09 0d 0b) and its rotations;
   Td4 is the inverse S-box replicated *)
Lemma aes_Td0_src_lemma : tie_table_spec lf_Td0 (fun x => tie_word (gmul14 (tie_isb x)) (gmul9 (tie_isb x)) (gmul13 (tie_isb x)) (gmul11 (tie_isb x))).
Proof. apply tie_table_is_spec. vm_compute. reflexivity. Qed.
Lemma aes_Td1_src_lemma : tie_table_spec lf_Td1 (fun x => tie_word (gmul11 (tie_isb x)) (gmul14 (tie_isb x)) (gmul9 (tie_isb x)) (gmul13 (tie_isb x))).
Proof. apply tie_table_is_spec. vm_compute. reflexivity. Qed.
Lemma aes_Td2_src_lemma : tie_table_spec lf_Td2 (fun x => tie_word (gmul13 (tie_isb x)) (gmul11 (tie_isb x)) (gmul14 (tie_isb x)) (gmul9 (tie_isb x))).
Proof. apply tie_table_is_spec. vm_compute. reflexivity. Qed.
Lemma aes_Td3_src_lemma : tie_table_spec lf_Td3 (fun x => tie_word (gmul9 (tie_isb x)) (gmul13 (tie_isb x)) (gmul11 (tie_isb x)) (gmul14 (tie_isb x))).
Proof. apply tie_table_is_spec. vm_compute. reflexivity. Qed.
Lemma aes_Td4_src_lemma : tie_table_spec lf_Td4 (fun x => tie_word (tie_isb x) (tie_isb x) (tie_isb x) (tie_isb x)).
Proof. apply tie_table_is_spec. vm_compute. reflexivity. Qed.

(* rcon[i] is x^i in GF(2^8) (the model's key expansion starts at 01 and applies xtime), in the top byte *)
Fixpoint tie_xtime_iter (n : nat) (x : hb) : hb := match n with O => x | S k => xtime (tie_xtime_iter k x) end.
Lemma aes_rcon_src_lemma :
  lf_rcon = map (fun i => Z.of_N (N_of_hb (tie_xtime_iter i (X0, X1)) * 16777216)) (seq 0 10).
Proof. vm_compute. reflexivity. Qed.

(* ---------------------------------------------------------------- MD5 *)
(* the 64 steps of MD5_native::transform, in order: round function, additive constant, rotation, message word are
   the rows of the model's md5_table; the register written by step i is a, d, c, b, a, ... *)
Lemma md5_steps_src_lemma :
  map (fun s => match s with (r, k, sh, g, _) => (r, k, sh, g) end) lf_md5_steps =
    map (fun e => match e with (r, k, sh, g) => (Z.of_N r, Z.of_N k, Z.of_N sh, Z.of_N g) end) md5_table /\
  map (fun s => match s with (_, _, _, _, reg) => reg end) lf_md5_steps =
    map (fun i => Z.of_nat (Nat.modulo (4 - Nat.modulo i 4) 4)) (seq 0 64).
Proof. split; vm_compute; reflexivity. Qed.

(* PADDING of MD5_native.cc: 0x80 followed by zeros, what md5_pad appends before the length *)
Lemma md5_padding_src_lemma : lf_md5_PADDING = 128%Z :: repeat 0%Z 63.
Proof. vm_compute. reflexivity. Qed.

(* ---------------------------------------------------------------- SHA-2 *)
(* the round constant added in each of the 64 unrolled steps of sha2_round, and the initial values *)
Lemma sha256_constants_src_lemma : lf_sha_K256 = map Z.of_N K256 /\ lf_sha_H256 = map Z.of_N H256.
Proof. split; vm_compute; reflexivity. Qed.

Lemma sha512_constants_src_lemma :
  lf_sha_K512 = map Z.of_N K512 /\ lf_sha_H512 = map Z.of_N H512 /\ lf_sha_H384 = map Z.of_N H384.
Proof. repeat split; vm_compute; reflexivity. Qed.

(* ---------------------------------------------------------------- key derivation constants *)
Lemma padding_string_src_lemma :
  lf_padding_string = map Z.of_N kd_padding_string /\ lf_key_bytes = Z.of_nat kd_key_bytes.
Proof. split; vm_compute; reflexivity. Qed.

(* ---------------------------------------------------------------- permissions *)
Definition tie_print_code (p : r3_print) : Z :=
  match p with PrFull => lf_qpdf_r3p_full | PrLow => lf_qpdf_r3p_low | PrNone => lf_qpdf_r3p_none end.
Definition tie_modify_code (m : r3_modify) : Z :=
  match m with MdAll => lf_qpdf_r3m_all | MdAnnotate => lf_qpdf_r3m_annotate | MdForm => lf_qpdf_r3m_form
             | MdAssembly => lf_qpdf_r3m_assembly | MdNone => lf_qpdf_r3m_none end.

(* reading of one row (guard kind, guard value, bit) of the table extracted from interpretR3EncryptionParameters *)
Definition tie_r3_row_fires (R : N) (flags : list bool) (print modify : Z) (row : Z * Z * Z) : bool :=
  match row with
  | (k, v, _) =>
      if (k =? 0)%Z then negb (nth (Z.to_nat v) flags true) &&
                         (if (v =? 0)%Z then R <=? Z.to_N lf_r3_accessibility_max_R else true)
      else if (k =? 1)%Z then (print =? v)%Z
      else (modify =? v)%Z
  end.
Definition tie_r3_apply (R : N) (flags : list bool) (print modify : Z) : N :=
  fold_left (fun p row => if tie_r3_row_fires R flags print modify row
                          then P_clear p (Z.to_N (snd row)) else p) lf_r3_cleared_bits P_default.

(* the enum values of Constants.h are distinct, so the codes identify the model's constructors *)
Lemma r3_enums_src_lemma :
  lf_qpdf_r3_print_e = [tie_print_code PrFull; tie_print_code PrLow; tie_print_code PrNone] /\
  lf_qpdf_r3_modify_e = [tie_modify_code MdAll; tie_modify_code MdAnnotate; tie_modify_code MdForm;
                         tie_modify_code MdAssembly; tie_modify_code MdNone] /\
  NoDup lf_qpdf_r3_print_e /\ NoDup lf_qpdf_r3_modify_e /\ lf_r3_bool_params = 6%Z.
Proof.
  repeat split; try reflexivity.
  - vm_compute. repeat constructor; cbn; intuition discriminate.
  - vm_compute. repeat constructor; cbn; intuition discriminate.
Qed.

(* clearing exactly the bits whose guard in the C++ holds gives the model's writer_P_R3, for every revision R, every
   combination of the six flags and every print / modify choice *)
Lemma r3_params_src_lemma : forall R a1 a2 a3 a4 a5 a6 pr md,
  tie_r3_apply R [a1; a2; a3; a4; a5; a6] (tie_print_code pr) (tie_modify_code md) =
  writer_P_R3 R a1 a2 a3 a4 a5 a6 pr md.
Proof.
  intros. unfold tie_r3_apply, writer_P_R3, tie_r3_row_fires.
  change (Z.to_N lf_r3_accessibility_max_R) with 3.
  destruct (R <=? 3); destruct a1, a2, a3, a4, a5, a6, pr, md; vm_compute; reflexivity.
Qed.
