(* C20 - hand-written audit of every mutable static of the compiled library (the inventory is GENERATED:
   Gen/Globals.v, from `nm` on the libqpdf.a built from /repo).  Each symbol is classified with the reason.
   A symbol that appears in the library and is not classified here makes globals_all_audited false
   (decided by computation), so a new process-wide variable cannot enter unnoticed. *)
From Coq Require Import String List Bool.
From QV Require Import Gen.Globals.
Import ListNotations.
Local Open Scope string_scope.

Inductive gclass :=
| GImmutable       (* initialised once (constant data, or C++11 thread-safe static initialisation), then only read *)
| GAtomic          (* std::atomic *)
| GConfig          (* process-wide configuration, written only by a documented global setter *)
| GService         (* lazily created service object / handle, created once, internally synchronised or read-only *)
| GTestOnly        (* instrumentation that is compiled out of the library's call sites *)
| GSharedMutable.  (* a QPDFObject shared by all documents and written by per-document operations: the finding *)

Definition audit_table : list (string * (gclass * string)) := [
  ("(anonymous namespace)::ArgParser::initOptionTables()::decode_level_choices", (GImmutable, "array of string literals (in .data only because of relocations); read by the option tables, never written"));
  ("(anonymous namespace)::ArgParser::initOptionTables()::enc_bits_choices", (GImmutable, "array of string literals (in .data only because of relocations); read by the option tables, never written"));
  ("(anonymous namespace)::ArgParser::initOptionTables()::flatten_choices", (GImmutable, "array of string literals (in .data only because of relocations); read by the option tables, never written"));
  ("(anonymous namespace)::ArgParser::initOptionTables()::json_key_choices", (GImmutable, "array of string literals (in .data only because of relocations); read by the option tables, never written"));
  ("(anonymous namespace)::ArgParser::initOptionTables()::json_output_choices", (GImmutable, "array of string literals (in .data only because of relocations); read by the option tables, never written"));
  ("(anonymous namespace)::ArgParser::initOptionTables()::json_stream_data_choices", (GImmutable, "array of string literals (in .data only because of relocations); read by the option tables, never written"));
  ("(anonymous namespace)::ArgParser::initOptionTables()::json_version_choices", (GImmutable, "array of string literals (in .data only because of relocations); read by the option tables, never written"));
  ("(anonymous namespace)::ArgParser::initOptionTables()::modify128_choices", (GImmutable, "array of string literals (in .data only because of relocations); read by the option tables, never written"));
  ("(anonymous namespace)::ArgParser::initOptionTables()::object_streams_choices", (GImmutable, "array of string literals (in .data only because of relocations); read by the option tables, never written"));
  ("(anonymous namespace)::ArgParser::initOptionTables()::password_mode_choices", (GImmutable, "array of string literals (in .data only because of relocations); read by the option tables, never written"));
  ("(anonymous namespace)::ArgParser::initOptionTables()::print128_choices", (GImmutable, "array of string literals (in .data only because of relocations); read by the option tables, never written"));
  ("(anonymous namespace)::ArgParser::initOptionTables()::remove_unref_choices", (GImmutable, "array of string literals (in .data only because of relocations); read by the option tables, never written"));
  ("(anonymous namespace)::ArgParser::initOptionTables()::stream_data_choices", (GImmutable, "array of string literals (in .data only because of relocations); read by the option tables, never written"));
  ("(anonymous namespace)::ArgParser::initOptionTables()::yn_choices", (GImmutable, "array of string literals (in .data only because of relocations); read by the option tables, never written"));
  ("(anonymous namespace)::Handlers::initHandlers()::decode_level_choices", (GImmutable, "array of string literals (in .data only because of relocations); read by the option tables, never written"));
  ("(anonymous namespace)::Handlers::initHandlers()::flatten_choices", (GImmutable, "array of string literals (in .data only because of relocations); read by the option tables, never written"));
  ("(anonymous namespace)::Handlers::initHandlers()::json_key_choices", (GImmutable, "array of string literals (in .data only because of relocations); read by the option tables, never written"));
  ("(anonymous namespace)::Handlers::initHandlers()::json_output_choices", (GImmutable, "array of string literals (in .data only because of relocations); read by the option tables, never written"));
  ("(anonymous namespace)::Handlers::initHandlers()::json_stream_data_choices", (GImmutable, "array of string literals (in .data only because of relocations); read by the option tables, never written"));
  ("(anonymous namespace)::Handlers::initHandlers()::json_version_choices", (GImmutable, "array of string literals (in .data only because of relocations); read by the option tables, never written"));
  ("(anonymous namespace)::Handlers::initHandlers()::modify128_choices", (GImmutable, "array of string literals (in .data only because of relocations); read by the option tables, never written"));
  ("(anonymous namespace)::Handlers::initHandlers()::object_streams_choices", (GImmutable, "array of string literals (in .data only because of relocations); read by the option tables, never written"));
  ("(anonymous namespace)::Handlers::initHandlers()::password_mode_choices", (GImmutable, "array of string literals (in .data only because of relocations); read by the option tables, never written"));
  ("(anonymous namespace)::Handlers::initHandlers()::print128_choices", (GImmutable, "array of string literals (in .data only because of relocations); read by the option tables, never written"));
  ("(anonymous namespace)::Handlers::initHandlers()::remove_unref_choices", (GImmutable, "array of string literals (in .data only because of relocations); read by the option tables, never written"));
  ("(anonymous namespace)::Handlers::initHandlers()::stream_data_choices", (GImmutable, "array of string literals (in .data only because of relocations); read by the option tables, never written"));
  ("(anonymous namespace)::Handlers::initHandlers()::yn_choices", (GImmutable, "array of string literals (in .data only because of relocations); read by the option tables, never written"));
  ("(anonymous namespace)::InvalidInputSource::getName() const::name", (GImmutable, "function-local const std::string (thread-safe static initialisation), returned by const reference"));
  ("(anonymous namespace)::JSONParser::handleToken()::null_item", (GImmutable, "const JSON null copied into a local; the shared_ptr control block is only touched by atomic reference counting"));
  ("(anonymous namespace)::RC4Loader::getRC4()::loader", (GService, "OpenSSL legacy-provider loader created once under C++11 static initialisation; read-only afterwards"));
  ("(anonymous namespace)::filter_factories", (GConfig, "registry written only by QPDF::registerStreamFilter, documented as process-wide, to be called before any document is used"));
  ("(anonymous namespace)::filter_factories_registered", (GConfig, "registry written only by QPDF::registerStreamFilter, documented as process-wide, to be called before any document is used"));
  ("(anonymous namespace)::memory_limit", (GConfig, "process-wide limits of Pl_Flate/Pl_DCT/... written only by the static setters (documented as global), read by every instance"));
  ("(anonymous namespace)::scan_limit", (GConfig, "process-wide limits of Pl_Flate/Pl_DCT/... written only by the static setters (documented as global), read by every instance"));
  ("(anonymous namespace)::throw_on_corrupt_data", (GConfig, "process-wide limits of Pl_Flate/Pl_DCT/... written only by the static setters (documented as global), read by every instance"));
  ("AUTO_COMPLETION_BASH", (GImmutable, "const std::string constants of the completion code; never written after construction"));
  ("AUTO_COMPLETION_ZSH", (GImmutable, "const std::string constants of the completion code; never written after construction"));
  ("CryptoRandomDataProvider::getInstance()::instance", (GService, "stateless singleton (the insecure one keeps a seeded flag and is only used when explicitly selected)"));
  ("InsecureRandomDataProvider::getInstance()::instance", (GService, "stateless singleton (the insecure one keeps a seeded flag and is only used when explicitly selected)"));
  ("PADDING", (GImmutable, "table / literal initialised before main or at first use; only read"));
  ("Pl_AES_PDF::use_static_iv", (GConfig, "process-wide option written only by its documented static setter (test/CLI configuration), read by every instance"));
  ("Pl_Flate::compression_level", (GConfig, "process-wide option written only by its documented static setter (test/CLI configuration), read by every instance"));
  ("QPDF::QPDF()::unique_id", (GAtomic, "std::atomic<unsigned long long>, fetch_add(1) per constructed QPDF"));
  ("QPDF::qpdf_version", (GImmutable, "table / literal initialised before main or at first use; only read"));
  ("QPDFCryptoProvider::getInstance()::instance", (GService, "singleton created under C++11 static initialisation; its provider table is written only by registerImpl/setDefaultProvider (configuration calls)"));
  ("QPDFCrypto_gnutls::rijndael_process(unsigned char*, unsigned char*)::zeroes", (GImmutable, "all-zero IV, only read (passed as const data to rijndael_init)"));
  ("QPDFCrypto_openssl::RC4_init(unsigned char const*, int)::rc4", (GService, "EVP algorithm handle fetched once under C++11 static initialisation; read-only afterwards"));
  ("QPDFCrypto_openssl::SHA2_init(int)::md", (GService, "EVP algorithm handle fetched once under C++11 static initialisation; read-only afterwards"));
  ("QPDFJob::AttConfig::endAddAttachment()::now", (GImmutable, "time stamp string computed once under C++11 static initialisation, then only read"));
  ("QPDFJob::Config::setPageLabels(std::vector<std::string, std::allocator<std::string > > const&)::page_label_re", (GImmutable, "function-local const object (regex / lookup table / literal) built once under C++11 static initialisation, then only read through const members"));
  ("QPDFJob::initializeFromJson(std::string const&, bool)::schema", (GImmutable, "function-local const object (regex / lookup table / literal) built once under C++11 static initialisation, then only read through const members"));
  ("QPDFLogger::defaultLogger()::l", (GService, "THE process-wide default logger: every QPDF starts with a pointer to it; modelled as the shared cell lg_default of Sys/LogModel.v with the rule (logger_frame) that per-document redirection - QPDF::setLogger, QPDF::setOutputStreams - replaces the document's pointer and never writes this object; only explicit calls on QPDFLogger::defaultLogger() reconfigure it (documented as global)"));
  ("QPDFObjectHandle::getArrayItem(int) const::msg", (GImmutable, "table / literal initialised before main or at first use; only read"));
  ("QPDFObjectHandle::getKey(std::string const&) const::msg", (GImmutable, "table / literal initialised before main or at first use; only read"));
  ("QTC::TC_real(char const*, char const*, int)::active", (GTestOnly, "test-coverage bookkeeping; every call site is compiled out by QPDF_DISABLE_QTC=1 (the default of the build, checked by the check)"));
  ("QTC::TC_real(char const*, char const*, int)::cache", (GTestOnly, "test-coverage bookkeeping; every call site is compiled out by QPDF_DISABLE_QTC=1 (the default of the build, checked by the check)"));
  ("QUtil::get_max_memory_usage()::attr_re", (GImmutable, "function-local const object (regex / lookup table / literal) built once under C++11 static initialisation, then only read through const members"));
  ("QUtil::get_max_memory_usage()::tag_re", (GImmutable, "function-local const object (regex / lookup table / literal) built once under C++11 static initialisation, then only read through const members"));
  ("QUtil::parse_numrange(char const*, int)::group_re", (GImmutable, "function-local const object (regex / lookup table / literal) built once under C++11 static initialisation, then only read through const members"));
  ("QUtil::pdf_time_to_qpdf_time(std::string const&, QUtil::QPDFTime*)::pdf_date", (GImmutable, "function-local const object (regex / lookup table / literal) built once under C++11 static initialisation, then only read through const members"));
  ("ResourceFinder::handleObject(QPDFObjectHandle, unsigned long, unsigned long)::op_to_rtype", (GImmutable, "function-local const object (regex / lookup table / literal) built once under C++11 static initialisation, then only read through const members"));
  ("SecureRandomDataProvider::getInstance()::instance", (GService, "stateless singleton (the insecure one keeps a seeded flag and is only used when explicitly selected)"));
  ("SecureRandomDataProvider::provideRandomData(unsigned char*, unsigned long)::random_device", (GService, "FILE* on /dev/urandom opened once; reads go through stdio, which locks the FILE"));
  ("getRandomDataProviderProvider()::rdpp", (GConfig, "random data provider selection: written only by QUtil::setRandomDataProvider (documented as global configuration)"));
  ("getRandomProvider()::provider", (GConfig, "random data provider selection: written only by QUtil::setRandomDataProvider (documented as global configuration)"));
  ("getRandomProvider()::secure_random_data_provider", (GConfig, "random data provider selection: written only by QUtil::setRandomDataProvider (documented as global configuration)"));
  ("max_nesting", (GImmutable, "const reference bound at start-up to the limit inside qpdf::global::Limits::l"));
  ("name_keys", (GImmutable, "table / literal initialised before main or at first use; only read"));
  ("null_oh", (GSharedMutable, "REMOVED by fix b456e5d1 (was QPDF_Array.cc file-static, THE QPDFObject returned for every hole of a sparse array by Array::get/getAsVector/iteration: finding D6); kept so that its return is named by globals_none_shared_mutable"));
  ("padding_string", (GImmutable, "table / literal initialised before main or at first use; only read"));
  ("qpdf::Array::operator[](int) const::null_obj", (GImmutable, "default-constructed (empty) QPDFObjectHandle returned by reference for a missing item; holds no object, is never assigned"));
  ("qpdf::Array::operator[](unsigned long) const::null_obj", (GImmutable, "default-constructed (empty) QPDFObjectHandle returned by reference for a missing item; holds no object, is never assigned"));
  ("qpdf::BaseHandle::equivalent_to(qpdf::BaseHandle const&, int) const::{lambda(QPDF_Array const&, unsigned long)#1}::operator()(QPDF_Array const&, unsigned long) const::null_oh", (GImmutable, "a QPDF_Null used for the holes of sparse arrays inside equivalent_to; returned by reference to the comparison only, which reads it; never handed to a caller"));
  ("qpdf::BaseHandle::find(std::string const&) const::null_obj", (GImmutable, "default-constructed (empty) QPDFObjectHandle returned by reference for a missing item; holds no object, is never assigned"));
  ("qpdf::BaseHandle::operator[](std::string const&) const::null_obj", (GImmutable, "default-constructed (empty) QPDFObjectHandle returned by reference for a missing item; holds no object, is never assigned"));
  ("qpdf::BaseHandle::type_name() const::tn", (GImmutable, "table / literal initialised before main or at first use; only read"));
  ("qpdf::Null::temp_", (GImmutable, "a QPDF_Null that is no longer handed out: since fix b456e5d1 Null::temp() creates a fresh object; the static member is only constructed"));
  ("qpdf::global::Limits::l", (GConfig, "process-wide option written only by its documented static setter (test/CLI configuration), read by every instance"));
  ("qpdf::global::Options::o", (GConfig, "process-wide option written only by its documented static setter (test/CLI configuration), read by every instance"));
  ("qpdf::impl::FormNode::null_oh", (GImmutable, "const default-constructed (empty) QPDFObjectHandle returned for a missing field value; holds no object"));
  ("qpdf::impl::Parser::add_null()::null_obj", (GSharedMutable, "REMOVED by fix b456e5d1 (was THE QPDFObject behind every parsed `null` token of every document, written by setObjGen/move_to/disconnect: finding D6); kept so that its return is named by globals_none_shared_mutable"));
  ("qpdf::impl::Parser::parse_content(InputSource&, std::shared_ptr<std::variant<std::string, QPDFObject::JSON_Descr, QPDFObject::ChildDescr, QPDFObject::ObjStreamDescr> >, qpdf::Tokenizer&, QPDF*)::content", (GImmutable, "function-local const object (regex / lookup table / literal) built once under C++11 static initialisation, then only read through const members"));
  ("qpdf::impl::Writer::generateID(bool)::tmp", (GImmutable, "table / literal initialised before main or at first use; only read"));
  ("transcode_utf8(std::string const&, std::string&, encoding_e, char)::ef_bb_bf", (GImmutable, "function-local const object (regex / lookup table / literal) built once under C++11 static initialisation, then only read through const members"));
  ("transcode_utf8(std::string const&, std::string&, encoding_e, char)::fe_ff", (GImmutable, "function-local const object (regex / lookup table / literal) built once under C++11 static initialisation, then only read through const members"));
  ("transcode_utf8(std::string const&, std::string&, encoding_e, char)::ff_fe", (GImmutable, "function-local const object (regex / lookup table / literal) built once under C++11 static initialisation, then only read through const members"));
  ("unicode_to_mac_roman", (GImmutable, "table / literal initialised before main or at first use; only read"));
  ("unicode_to_pdf_doc", (GImmutable, "table / literal initialised before main or at first use; only read"));
  ("unicode_to_win_ansi", (GImmutable, "table / literal initialised before main or at first use; only read"))
].

Definition audit_class (g : string) : option gclass :=
  match find (fun e => String.eqb (fst e) g) audit_table with
  | Some e => Some (fst (snd e))
  | None => None
  end.
Definition audited (g : string) : bool := match audit_class g with Some _ => true | None => false end.

Definition is_shared_mutable (g : string) : bool :=
  match audit_class g with Some GSharedMutable => true | _ => false end.

(* the statics that made up finding D6 (known_findings.json: C20:shared-static-null[-race], fixed by b456e5d1);
   none of them may be present and shared-mutable in the library any more *)
Definition d6_statics : list string := [
  "null_oh";
  "qpdf::impl::Parser::add_null()::null_obj"
].

(* process-wide cells that are modelled explicitly (with a frame rule) rather than only classified *)
Definition modelled_cells : list string := ["QPDFLogger::defaultLogger()::l"].
