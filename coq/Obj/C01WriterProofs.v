(* Proofs about the plain writer model (Obj/WriterModel.v): the bookkeeping clauses of C01/C02 hold for
   every document, every string/name printer. Statements are fixed. *)
From QV Require Import Base.Bytes Obj.Queue Obj.C01QueueProofs File.WriterArith File.StrictSyntax File.ReadStrict File.C02Proofs Obj.WriterModel.
From Coq Require Import Lia Sorted.
Local Open Scope N_scope.

Definition doc_closed (d : doc) : Prop := closed (graph_of d) (roots_of d).

(* ---------- helpers: functional description of emit_bodies ---------- *)

Section Helpers.
  Variable us un : list N -> list N.
  Variable objs : list (N * indirect).
  Variable ren : N -> N.

  Definition chunk_of (id : N) : list N :=
    emit_object us un objs ren (ren id)
      (match find_obj objs id with Some i => i | None => null_indirect end).

  Fixpoint offs_of (ids : list N) (pos : N) : list (N * N) :=
    match ids with
    | [] => []
    | id :: rest => (ren id, pos) :: offs_of rest (pos + N.of_nat (length (chunk_of id)))
    end.

  Lemma emit_bodies_eq : forall ids pos cr orv,
    emit_bodies us un objs ren ids pos cr orv
    = (rev (map chunk_of ids) ++ cr, rev (offs_of ids pos) ++ orv,
       pos + N.of_nat (length (concat (map chunk_of ids)))).
  Proof.
    induction ids as [|id rest IH]; intros pos cr orv.
    - cbn. rewrite N.add_0_r. reflexivity.
    - cbn [emit_bodies map offs_of rev concat]. fold (chunk_of id).
      rewrite IH. rewrite <- !app_assoc. cbn [app].
      rewrite app_length, Nat2N.inj_add, N.add_assoc. reflexivity.
  Qed.

  Lemma chunk_of_header : forall id, exists tl, chunk_of id = obj_header (ren id) ++ tl.
  Proof. intros id. unfold chunk_of, emit_object. eexists. reflexivity. Qed.

  Lemma obj_header_length_pos : forall k, (0 < length (obj_header k))%nat.
  Proof. intros k. unfold obj_header. rewrite app_length. cbn. lia. Qed.

  Lemma chunk_of_length_pos : forall id, (0 < length (chunk_of id))%nat.
  Proof.
    intros id. destruct (chunk_of_header id) as [tl H]. rewrite H, app_length.
    pose proof (obj_header_length_pos (ren id)). lia.
  Qed.

  Lemma offs_of_fst : forall ids pos, map fst (offs_of ids pos) = map ren ids.
  Proof. induction ids as [|id rest IH]; intros pos; cbn [offs_of map fst length]; [reflexivity|]. rewrite IH. reflexivity. Qed.

  Lemma offs_of_length : forall ids pos, length (offs_of ids pos) = length ids.
  Proof. induction ids as [|id rest IH]; intros pos; cbn [offs_of map fst length]; [reflexivity|]. rewrite IH. reflexivity. Qed.

  Lemma offs_of_ge : forall ids pos o, In o (map snd (offs_of ids pos)) -> pos <= o.
  Proof.
    induction ids as [|id rest IH]; intros pos o Hin; cbn [offs_of map snd] in Hin.
    - destruct Hin.
    - destruct Hin as [Heq | Hin].
      + subst. lia.
      + apply IH in Hin. lia.
  Qed.

  Lemma offs_of_sorted : forall ids pos, StronglySorted N.lt (map snd (offs_of ids pos)).
  Proof.
    induction ids as [|id rest IH]; intros pos; cbn [offs_of map snd].
    - constructor.
    - constructor; [apply IH|].
      apply Forall_forall. intros o Hin. apply offs_of_ge in Hin.
      pose proof (chunk_of_length_pos id). lia.
  Qed.

  Lemma offs_of_point : forall ids pos pre rest k off,
    N.to_nat pos = length pre ->
    In (k, off) (offs_of ids pos) ->
    firstn (length (obj_header k))
           (skipn (N.to_nat off) (pre ++ concat (map chunk_of ids) ++ rest)) = obj_header k.
  Proof.
    induction ids as [|id tl IH]; intros pos pre rest k off Hpos Hin; cbn [offs_of] in Hin.
    - destruct Hin.
    - destruct Hin as [Heq | Hin].
      + inversion Heq; subst k off. rewrite Hpos.
        rewrite skipn_app, skipn_all, Nat.sub_diag. cbn [app skipn map concat].
        destruct (chunk_of_header id) as [t Ht]. rewrite Ht, <- !app_assoc.
        rewrite firstn_app, firstn_all, Nat.sub_diag. cbn [firstn]. apply app_nil_r.
      + cbn [map concat]. rewrite <- app_assoc.
        specialize (IH (pos + N.of_nat (length (chunk_of id))) (pre ++ chunk_of id) rest k off).
        rewrite <- app_assoc in IH. apply IH; [|exact Hin].
        rewrite app_length, N2Nat.inj_add, Nat2N.id. lia.
  Qed.
End Helpers.

(* Every recorded offset is exactly the position of that object's `k 0 obj` header in the output:
   the xref table of the model points exactly at the objects it names, for every document. *)
Lemma offsets_point_lemma : forall us un d k off,
  In (k, off) (body_offsets us un d) ->
  firstn (length (obj_header k)) (skipn (N.to_nat off) (write_doc us un d)) = obj_header k.
Proof.
  intros us un d k off Hin. unfold body_offsets, write_doc in *.
  rewrite emit_bodies_eq in *. rewrite !rev'_rev in *. rewrite !app_nil_r, !rev_involutive in *.
  eapply offs_of_point; [|exact Hin]. apply Nat2N.id.
Qed.

Lemma body_offsets_eq : forall us un d,
  body_offsets us un d
  = offs_of us un (d_objects d)
            (fun x => match renumber (graph_of d) (roots_of d) x with Some n => n | None => 0 end)
            (written (graph_of d) (roots_of d)) (N.of_nat (length (header (d_version d)))).
Proof.
  intros us un d. unfold body_offsets. rewrite emit_bodies_eq, rev'_rev, app_nil_r, rev_involutive.
  reflexivity.
Qed.

(* The objects are numbered 1..n in file order: no object is written twice, none is skipped. *)
Lemma body_numbers_lemma : forall us un d, doc_closed d ->
  map fst (body_offsets us un d) = map N.of_nat (seq 1 (length (body_offsets us un d))).
Proof.
  intros us un d Hc. rewrite body_offsets_eq, offs_of_fst, offs_of_length.
  rewrite <- (map_map (renumber (graph_of d) (roots_of d))
                      (fun o : option N => match o with Some n => n | None => 0 end)).
  rewrite (renumber_order_lemma _ _ Hc), map_map. reflexivity.
Qed.

(* Offsets are strictly increasing in file order (objects do not overlap). *)
Lemma body_offsets_increasing_lemma : forall us un d,
  StronglySorted N.lt (map snd (body_offsets us un d)).
Proof. intros us un d. rewrite body_offsets_eq. apply offs_of_sorted. Qed.

(* every written object is one that the trailer reaches (nothing unreachable is written) *)
Lemma only_reachable_written_lemma : forall d x, doc_closed d ->
  In x (written (graph_of d) (roots_of d)) -> reach (graph_of d) (roots_of d) x.
Proof.
  intros d x Hc Hin. destruct (queue_complete_lemma _ _ Hc) as [_ H]. apply H. exact Hin.
Qed.
