(* Models of the arithmetic in libqpdf/QPDFWriter.cc and QUtil.cc that decides field widths,
   entry spellings and stream lengths of what qpdf writes (bytesNeeded, writeBinary,
   int_to_string with padding, the classic xref entry line, the object-stream split of
   generateObjectStreams, adjustAESStreamLength, calculateXrefStreamPadding). *)
From QV Require Import Base.Bytes.
Local Open Scope N_scope.

(* while (n) { ++bytes; n >>= 8; }   (n >= 0; a negative n would never terminate: see C04) *)
Fixpoint bytes_needed_fuel (fuel : nat) (n : N) : N :=
  match fuel with
  | O => 0
  | S f => if n =? 0 then 0 else 1 + bytes_needed_fuel f (n / 256)
  end.
Definition bytes_needed (n : N) : N := bytes_needed_fuel 9 n.     (* long long: at most 8 rounds *)

(* data[bytes-i-1] = val & 0xff; val >>= 8 *)
Fixpoint write_binary_rev (bytes : nat) (val : N) : list N :=
  match bytes with
  | O => []
  | S b => (val mod 256) :: write_binary_rev b (val / 256)
  end.
Definition write_binary (val : N) (bytes : nat) : list N := rev' (write_binary_rev bytes val).

(* QUtil::int_to_string(num, length) for num >= 0, length >= 0: std::to_string + leading zeros *)
Definition int_to_string_pad (num : N) (len : nat) : list N :=
  let cvt := dec_of_N num in
  repeat 48 (len - length cvt) ++ cvt.

(* one in-use line of writeXRefTable *)
Definition xref_line (offset : N) : list N :=
  int_to_string_pad offset 10 ++ [32; 48; 48; 48; 48; 48; 32; 110; 32; 10].

(* generateObjectStreams: number of streams and members per stream *)
Definition n_object_streams (k : N) : N := (k + 99) / 100.
Definition n_per_stream (k : N) : N :=
  let n := n_object_streams k in
  if n =? 0 then 0 else
  let p := k / n in if p * n <? k then p + 1 else p.

(* length += 32 - (length & 0xf) *)
Definition adjust_aes_length (len : N) : N := len + 32 - N.land len 15.

Definition xref_stream_padding (xref_bytes : N) : N := 16 + 5 * ((xref_bytes + 16383) / 16384).

(* field sizes chosen by writeXRefStream *)
Definition f1_size (max_offset hint_length max_id : N) : N :=
  N.max (bytes_needed (max_offset + hint_length)) (bytes_needed max_id).
