(* C10 - first sentence of the property, as a function of what the job's files are, written from the property text
   and the manual's exit-status section ("0: no errors or warnings; 3: warnings"): a warning was reported about a file
   the job processed iff one of the files named on the command line - in any role - gives warnings when opened, or
   the main input has a stream whose decoding fails and the output is written with decoded streams.  Nothing here follows
   QPDFJob's control flow. *)
From QV Require Import Base.Bytes Sys.JobWarnModel.
From Coq Require Import Arith.
Local Open Scope nat_scope.

Definition c10j_files_processed (j : c10j_job) : list c10j_file :=
  c10j_opt (c10j_main j) ++ c10j_pages j ++ c10j_uo j ++ c10j_attach j ++ c10j_opt (c10j_enc j).

Definition c10j_reported (j : c10j_job) : bool :=
  existsb c10j_open_warn (c10j_files_processed j) || (c10j_main_late j && c10j_decode j).

Definition c10j_spec_exit (j : c10j_job) : nat := if c10j_reported j && negb (c10j_wx0 j) then 3 else 0.

(* the clause on one observed run: WARNING lines are never followed by exit status 0 (without --warning-exit-0), and
   exit status 3 is never reported without them *)
Definition c10j_obs_ok (exit : nat) (warning_lines wx0 : bool) : bool :=
  if exit =? 0 then negb warning_lines || wx0
  else if exit =? 3 then warning_lines && negb wx0
  else exit =? 2.
