(* non-vacuity: concrete instances of the hypotheses, evaluated on the model *)
Example c05_ex_scheme_R3 : scheme_V4 2 3 16.
Proof. right; left; repeat split. Qed.
(* a 40-bit RC4 file (R2: one MD5, one RC4 pass, cheap to evaluate): user "u", owner "o": both passwords open it with
   the same 5-byte key, a wrong one does not *)
Example c05_ex_R2_opens :
  let edk := kd_compute_parameters (base_ed 1 2 5 4294967292 [49;50;51] true) [117] [111] [] in
  iso_open (to_iso (fst edk)) [117] = Some (snd edk) /\ iso_open (to_iso (fst edk)) [111] = Some (snd edk) /\
  iso_open (to_iso (fst edk)) [120] = None /\ length (snd edk) = 5%nat.
Proof. vm_compute. repeat split. Qed.
(* a 256-bit R5 file with the 68 random bytes 0..67 *)
Example c05_ex_R5_opens :
  let edk := v5_params_of 5 4294967292 [] false [117] [111] (map N.of_nat (seq 0 68)) in
  iso_open (to_iso (fst edk)) [117] = Some (snd edk) /\ iso_open (to_iso (fst edk)) [111] = Some (snd edk) /\
  iso_open (to_iso (fst edk)) [120] = None /\ iso_perms_ok (to_iso (fst edk)) (snd edk) = true.
Proof. vm_compute. repeat split. Qed.
(* AES string round trip under object 7, generation 0, AESV2 *)
Example c05_ex_aes_roundtrip :
  let key := map N.of_nat (seq 1 16) in
  let d := to_iso (base_ed 4 4 16 0 [] true) in
  iso_decrypt_data d key true 7 0 (opt_bytes (kd_encrypt_data key 4 true 7 0 pl_static_iv [104;105])) = Some [104;105]
  /\ length (opt_bytes (kd_encrypt_data key 4 true 7 0 pl_static_iv [104;105])) = 32%nat.
Proof. vm_compute. repeat split. Qed.
(* an over-long (128-byte) user password under R5: the file opens with it (and, being equal after truncation, with its
   127-byte prefix); a 128-byte owner password likewise. Before fix 032abc49 all four were rejected. *)
Example c05_ex_long_password_opens :
  let long := repeat 97 128%nat in
  let d1 := to_iso (fst (v5_params_of 5 4294967292 [] true long [111] (repeat 7 68%nat))) in
  let d2 := to_iso (fst (v5_params_of 5 4294967292 [] true [117] long (repeat 7 68%nat))) in
  iso_open d1 long = Some (repeat 7 32%nat) /\ iso_open d1 (firstn 127 long) = Some (repeat 7 32%nat) /\
  iso_open d2 long = Some (repeat 7 32%nat) /\ iso_open d2 (firstn 127 long) = Some (repeat 7 32%nat) /\
  iso_open d1 (repeat 97 126%nat) = None.
Proof. vm_compute. repeat split. Qed.
