# C05 - files encrypted by qpdf are correct, interoperable and leak no plaintext.
# Proof: Props/Properties_C05.v (Crypto/*.v). Ties:
#   prim : MD5 / Pl_SHA2 / Pl_AES_PDF of libqpdf.a (native, openssl, gnutls) vs the extracted Coq primitives
#          (and Python's hashlib as a third, independent reference for the hashes)
#   kdf  : QPDF::compute_data_key / compute_encryption_O_U / compute_encryption_parameters_V5 /
#          Encryption::check_*_password / recover key  vs  the extracted model KeyDeriv.v; the extracted ISO
#          reference reader (IsoRef.v) must open what the implementation produced (specification)
#   perm : the five QPDFWriter::setR*EncryptionParameters* (all flag combinations) vs Perms.v and the manual's table
#   e2e  : generated PDFs with a unique marker in every string and stream -> qpdf --encrypt (every scheme) ->
#          this file's own reader + the extracted ISO reference decryptor: opens with user and owner password,
#          every string / stream decrypts to the source, no marker in the raw bytes outside the documented
#          exemptions, /P vs the manual, /Perms, header version, byte-exact agreement with the writer model; gates.
import hashlib, json, os, re, zlib
import common, pdfgen
import c05_pdfread as rd
from common import hexs
from pdfgen import Str, Name, Ref, Stream, D, N

ASSUMPTIONS = [
    "'opens with no other password' is pre-image resistance of MD5 / SHA-2: tested with wrong passwords, not proved",
    "'no marker occurs in the ciphertext by chance' is tested (marker search), not proved",
    "OpenSSL / GnuTLS primitives are external: provider equality is observed by running the driver under each QPDF_CRYPTO_PROVIDER",
    "the random file key / salts of 256-bit files are an input of the model (compute_encryption_parameters_V5 is run with a counting RandomDataProvider); for CLI-written 256-bit files only the reference reader side applies",
    "Flate is external (the reader of this check inflates with Python's zlib)",
    "the flag discipline of QPDFWriter::unparseObject (which leaves are encrypted) is checked on generated documents (decrypt-and-compare plus raw marker search), not proved",
]

PROVIDERS = ["native", "openssl", "gnutls"]
STATIC_ID = bytes.fromhex("31415926535897932384626433832795")
STATIC_IV = bytes((14 * (1 + i)) & 255 for i in range(16))


def U32(p):
    return p & 0xFFFFFFFF


def S32(p):
    p &= 0xFFFFFFFF
    return p - (1 << 32) if p >= (1 << 31) else p


def cstr(chunks):
    return ",".join(hexs(c) for c in chunks) if chunks else "_"


def chunkings(rng, data, k=2):
    n = len(data)
    outs = [[data]]
    if n >= 2:
        for _ in range(k):
            cuts = sorted(set(rng.randrange(0, n + 1) for _ in range(rng.randint(1, 5))))
            cs, start = [], 0
            for c in cuts:
                cs.append(data[start:c])
                start = c
            cs.append(data[start:])
            outs.append(cs)
    return outs


def rbytes(rng, n):
    return rng.randbytes(n) if n > 4096 else bytes(rng.randrange(256) for _ in range(n))


def run_each(exe, lines, env=None, workers=8):
    """every line in a process of its own (for the few, slow, large cases)"""
    return common.par_map(lambda l: common.run_lines(exe, [l], env=env)[0], lines, workers=workers)


# single-write sizes aimed at the internal piece size of Pl_RC4 (64 KiB output buffer): one piece, two pieces, three
BIG_SIZES = [1, 65535, 65536, 65537, 131071, 131072, 131073, 200001]


def big_chunkings(rng, data, k):
    n = len(data)
    outs = [[data[i:i + 1000] for i in range(0, n, 1000)]]
    for _ in range(k):
        cuts = sorted(set(rng.randrange(0, n + 1) for _ in range(rng.randint(1, 4))))
        cs, start = [], 0
        for c in cuts:
            cs.append(data[start:c])
            start = c
        cs.append(data[start:])
        outs.append([c for c in cs if c] or [data])
    return outs


def part_primbig(chk, drv, runner, quick):
    """Pl_RC4 and Pl_AES_PDF driven in-process with ONE large write() and with many small / random writes of the same
    data, against the extracted models on the whole buffer. RC4: the model is run once per key on the longest buffer;
    a shorter input is a prefix of it and rc4 k (firstn n d) = firstn n (rc4 k d) (theorem rc4_prefix)."""
    rng = chk.rng
    D = rbytes(rng, max(BIG_SIZES))
    sizes = BIG_SIZES if not quick else [1, 65536, 65537, 131072, 131073, 200001]
    keys = [rbytes(rng, 5), rbytes(rng, 16)] if not quick else [rbytes(rng, rng.choice([5, 16]))]
    aes_key = rbytes(rng, rng.choice([16, 32]))
    iv = rbytes(rng, 16)
    # model side (slow: about 45 us per byte for the list-based RC4 model)
    mlines = ["rc4 %s %s" % (hexs(k), hexs(D)) for k in keys]
    aes_sizes = sizes if not quick else [65537, 131073, 200001]
    for n in aes_sizes:
        mlines.append("aespl e %s 1 r:%s 1 %s" % (hexs(aes_key), hexs(iv), hexs(D[:n])))
    mout = run_each(runner, mlines)
    rc4_model = {k: bytes.fromhex(o) if not o.startswith(("?", "!")) else None for k, o in zip(keys, mout)}
    aes_model = dict(zip(aes_sizes, mout[len(keys):]))
    # decrypting what the model encrypted must give the data back (model of the decrypt direction, one size)
    n0 = aes_sizes[-1]
    dec_line = "aespl d %s 1 r:- 1 %s" % (hexs(aes_key), aes_model[n0])
    jobs = []     # (what, line, expected hex, description)
    for k in keys:
        for n in sizes:
            exp = hexs(rc4_model[k][:n]) if rc4_model[k] is not None else "?model"
            for ci, cs in enumerate([[D[:n]]] + (big_chunkings(rng, D[:n], 1 if quick else 3) if n > 1 else [])):
                jobs.append(("rc4", "rc4pl %s %s" % (hexs(k), cstr(cs)), exp,
                             {"pipeline": "Pl_RC4", "key": k.hex(), "length": n, "writes": [len(c) for c in cs][:12], "single_write": ci == 0}))
    for n in aes_sizes:
        for ci, cs in enumerate([[D[:n]]] + big_chunkings(rng, D[:n], 1 if quick else 3)):
            jobs.append(("aes", "aespl e %s 1 r:%s 1 %s" % (hexs(aes_key), hexs(iv), cstr(cs)), aes_model[n],
                         {"pipeline": "Pl_AES_PDF encrypt", "key": aes_key.hex(), "length": n, "writes": [len(c) for c in cs][:12], "single_write": ci == 0}))
    ct = bytes.fromhex(aes_model[n0]) if not aes_model[n0].startswith(("?", "!")) else b""
    for ci, cs in enumerate([[ct]] + big_chunkings(rng, ct, 1 if quick else 3)):
        jobs.append(("aesd", "aespl d %s 1 r:- 1 %s" % (hexs(aes_key), cstr(cs)), hexs(D[:n0]),
                     {"pipeline": "Pl_AES_PDF decrypt", "key": aes_key.hex(), "length": len(ct), "writes": [len(c) for c in cs][:12], "single_write": ci == 0}))
    mdec = run_each(runner, [dec_line])[0]
    if mdec != hexs(D[:n0]):
        chk.violation({"kind": "check-crashed", "part": "prim-big", "what": "the model of Pl_AES_PDF does not decrypt its own encryption of %d bytes" % n0}, no_input=True)
    for prov in (PROVIDERS if not quick else PROVIDERS[:1] + [rng.choice(PROVIDERS[1:])]):
        out = run_each(drv, [j[1] for j in jobs], env={"QPDF_CRYPTO_PROVIDER": prov}, workers=4)
        tie = []
        by_input = {}
        for (what, line, exp, desc), o in zip(jobs, out):
            by_input.setdefault((what, desc["key"], desc["length"]), []).append((desc, o))
        for (what, line, exp, desc), o in zip(jobs, out):
            if o == exp:
                continue
            others = [oo for dd, oo in by_input[(what, desc["key"], desc["length"])]]
            if len(set(others)) > 1 or o.startswith(("!", "?")):
                # the pipeline's output depends on how the same bytes are cut into write() calls (or it failed): a
                # failing input of the implementation whatever the model says; first differing byte for the report
                a, b = o, exp
                pos = next((i // 2 for i in range(0, min(len(a), len(b)), 2) if a[i:i + 2] != b[i:i + 2]), min(len(a), len(b)) // 2)
                chk.violation({"kind": "property-fails-on-implementation", "part": "prim-big", "provider": prov,
                               "what": "%s: one large write() and small writes of the same data give different output (first wrong byte at offset %d)" % (desc["pipeline"], pos),
                               "case": desc, "data": "the first %d bytes of random.Random(%r).randbytes" % (desc["length"], "C05/%s/primbig" % chk.seed)})
            else:
                tie.append((desc, o[:64], exp[:64]))
        if tie:
            chk.violation({"kind": "correspondence-broken", "correspondence": "corr:C05:prim-big", "provider": prov, "differing_cases": len(tie),
                           "first_case": tie[0][0], "implementation": tie[0][1], "model": tie[0][2]}, no_input=True)
        chk.count("prim-big-" + prov, len(jobs), set((j[0], j[3]["length"], tuple(j[3]["writes"])) for j in jobs),
                  samples=[{"case": jobs[1][3]}])




def rpass(rng, kind):
    """passwords without NUL (the API takes char const*)"""
    nz = lambda n: bytes(rng.randrange(1, 256) for _ in range(n))
    if kind == "empty":
        return b""
    if kind == "ascii":
        return bytes(rng.choice(b"abcXYZ019 _-()\\") for _ in range(rng.randint(1, 12)))
    if kind == "high":
        return nz(rng.randint(1, 20))
    if kind == "utf8":
        return "pässwörd€π".encode("utf-8")[:rng.randint(3, 16)]
    if kind == "p28":      # contains the first padding byte
        return b"ab\x28\xbf\x4e" + nz(rng.randint(0, 5))
    if kind == "31":
        return nz(31)
    if kind == "32":
        return nz(32)
    if kind == "33":
        return nz(33)
    if kind == "40":
        return nz(40)
    if kind == "126":
        return nz(126)
    if kind == "127":
        return nz(127)
    if kind == "128":
        return nz(128)
    if kind == "140":
        return nz(140)
    raise ValueError(kind)


PW_V4 = ["empty", "ascii", "high", "utf8", "p28", "31", "32", "33", "40"]
PW_V5 = ["empty", "ascii", "high", "utf8", "126", "127"]
PW_V5_LONG = ["128", "140"]


# ====================================================================== part prim
def part_prim(chk, drv, runner, quick):
    rng = chk.rng
    lines, meta = [], []
    lens = [0, 1, 2, 3, 55, 56, 57, 63, 64, 65, 111, 112, 113, 119, 120, 127, 128, 129, 200, 1000]
    reps = 1 if quick else 6
    for _ in range(reps):
        for n in lens:
            d = rbytes(rng, n) if rng.random() < 0.8 else bytes([rng.choice([0, 255, 128])]) * n
            for cs in chunkings(rng, d, 1 if quick else 3):
                lines.append("md5 " + cstr(cs)); meta.append(("md5", d))
                for bits in (256, 384, 512):
                    lines.append("sha2 %d %s" % (bits, cstr(cs))); meta.append(("sha%d" % bits, d))
    # AES: ECB single blocks (block cipher), CBC with every IV mode, padding on/off, boundary lengths
    alens = [0, 1, 15, 16, 17, 31, 32, 33, 47, 48, 64, 100, 256]
    for _ in range(reps * 2):
        for klen in (16, 32):
            key = rbytes(rng, klen)
            lines.append("aespl e %s 0 z 0 %s" % (hexs(key), hexs(rbytes(rng, 16)))); meta.append(("aes-ecb-e", None))
            lines.append("aespl d %s 0 z 0 %s" % (hexs(key), hexs(rbytes(rng, 16)))); meta.append(("aes-ecb-d", None))
            for n in alens:
                d = rbytes(rng, n)
                iv = rbytes(rng, 16)
                for ivs in ("z", "g:" + hexs(iv), "r:" + hexs(iv)):
                    for pad in (0, 1):
                        for cs in chunkings(rng, d, 1)[:2 if quick else 3]:
                            lines.append("aespl e %s 1 %s %d %s" % (hexs(key), ivs, pad, cstr(cs))); meta.append(("aes-cbc-e", None))
                        ivd = "r:-" if ivs[0] == "r" else ivs
                        lines.append("aespl d %s 1 %s %d %s" % (hexs(key), ivd, pad, cstr([d]))); meta.append(("aes-cbc-d", None))
    for bad in (0, 5, 15, 17, 24, 31, 33):
        lines.append("aespl e %s 1 z 1 %s" % (hexs(rbytes(rng, bad)), hexs(b"abc"))); meta.append(("aes-badkey", None))
    model = common.run_lines(runner, lines, shards=4)
    ref = []
    for (k, d) in meta:
        if k == "md5":
            ref.append(hashlib.md5(d).hexdigest())
        elif k.startswith("sha"):
            ref.append(getattr(hashlib, k)(d).hexdigest())
        else:
            ref.append(None)
    # encrypt-then-decrypt through the real pipeline is checked in the kdf/e2e parts; here: equality
    for prov in PROVIDERS:
        impl = common.run_lines(drv, lines, shards=4, env={"QPDF_CRYPTO_PROVIDER": prov})
        tie = []
        for i, l in enumerate(lines):
            if ref[i] is not None and impl[i] != ref[i]:
                chk.violation({"kind": "primitive-differs-from-reference", "part": "prim", "provider": prov, "case": l[:300],
                               "implementation": impl[i], "hashlib": ref[i], "model": model[i]})
            elif impl[i] != model[i]:
                tie.append(i)
        if tie:
            i = tie[0]
            # AES has no third implementation here: the FIPS-197 vectors are Examples in Crypto/AES.v, so a
            # difference between the Coq AES and the library under a provider is a property failure when the
            # other providers agree with the model
            chk.violation({"kind": "correspondence-broken", "correspondence": "corr:C05:prim", "provider": prov,
                           "differing_cases": len(tie), "first_case": lines[i][:300], "implementation": impl[i], "model": model[i]},
                          no_input=True)
        chk.count("prim-" + prov, len(lines), set((meta[i][0], lines[i][:80]) for i in range(len(lines)) if not impl[i].startswith(("!", "?"))),
                  samples=[{"case": lines[3][:120], "impl": impl[3]}])


# ====================================================================== part kdf
SCHEMES_V4 = [(1, 2, 5), (2, 3, 16), (4, 4, 16)]


def part_kdf(chk, drv, runner, quick):
    rng = chk.rng
    lines, meta = [], []
    # compute_data_key
    for _ in range(60 if quick else 3000):
        V = rng.choice([1, 2, 4, 5])
        klen = 32 if V == 5 else rng.choice([5, 16, 16, 7, 13])
        objid = rng.choice([1, 2, 255, 256, 65535, 65536, 0xFFFFFF, 0x1000000, 0x12345678, rng.randrange(1, 1 << 24)])
        gen = rng.choice([0, 0, 1, 255, 256, 65535, rng.randrange(65536)])
        aes = rng.randrange(2)
        key = rbytes(rng, klen)
        lines.append("datakey %s %d %d %d %d %d" % (hexs(key), objid, gen, aes, V, 4))
        # Algorithm 1 of the reader applies where the scheme exists: RC4 with any key length, AES with 16 / 32-byte keys
        meta.append(("datakey", "isokey %d %d %s %d %d" % (6 if V == 5 else 4, aes, hexs(key), objid, gen) if (not aes or klen >= 16) else None))
    # O / U / key for V < 5 (the three schemes the writer uses, and other key lengths through the API)
    ou_cases = []
    n_ou = 16 if quick else 120
    for k in range(n_ou):
        V, R, kl = rng.choice(SCHEMES_V4)
        supported = True
        if rng.random() < 0.15 and R == 3:
            kl = rng.choice([5, 6, 10, 15])     # V=2 allows 40..128 bits; qpdf's writer only uses 128
            supported = False
        P = U32(rng.choice([-4, -1, -3904, -64, -1852, rng.randrange(-(1 << 31), 1 << 31)]))
        em = 1 if R < 4 else rng.randrange(2)
        id1 = rng.choice([STATIC_ID, b"", rbytes(rng, 16), rbytes(rng, rng.randint(1, 40))])
        u = rpass(rng, rng.choice(PW_V4))
        o = rpass(rng, rng.choice(PW_V4))
        ou_cases.append(dict(V=V, R=R, kl=kl, P=P, em=em, id1=id1, u=u, o=o, supported=supported))
        lines.append("ou %d %d %d %d %d %s %s %s" % (V, R, kl, P, em, hexs(id1), hexs(u), hexs(o))); meta.append(("ou", k))
    v5_cases = []
    n_v5 = (8, 1) if quick else (60, 3)      # (R5, R6)
    for R, cnt in ((5, n_v5[0]), (6, n_v5[1])):
        for k in range(cnt):
            P = U32(rng.choice([-4, -1, -3904, rng.randrange(-(1 << 31), 1 << 31)]))
            em = rng.randrange(2)
            kinds = PW_V5 + (PW_V5_LONG if k % 3 == 2 or R == 5 else [])
            u = rpass(rng, rng.choice(kinds))
            o = rpass(rng, rng.choice(kinds))
            if R == 6 and quick:
                u, o = u[:20], o[:12]
            rnd = rbytes(rng, 68)
            v5_cases.append(dict(V=5, R=R, kl=32, P=P, em=em, id1=STATIC_ID, u=u, o=o, rnd=rnd))
            lines.append("v5 %d %d %d %s %s %s %s" % (R, P, em, hexs(STATIC_ID), hexs(u), hexs(o), hexs(rnd))); meta.append(("v5", len(v5_cases) - 1))
    impl = common.run_lines(drv, lines, shards=4)
    model = common.run_lines(runner, lines, shards=8)
    tie = [i for i in range(len(lines)) if impl[i] != model[i]]
    dk = [i for i in range(len(lines)) if meta[i][0] == "datakey" and meta[i][1]]
    dk_spec = common.run_lines(runner, [meta[i][1] for i in dk], shards=4)
    for i, sp in zip(dk, dk_spec):
        if impl[i] != sp:
            chk.violation({"kind": "property-fails-on-implementation", "part": "kdf", "what": "QPDF::compute_data_key differs from Algorithm 1 / 1.A of the standard",
                           "case": lines[i], "implementation": impl[i], "specification": sp, "model": model[i]})
            if i in tie:
                tie.remove(i)

    # second round: password checks on what the implementation produced: implementation's own checker vs
    # the model of it, and the ISO reference reader (specification) on the same dictionary values
    lines2, meta2, iso_lines, iso_meta = [], [], [], []

    def add_checks(c, O, U, OE, UE, Perms, key):
        wrong = [b"\x01" + c["u"], b"wrong", b"\x02" + c["o"][1:]]
        eff_owner = c["o"] if (c["o"] or c["V"] >= 5) else c["u"]
        roles = [("user", c["u"]), ("owner", eff_owner)] + [("wrong", w) for w in wrong]
        heavy = c["R"] == 6 and quick     # one Algorithm 2.B hash costs about 3 s in the extracted code
        for role, pw in (roles[:2] if heavy else roles):
            args = "%d %d %d %d %d %s %s %s %s %s %s %s" % (c["V"], c["R"], c["kl"], c["P"], c["em"], hexs(c["id1"]),
                                                          hexs(O), hexs(U), hexs(OE), hexs(UE), hexs(Perms), hexs(pw))
            if not heavy:
                lines2.append("chk " + args); meta2.append((c, role, pw, key))
            if c.get("supported", True):
                iso_lines.append("isoopen " + args.split(" ", 1)[1]); iso_meta.append((c, role, pw, key))

    for i, l in enumerate(lines):
        if meta[i][0] == "ou" and not impl[i].startswith(("!", "?")):
            O, U, key = [bytes.fromhex(x) if x != "-" else b"" for x in impl[i].split()]
            add_checks(ou_cases[meta[i][1]], O, U, b"", b"", b"", key)
        elif meta[i][0] == "v5" and not impl[i].startswith(("!", "?")):
            f = impl[i].split()
            key, O, U, OE, UE, Perms = [bytes.fromhex(x) if x != "-" else b"" for x in f[:6]]
            add_checks(v5_cases[meta[i][1]], O, U, OE, UE, Perms, key)
    impl2 = common.run_lines(drv, lines2, shards=4)
    model2 = common.run_lines(runner, lines2 + iso_lines, shards=8)
    iso_out = model2[len(lines2):]
    model2 = model2[:len(lines2)]
    tie += [len(lines) + i for i in range(len(lines2)) if impl2[i] != model2[i]]
    all_lines = lines + lines2
    all_impl = impl + impl2
    all_model = model + model2
    # specification: the reference reader must accept user and owner password and recover the key the
    # writer uses; wrong passwords must be rejected
    for (c, role, pw, key), out in zip(iso_meta, iso_out):
        f = out.split()
        opened = f[0] != "none"
        long_pw = c["V"] >= 5 and len(pw) > 127
        desc = {k: (v.hex() if isinstance(v, bytes) else v) for k, v in c.items()}
        if role in ("user", "owner"):
            ok = opened and f[1] == hexs(key) and (c["V"] < 5 or f[2] == "1")
            if not ok:
                sig = "C05:v5-password-over-127" if long_pw else ""
                chk.violation({"kind": "property-fails-on-implementation", "part": "kdf",
                               "what": "ISO reference reader cannot open with the %s password what compute_encryption_* produced" % role,
                               "case": desc, "password": pw.hex(), "reference": out, "writer_key": key.hex()}, signature=sig)
        else:
            if opened and pw not in (c["u"], c["o"]) and not (c["V"] < 5 and pw[:32] in (c["u"][:32], c["o"][:32])):
                chk.violation({"kind": "property-fails-on-implementation", "part": "kdf", "what": "a wrong password opens",
                               "case": desc, "password": pw.hex(), "reference": out})
    if tie:
        i = tie[0]
        chk.violation({"kind": "correspondence-broken", "correspondence": "corr:C05:kdf", "differing_cases": len(tie),
                       "first_case": all_lines[i][:600], "implementation": all_impl[i][:600], "model": all_model[i][:600]}, no_input=True)
    chk.count("kdf", len(all_lines) + len(iso_lines),
              set(l[:160] for l, o in zip(all_lines, all_impl) if not o.startswith(("!", "?"))),
              samples=[{"case": lines2[0][:200], "impl": impl2[0][:120]}] if lines2 else [])


# ====================================================================== part perm
def part_perm(chk, drv, runner, quick):
    lines, opts_for = [], []
    for bits in range(16):
        b = [(bits >> k) & 1 for k in range(4)]
        lines.append("wp 2 %d %d %d %d" % tuple(b))
        opts_for.append((2, [t for t, v in zip(["printyn=n", "modyn=n", "ext=n", "ann=n"], b) if not v]))
    for R in (3, 4, 5, 6):
        for bits in range(64):
            b = [(bits >> k) & 1 for k in range(6)]
            for pr in (0, 1, 2):
                for em, aes in ([(1, 0)] if R == 3 else [(1, 1), (0, 1), (1, 0), (0, 0)] if R == 4 else [(1, 1), (0, 1)]):
                    if quick and R >= 5 and (bits * 3 + pr + em) % 4:
                        continue     # R5/R6 share the R4 code path for /P; quick tier samples them
                    lines.append("wp %d %d %d %d %d %d %d %d %d %d" % tuple([R] + b + [pr, em, aes]))
                    toks = [t for t, v in zip(["acc=n", "ext=n", "asm=n", "ann=n", "form=n", "other=n"], b) if not v]
                    toks += [[], ["print=low"], ["print=none"]][pr]
                    opts_for.append((R, toks))
    impl_raw = common.run_lines(drv, lines, shards=4)
    model = common.run_lines(runner, lines, shards=4)
    manual = common.run_lines(runner, ["jobp %d %d %s" % ({2: 40, 3: 128, 4: 128}.get(R, 256), R, ",".join(t) or "-") for R, t in opts_for], shards=4)
    tie = []
    for i, l in enumerate(lines):
        try:
            info = enc_info(bytes.fromhex(impl_raw[i]))
            got = "%d %d %d %d %s %d %s %s" % (S32(info["P"]), info["V"], info["R"], info["Length"] // 8, info["version"].decode(),
                                               info["ext"], info["cfm"], "true" if info["encmeta"] else "false")
        except Exception as e:
            got = "?unreadable " + repr(e)[:100]
        m = model[i].split()
        man_P = S32(int(manual[i].split()[1]))
        if got.split()[0] != str(man_P):
            chk.violation({"kind": "property-fails-on-implementation", "part": "perm", "what": "/P differs from the manual's table",
                           "case": l, "options": opts_for[i][1], "implementation": got, "manual_P": man_P, "model": model[i]})
        elif got != model[i]:
            tie.append((l, got, model[i]))
    if tie:
        chk.violation({"kind": "correspondence-broken", "correspondence": "corr:C05:perm", "differing_cases": len(tie),
                       "first_case": tie[0][0], "implementation": tie[0][1], "model": tie[0][2]}, no_input=True)
    chk.count("perm-api", len(lines), set(lines), samples=[{"case": lines[20], "model": model[20]}])
    chk.cov["parts"]["perm-api"]["exhaustive"] = not quick


# ====================================================================== reading an encrypted file
def enc_info(data):
    """parse a file written by qpdf and pull out what a reader needs: the encryption dictionary values,
    /ID[0], header version / extension level. Raises on malformed structure."""
    version, objs, trailers, order = rd.scan_file(data)
    tl = list(trailers)
    for og in order:
        o = objs[og][0]
        if isinstance(o, Stream) and o.d.get(b"Type") == Name(b"XRef"):
            tl.append(o.d)
    tr = None
    for t in tl:
        if b"Encrypt" in t:
            tr = t
    if tr is None:
        raise rd.ParseError("no /Encrypt in any trailer")
    eref = tr[b"Encrypt"]
    e = objs[(eref.n, eref.g)][0] if isinstance(eref, Ref) else eref
    ids = tr.get(b"ID")
    root = tr.get(b"Root")
    info = {"version": version, "objs": objs, "order": order, "trailers": tl, "enc_og": (eref.n, eref.g) if isinstance(eref, Ref) else None,
            "id1": ids[0].b if ids else b"", "R": e[b"R"], "V": e[b"V"], "P": U32(e[b"P"]), "Length": e.get(b"Length", 40),
            "O": e[b"O"].b, "U": e[b"U"].b, "OE": e.get(b"OE", Str(b"")).b, "UE": e.get(b"UE", Str(b"")).b,
            "Perms": e.get(b"Perms", Str(b"")).b, "encmeta": e.get(b"EncryptMetadata", True), "root": root, "filter": e.get(b"Filter")}
    cfm = "none"
    if e[b"V"] >= 4:
        stmf, strf = e.get(b"StmF"), e.get(b"StrF")
        if stmf != strf or stmf is None:
            raise rd.ParseError("StmF/StrF differ or missing")
        cfm = e[b"CF"][stmf.b][b"CFM"].b.decode()
    info["cfm"] = cfm
    info["aes"] = cfm in ("AESV2", "AESV3")
    ext = 0
    if isinstance(root, Ref) and (root.n, root.g) in objs:
        cat = objs[(root.n, root.g)][0]
        if isinstance(cat, dict) and b"Extensions" in cat:
            adbe = cat[b"Extensions"].get(b"ADBE")
            if isinstance(adbe, Ref):
                adbe = objs[(adbe.n, adbe.g)][0]
            if adbe:
                ext = adbe.get(b"ExtensionLevel", 0)
    info["ext"] = ext
    return info


def iso_args(info, pw):
    return "%d %d %d %d %s %s %s %s %s %s %s" % (info["R"], info["Length"] // 8, info["P"], 1 if info["encmeta"] else 0, hexs(info["id1"]),
                                                hexs(info["O"]), hexs(info["U"]), hexs(info["OE"]), hexs(info["UE"]), hexs(info["Perms"]), hexs(pw))


# ====================================================================== source documents with markers
class Source:
    def __init__(self, rng, idx, with_meta=True, with_sig=True, big=False):
        self.k = 0
        self.idx = idx
        self.strings = {}     # marker -> exact bytes of the string
        self.streams = {}     # marker -> exact stream data
        self.sig_markers, self.meta_stream_markers, self.meta_dict_markers = set(), set(), set()
        self.empty_strings = 0
        self.rng = rng
        d = pdfgen.Doc()
        self.doc = d
        cat = d.add(None)
        pages = d.add(None)
        info = d.add(None)
        font = d.add(D(Type=N("Font"), Subtype=N("Type1"), BaseFont=N("Helvetica")))
        npages = rng.randint(1, 3)
        prefs = []
        for k in range(npages):
            cs = d.add(self.stream(D(QVS=self.string("sd")), text=True))
            annot = d.add(D(Type=N("Annot"), Subtype=N("Text"), Rect=[0, 0, 10, 10], Contents=self.string("plain"), T=self.string("bin")))
            prefs.append(d.add(D(Type=N("Page"), Parent=pages, Contents=cs, Resources=D(Font=D(F1=font)), Annots=[annot],
                                 QVStr=self.string(rng.choice(["plain", "esc", "bin"])))))
        d.objects[pages.n] = D(Type=N("Pages"), Count=npages, Kids=prefs, MediaBox=[0, 0, 612, 792])
        lens = [0, 1, 15, 16, 17, 31, 32, 33, 100] + ([5000] if big is True else [])
        # big = an integer: one stream of exactly that many incompressible bytes (aimed at the 64 KiB pieces of Pl_RC4)
        extra = [d.add(self.stream(D(QVS=self.string("plain")), length=n))
                 for n in rng.sample(lens, 4) + [0] + ([big] if (big and big is not True) else [])]
        nested = [self.string("plain"), [self.string("esc"), D(K=self.string("bin"), E=Str(b""))], self.string("len16"), self.string("len32"),
                  self.string("len15"), self.string("long")]
        self.empty_strings += 1
        c = D(Type=N("Catalog"), Pages=pages, Lang=self.string("plain"), QVData=nested, QVStreams=extra)
        if with_meta:
            md = self.stream(D(Type=N("Metadata"), Subtype=N("XML"), QVM=self.string("plain", into=self.meta_dict_markers)), xmp=True)
            c[b"Metadata"] = d.add(md)
        if with_sig:
            mk = self.marker()
            contents = b"\x30\x82" + mk + rbytes(rng, 20)
            self.strings[mk] = contents
            self.sig_markers.add(mk)
            sig = d.add(D(Type=N("Sig"), Filter=N("Adobe.PPKLite"), SubFilter=N("adbe.pkcs7.detached"), ByteRange=[0, 10, 20, 30],
                          Contents=Str(contents), Reason=self.string("plain"), M=self.string("plain")))
            field = d.add(D(FT=N("Sig"), T=self.string("plain"), V=sig))
            c[b"AcroForm"] = D(Fields=[field], SigFlags=3)
        d.objects[cat.n] = c
        d.objects[info.n] = D(Title=self.string("plain"), Author=self.string("esc"), Subject=self.string("bin"), Keywords=self.string("long"))
        d.trailer = {b"Root": cat, b"Info": info}
        self.bytes, _ = pdfgen.write_classic(d, with_id=(b"0123456789abcdef", b"fedcba9876543210"))

    def marker(self):
        self.k += 1
        return b"QZMK%02d%04dKMZQ" % (self.idx % 100, self.k)

    def string(self, kind, into=None):
        mk = self.marker()
        rng = self.rng
        if kind == "plain":
            s = b"s " + mk + b" e"
        elif kind == "esc":
            s = b"(\\" + mk + b")) \r\n(" + bytes([rng.randrange(32, 127)])
        elif kind == "bin":
            s = rbytes(rng, rng.randint(1, 12)) + mk + rbytes(rng, rng.randint(1, 12))
        elif kind == "sd":
            s = mk
        elif kind.startswith("len"):
            n = int(kind[3:])
            s = (mk + b"................................")[:n]
            mk = s if len(s) < len(mk) else mk
        elif kind == "long":
            s = mk + rbytes(rng, 300)
        self.strings[mk] = s
        if into is not None:
            into.add(mk)
        return Str(s)

    def stream(self, d, length=None, text=False, xmp=False):
        mk = self.marker()
        rng = self.rng
        if text:
            data = b"BT /F1 12 Tf 72 720 Td (" + mk + b") Tj ET\n"
        elif xmp:
            data = b'<?xpacket begin="" id="W5M0MpCehiHzreSzNTczkc9d"?>\n<x:xmpmeta xmlns:x="adobe:ns:meta/"><qv>' + mk + b'</qv></x:xmpmeta>\n<?xpacket end="w"?>'
            self.meta_stream_markers.add(mk)
        elif length is not None and length < len(mk):
            data = mk[:length]
            if length == 0:
                return Stream(d, b"")
            mk = data
        else:
            data = mk + rbytes(rng, length - len(mk))
        self.streams[mk] = data
        return Stream(d, data)


# scheme name -> (bits, extra args inside --encrypt, expected R, aes, cleartext metadata)
E2E_SCHEMES = {
    "R2": (40, [], 2, False, False),
    "R3": (128, ["--use-aes=n"], 3, False, False),
    "R4rc4": (128, ["--force-V4"], 4, False, False),
    "R4rc4-clear": (128, ["--cleartext-metadata"], 4, False, True),
    "R4aes": (128, ["--use-aes=y"], 4, True, False),
    "R4aes-clear": (128, ["--use-aes=y", "--cleartext-metadata"], 4, True, True),
    "R5": (256, ["--force-R5"], 5, True, False),
    "R5-clear": (256, ["--force-R5", "--cleartext-metadata"], 5, True, True),
    "R6": (256, [], 6, True, False),
    "R6-clear": (256, ["--cleartext-metadata"], 6, True, True),
}
MODES = {"plain": [], "objstm": ["--object-streams=generate"], "lin": ["--linearize"], "nocompress": ["--compress-streams=n"],
         "lin-objstm": ["--linearize", "--object-streams=generate"]}

PERM_TOKENS_R2 = ["printyn=y", "printyn=n", "modyn=y", "modyn=n", "ext=y", "ext=n", "ann=y", "ann=n"]
PERM_TOKENS_R3 = ["acc=y", "acc=n", "ext=y", "ext=n", "print=full", "print=low", "print=none", "asm=y", "asm=n", "ann=y", "ann=n",
                  "form=y", "form=n", "other=y", "other=n"]
CLI_OF = {"acc": "--accessibility", "ext": "--extract", "printyn": "--print", "print": "--print", "modyn": "--modify", "mod": "--modify",
          "ann": "--annotate", "asm": "--assemble", "form": "--form", "other": "--modify-other"}


def cli_of_tokens(tokens):
    return ["%s=%s" % (CLI_OF[t.split("=")[0]], t.split("=")[1]) for t in tokens]


def rand_perm_tokens(rng, R, allow_modify=True):
    toks = []
    if R == 2:
        for grp in (PERM_TOKENS_R2[0:2], PERM_TOKENS_R2[2:4], PERM_TOKENS_R2[4:6], PERM_TOKENS_R2[6:8]):
            if rng.random() < 0.6:
                toks.append(rng.choice(grp))
        return toks
    if allow_modify and rng.random() < 0.3:
        toks.append("mod=" + rng.choice(["all", "annotate", "form", "assembly", "none"]))
        gran = lambda g: [x for x in g if x.endswith("=n")]
    else:
        gran = lambda g: g
    for grp, is_gran in ((PERM_TOKENS_R3[0:2], False), (PERM_TOKENS_R3[2:4], False), (PERM_TOKENS_R3[4:7], False), (PERM_TOKENS_R3[7:9], True),
                         (PERM_TOKENS_R3[9:11], True), (PERM_TOKENS_R3[11:13], True), (PERM_TOKENS_R3[13:15], True)):
        if rng.random() < 0.5:
            toks.append(rng.choice(gran(grp) if is_gran else grp))
    return toks


def e2e_case(rng, idx, scheme, mode, pwkinds=None, perm=None, big=False, pwmode="bytes"):
    bits, extra, R, aes, clear = E2E_SCHEMES[scheme]
    kinds = pwkinds or (rng.choice(PW_V4 if R < 5 else PW_V5), rng.choice(PW_V4 if R < 5 else PW_V5))
    u, o = rpass(rng, kinds[0]), rpass(rng, kinds[1])
    if u == o and u:
        o = o + b"!"
    return dict(kind="e2e", idx=idx, docseed=rng.randrange(1 << 30), scheme=scheme, mode=mode, user=u.hex(), owner=o.hex(),
                perm=perm if perm is not None else rand_perm_tokens(rng, R), big=big, pwmode=pwmode)


def run_e2e(chk, cases, runner, work):
    """the whole file-level oracle on a list of cases; returns number of files checked"""
    import random
    files = []
    jobs = []
    for c in cases:
        bits, extra, R, aes, clear = E2E_SCHEMES[c["scheme"]]
        src = Source(random.Random(c["docseed"]), c["idx"], big=c.get("big", False))
        inp = os.path.join(work, "in%d.pdf" % c["idx"])
        outp = os.path.join(work, "out%d.pdf" % c["idx"])
        with open(inp, "wb") as f:
            f.write(src.bytes)
        u, o = bytes.fromhex(c["user"]), bytes.fromhex(c["owner"])
        args = ["--static-id", "--static-aes-iv", "--password-mode=" + c.get("pwmode", "bytes")] + MODES[c["mode"]] + \
               ["--encrypt", b"--user-password=" + u, b"--owner-password=" + o, "--bits=%d" % bits] + extra + cli_of_tokens(c["perm"]) + \
               (["--allow-insecure"] if (bits == 256 and u and not o) else []) + ["--"] + [inp, outp]
        if not aes:
            args = ["--allow-weak-crypto"] + args
        jobs.append((c, src, args, outp))

    def runq(j):
        c, src, args, outp = j
        rc, out, err = common.run_qpdf(args)
        return rc, err
    res = common.par_map(runq, jobs, workers=4)
    iso_lines, iso_meta = [], []
    for (c, src, args, outp), (rc, err) in zip(jobs, res):
        desc = dict(c)
        desc["qpdf_args"] = [a.hex() if isinstance(a, bytes) else a for a in args]
        if rc != 0 or not os.path.exists(outp):
            chk.violation({"kind": "property-fails-on-implementation", "part": "e2e", "what": "qpdf --encrypt failed (exit %s)" % rc,
                           "case": desc, "stderr": err.decode("latin-1")[-500:]})
            continue
        data = open(outp, "rb").read()
        try:
            info = enc_info(data)
        except Exception as e:
            chk.violation({"kind": "property-fails-on-implementation", "part": "e2e", "what": "output not readable by the strict reader: %r" % e, "case": desc})
            continue
        u, o = bytes.fromhex(c["user"]), bytes.fromhex(c["owner"])
        if c.get("pwmode") == "auto" and info["R"] < 5:
            # ISO 32000-1 7.6.3.3: for R <= 4 the password is in PDFDocEncoding; the CLI converts a UTF-8 password
            # (the characters used here are the same in PDFDocEncoding and ISO-8859-1)
            u, o = u.decode("utf-8").encode("latin-1"), o.decode("utf-8").encode("latin-1")
        eff_owner = o if (o or info["R"] >= 5) else u
        f = dict(c=c, desc=desc, src=src, data=data, info=info, u=u, o=o, eff_owner=eff_owner, keys={})
        files.append(f)
        heavy = info["R"] == 6 and chk.tier == "quick"
        for role, pw in (("user", u), ("owner", eff_owner), ("wrong", b"\x01" + u))[:2 if heavy else 3]:
            iso_lines.append("isoopen " + iso_args(info, pw)); iso_meta.append((f, role, pw))
    iso_out = common.run_lines(runner, iso_lines, shards=8)
    for (f, role, pw), out in zip(iso_meta, iso_out):
        fl = out.split()
        long_pw = f["info"]["R"] >= 5 and len(pw) > 127
        if role == "wrong":
            if fl[0] != "none":
                chk.violation({"kind": "property-fails-on-implementation", "part": "e2e", "what": "a wrong password opens the file", "case": f["desc"],
                               "password": pw.hex(), "reference": out})
            continue
        if fl[0] == "none" or fl[0].startswith("?"):
            chk.violation({"kind": "property-fails-on-implementation", "part": "e2e",
                           "what": "the ISO reference reader cannot open the file with the %s password" % role, "case": f["desc"],
                           "password": pw.hex(), "reference": out}, signature="C05:v5-password-over-127" if long_pw else "")
            continue
        f["keys"][role] = fl[1]
        if f["info"]["R"] >= 5 and fl[2] != "1":
            chk.violation({"kind": "property-fails-on-implementation", "part": "e2e", "what": "/Perms does not validate (Algorithm 13) against /P and /EncryptMetadata",
                           "case": f["desc"], "reference": out})
    # decrypt every string and stream with the reference
    dec_lines, dec_meta = [], []
    for f in files:
        if not f["keys"]:
            continue
        ks = set(f["keys"].values())
        if len(ks) != 1:
            chk.violation({"kind": "property-fails-on-implementation", "part": "e2e", "what": "user and owner password recover different file keys",
                           "case": f["desc"], "keys": f["keys"]})
        key = sorted(ks)[0]
        f["key"] = key
        info = f["info"]
        aes = 1 if info["aes"] else 0
        f["leaves"] = []      # (kind, og, path, ciphertext, plaintext-or-None)
        for og in info["order"]:
            o, off = info["objs"][og]
            if og == info["enc_og"]:
                continue
            if isinstance(o, Stream) and o.d.get(b"Type") == Name(b"XRef"):
                continue
            for path, s in rd.walk_strings(o):
                dec_lines.append("isodec %d %d %s %d %d %s" % (info["R"], aes, key, og[0], og[1], hexs(s.b)))
                dec_meta.append((f, "string", og, path, s.b))
            if isinstance(o, Stream):
                dec_lines.append("isodec %d %d %s %d %d %s" % (info["R"], aes, key, og[0], og[1], hexs(o.data)))
                dec_meta.append((f, "stream", og, (), o.data))
    big_ix = [i for i, l in enumerate(dec_lines) if len(l) > 100000]
    small_ix = [i for i in range(len(dec_lines)) if len(dec_lines[i]) <= 100000]
    import threading
    big_res = {}
    th = threading.Thread(target=lambda: big_res.update(zip(big_ix, run_each(runner, [dec_lines[i] for i in big_ix]))))
    th.start()
    small_out = common.run_lines(runner, [dec_lines[i] for i in small_ix], shards=8)
    th.join()
    dec_out = [None] * len(dec_lines)
    for i, o in zip(small_ix, small_out):
        dec_out[i] = o
    for i in big_ix:
        dec_out[i] = big_res[i]
    for (f, kind, og, path, ct), out in zip(dec_meta, dec_out):
        pt = None
        if out.startswith("ok"):
            h = out.split()[1] if len(out.split()) > 1 else "-"
            pt = bytes.fromhex(h) if h != "-" else b""
        f["leaves"].append((kind, og, path, ct, pt))
    nfiles = 0
    for f in files:
        if "leaves" not in f:
            continue
        nfiles += 1
        judge_file(chk, f, runner)
    return nfiles, files


def judge_file(chk, f, runner):
    info, src, c = f["info"], f["src"], f["c"]
    bits, extra, R, aes, clear = E2E_SCHEMES[c["scheme"]]
    desc = f["desc"]
    data = f["data"]

    def bad(what, **kw):
        sig = kw.pop("signature", "")
        rep = {"kind": "property-fails-on-implementation", "part": "e2e", "what": what, "case": desc}
        rep.update(kw)
        chk.violation(rep, signature=sig)

    # --- scheme: R, V, /Length, crypt filter, EncryptMetadata, header version
    if info["R"] != R or info["aes"] != aes or bool(info["encmeta"]) != (not clear):
        bad("scheme differs from what was asked", got={"R": info["R"], "cfm": info["cfm"], "encmeta": info["encmeta"]})
    minver = {2: (1, 0), 3: (4, 0), 4: (6, 0) if aes else (5, 0), 5: (7, 3), 6: (7, 8)}[R]      # ISO minimum (Perms.iso_min_version)
    hv = (int(info["version"][2:3]), info["ext"]) if info["version"].startswith(b"1.") else (99, 0)
    if not (hv[0] > minver[0] or (hv[0] == minver[0] and hv[1] >= minver[1])):
        bad("header version below the scheme's minimum", header=info["version"].decode(), extension=info["ext"], minimum=minver)
    # --- /P against the manual's table and the job model
    jp = common.run_lines(runner, ["jobp %d %d %s" % (bits, R, ",".join(c["perm"]) or "-")])[0].split()
    if info["P"] != int(jp[1]):
        bad("/P differs from the manual's table for the options used", P=S32(info["P"]), manual_P=S32(int(jp[1])), model_P=S32(int(jp[0])),
            signature="C05:P-modify-order" if any(t.startswith("mod=") for t in c["perm"]) else "")
    elif info["P"] != int(jp[0]):
        chk.violation({"kind": "correspondence-broken", "correspondence": "corr:C05:job-P", "first_case": desc, "implementation": S32(info["P"]),
                       "model": S32(int(jp[0]))}, no_input=True)
    # --- which stream is the catalog's cleartext metadata
    root = info["root"]
    cat = info["objs"].get((root.n, root.g), (None, 0))[0] if isinstance(root, Ref) else None
    meta_og = None
    leaves = list(f["leaves"])
    plain_objs = {}
    # object streams: decrypt -> inflate -> parse; their strings are leaves in the clear
    for kind, og, path, ct, pt in f["leaves"]:
        o = info["objs"][og][0]
        if kind == "stream" and o.d.get(b"Type") == Name(b"ObjStm"):
            try:
                inner = rd.parse_objstm(o.d, rd.unfilter(o.d, pt))
            except Exception as e:
                bad("object stream %d does not decrypt/inflate/parse: %r" % (og[0], e))
                continue
            for num, io in inner.items():
                plain_objs[num] = io
                for p2, s in rd.walk_strings(io):
                    leaves.append(("ostring", (num, 0), p2, None, s.b))
    if cat is None and isinstance(root, Ref):
        cat = plain_objs.get(root.n)
    if isinstance(cat, dict) and isinstance(cat.get(b"Metadata"), Ref):
        meta_og = (cat[b"Metadata"].n, cat[b"Metadata"].g)
    found = {}
    empties = 0
    undec = []
    for kind, og, path, ct, pt in leaves:
        o = info["objs"].get(og, (None, 0))[0]
        if kind == "stream":
            if o.d.get(b"Type") == Name(b"ObjStm"):
                continue
            if clear and og == meta_og:
                pt = ct            # documented exemption: the reader does not decrypt it
            if pt is None:
                undec.append((kind, og, path))
                continue
            try:
                body = rd.unfilter(o.d, pt)
            except Exception as e:
                bad("stream %d does not inflate after decryption: %r" % (og[0], e))
                continue
            key = ("stream", og)
            found[key] = body
        else:
            if kind == "string" and isinstance(o, dict) and o.get(b"Type") == Name(b"Sig") and path == (b"Contents",):
                pt = ct            # documented exemption
            if pt is None:
                undec.append((kind, og, path))
                continue
            found[(kind, og, path)] = pt
            if pt == b"":
                empties += 1
    # per class of leaf: was it written encrypted or in the clear (tie of Crypto/EncWriter.v)
    allmk = [m for m in list(src.strings) + list(src.streams) if len(m) >= 8]
    tally = f.setdefault("leaf_tally", set())
    em = 0 if clear else 1
    for kind, og, path, ct, pt in leaves:
        o = info["objs"].get(og, (None, 0))[0]
        if kind == "ostring":
            cls, raw, dec = "ostring", pt, None
        elif kind == "string":
            cls = ("metadict" if og == meta_og else "sigcontents" if (isinstance(o, dict) and o.get(b"Type") == Name(b"Sig") and path == (b"Contents",))
                   else "streamdict" if isinstance(o, Stream) else "string")
            raw, dec = ct, pt
        else:
            cls = "metastream" if og == meta_og else "objstm" if o.d.get(b"Type") == Name(b"ObjStm") else "stream"

            def unf(x):
                try:
                    return rd.unfilter(o.d, x) if x is not None else None
                except Exception:
                    return None
            raw, dec = unf(ct), unf(pt)
            if cls == "objstm":
                tally.add((em, cls, 1 if dec is not None else 0))
                continue
        if raw is not None and any(m in raw for m in allmk):
            tally.add((em, cls, 0))
        elif dec is not None and any(m in dec for m in allmk):
            tally.add((em, cls, 1))
    undec_meta = [x for x in undec if clear and x[0] == "string" and x[1] == meta_og]
    undec = [x for x in undec if x not in undec_meta]
    if undec_meta:
        bad("strings in the dictionary of the cleartext metadata stream are not encrypted (the reference cannot decrypt them)",
            leaves=[str(x) for x in undec_meta[:5]], signature="C05:cleartext-metadata-dict-string")
    if undec:
        bad("strings/streams the reference cannot decrypt (malformed AES data)", leaves=[str(x) for x in undec[:5]])
    # every source leaf must be present exactly once, byte for byte
    allpt = list(found.items())
    for mk, s in src.strings.items():
        hits = [k for k, v in allpt if k[0] != "stream" and mk in v]
        exact = [k for k, v in allpt if k[0] != "stream" and v == s]
        if len(exact) != 1 or len(hits) != 1:
            # the string in the dictionary of the cleartext metadata stream is a known finding (see known_findings.json)
            sig = "C05:cleartext-metadata-dict-string" if (clear and mk in src.meta_dict_markers) else ""
            bad("a source string is not recovered exactly once by decryption", marker=mk.decode("latin-1"), source=s.hex()[:200],
                hits=[str(h) for h in hits][:3], exact=len(exact), signature=sig)
    for mk, s in src.streams.items():
        exact = [k for k, v in allpt if k[0] == "stream" and v == s]
        if len(exact) != 1:
            bad("a source stream is not recovered exactly once by decryption", marker=mk.decode("latin-1"), length=len(s), exact=len(exact))
    # --- no plaintext marker anywhere in the raw bytes, except the documented exemptions
    allowed = set(src.sig_markers)
    if clear:
        allowed |= src.meta_stream_markers
    for mk in list(src.strings) + list(src.streams):
        if len(mk) < 8:
            continue
        forms = [mk, mk.hex().encode(), mk.hex().upper().encode()]
        hit = [fm for fm in forms if fm in data]
        if hit and mk not in allowed:
            sig = "C05:cleartext-metadata-dict-string" if (clear and mk in src.meta_dict_markers) else ""
            bad("plaintext marker present in the output bytes", marker=mk.decode("latin-1"), offset=data.find(hit[0]), signature=sig)
        if not hit and mk in allowed:
            bad("an exempt leaf (signature /Contents, cleartext metadata) is not in the clear", marker=mk.decode("latin-1"))


def part_e2e(chk, drv, runner, quick):
    rng = chk.rng
    work = common.workdir("C05")
    cases = []
    idx = 0
    schemes = list(E2E_SCHEMES)
    modes = list(MODES)
    if quick:
        plan = [(s, modes[i % len(modes)]) for i, s in enumerate(schemes) if s != "R6-clear"]
        plan += [("R3", "objstm"), ("R4aes-clear", "objstm"), ("R5", "lin-objstm")]
    else:
        plan = [(s, m) for s in schemes for m in modes for _ in range(1 if s.startswith("R6") else 3)]
    for s, m in plan:
        cases.append(e2e_case(rng, idx, s, m, big=(idx % 7 == 3)))
        idx += 1
    # streams larger than two 64 KiB pieces of Pl_RC4's single write(), every RC4 scheme (and AES for comparison),
    # uncompressed and compressed (random data: the Flate output is as long)
    if quick:
        bigplan = [("R2", "nocompress", 140001), ("R3", "plain", 140001), ("R4rc4", "nocompress", 140001)]
    else:
        bigplan = [(sch, "nocompress", n) for sch in ("R2", "R3", "R4rc4", "R4rc4-clear") for n in BIG_SIZES[1:]]
        bigplan += [(sch, m, 200001) for sch in ("R2", "R3", "R4rc4", "R4aes", "R6") for m in ("plain", "objstm", "lin")]
    for sch, m, n in bigplan:
        cases.append(e2e_case(rng, idx, sch, m, big=n, pwkinds=("ascii", "ascii"))); idx += 1
    # over-long passwords (V5: longer than 127 bytes) and V4 truncation at 32
    for s, kinds in [("R5", ("128", "ascii")), ("R5", ("ascii", "140"))] + ([] if quick else [("R6", ("128", "140"))]):
        cases.append(e2e_case(rng, idx, s, "plain", pwkinds=kinds)); idx += 1
    for s in (("R2", "R4aes") if quick else ("R2", "R3", "R4rc4", "R4aes")):
        cases.append(e2e_case(rng, idx, s, "plain", pwkinds=("33", "40"))); idx += 1
    # Unicode passwords given as UTF-8 on the command line (password-mode auto): PDFDocEncoding for R <= 4, UTF-8 for R >= 5
    for sch in (("R3", "R5") if quick else ("R2", "R3", "R4aes", "R5", "R6")):
        c = e2e_case(rng, idx, sch, "plain", pwmode="auto")
        c["user"], c["owner"] = "pässwörd".encode("utf-8").hex(), "Ünïcödé-öwner".encode("utf-8").hex()
        cases.append(c); idx += 1
    # order-sensitive permission options (--modify with a granular option)
    for toks in [["asm=n", "mod=annotate"], ["mod=none", "asm=y"], ["mod=form", "ann=n"], ["mod=annotate", "asm=n"]][:2 if quick else 4]:
        cases.append(e2e_case(rng, idx, "R4aes", "plain", perm=toks)); idx += 1
    n, files = run_e2e(chk, cases, runner, work)
    tally = set()
    for f in files:
        tally |= f.get("leaf_tally", set())
    tl = sorted(tally)
    lm = common.run_lines(runner, ["leafenc %d %s" % (em, cls) for em, cls, st in tl])
    for (em, cls, st), m in zip(tl, lm):
        if m.split()[0] != str(st):
            chk.violation({"kind": "correspondence-broken", "correspondence": "corr:C05:leaf-flags",
                           "first_case": {"encrypt_metadata": em, "leaf_class": cls, "observed_encrypted": st}, "model": m}, no_input=True)
    chk.count("e2e-leaf-classes", len(tl), set(tl), samples=[{"observed (EncryptMetadata, class, encrypted)": [list(x) for x in tl]}])
    chk.count("e2e", n, set((c["scheme"], c["mode"], tuple(c["perm"])) for c in cases),
              samples=[{"case": {k: v for k, v in cases[0].items() if k != "docseed"}}])
    leaves = sum(len(f.get("leaves", ())) for f in files)
    chk.cov["parts"]["e2e"]["leaves_decrypted"] = leaves
    # byte-exact agreement of the writer model with the file: every string / stream of the RC4 and static-IV AES
    # files re-encrypted by the model from the recovered plaintext
    lines, meta = [], []
    for f in files:
        if "key" not in f:
            continue
        info = f["info"]
        for kind, og, path, ct, pt in f["leaves"][:60]:
            if pt is None or len(ct) > 2000:
                continue
            o = info["objs"][og][0]
            if kind == "string" and isinstance(o, dict) and o.get(b"Type") == Name(b"Sig") and path == (b"Contents",):
                continue
            lines.append("kdenc %d %d %s %d %d %s %s" % (info["V"], 1 if info["aes"] else 0, f["key"], og[0], og[1], hexs(STATIC_IV), hexs(pt)))
            meta.append((f, kind, og, path, ct))
    out = common.run_lines(runner, lines, shards=8)
    diff = [(m, o) for m, o in zip(meta, out) if o != hexs(m[4])]
    real = []
    for (f, kind, og, path, ct), o in diff:
        # leaves the writer leaves in the clear (cleartext metadata stream and its dictionary) are judged in judge_file
        real.append((f["desc"], kind, og, str(path), hexs(ct)[:80], o[:80]))
    clear_ok = [r for r in real if not E2E_SCHEMES[r[0]["scheme"]][4]]
    if clear_ok:
        r = clear_ok[0]
        chk.violation({"kind": "correspondence-broken", "correspondence": "corr:C05:writer-bytes", "differing_cases": len(clear_ok),
                       "first_case": r[0], "leaf": [r[1], r[2], r[3]], "implementation": r[4], "model": r[5]}, no_input=True)
    chk.count("e2e-writer-bytes", len(lines), set(l[:60] for l in lines[:2000]))
    # the model's O/U/key for the deterministic schemes against what is in the file
    lines, meta = [], []
    for f in files:
        info = f["info"]
        if info["R"] <= 4:
            lines.append("ou %d %d %d %d %d %s %s %s" % (info["V"], info["R"], info["Length"] // 8, info["P"], 1 if info["encmeta"] else 0,
                                                         hexs(info["id1"]), hexs(f["u"]), hexs(f["o"])))
            meta.append(f)
    out = common.run_lines(runner, lines, shards=4)
    for f, o in zip(meta, out):
        want = "%s %s %s" % (hexs(f["info"]["O"]), hexs(f["info"]["U"]), f.get("key", "?"))
        if o != want and "key" in f:
            chk.violation({"kind": "correspondence-broken", "correspondence": "corr:C05:file-OU", "first_case": f["desc"],
                           "implementation": want, "model": o}, no_input=True)
            break
    chk.count("e2e-OU", len(lines), set(lines))


def part_permcli(chk, drv, runner, quick):
    """the --encrypt permission options through the CLI (QPDFJob::EncConfig), /P read from the output"""
    rng = chk.rng
    work = common.workdir("C05-permcli")
    import random
    inp = os.path.join(work, "in.pdf")
    with open(inp, "wb") as f:
        f.write(pdfgen.write_classic(pdfgen.page_doc(1))[0])
    jobs = []
    gran = ["asm=y", "asm=n", "ann=y", "ann=n", "form=y", "form=n", "other=y", "other=n"]
    for scheme in ("R3", "R4aes", "R5", "R6"):
        pairs = [[m, g] for m in ["mod=" + x for x in ("all", "annotate", "form", "assembly", "none")] for g in gran]
        pairs = pairs + [[g, m] for m, g in pairs]
        for toks in (rng.sample(pairs, 6) if quick else pairs):
            jobs.append((scheme, toks))
    for k in range(40 if quick else 2500):
        scheme = rng.choice(["R2", "R3", "R4rc4", "R4aes", "R5", "R6"])
        toks = rand_perm_tokens(rng, E2E_SCHEMES[scheme][2])
        if rng.random() < 0.3:
            rng.shuffle(toks)
        jobs.append((scheme, toks))

    def runq(k):
        scheme, toks = jobs[k]
        bits, extra, R, aes, clear = E2E_SCHEMES[scheme]
        outp = os.path.join(work, "o%d.pdf" % k)
        args = ["--allow-weak-crypto", "--static-id", "--encrypt", "u", "o", str(bits)] + extra + cli_of_tokens(toks) + ["--", inp, outp]
        rc, out, err = common.run_qpdf(args)
        if rc != 0:
            return None
        data = open(outp, "rb").read()
        os.unlink(outp)
        m = re.search(rb"/P (-?\d+)", data)
        return int(m.group(1)) if m else None
    res = common.par_map(runq, list(range(len(jobs))), workers=4)
    exp = common.run_lines(runner, ["jobp %d %d %s" % (E2E_SCHEMES[s][0], E2E_SCHEMES[s][2], ",".join(t) or "-") for s, t in jobs], shards=4)
    tie = []
    for (scheme, toks), got, e in zip(jobs, res, exp):
        mp, manp = [S32(int(x)) for x in e.split()]
        desc = {"scheme": scheme, "options": cli_of_tokens(toks), "P": got, "manual_P": manp, "model_P": mp}
        if got is None:
            chk.violation({"kind": "property-fails-on-implementation", "part": "perm-cli", "what": "qpdf --encrypt failed or wrote no /P", "case": desc})
        elif got != manp:
            order = any(t.startswith("mod=") for t in toks) and any(t.split("=")[0] in ("asm", "ann", "form", "other") for t in toks)
            chk.violation({"kind": "property-fails-on-implementation", "part": "perm-cli", "what": "/P differs from the manual's table for the options used",
                           "case": desc}, signature="C05:P-modify-order" if order else "")
            if got != mp:
                tie.append(desc)
        elif got != mp:
            tie.append(desc)
    if tie:
        chk.violation({"kind": "correspondence-broken", "correspondence": "corr:C05:job-P", "differing_cases": len(tie), "first_case": tie[0]}, no_input=True)
    chk.count("perm-cli", len(jobs), set((s, tuple(t)) for s, t in jobs), samples=[{"case": [jobs[0][0], jobs[0][1]], "P": res[0]}])


def part_gates(chk, drv, runner, quick):
    rng = chk.rng
    work = common.workdir("C05-gates")
    import random
    src = Source(random.Random(7), 99)
    inp = os.path.join(work, "gate_in.pdf")
    with open(inp, "wb") as f:
        f.write(src.bytes)
    jobs = []
    for scheme in ("R2", "R3", "R4rc4", "R4aes", "R5", "R6"):
        bits, extra, R, aes, clear = E2E_SCHEMES[scheme]
        for aw in (0, 1):
            for ai in ((0, 1) if bits == 256 else (0,)):     # --allow-insecure only exists for 256-bit keys
                for u, o in ((b"u", b"o"), (b"u", b""), (b"", b""), (b"", b"o")):
                    jobs.append((scheme, aw, ai, u, o))
    if quick:
        jobs = [j for k, j in enumerate(jobs) if k % 2 == 0 or j[0] in ("R6",)]

    def runq(j):
        scheme, aw, ai, u, o = j
        bits, extra, R, aes, clear = E2E_SCHEMES[scheme]
        outp = os.path.join(work, "gate_%s_%d%d_%s_%s.pdf" % (scheme, aw, ai, u.decode() or "e", o.decode() or "e"))
        if os.path.exists(outp):
            os.unlink(outp)
        args = (["--allow-weak-crypto"] if aw else []) + ["--static-id", "--encrypt", u, o, str(bits)] + extra + (["--allow-insecure"] if ai else []) + ["--", inp, outp]
        rc, out, err = common.run_qpdf(args)
        return rc, (os.path.exists(outp) and os.path.getsize(outp) > 0)
    res = common.par_map(runq, jobs, workers=4)
    model = common.run_lines(runner, ["gate %d %d %d %d %d %s %s" % (E2E_SCHEMES[s][0], E2E_SCHEMES[s][2], 1 if E2E_SCHEMES[s][3] else 0, aw, ai, hexs(u), hexs(o))
                                      for (s, aw, ai, u, o) in jobs])
    for j, (rc, exists), m in zip(jobs, res, model):
        scheme, aw, ai, u, o = j
        bits, extra, R, aes, clear = E2E_SCHEMES[scheme]
        # specification (property text): RC4 refused without --allow-weak-crypto; user<>"" & owner="" & 256 refused without --allow-insecure
        must_refuse = bool(((not aes) and not aw) or (bits == 256 and u and not o and not ai))
        refused = (rc == 2 and not exists)
        desc = {"scheme": scheme, "allow_weak": aw, "allow_insecure": ai, "user": u.decode(), "owner": o.decode(), "exit": rc, "output_written": exists}
        if must_refuse != refused or (not must_refuse and rc != 0):
            chk.violation({"kind": "property-fails-on-implementation", "part": "gates", "what": "refusal gate", "case": desc, "must_refuse": bool(must_refuse)})
        elif (m == "1") != refused:
            chk.violation({"kind": "correspondence-broken", "correspondence": "corr:C05:gates", "first_case": desc, "model": m}, no_input=True)
    chk.count("gates", len(jobs), set(jobs))


def run(chk):
    drv = os.path.join(common.DRV, "drv")
    runner = os.path.join(common.EXTRACT, "model_runner")
    quick = chk.tier == "quick"
    chk.cov["rule"] = ("prim: (hash | AES mode, key length, IV mode, padding, boundary lengths, chunking) x 3 crypto providers; kdf: (scheme, P, id, "
                       "password classes empty/ASCII/high/UTF-8/31..40/126..140 bytes, random bytes) through the static API, then user/owner/wrong "
                       "passwords through qpdf's checker, the model and the ISO reference reader; perm: all flag combinations of the five setR* calls; "
                       "e2e: generated documents (unique marker in every string and stream, signature, XMP) x scheme x {plain, object streams, "
                       "linearized, uncompressed} x permission options; non-trivial = distinct case that the implementation processed without error")
    import time, threading
    chk.cov["timing_s"] = {}
    sel = os.environ.get("C05_PARTS")

    def timed(name, part):
        if sel and name not in sel.split(","):
            return
        t0 = time.time()
        try:
            part(chk, drv, runner, quick)
        except Exception as e:
            import traceback
            chk.violation({"kind": "check-crashed", "part": name, "what": repr(e), "detail": traceback.format_exc()}, no_input=True)
        chk.cov["timing_s"][name] = round(time.time() - t0, 1)
    # the generators draw from one PRNG: the draws are made part by part in a fixed order (each part gets its own
    # derived generator), then the slow parts (Algorithm 2.B in extracted code) run side by side
    import random
    base = chk.rng
    rngs = {n: random.Random("%s/%s/%s" % (chk.pid, chk.seed, n)) for n in ("prim", "primbig", "kdf", "perm", "permcli", "e2e", "gates")}

    class View:
        """what a part sees of the check: its own generator, shared bookkeeping"""
        def __init__(self, name):
            self.rng = rngs[name]

        def __getattr__(self, k):
            return getattr(chk, k)
    ths = []
    for name, part in (("kdf", part_kdf), ("e2e", part_e2e)):
        t = threading.Thread(target=lambda n=name, p=part: timed_view(n, p))
        ths.append(t)

    def timed_view(name, part):
        if sel and name not in sel.split(","):
            return
        t0 = time.time()
        try:
            part(View(name), drv, runner, quick)
        except Exception as e:
            import traceback
            chk.violation({"kind": "check-crashed", "part": name, "what": repr(e), "detail": traceback.format_exc()}, no_input=True)
        chk.cov["timing_s"][name] = round(time.time() - t0, 1)
    for t in ths:
        t.start()
    for name, part in (("prim", part_prim), ("perm", part_perm), ("permcli", part_permcli), ("gates", part_gates), ("primbig", part_primbig)):
        timed_view(name, part)
    for t in ths:
        t.join()


def replay(chk, rep):
    """re-run a recorded case"""
    drv = os.path.join(common.DRV, "drv")
    runner = common.build_extract()
    print(json.dumps(rep, indent=1, default=str)[:3000])
    c = rep.get("case")
    if isinstance(c, dict) and c.get("kind") == "e2e":
        c = {k: v for k, v in c.items() if k != "qpdf_args"}
        n, files = run_e2e(chk, [c], runner, common.workdir("C05-replay"))
    elif rep.get("part") == "prim-big" or rep.get("correspondence") == "corr:C05:prim-big":
        import random

        class V:
            rng = random.Random("%s/%s/primbig" % (chk.pid, chk.seed))

            def __getattr__(self, k):
                return getattr(chk, k)
        part_primbig(V(), drv, runner, chk.tier == "quick")
    elif rep.get("first_case") and isinstance(rep["first_case"], str):
        l = rep["first_case"]
        print("implementation:", common.run_lines(drv, [l])[0][:1000])
        print("model         :", common.run_lines(runner, [l])[0][:1000])
    # report without touching evidence/C05.json (a replay is not a check run)
    for k in chk.known_hits:
        print("KNOWN-FINDING: property=%s %s [%s]" % (chk.pid, k["what"][:200], k["id"]))
    for rep_, no_input in chk.violations[:5]:
        print("REPLAY-VIOLATION%s: %s" % (" (tie only)" if no_input else "", json.dumps(rep_, default=str)[:1500]))
    print("replay: %d violation(s), %d known finding(s) observed" % (len(chk.violations), len(chk.known_hits)))
    return 1 if chk.violations else 0
