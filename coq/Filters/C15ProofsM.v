(* C15 extension, layers 2 and 3 of lzw_decode_encode:
   layer 2 - the bit packing of the reference encoder (LzwSpec.pack_codes: MSB first, final partial byte padded
   with zero bits) is undone by the model of Pl_LZWDecoder's 3-byte ring reader (lzw_step / lzw_send), for every
   list of (code, width) pairs whose widths are the decoder's code sizes;
   layer 3 - composition with layer 1 (C15ProofsL.v): lzw_decode_encode for all byte strings. *)
From QV Require Import Base.Bytes Filters.Filters Filters.FilterSpec Filters.LzwSpec Filters.LzwCodes.
From Coq Require Import Lia.
From QV Require Import Filters.C15ProofsA Filters.C15ProofsB Filters.C15ProofsL.
Local Open Scope N_scope.

Notation lzi_bits := bits_of_byte_fuel.

(* ================= MSB-first bit lists ================= *)
Lemma lzi_bits_length : forall n v, length (lzi_bits n v) = n.
Proof. induction n as [|n IH]; intros v; cbn [bits_of_byte_fuel length]; [reflexivity|]. rewrite IH. reflexivity. Qed.

Lemma lzi_bits_split : forall a b v, lzi_bits (a + b) v = lzi_bits a (v / 2 ^ N.of_nat b) ++ lzi_bits b v.
Proof.
  induction a as [|a IH]; intros b v; [reflexivity|].
  cbn [Nat.add bits_of_byte_fuel app]. rewrite IH. f_equal.
  rewrite N.div_pow2_bits. f_equal. lia.
Qed.

Lemma lzi_bits_mod_gen : forall k n v, (k <= n)%nat -> lzi_bits k (v mod 2 ^ N.of_nat n) = lzi_bits k v.
Proof.
  induction k as [|k IH]; intros n v Hk; [reflexivity|].
  cbn [bits_of_byte_fuel]. rewrite IH by lia. f_equal.
  apply N.mod_pow2_bits_low. lia.
Qed.

Lemma lzi_bits_zero : forall n, lzi_bits n 0 = repeat false n.
Proof. induction n as [|n IH]; [reflexivity|]. cbn [bits_of_byte_fuel repeat]. rewrite IH, N.bits_0. reflexivity. Qed.

Lemma lzi_mod_pow2_succ : forall v k, v mod 2 ^ N.succ k = v mod 2 ^ k + 2 ^ k * N.b2n (N.testbit v k).
Proof.
  intros v k. rewrite N.pow_succ_r', N.mul_comm.
  rewrite N.mod_mul_r by (try apply N.pow_nonzero; lia).
  rewrite N.testbit_spec'. reflexivity.
Qed.

Lemma lzi_val_bits : forall n v, valacc 0 (lzi_bits n v) = v mod 2 ^ N.of_nat n.
Proof.
  induction n as [|n IH]; intros v.
  - cbn. rewrite N.mod_1_r. reflexivity.
  - cbn [bits_of_byte_fuel]. unfold valacc. cbn [fold_left]. fold (valacc (2 * 0 + (if N.testbit v (N.of_nat n) then 1 else 0)) (lzi_bits n v)).
    rewrite valacc_shift, IH, lzi_bits_length, Nat2N.inj_succ, lzi_mod_pow2_succ.
    destruct (N.testbit v (N.of_nat n)); cbn [N.b2n]; lia.
Qed.

Lemma lzi_valacc_bound : forall l acc, valacc acc l < (acc + 1) * 2 ^ N.of_nat (length l).
Proof.
  induction l as [|b l IH]; intros acc.
  - cbn [valacc fold_left length N.of_nat]. unfold valacc. cbn [fold_left]. rewrite N.pow_0_r. lia.
  - unfold valacc in *. cbn [fold_left length]. rewrite Nat2N.inj_succ, N.pow_succ_r'.
    eapply N.lt_le_trans; [apply IH|].
    rewrite N.mul_assoc. apply N.mul_le_mono_r. destruct b; lia.
Qed.

Lemma lzi_bits_of_bytes_app : forall a b, bits_of_bytes (a ++ b) = bits_of_bytes a ++ bits_of_bytes b.
Proof. intros. unfold bits_of_bytes. rewrite map_app, concat_app. reflexivity. Qed.

Lemma lzi_bits_of_bytes_cons : forall b t, bits_of_bytes (b :: t) = lzi_bits 8 b ++ bits_of_bytes t.
Proof. reflexivity. Qed.

Lemma lzi_pow_split : forall a b, b <= a -> 2 ^ a = 2 ^ b * 2 ^ (a - b).
Proof. intros a b H. rewrite <- N.pow_add_r. f_equal. lia. Qed.

(* ================= the packer of the reference encoder ================= *)
(* joining a code to the pending bits *)
Lemma lzi_join : forall nbits acc w code, acc < 2 ^ nbits -> code < 2 ^ w ->
  lzi_bits (N.to_nat (nbits + w)) (acc * 2 ^ w + code) = lzi_bits (N.to_nat nbits) acc ++ lzi_bits (N.to_nat w) code
  /\ acc * 2 ^ w + code < 2 ^ (nbits + w).
Proof.
  intros nbits acc w code Ha Hc. split.
  - rewrite N2Nat.inj_add, lzi_bits_split, N2Nat.id.
    assert (Hp : 2 ^ w <> 0) by (apply N.pow_nonzero; lia).
    f_equal.
    + f_equal. rewrite N.div_add_l by exact Hp. rewrite N.div_small by exact Hc. lia.
    + rewrite <- (lzi_bits_mod_gen _ (N.to_nat w)) by lia. rewrite N2Nat.id.
      rewrite N.add_comm, N.mod_add by exact Hp. rewrite N.mod_small by exact Hc. reflexivity.
  - rewrite N.pow_add_r.
    assert (acc * 2 ^ w + 2 ^ w <= 2 ^ nbits * 2 ^ w); [|lia].
    replace (acc * 2 ^ w + 2 ^ w) with ((acc + 1) * 2 ^ w) by lia. apply N.mul_le_mono_r. lia.
Qed.

(* flushing the top byte *)
Lemma lzi_flush : forall nb acc, 8 <= nb -> acc < 2 ^ nb ->
  acc / 2 ^ (nb - 8) < 256 /\ acc mod 2 ^ (nb - 8) < 2 ^ (nb - 8) /\
  lzi_bits (N.to_nat nb) acc = lzi_bits 8 (acc / 2 ^ (nb - 8)) ++ lzi_bits (N.to_nat (nb - 8)) (acc mod 2 ^ (nb - 8)).
Proof.
  intros nb acc Hnb Ha.
  assert (Hp : 2 ^ (nb - 8) <> 0) by (apply N.pow_nonzero; lia).
  split; [|split].
  - apply N.div_lt_upper_bound; [exact Hp|]. rewrite (lzi_pow_split nb (nb - 8)) in Ha by lia.
    replace (nb - (nb - 8)) with 8 in Ha by lia. exact Ha.
  - apply N.mod_lt. exact Hp.
  - replace (N.to_nat nb) with (8 + N.to_nat (nb - 8))%nat by lia.
    rewrite lzi_bits_split, N2Nat.id. f_equal.
    rewrite <- (lzi_bits_mod_gen _ (N.to_nat (nb - 8))) by lia. rewrite N2Nat.id. reflexivity.
Qed.

Definition lzi_cw_ok (cw : N * N) : Prop := snd cw <= 16 /\ fst cw < 2 ^ snd cw.

Lemma lzi_rev'_cons : forall (x : N) l, rev' (x :: l) = rev' l ++ [x].
Proof. intros. rewrite !rev'_rev. reflexivity. Qed.

Lemma lzi_bytes_ok_snoc : forall l x, bytes_ok l -> x < 256 -> bytes_ok (l ++ [x]).
Proof. intros l x Hl Hx. apply Forall_app. split; [exact Hl|]. constructor; [exact Hx|constructor]. Qed.

(* pack_codes: the output is the bit string of the pending bits and of the codes, MSB first, then zero bits
   up to the byte boundary *)
Lemma lzi_pack_spec : forall cws acc nbits out_rev fuel,
  nbits < 8 -> acc < 2 ^ nbits -> Forall lzi_cw_ok cws -> bytes_ok (rev' out_rev) ->
  exists npad, (npad < 8)%nat /\ bytes_ok (pack_codes cws acc nbits out_rev fuel) /\
    bits_of_bytes (pack_codes cws acc nbits out_rev fuel)
    = bits_of_bytes (rev' out_rev) ++ lzi_bits (N.to_nat nbits) acc ++ lzi_cbits cws ++ repeat false npad.
Proof.
  induction cws as [|[code w] r IH]; intros acc nbits out_rev fuel Hnb Hacc Hcws Hout.
  - cbn [pack_codes lzi_cbits flat_map app]. destruct (N.eqb_spec nbits 0) as [E|E].
    + subst nbits. exists 0%nat. split; [lia|]. split; [exact Hout|].
      cbn [N.to_nat bits_of_byte_fuel repeat app]. rewrite app_nil_r. reflexivity.
    + exists (N.to_nat (8 - nbits)). split; [lia|].
      assert (Hp : 2 ^ (8 - nbits) <> 0) by (apply N.pow_nonzero; lia).
      assert (Hlt : acc * 2 ^ (8 - nbits) < 256).
      { change 256 with (2 ^ 8). rewrite (lzi_pow_split 8 nbits) by lia.
        apply N.mul_lt_mono_pos_r; [lia|exact Hacc]. }
      rewrite N.mod_small by exact Hlt. rewrite lzi_rev'_cons. split.
      * apply lzi_bytes_ok_snoc; assumption.
      * rewrite lzi_bits_of_bytes_app. f_equal. rewrite lzi_bits_of_bytes_cons. unfold bits_of_bytes. cbn [map concat].
        rewrite app_nil_r.
        replace 8%nat with (N.to_nat nbits + N.to_nat (8 - nbits))%nat at 1 by lia.
        rewrite lzi_bits_split, N2Nat.id. rewrite N.div_mul by exact Hp. f_equal.
        rewrite <- (lzi_bits_mod_gen _ (N.to_nat (8 - nbits))) by lia. rewrite N2Nat.id.
        rewrite N.mod_mul by exact Hp. apply lzi_bits_zero.
  - inversion Hcws as [|? ? [Hw Hc] Hcws']; subst. cbn [fst snd] in Hw, Hc.
    cbn [pack_codes lzi_cbits flat_map fst snd]. fold (lzi_cbits r).
    destruct (lzi_join nbits acc w code Hacc Hc) as [Hj Hjb].
    set (acc' := acc * 2 ^ w + code) in *. set (nb := nbits + w) in *.
    assert (Hgoal : forall acc2 nb2 out2, nb2 < 8 -> acc2 < 2 ^ nb2 -> bytes_ok (rev' out2) ->
              bits_of_bytes (rev' out2) ++ lzi_bits (N.to_nat nb2) acc2
              = bits_of_bytes (rev' out_rev) ++ lzi_bits (N.to_nat nbits) acc ++ lzi_bits (N.to_nat w) code ->
              exists npad, (npad < 8)%nat /\ bytes_ok (pack_codes r acc2 nb2 out2 fuel) /\
                bits_of_bytes (pack_codes r acc2 nb2 out2 fuel)
                = bits_of_bytes (rev' out_rev) ++ lzi_bits (N.to_nat nbits) acc ++ (lzi_bits (N.to_nat w) code ++ lzi_cbits r) ++ repeat false npad).
    { intros acc2 nb2 out2 H1 H2 H3 H4.
      destruct (IH acc2 nb2 out2 fuel H1 H2 Hcws' H3) as (npad & Hn & Hb & Hbits).
      exists npad. split; [exact Hn|]. split; [exact Hb|].
      rewrite Hbits. rewrite (app_assoc (bits_of_bytes (rev' out2))), H4, <- !app_assoc. reflexivity. }
    destruct (N.leb_spec 8 nb) as [E1|E1].
    + destruct (lzi_flush nb acc' E1 Hjb) as (Hb1 & Ha1 & Hf1).
      set (acc1 := acc' mod 2 ^ (nb - 8)) in *. set (byte1 := acc' / 2 ^ (nb - 8)) in *.
      destruct (N.leb_spec 8 (nb - 8)) as [E2|E2].
      * destruct (lzi_flush (nb - 8) acc1 E2 Ha1) as (Hb2 & Ha2 & Hf2).
        apply Hgoal; [lia|exact Ha2| |].
        -- rewrite !lzi_rev'_cons. apply lzi_bytes_ok_snoc; [apply lzi_bytes_ok_snoc; assumption|exact Hb2].
        -- rewrite !lzi_rev'_cons, !lzi_bits_of_bytes_app. rewrite <- !app_assoc.
           f_equal. rewrite <- Hj, Hf1, Hf2. unfold bits_of_bytes. cbn [map concat]. rewrite !app_nil_r, <- ?app_assoc. reflexivity.
      * apply Hgoal; [lia|exact Ha1| |].
        -- rewrite lzi_rev'_cons. apply lzi_bytes_ok_snoc; assumption.
        -- rewrite lzi_rev'_cons, lzi_bits_of_bytes_app. rewrite <- !app_assoc.
           f_equal. rewrite <- Hj, Hf1. unfold bits_of_bytes. cbn [map concat]. rewrite !app_nil_r. reflexivity.
    + replace (8 <=? nb) with false by (symmetry; apply N.leb_gt; exact E1).
      apply Hgoal; [exact E1|exact Hjb|exact Hout|]. rewrite Hj. reflexivity.
Qed.

(* ================= sendNextCode: the masks and shifts read cs bits MSB-first from a 3-byte window ================= *)
Lemma lzi_land_low : forall x j, N.land x (2 ^ j - 1) = x mod 2 ^ j.
Proof. intros x j. rewrite <- N.land_ones. f_equal. rewrite N.ones_equiv. lia. Qed.

Definition lzi_high_ok (m x : N) : bool := N.land x (255 - (2 ^ (8 - m) - 1)) / 2 ^ (8 - m) =? x / 2 ^ (8 - m).
Lemma lzi_land_high : forall x m, x < 256 -> m <= 8 ->
  N.land x (255 - (2 ^ (8 - m) - 1)) / 2 ^ (8 - m) = x / 2 ^ (8 - m).
Proof.
  intros x m Hx Hm.
  assert (H : forallb (fun m => forallb (fun x => lzi_high_ok m x) (map N.of_nat (seq 0 256))) (map N.of_nat (seq 0 9)) = true)
    by (vm_compute; reflexivity).
  pose proof (small_sweep 9 _ H m ltac:(lia)) as H1. cbv beta in H1.
  pose proof (small_sweep 256 _ H1 x ltac:(lia)) as H2. cbv beta in H2.
  apply N.eqb_eq in H2. exact H2.
Qed.

(* the same computation without the masks *)
Definition lzi_send_arith (x0 x1 x2 bit_pos cs : N) : N :=
  let bfh := 8 - bit_pos in
  let bfm0 := cs - bfh in
  let bfl := if 8 <? bfm0 then bfm0 - 8 else 0 in
  let bfm := if 8 <? bfm0 then 8 else bfm0 in
  let code0 := (x0 mod 2 ^ bfh) * 2 ^ bfm + x1 / 2 ^ (8 - bfm) in
  if 0 <? bfl then code0 * 2 ^ bfl + x2 / 2 ^ (8 - bfl) else code0.

Lemma lzi_send_code_arith : forall x0 x1 x2 bit_pos cs, x1 < 256 -> x2 < 256 -> bit_pos <= 7 -> 9 <= cs <= 12 ->
  lzi_send_code x0 x1 x2 bit_pos cs = lzi_send_arith x0 x1 x2 bit_pos cs.
Proof.
  intros x0 x1 x2 bit_pos cs H1 H2 Hb Hcs. unfold lzi_send_code, lzi_send_arith. cbv zeta.
  rewrite lzi_land_low.
  rewrite (lzi_land_high x1) by (try exact H1; destruct (N.ltb_spec 8 (cs - (8 - bit_pos))); lia).
  rewrite (lzi_land_high x2) by (try exact H2; destruct (N.ltb_spec 8 (cs - (8 - bit_pos))); lia).
  reflexivity.
Qed.

Ltac lzi_enum_bitpos_cs bit_pos cs Hb Hcs :=
  assert (Hbe : bit_pos = 0 \/ bit_pos = 1 \/ bit_pos = 2 \/ bit_pos = 3 \/ bit_pos = 4 \/ bit_pos = 5 \/ bit_pos = 6 \/ bit_pos = 7) by lia;
  assert (Hce : cs = 9 \/ cs = 10 \/ cs = 11 \/ cs = 12) by lia;
  clear Hb Hcs;
  destruct Hbe as [Hbe|[Hbe|[Hbe|[Hbe|[Hbe|[Hbe|[Hbe|Hbe]]]]]]]; destruct Hce as [Hce|[Hce|[Hce|Hce]]]; subst bit_pos cs.

(* window of three bytes x0 x1 x2 read from bit bit_pos of x0: value of the 24 - bit_pos remaining bits *)
Definition lzi_p3 (x0 x1 x2 bit_pos : N) : N := ((x0 mod 2 ^ (8 - bit_pos)) * 256 + x1) * 256 + x2.
Definition lzi_p2 (x0 x1 bit_pos : N) : N := (x0 mod 2 ^ (8 - bit_pos)) * 256 + x1.

Lemma lzi_send_window3 : forall x0 x1 x2 bit_pos cs, x0 < 256 -> x1 < 256 -> x2 < 256 -> bit_pos <= 7 -> 9 <= cs <= 12 ->
  lzi_send_arith x0 x1 x2 bit_pos cs = lzi_p3 x0 x1 x2 bit_pos / 2 ^ (24 - bit_pos - cs) /\
  lzi_p3 x0 x1 x2 bit_pos mod 2 ^ (24 - bit_pos - cs)
  = (if bit_pos + cs <? 16 then (x1 mod 2 ^ (16 - bit_pos - cs)) * 256 + x2 else x2 mod 2 ^ (24 - bit_pos - cs)).
Proof.
  intros x0 x1 x2 bit_pos cs H0 H1 H2 Hb Hcs.
  Ltac Zify.zify_post_hook ::= Z.to_euclidean_division_equations.
  lzi_enum_bitpos_cs bit_pos cs Hb Hcs; unfold lzi_send_arith, lzi_p3; cbn; split; lia.
Qed.
Ltac Zify.zify_post_hook ::= idtac.

(* ================= the 3-byte ring ================= *)
Definition lzi_x0 (s : lzw_st) : N := ring s (lz_byte_pos s).
Definition lzi_x1 (s : lzw_st) : N := ring s ((lz_byte_pos s + 1) mod 3).
Definition lzi_x2 (s : lzw_st) : N := ring s ((lz_byte_pos s + 2) mod 3).

Definition lzi_wf (s : lzw_st) : Prop :=
  (exists b0 b1 b2, lz_buf s = [b0; b1; b2] /\ b0 < 256 /\ b1 < 256 /\ b2 < 256) /\
  lz_byte_pos s < 3 /\ lz_bit_pos s <= 7.

(* the a unread bits of the ring have value p: they start at bit bit_pos of byte byte_pos and end where the
   next byte will be written *)
Definition lzi_rr (s : lzw_st) (p a : N) : Prop :=
  lz_bits_avail s = a /\
  ((a = 0 /\ p = 0 /\ lz_bit_pos s = 0 /\ lz_next_char s = lz_byte_pos s) \/
   (a = 8 - lz_bit_pos s /\ p = lzi_x0 s mod 2 ^ (8 - lz_bit_pos s) /\ lz_next_char s = (lz_byte_pos s + 1) mod 3) \/
   (a = 16 - lz_bit_pos s /\ p = lzi_p2 (lzi_x0 s) (lzi_x1 s) (lz_bit_pos s) /\ lz_next_char s = (lz_byte_pos s + 2) mod 3) \/
   (a = 24 - lz_bit_pos s /\ p = lzi_p3 (lzi_x0 s) (lzi_x1 s) (lzi_x2 s) (lz_bit_pos s) /\ lz_next_char s = lz_byte_pos s)).

(* write(): the byte goes into the ring *)
Definition lzi_put (s : lzw_st) (b : N) : lzw_st :=
  {| lz_buf := set_nth (N.to_nat (lz_next_char s)) b (lz_buf s); lz_code_size := lz_code_size s;
     lz_next_char := if lz_next_char s + 1 =? 3 then 0 else lz_next_char s + 1; lz_byte_pos := lz_byte_pos s; lz_bit_pos := lz_bit_pos s;
     lz_bits_avail := lz_bits_avail s + 8; lz_eod := lz_eod s; lz_table := lz_table s;
     lz_last_code := lz_last_code s |}.

Lemma lzi_step_put : forall early s b,
  lzw_step early s b = if lz_code_size s <=? lz_bits_avail s + 8 then lzw_send early (lzi_put s b) else (lzi_put s b, [], false).
Proof. reflexivity. Qed.

Ltac lzi_proj := cbn [lz_buf lz_code_size lz_next_char lz_byte_pos lz_bit_pos lz_bits_avail lz_eod lz_table lz_last_code] in *.

Local Opaque N.sub N.pow.
Lemma lzi_put_rr : forall s b p a, lzi_wf s -> lzi_rr s p a -> a <= 11 -> b < 256 ->
  lzi_wf (lzi_put s b) /\ lzi_rr (lzi_put s b) (p * 256 + b) (a + 8).
Proof.
  intros s b p a Hwf Hrr Ha Hb.
  destruct s as [buf cs nc bp bit av eod tbl last].
  unfold lzi_wf, lzi_rr, lzi_put, lzi_x0, lzi_x1, lzi_x2, ring in *. lzi_proj.
  destruct Hwf as ((b0 & b1 & b2 & Ebuf & H0 & H1 & H2) & Hbp & Hbit). subst buf.
  assert (Hbpe : bp = 0 \/ bp = 1 \/ bp = 2) by lia.
  Ltac Zify.zify_post_hook ::= Z.to_euclidean_division_equations.
  destruct Hrr as [Hav [(?&?&?&?) | [(?&?&?) | [(?&?&?) | (?&?&?)]]]];
  destruct Hbpe as [?|[?|?]]; subst; cbn in *; try lia;
  (split; [split; [do 3 eexists; split; [reflexivity|]; repeat split; assumption | lia] | split; [lia|] ]).
  all: unfold lzi_p2, lzi_p3.
  all: change (Pos.to_nat 1) with 1%nat in *; change (Pos.to_nat 2) with 2%nat in *; cbn [nth set_nth].
  all: first [ right; left; split; [lia|]; split; [first [reflexivity | change (2 ^ (8 - 0)) with 256; lia]|reflexivity]
             | right; right; left; split; [lia|]; split; [reflexivity|reflexivity]
             | right; right; right; split; [lia|]; split; [reflexivity|reflexivity] ].
Qed.
Local Transparent N.sub N.pow.
Ltac Zify.zify_post_hook ::= idtac.

(* sendNextCode: new read position *)
Definition lzi_after_send (s : lzw_st) : lzw_st :=
  let med := (lz_byte_pos s + 1) mod 3 in
  let low := (lz_byte_pos s + 2) mod 3 in
  let bfh := 8 - lz_bit_pos s in
  let bfm0 := lz_code_size s - bfh in
  let bfl := if 8 <? bfm0 then bfm0 - 8 else 0 in
  let bfm := if 8 <? bfm0 then 8 else bfm0 in
  let bp := if 0 <? bfl then low else med in
  let bit := if 0 <? bfl then bfl else bfm in
  let bp' := if bit =? 8 then (bp + 1) mod 3 else bp in
  let bit' := if bit =? 8 then 0 else bit in
  {| lz_buf := lz_buf s; lz_code_size := lz_code_size s; lz_next_char := lz_next_char s;
     lz_byte_pos := bp'; lz_bit_pos := bit'; lz_bits_avail := lz_bits_avail s - lz_code_size s;
     lz_eod := lz_eod s; lz_table := lz_table s; lz_last_code := lz_last_code s |}.

Lemma lzi_send_eq : forall early s,
  lzw_send early s = lzw_handle early (lzi_after_send s)
                       (lzi_send_code (lzi_x0 s) (lzi_x1 s) (lzi_x2 s) (lz_bit_pos s) (lz_code_size s)).
Proof. reflexivity. Qed.

Lemma lzi_ring_lt : forall b0 b1 b2 i, b0 < 256 -> b1 < 256 -> b2 < 256 -> nth i [b0; b1; b2] 0 < 256.
Proof. intros b0 b1 b2 i H0 H1 H2. destruct i as [|[|[|i]]]; cbn [nth]; try assumption; destruct i; lia. Qed.

Lemma lzi_send_window2 : forall x0 x1 x2 bit_pos cs, x0 < 256 -> x1 < 256 -> x2 < 256 -> bit_pos <= 7 -> 9 <= cs <= 12 ->
  bit_pos + cs <= 16 ->
  lzi_send_arith x0 x1 x2 bit_pos cs = lzi_p2 x0 x1 bit_pos / 2 ^ (16 - bit_pos - cs) /\
  lzi_p2 x0 x1 bit_pos mod 2 ^ (16 - bit_pos - cs) = x1 mod 2 ^ (16 - bit_pos - cs).
Proof.
  intros x0 x1 x2 bit_pos cs H0 H1 H2 Hb Hcs Hle.
  Ltac Zify.zify_post_hook ::= Z.to_euclidean_division_equations.
  lzi_enum_bitpos_cs bit_pos cs Hb Hcs; try (exfalso; clear - Hle; lia); unfold lzi_send_arith, lzi_p2; cbn; split; lia.
Qed.
Ltac Zify.zify_post_hook ::= idtac.

(* where sendNextCode leaves the read position *)
Lemma lzi_after_send_pos : forall s, lz_byte_pos s < 3 -> lz_bit_pos s <= 7 -> 9 <= lz_code_size s <= 12 ->
  lz_byte_pos (lzi_after_send s)
  = (if lz_bit_pos s + lz_code_size s <? 16 then (lz_byte_pos s + 1) mod 3 else (lz_byte_pos s + 2) mod 3) /\
  lz_bit_pos (lzi_after_send s)
  = (if lz_bit_pos s + lz_code_size s <? 16 then lz_bit_pos s + lz_code_size s - 8 else lz_bit_pos s + lz_code_size s - 16).
Proof.
  intros s Hbp Hbit Hcs. destruct s as [buf cs nc bp bit av eod tbl last]. lzi_proj.
  assert (Hbpe : bp = 0 \/ bp = 1 \/ bp = 2) by lia. clear Hbp.
  lzi_enum_bitpos_cs bit cs Hbit Hcs; destruct Hbpe as [?|[?|?]]; subst bp; split; vm_compute; reflexivity.
Qed.

Lemma lzi_after_send_same : forall s,
  lz_buf (lzi_after_send s) = lz_buf s /\ lz_next_char (lzi_after_send s) = lz_next_char s /\
  lz_bits_avail (lzi_after_send s) = lz_bits_avail s - lz_code_size s.
Proof. intros s. repeat split; reflexivity. Qed.

Ltac lzi_mod3 :=
  change ((0 + 1) mod 3) with 1 in *; change ((0 + 2) mod 3) with 2 in *;
  change ((1 + 1) mod 3) with 2 in *; change ((1 + 2) mod 3) with 0 in *;
  change ((2 + 1) mod 3) with 0 in *; change ((2 + 2) mod 3) with 1 in *;
  change (N.to_nat 0) with 0%nat in *; change (N.to_nat 1) with 1%nat in *; change (N.to_nat 2) with 2%nat in *;
  cbn [nth] in *.

Ltac lzi_exp_eq :=
  unfold lzi_p2;
  match goal with |- ?lhs = ?rhs =>
    match lhs with context [2 ^ ?e0] => match rhs with context [2 ^ ?e] => replace e with e0 by lia end end
  end; reflexivity.

Ltac lzi_rr_pick :=
  first [ left; split; [lia|]; split; [match goal with |- ?x mod 2 ^ ?e = 0 => replace e with 0 by lia; apply N.mod_1_r end|]; split; lia
        | right; left; split; [lia|]; split; [lzi_exp_eq|lia]
        | right; right; left; split; [lia|]; split; [lzi_exp_eq|lia] ].

(* the code read is the top cs bits of the a unread bits; the rest stays unread *)
Lemma lzi_send_rr : forall s p a, lzi_wf s -> lzi_rr s p a ->
  9 <= lz_code_size s <= 12 -> lz_code_size s <= a -> a <= 19 ->
  lzi_send_code (lzi_x0 s) (lzi_x1 s) (lzi_x2 s) (lz_bit_pos s) (lz_code_size s) = p / 2 ^ (a - lz_code_size s) /\
  lzi_wf (lzi_after_send s) /\ lzi_rr (lzi_after_send s) (p mod 2 ^ (a - lz_code_size s)) (a - lz_code_size s).
Proof.
  intros s p a Hwf Hrr Hcs Hle Ha.
  pose proof (lzi_after_send_pos s (proj1 (proj2 Hwf)) (proj2 (proj2 Hwf)) Hcs) as [Pbp Pbit].
  destruct (lzi_after_send_same s) as (Sb & Sn & Sa).
  unfold lzi_wf, lzi_rr, lzi_x0, lzi_x1, lzi_x2, ring. rewrite Pbp, Pbit, Sb, Sn, Sa. clear Pbp Pbit Sb Sn Sa.
  unfold lzi_wf, lzi_rr, lzi_x0, lzi_x1, lzi_x2, ring in Hwf, Hrr.
  destruct s as [buf cs nc bp bit av eod tbl last]. lzi_proj.
  destruct Hwf as ((b0 & b1 & b2 & Ebuf & H0 & H1 & H2) & Hbp & Hbit). subst buf.
  rewrite lzi_send_code_arith by (try apply lzi_ring_lt; assumption).
  assert (Hbpe : bp = 0 \/ bp = 1 \/ bp = 2) by lia.
  destruct Hrr as [Hav [(?&?&?&?) | [(?&?&?) | [(Ea&Ep&En) | (Ea&Ep&En)]]]]; try lia.
  - (* two bytes unread *)
    assert (Hle16 : bit + cs <= 16) by lia.
    destruct Hbpe as [?|[?|?]]; subst bp; lzi_mod3;
    match type of Ep with _ = lzi_p2 ?y0 ?y1 _ =>
      match goal with |- lzi_send_arith _ _ ?y2 _ _ = _ /\ _ =>
        destruct (lzi_send_window2 y0 y1 y2 bit cs ltac:(assumption) ltac:(assumption) ltac:(assumption) Hbit Hcs Hle16) as [Wc Wm] end end;
    subst p a av; (split; [exact Wc|]); rewrite Wm;
    destruct (N.ltb_spec (bit + cs) 16);
    (split; [split; [do 3 eexists; split; [reflexivity|]; repeat split; assumption | split; [reflexivity || lia | lia]]|]);
    (split; [lia|]); lzi_mod3; lzi_rr_pick.
  - (* three bytes unread *)
    subst nc. destruct Hbpe as [?|[?|?]]; subst bp; lzi_mod3;
    match type of Ep with _ = lzi_p3 ?y0 ?y1 ?y2 _ =>
        destruct (lzi_send_window3 y0 y1 y2 bit cs ltac:(assumption) ltac:(assumption) ltac:(assumption) Hbit Hcs) as [Wc Wm] end;
    subst p a av; (split; [exact Wc|]); rewrite Wm;
    destruct (N.ltb_spec (bit + cs) 16);
    (split; [split; [do 3 eexists; split; [reflexivity|]; repeat split; assumption | split; [reflexivity || lia | lia]]|]);
    (split; [lia|]); lzi_mod3; lzi_rr_pick.
Qed.
