(* C18 proofs, part 12: compareKeys orders PDFDocEncoded keys as the specification orders their texts.

   Specification (Struct/NNKeySpec.v, from ISO 32000-2 Annex D.2 and the helper's documentation): a key is its text, texts
   are compared code point by code point.  Model (Struct/NNKeys.v, from the C++): the UTF-8 values are compared byte by
   byte.  For every two strings without a byte order mark whose codes all have a character:
        nk_compare_names a b = ks_text_order (text a) (text b).
   Two ingredients, both decided over all bytes by computation and lifted to strings of any length by induction:
   the table qpdf decodes with is Annex D.2, and the UTF-8 forms of two characters of the table differ first at a
   byte that is smaller for the smaller code point (UTF-8 preserves the order of code points; neither form is a prefix
   of the other). *)
From QV Require Import Base.Bytes Gen.PdfDoc Json.JsonEmit Struct.NNTreeModel Struct.NNKeys Struct.NNKeySpec Struct.C18ProofsN.

(* a differs from b first at a position where its byte is smaller (both have that position) *)
Fixpoint nk_slt (a b : list N) : bool :=
  match a, b with
  | x :: a', y :: b' => if (x <? y)%N then true else if (x =? y)%N then nk_slt a' b' else false
  | _, _ => false
  end.
Fixpoint nk_leqb (a b : list N) : bool :=
  match a, b with
  | [], [] => true
  | x :: a', y :: b' => (x =? y)%N && nk_leqb a' b'
  | _, _ => false
  end.
Lemma nk_leqb_eq : forall a b, nk_leqb a b = true -> a = b.
Proof.
  induction a as [|x a IH]; intros [|y b] H; simpl in H; try discriminate; [reflexivity|].
  apply andb_prop in H. destruct H as [H1 H2]. apply N.eqb_eq in H1. subst. f_equal. apply IH. exact H2.
Qed.
Lemma nk_slt_app : forall p q r1 r2, nk_slt p q = true -> nn_scmp (p ++ r1) (q ++ r2) = Lt.
Proof.
  induction p as [|x p IH]; intros [|y q] r1 r2 H; simpl in H; try discriminate. simpl.
  destruct (N.ltb_spec x y) as [Hlt|Hge].
  - apply N.compare_lt_iff in Hlt. rewrite Hlt. reflexivity.
  - destruct (N.eqb_spec x y) as [->|Hne]; [|discriminate]. rewrite N.compare_refl. apply IH. exact H.
Qed.
Lemma nk_scmp_app_same : forall p r1 r2, nn_scmp (p ++ r1) (p ++ r2) = nn_scmp r1 r2.
Proof. induction p as [|x p IH]; intros r1 r2; simpl; [reflexivity|]. rewrite N.compare_refl. apply IH. Qed.

(* the UTF-8 form qpdf gives a PDFDoc code *)
Definition nk_pdfdoc_utf8 (b : N) : list N := jm_to_utf8 (jm_pdfdoc_to_unicode b).

Definition nk_char_ok (b : N) : bool :=
  match ks_pdfdoc_char b with
  | Some u => (jm_pdfdoc_to_unicode b =? u)%N && negb (nk_leqb (nk_pdfdoc_utf8 b) [])
  | None => true
  end.
Definition nk_pair_ok (x y : N) : bool :=
  match ks_pdfdoc_char x, ks_pdfdoc_char y with
  | Some u, Some v =>
      if (u <? v)%N then nk_slt (nk_pdfdoc_utf8 x) (nk_pdfdoc_utf8 y)
      else if (v <? u)%N then nk_slt (nk_pdfdoc_utf8 y) (nk_pdfdoc_utf8 x)
      else nk_leqb (nk_pdfdoc_utf8 x) (nk_pdfdoc_utf8 y)
  | _, _ => true
  end.

Lemma nk_char_sweep : forallb nk_char_ok all_bytes = true.
Proof. vm_compute. reflexivity. Qed.
Lemma nk_pair_sweep : forallb (fun x => forallb (nk_pair_ok x) all_bytes) all_bytes = true.
Proof. vm_compute. reflexivity. Qed.

Lemma nk_char_byte : forall b u, ks_pdfdoc_char b = Some u -> (b < 256)%N.
Proof.
  intros b u H. unfold ks_pdfdoc_char in H. destruct (N.leb_spec 256 b) as [Hge|Hlt]; [discriminate|exact Hlt].
Qed.
Lemma nk_char_ok_all : forall b u, ks_pdfdoc_char b = Some u ->
  jm_pdfdoc_to_unicode b = u /\ nk_pdfdoc_utf8 b <> [].
Proof.
  intros b u H. pose proof (byte_sweep nk_char_ok nk_char_sweep b (nk_char_byte b u H)) as Hok.
  unfold nk_char_ok in Hok. rewrite H in Hok. apply andb_prop in Hok. destruct Hok as [H1 H2].
  apply N.eqb_eq in H1. split; [exact H1|]. intros E. rewrite E in H2. discriminate.
Qed.
Lemma nk_pair_ok_all : forall x y u v, ks_pdfdoc_char x = Some u -> ks_pdfdoc_char y = Some v -> nk_pair_ok x y = true.
Proof.
  intros x y u v Hx Hy.
  pose proof (byte_sweep (fun x => forallb (nk_pair_ok x) all_bytes) nk_pair_sweep x (nk_char_byte x u Hx)) as H.
  cbv beta in H. exact (byte_sweep (nk_pair_ok x) H y (nk_char_byte y v Hy)).
Qed.

Lemma nk_pdfdoc_order : forall a b ta tb, ks_chars a = Some ta -> ks_chars b = Some tb ->
  nn_scmp (flat_map nk_pdfdoc_utf8 a) (flat_map nk_pdfdoc_utf8 b) = ks_text_order ta tb.
Proof.
  induction a as [|x a IH]; intros [|y b] ta tb Ha Hb; cbn [ks_chars] in Ha, Hb.
  - injection Ha as <-. injection Hb as <-. reflexivity.
  - injection Ha as <-. destruct (ks_pdfdoc_char y) as [v|] eqn:Ey; [|discriminate].
    destruct (ks_chars b) as [t|]; [|discriminate]. injection Hb as <-. cbn [flat_map ks_text_order].
    destruct (nk_char_ok_all y v Ey) as [_ Hne]. destruct (nk_pdfdoc_utf8 y); [congruence|reflexivity].
  - injection Hb as <-. destruct (ks_pdfdoc_char x) as [u|] eqn:Ex; [|discriminate].
    destruct (ks_chars a) as [t|]; [|discriminate]. injection Ha as <-. cbn [flat_map ks_text_order].
    destruct (nk_char_ok_all x u Ex) as [_ Hne]. destruct (nk_pdfdoc_utf8 x); [congruence|reflexivity].
  - destruct (ks_pdfdoc_char x) as [u|] eqn:Ex; [|discriminate]. destruct (ks_chars a) as [ta'|] eqn:Eta; [|discriminate].
    destruct (ks_pdfdoc_char y) as [v|] eqn:Ey; [|discriminate]. destruct (ks_chars b) as [tb'|] eqn:Etb; [|discriminate].
    injection Ha as <-. injection Hb as <-. cbn [flat_map ks_text_order].
    pose proof (nk_pair_ok_all x y u v Ex Ey) as Hp. unfold nk_pair_ok in Hp. rewrite Ex, Ey in Hp.
    destruct (u <? v)%N.
    + apply nk_slt_app. exact Hp.
    + destruct (v <? u)%N.
      * rewrite nk_scmp_sym. rewrite (nk_slt_app _ _ _ _ Hp). reflexivity.
      * apply nk_leqb_eq in Hp. rewrite Hp, nk_scmp_app_same. apply (IH b ta' tb'); [reflexivity|exact Etb].
Qed.

Lemma nk_chars_utf8 : forall a ta, ks_chars a = Some ta -> jm_pdf_doc_to_utf8 a = flat_map nk_pdfdoc_utf8 a.
Proof. intros a ta _. reflexivity. Qed.

Lemma nk_unmarked_value : forall a, ks_unmarked a = true -> nk_utf8_value a = jm_pdf_doc_to_utf8 a.
Proof.
  intros a H. unfold nk_utf8_value.
  destruct (jm_is_utf16 a) eqn:E16.
  - exfalso. destruct a as [|x [|y r]]; simpl in E16; try discriminate.
    apply orb_prop in E16. destruct E16 as [E|E]; apply andb_prop in E; destruct E as [E1 E2];
      apply N.eqb_eq in E1; apply N.eqb_eq in E2; subst; simpl in H; discriminate.
  - destruct (jm_is_explicit_utf8 a) eqn:E8; [|reflexivity].
    exfalso. destruct a as [|x [|y [|z r]]]; simpl in E8; try discriminate.
    apply andb_prop in E8. destruct E8 as [E12 E3]. apply andb_prop in E12. destruct E12 as [E1 E2].
    apply N.eqb_eq in E1. apply N.eqb_eq in E2. apply N.eqb_eq in E3. subst. simpl in H. discriminate.
Qed.

(* S1.  compareKeys = the specification's order of texts, for all PDFDocEncoded keys of any length: whenever both stored
   strings have a text per Annex D.2 (no byte order mark, no code without a character), the three-way result of
   NNTreeImpl::compareKeys is the comparison of the two texts code point by code point; in particular such keys are
   equal for qpdf iff they are the same text. *)
Lemma nk_compare_names_pdfdoc_text_order_lemma : forall (a b ta tb : list N),
  ks_pdfdoc_text a = Some ta -> ks_pdfdoc_text b = Some tb ->
  nk_compare_names a b = ks_text_order ta tb.
Proof.
  intros a b ta tb Ha Hb. unfold ks_pdfdoc_text in Ha, Hb.
  destruct (ks_unmarked a) eqn:Ua; [|discriminate]. destruct (ks_unmarked b) eqn:Ub; [|discriminate].
  unfold nk_compare_names. rewrite (nk_unmarked_value a Ua), (nk_unmarked_value b Ub).
  apply nk_pdfdoc_order; assumption.
Qed.

(* S2.  The text qpdf's getUTF8Value gives such a key is the UTF-8 form of its Annex D.2 text *)
Lemma nk_utf8_value_pdfdoc_text_lemma : forall (a ta : list N),
  ks_pdfdoc_text a = Some ta -> nk_utf8_value a = flat_map jm_to_utf8 ta.
Proof.
  intros a ta Ha. unfold ks_pdfdoc_text in Ha. destruct (ks_unmarked a) eqn:Ua; [|discriminate].
  rewrite (nk_unmarked_value a Ua). unfold jm_pdf_doc_to_utf8. clear Ua. revert ta Ha.
  induction a as [|x a IH]; intros ta Ha; cbn [ks_chars] in Ha.
  - injection Ha as <-. reflexivity.
  - destruct (ks_pdfdoc_char x) as [u|] eqn:Ex; [|discriminate]. destruct (ks_chars a) as [t|]; [|discriminate].
    injection Ha as <-. cbn [flat_map]. destruct (nk_char_ok_all x u Ex) as [-> _]. rewrite (IH t eq_refl). reflexivity.
Qed.
