(* C19 - when do two calls on the Config layer commute?  A generic argument over footprints: if each call's outcome depends only on the
   members it reads, changes only the members it writes, and the two footprints do not interfere (no member written by one is read or
   written by the other, except members to which both store the same constant), then applying them in either order gives the same
   configuration (or a usage error in both orders).  The footprints themselves are translated from QPDFJob_config.cc on every run
   (Gen/JobTables.v, config_footprints); `conflict` below is the decidable interference test evaluated on them. *)
From Coq Require Import String.
From Coq Require Import List NArith Bool.
From QV Require Import Sys.JobTypes.
Import ListNotations.
Open Scope N_scope.

Section Footprints.
  Variable field : Type.
  Variable value : Type.
  Variable field_eq_dec : forall a b : field, {a = b} + {a <> b}.

  Definition state := field -> value.

  (* an operation: None = usage error (nothing after it matters) *)
  Record op := mk_op {
    op_reads : list field;
    op_writes : list field;
    op_const : field -> option value;     (* members to which every successful run stores this constant *)
    op_run : state -> option state
  }.

  Definition agree_on (l : list field) (s s' : state) : Prop := forall f, In f l -> s f = s' f.

  (* the operation respects its footprint *)
  Record respects (o : op) : Prop := mk_respects {
    r_depends : forall s s', agree_on (op_reads o) s s' ->
                match op_run o s, op_run o s' with
                | Some t, Some t' => forall f, In f (op_writes o) -> t f = t' f
                | None, None => True
                | _, _ => False
                end;
    r_frame : forall s t f, op_run o s = Some t -> ~ In f (op_writes o) -> t f = s f;
    r_const : forall s t f c, op_run o s = Some t -> op_const o f = Some c -> t f = c
  }.

  (* no interference: a member written by one is neither read nor written by the other, unless both store the same constant there
     (and neither reads it) *)
  Definition independent (a b : op) : Prop :=
    (forall f, In f (op_writes a) -> ~ In f (op_reads b) /\
               (In f (op_writes b) -> exists c, op_const a f = Some c /\ op_const b f = Some c)) /\
    (forall f, In f (op_writes b) -> ~ In f (op_reads a)).

  Definition then_ (o : op) (s : option state) : option state := match s with Some x => op_run o x | None => None end.

  Definition same_outcome (x y : option state) : Prop :=
    match x, y with
    | Some t1, Some t2 => forall f, t1 f = t2 f
    | None, None => True
    | _, _ => False
    end.

  Lemma frame_agree : forall o l s t, respects o -> op_run o s = Some t -> (forall f, In f (op_writes o) -> ~ In f l) -> agree_on l s t.
  Proof.
    intros o l s t R H D f Hf. symmetry. apply (r_frame o R s t f H). intro Hw. exact (D f Hw Hf).
  Qed.

  Theorem independent_commute : forall a b, respects a -> respects b -> independent a b ->
    forall s, same_outcome (then_ a (op_run b s)) (then_ b (op_run a s)).
  Proof.
    intros a b Ra Rb [Iab Iba] s. unfold then_, same_outcome.
    destruct (op_run b s) as [sb|] eqn:Hb; destruct (op_run a s) as [sa|] eqn:Ha.
    - (* both succeed on s: each still succeeds after the other, and the results agree member by member *)
      assert (Aa : agree_on (op_reads a) s sb) by (apply (frame_agree b _ s sb Rb Hb); intros f Hw; exact (Iba f Hw)).
      assert (Ab : agree_on (op_reads b) s sa) by (apply (frame_agree a _ s sa Ra Ha); intros f Hw; exact (proj1 (Iab f Hw))).
      pose proof (r_depends a Ra s sb Aa) as Da. rewrite Ha in Da.
      pose proof (r_depends b Rb s sa Ab) as Db. rewrite Hb in Db.
      destruct (op_run a sb) as [t1|] eqn:H1; [|contradiction].
      destruct (op_run b sa) as [t2|] eqn:H2; [|contradiction].
      intros f.
      destruct (in_dec field_eq_dec f (op_writes a)) as [Wa|Wa]; destruct (in_dec field_eq_dec f (op_writes b)) as [Wb|Wb].
      + destruct (proj2 (Iab f Wa) Wb) as [c [Ca Cb]].
        rewrite (r_const a Ra sb t1 f c H1 Ca). rewrite (r_const b Rb sa t2 f c H2 Cb). reflexivity.
      + rewrite (r_frame b Rb sa t2 f H2 Wb). symmetry. apply Da. exact Wa.
      + rewrite (r_frame a Ra sb t1 f H1 Wa). apply Db. exact Wb.
      + rewrite (r_frame a Ra sb t1 f H1 Wa). rewrite (r_frame b Rb sa t2 f H2 Wb).
        rewrite (r_frame b Rb s sb f Hb Wb). rewrite (r_frame a Ra s sa f Ha Wa). reflexivity.
    - (* a fails on s: it also fails after b *)
      assert (Aa : agree_on (op_reads a) s sb) by (apply (frame_agree b _ s sb Rb Hb); intros f Hw; exact (Iba f Hw)).
      pose proof (r_depends a Ra s sb Aa) as Da. rewrite Ha in Da. destruct (op_run a sb); [contradiction|exact I].
    - (* b fails on s: it also fails after a *)
      assert (Ab : agree_on (op_reads b) s sa) by (apply (frame_agree a _ s sa Ra Ha); intros f Hw; exact (proj1 (Iab f Hw))).
      pose proof (r_depends b Rb s sa Ab) as Db. rewrite Hb in Db. destruct (op_run b sa); [contradiction|exact I].
    - exact I.
  Qed.
End Footprints.

(* ---- the decidable test on translated footprints: (obj, method, reads, writes with constant tag) ; tag 0 = not a constant.
   "*" as a read or a write stands for every member (Config::jobJsonFile runs a whole job file) *)
Definition footprint := (bstr * bstr * list bstr * list (bstr * N))%type.
Definition fp_reads (p : footprint) : list bstr := match p with (_, _, r, _) => r end.
Definition fp_writes (p : footprint) : list (bstr * N) := match p with (_, _, _, w) => w end.
Definition fp_name (p : footprint) : bstr * bstr := match p with (o, m, _, _) => (o, m) end.

Definition STAR : bstr := B"*".
Definition reads_f (p : footprint) (f : bstr) : bool := bmem f (fp_reads p) || bmem STAR (fp_reads p).
Definition write_tag (p : footprint) (f : bstr) : option N :=
  match find (fun w => bstr_eqb (fst w) f || bstr_eqb (fst w) STAR) (fp_writes p) with Some w => Some (snd w) | None => None end.

(* a writes something b reads, or both write a member and do not store the same constant *)
Definition interferes_one (a b : footprint) : bool :=
  existsb (fun w => reads_f b (fst w) ||
                    match write_tag b (fst w) with
                    | Some t => (snd w =? 0) || negb (snd w =? t)
                    | None => false
                    end ||
                    (bstr_eqb (fst w) STAR && negb (match fp_writes b, fp_reads b with [], [] => true | _, _ => false end)))
          (fp_writes a).
Definition conflict (a b : footprint) : bool := interferes_one a b || interferes_one b a.

Definition name_eqb (x y : bstr * bstr) : bool := bstr_eqb (fst x) (fst y) && bstr_eqb (snd x) (snd y).

(* all unordered pairs of distinct methods that may fail to commute, found mechanically *)
Fixpoint conflicting_pairs (l : list footprint) : list ((bstr * bstr) * (bstr * bstr)) :=
  match l with
  | [] => []
  | a :: r => map (fun b => (fp_name a, fp_name b)) (filter (conflict a) r) ++ conflicting_pairs r
  end.

Definition pair_listed (l : list ((bstr * bstr) * (bstr * bstr))) (x y : bstr * bstr) : bool :=
  existsb (fun p => (name_eqb (fst p) x && name_eqb (snd p) y) || (name_eqb (fst p) y && name_eqb (snd p) x)) l.
