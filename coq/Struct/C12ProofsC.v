(* C12 (extension) - proofs, part C: pushInheritedAttributesToPageInternal on a tree of any depth and shape
   preserves the effective attributes (ISO 32000-1 7.7.3.4) of every page, leaves no inheritable attribute on a
   /Pages node, and leaves key_ancestors as it found it (the library's assertion never fires). *)
From QV Require Import Base.Bytes Struct.PageOps Struct.PageAttr Struct.PageAttrSpec Struct.C12ProofsB.
From Coq Require Import List ZArith NArith Bool Lia.
Import ListNotations.
Local Open Scope N_scope.

(* ---------------------------------------------------------------- freshness of object ids *)
Definition pa_val_lt (n : N) (v : pa_val) : Prop := match v with PaI i => i < n | PaD _ => True end.
Definition pa_dict_lt (n : N) (d : pa_dict) : Prop := forall k v, pa_get d k = Some v -> pa_val_lt n v.

Fixpoint pa_tree_dicts (t : pa_tree) : list pa_dict :=
  match t with
  | PaPage _ _ d => [d]
  | PaNode _ _ _ d kids => d :: flat_map pa_tree_dicts kids
  end.
(* every indirect reference in the tree is below n (n = the next object id of the document) *)
Definition pa_tree_lt (n : N) (t : pa_tree) : Prop := Forall (pa_dict_lt n) (pa_tree_dicts t).
Definition pa_stk_lt (n : N) (s : pa_stk) : Prop := forall k v, In v (pa_qget s k) -> pa_val_lt n v.
Definition pa_stk_nn (st : pa_store) (s : pa_stk) : Prop := forall k v, In v (pa_qget s k) -> pa_den st v <> PaoNull.
Definition pa_st_ext (n : N) (st st' : pa_store) : Prop := forall i, i < n -> pa_lookup st' i = pa_lookup st i.

Definition pa_tops (st : pa_store) (s : pa_stk) : pas_attrs :=
  pa_qinit (fun k => match pa_qget s k with v :: _ => pa_den st v | [] => PaoNull end).

(* no /Pages node of t holds a (non-null) inheritable attribute *)
Fixpoint pa_node_dicts (t : pa_tree) : list pa_dict :=
  match t with
  | PaPage _ _ _ => []
  | PaNode _ _ _ d kids => d :: flat_map pa_node_dicts kids
  end.
Definition pa_clean (st : pa_store) (t : pa_tree) : Prop :=
  Forall (fun d => forall k, pa_getden st d k = PaoNull) (pa_node_dicts t).

Lemma pa_tree_lt_node : forall n i p c d kids,
  pa_tree_lt n (PaNode i p c d kids) <-> pa_dict_lt n d /\ Forall (pa_tree_lt n) kids.
Proof.
  intros. unfold pa_tree_lt. cbn [pa_tree_dicts]. split.
  - intros H. inversion H; subst. split; [assumption|]. apply Forall_forall. intros k Hk.
    apply Forall_forall. intros x Hx. rewrite Forall_forall in H3. apply H3. apply in_flat_map. eauto.
  - intros [H1 H2]. constructor; [assumption|]. apply Forall_forall. intros x Hx.
    apply in_flat_map in Hx as [k [Hk Hx]]. rewrite Forall_forall in H2. specialize (H2 k Hk).
    unfold pa_tree_lt in H2. rewrite Forall_forall in H2. auto.
Qed.

Lemma pa_clean_node : forall st i p c d kids,
  pa_clean st (PaNode i p c d kids) <-> (forall k, pa_getden st d k = PaoNull) /\ Forall (pa_clean st) kids.
Proof.
  intros. unfold pa_clean. cbn [pa_node_dicts]. split.
  - intros H. inversion H; subst. split; [assumption|]. apply Forall_forall. intros k Hk.
    apply Forall_forall. intros x Hx. rewrite Forall_forall in H3. apply H3. apply in_flat_map. eauto.
  - intros [H1 H2]. constructor; [assumption|]. apply Forall_forall. intros x Hx.
    apply in_flat_map in Hx as [k [Hk Hx]]. rewrite Forall_forall in H2. specialize (H2 k Hk).
    rewrite Forall_forall in H2. auto.
Qed.

Lemma pa_val_lt_mono : forall n n' v, n <= n' -> pa_val_lt n v -> pa_val_lt n' v.
Proof. intros n n' [o|i] H; cbn; [auto | lia]. Qed.
Lemma pa_dict_lt_mono : forall n n' d, n <= n' -> pa_dict_lt n d -> pa_dict_lt n' d.
Proof. unfold pa_dict_lt. intros. eapply pa_val_lt_mono; eauto. Qed.
Lemma pa_tree_lt_mono : forall n n' t, n <= n' -> pa_tree_lt n t -> pa_tree_lt n' t.
Proof. unfold pa_tree_lt. intros. eapply Forall_impl; [|eassumption]. intros. eapply pa_dict_lt_mono; eauto. Qed.
Lemma pa_stk_lt_mono : forall n n' s, n <= n' -> pa_stk_lt n s -> pa_stk_lt n' s.
Proof. unfold pa_stk_lt. intros. eapply pa_val_lt_mono; eauto. Qed.
Lemma pa_st_ext_refl : forall n st, pa_st_ext n st st.
Proof. unfold pa_st_ext. reflexivity. Qed.
Lemma pa_st_ext_trans : forall n n' a b c, n <= n' -> pa_st_ext n a b -> pa_st_ext n' b c -> pa_st_ext n a c.
Proof. unfold pa_st_ext. intros n n' a b c Hle H1 H2 i Hi. rewrite H2 by lia. apply H1. exact Hi. Qed.
Lemma pa_st_ext_weaken : forall n n' a b, n <= n' -> pa_st_ext n' a b -> pa_st_ext n a b.
Proof. unfold pa_st_ext. intros. apply H0. lia. Qed.

Lemma pa_den_ext : forall n st st' v, pa_val_lt n v -> pa_st_ext n st st' -> pa_den st' v = pa_den st v.
Proof. intros n st st' [o|i] Hv He; cbn in *; [reflexivity | apply He; exact Hv]. Qed.
Lemma pa_getden_ext : forall n st st' d k, pa_dict_lt n d -> pa_st_ext n st st' -> pa_getden st' d k = pa_getden st d k.
Proof.
  intros n st st' d k Hd He. unfold pa_getden. destruct (pa_get d k) as [v|] eqn:E; [|reflexivity].
  eapply pa_den_ext; eauto.
Qed.
Lemma pas_over_ext : forall n st st' inh d, pa_dict_lt n d -> pa_st_ext n st st' -> pas_over st' inh d = pas_over st inh d.
Proof.
  intros. apply pa_quad_ext. intros k. rewrite !pas_over_get. erewrite pa_getden_ext by eassumption. reflexivity.
Qed.
Lemma pas_eff_ext : forall n st st', pa_st_ext n st st' -> forall t inh, pa_tree_lt n t -> pas_eff st' inh t = pas_eff st inh t.
Proof.
  intros n st st' He t. induction t as [i p d | i p c d kids IH] using pa_tree_ind2; intros inh Hlt.
  - cbn. unfold pa_tree_lt in Hlt. cbn in Hlt. inversion Hlt; subst. erewrite pas_over_ext by eassumption. reflexivity.
  - apply pa_tree_lt_node in Hlt as [Hd Hk]. cbn [pas_eff]. erewrite pas_over_ext by eassumption.
    generalize (pas_over st inh d). intros inh2.
    induction IH as [|k l Hk1 Hl IHl]; cbn; [reflexivity|]. inversion Hk; subst.
    rewrite Hk1 by assumption. rewrite IHl by assumption. reflexivity.
Qed.
Lemma pa_clean_ext : forall n st st' t, pa_st_ext n st st' -> pa_tree_lt n t -> pa_clean st t -> pa_clean st' t.
Proof.
  intros n st st' t He. induction t as [i p d | i p c d kids IH] using pa_tree_ind2; intros Hlt Hc.
  - constructor.
  - apply pa_tree_lt_node in Hlt as [Hd Hk]. apply pa_clean_node in Hc as [Hc1 Hc2]. apply pa_clean_node. split.
    + intros k. erewrite pa_getden_ext by eassumption. apply Hc1.
    + clear Hd Hc1. induction IH; constructor; inversion Hk; inversion Hc2; subst; auto.
Qed.
Lemma pa_tops_ext : forall n st st' s, pa_stk_lt n s -> pa_st_ext n st st' -> pa_tops st' s = pa_tops st s.
Proof.
  intros n st st' s Hs He. apply pa_quad_ext. intros k. unfold pa_tops. rewrite !pa_qget_qinit.
  destruct (pa_qget s k) as [|v l] eqn:E; [reflexivity|]. eapply pa_den_ext; [|eassumption]. apply (Hs k). rewrite E. left. reflexivity.
Qed.
Lemma pa_stk_nn_ext : forall n st st' s, pa_stk_lt n s -> pa_st_ext n st st' -> pa_stk_nn st s -> pa_stk_nn st' s.
Proof. unfold pa_stk_nn. intros n st st' s Hs He Hn k v Hin. erewrite pa_den_ext; eauto. Qed.

(* ---------------------------------------------------------------- a page: fill *)
Lemma pa_get_set_same : forall d k v, pa_get (pa_set d k v) k = Some v.
Proof. intros. unfold pa_get, pa_set. cbn. apply pa_qget_qset_same. Qed.
Lemma pa_get_set_other : forall d k k' v, k <> k' -> pa_get (pa_set d k v) k' = pa_get d k'.
Proof. intros. unfold pa_get, pa_set. cbn. apply pa_qget_qset_other. assumption. Qed.
Lemma pa_get_erase_same : forall d k, pa_get (pa_erase d k) k = None.
Proof. intros. unfold pa_get, pa_erase. cbn. apply pa_qget_qset_same. Qed.
Lemma pa_get_erase_other : forall d k k', k <> k' -> pa_get (pa_erase d k) k' = pa_get d k'.
Proof. intros. unfold pa_get, pa_erase. cbn. apply pa_qget_qset_other. assumption. Qed.

Definition pa_filled_slot (st : pa_store) (s : pa_stk) (d : pa_dict) (k : pa_ik) : option pa_val :=
  match pa_qget s k with
  | [] => pa_get d k
  | v :: _ => if pa_contains st d k then pa_get d k else Some v
  end.

Lemma pa_contains_slot : forall st d d' k, pa_get d' k = pa_get d k -> pa_contains st d' k = pa_contains st d k.
Proof. intros. unfold pa_contains, pa_getden. rewrite H. reflexivity. Qed.

Lemma pa_fill_fold_get : forall st s l d k, NoDup l ->
  pa_get (fold_left (pa_fill_key st s) l d) k = if in_dec pa_ik_eq_dec k l then pa_filled_slot st s d k else pa_get d k.
Proof.
  intros st s l. induction l as [|k0 l IH]; intros d k Hnd; cbn [fold_left]; [reflexivity|].
  inversion Hnd as [|? ? Hnotin Hnd']; subst. rewrite IH by assumption.
  assert (Hother : forall k', k0 <> k' -> pa_get (pa_fill_key st s d k0) k' = pa_get d k').
  { intros k' Hk'. unfold pa_fill_key. destruct (pa_qget s k0); [reflexivity|]. destruct (pa_contains st d k0); [reflexivity|].
    apply pa_get_set_other. assumption. }
  destruct (in_dec pa_ik_eq_dec k l) as [Hin|Hnin]; destruct (in_dec pa_ik_eq_dec k (k0 :: l)) as [Hin2|Hnin2].
  - assert (k0 <> k) by (intros ->; contradiction).
    unfold pa_filled_slot. rewrite (pa_contains_slot st d (pa_fill_key st s d k0) k) by (apply Hother; assumption).
    rewrite Hother by assumption. reflexivity.
  - exfalso. apply Hnin2. right. assumption.
  - destruct Hin2 as [->|]; [|contradiction].
    unfold pa_filled_slot, pa_fill_key. destruct (pa_qget s k) as [|v vs]; [reflexivity|].
    destruct (pa_contains st d k); [reflexivity|]. apply pa_get_set_same.
  - apply Hother. intros ->. apply Hnin2. left. reflexivity.
Qed.

Lemma pa_fill_get : forall st s d k, pa_get (pa_fill st s d) k = pa_filled_slot st s d k.
Proof.
  intros. unfold pa_fill. rewrite pa_fill_fold_get.
  - destruct (in_dec pa_ik_eq_dec k pa_iks) as [|Hn]; [reflexivity|]. exfalso. apply Hn. unfold pa_iks. destruct k; cbn; tauto.
  - unfold pa_iks. repeat constructor; cbn; intuition discriminate.
Qed.

Lemma pa_fill_oth : forall st s d, pa_oth (pa_fill st s d) = pa_oth d.
Proof.
  intros. unfold pa_fill. generalize pa_iks. intros l. revert d. induction l as [|k l IH]; intros d; cbn; [reflexivity|].
  rewrite IH. unfold pa_fill_key. destruct (pa_qget s k); [reflexivity|]. destruct (pa_contains st d k); reflexivity.
Qed.

Lemma pa_fill_eff : forall st s d inh',
  pa_stk_nn st s -> (forall k, pa_qget s k = [] -> pa_qget inh' k = PaoNull) ->
  pas_over st inh' (pa_fill st s d) = pas_over st (pa_tops st s) d.
Proof.
  intros st s d inh' Hnn Hinh. apply pa_quad_ext. intros k. rewrite !pas_over_get.
  unfold pa_getden at 1. rewrite pa_fill_get. unfold pa_filled_slot, pa_tops. rewrite pa_qget_qinit.
  destruct (pa_qget s k) as [|v vs] eqn:Es.
  - fold (pa_getden st d k). rewrite (Hinh k Es). reflexivity.
  - unfold pa_contains. destruct (pa_getden st d k) eqn:Eg; cbn [pa_is_null negb].
    + assert (pa_den st v <> PaoNull) by (apply (Hnn k); rewrite Es; left; reflexivity).
      destruct (pa_den st v); congruence.
    + fold (pa_getden st d k). rewrite Eg. reflexivity.
    + fold (pa_getden st d k). rewrite Eg. reflexivity.
Qed.

Lemma pa_fill_lt : forall n st s d, pa_dict_lt n d -> pa_stk_lt n s -> pa_dict_lt n (pa_fill st s d).
Proof.
  intros n st s d Hd Hs k v Hg. rewrite pa_fill_get in Hg. unfold pa_filled_slot in Hg.
  destruct (pa_qget s k) as [|v0 vs] eqn:Es; [eapply Hd; eassumption|].
  destruct (pa_contains st d k); [eapply Hd; eassumption|]. injection Hg as <-. apply (Hs k). rewrite Es. left. reflexivity.
Qed.

(* ---------------------------------------------------------------- a node: the loop over its keys *)
Section PushKeys.
  Variables (d0 : pa_dict) (stk0 : pa_stk) (ps0 : pa_pst).
  Hypothesis Hd0 : pa_dict_lt (pa_pnext ps0) d0.
  Hypothesis Hs0 : pa_stk_lt (pa_pnext ps0) stk0.

  Definition pa_key_inv (D : pa_ik -> Prop) (acc : pa_dict * pa_stk * pa_pst * list pa_ik) : Prop :=
    let '(d, stk, ps, pushed) := acc in
    pa_pnext ps0 <= pa_pnext ps /\
    pa_st_ext (pa_pnext ps0) (pa_pstore ps0) (pa_pstore ps) /\
    pa_pwarn ps = pa_pwarn ps0 /\
    pa_oth d = pa_oth d0 /\
    pa_dict_lt (pa_pnext ps) d /\ pa_stk_lt (pa_pnext ps) stk /\ NoDup pushed /\
    (forall k, ~ D k -> pa_get d k = pa_get d0 k /\ pa_qget stk k = pa_qget stk0 k /\ ~ In k pushed) /\
    (forall k, D k ->
       pa_getden (pa_pstore ps) d k = PaoNull /\
       ((pa_getden (pa_pstore ps0) d0 k = PaoNull /\ pa_qget stk k = pa_qget stk0 k /\ ~ In k pushed) \/
        (exists v', pa_qget stk k = v' :: pa_qget stk0 k /\ pa_den (pa_pstore ps) v' = pa_getden (pa_pstore ps0) d0 k /\
                    pa_getden (pa_pstore ps0) d0 k <> PaoNull /\ In k pushed))).

  Lemma pa_key_inv_init : pa_key_inv (fun _ => False) (d0, stk0, ps0, []).
  Proof.
    cbn. split; [lia|]. split; [apply pa_st_ext_refl|]. split; [reflexivity|]. split; [reflexivity|].
    split; [assumption|]. split; [assumption|]. split; [constructor|]. split; [|intros k []].
    intros k _. split; [reflexivity|]. split; [reflexivity|]. intros [].
  Qed.

  Lemma pa_lookup_new : forall st n o, pa_lookup ((n, o) :: st) n = o.
  Proof. intros. cbn. rewrite N.eqb_refl. reflexivity. Qed.
  Lemma pa_st_ext_cons : forall st n o, pa_st_ext n st ((n, o) :: st).
  Proof. intros st n o i Hi. cbn. destruct (N.eqb_spec n i); [lia | reflexivity]. Qed.

  Lemma pa_key_inv_step : forall D acc k0, pa_key_inv D acc -> ~ D k0 ->
    pa_key_inv (fun k => D k \/ k = k0) (pa_push_key k0 acc).
  Proof.
    intros D [[[d stk] ps] pushed] k0 Hinv Hk0. cbn [pa_key_inv] in Hinv.
    destruct Hinv as (Hle & Hext & Hw & Hoth & Hdlt & Hslt & Hnd & Hrest & Hdone).
    destruct (Hrest k0 Hk0) as (Hg0 & Hq0 & Hnp0).
    assert (Hden0 : forall v, pa_get d0 k0 = Some v -> pa_den (pa_pstore ps) v = pa_den (pa_pstore ps0) v).
    { intros v Hv. eapply pa_den_ext; [|eassumption]. eapply Hd0. eassumption. }
    (* the cases in which nothing is pushed *)
    assert (Hskip : pa_getden (pa_pstore ps0) d0 k0 = PaoNull -> pa_getden (pa_pstore ps) d k0 = PaoNull ->
                    pa_key_inv (fun k => D k \/ k = k0) (d, stk, ps, pushed)).
    { intros Hn0 Hn. cbn [pa_key_inv]. repeat (split; [assumption|]). split.
      - intros k Hk. apply Hrest. tauto.
      - intros k [Hk | ->]; [apply Hdone; assumption|]. split; [assumption|]. left. auto. }
    unfold pa_push_key. destruct (pa_get d k0) as [v|] eqn:Ev.
    2:{ apply Hskip; unfold pa_getden; [rewrite <- Hg0 | rewrite Ev]; reflexivity. }
    assert (Ev0 : pa_get d0 k0 = Some v) by congruence.
    destruct (pa_is_null (pa_den (pa_pstore ps) v)) eqn:Enull.
    { assert (pa_den (pa_pstore ps) v = PaoNull) by (destruct (pa_den (pa_pstore ps) v); [reflexivity | discriminate | discriminate]).
      apply Hskip; unfold pa_getden; [rewrite Ev0, <- (Hden0 v Ev0) | rewrite Ev]; assumption. }
    assert (Hnn : pa_den (pa_pstore ps) v <> PaoNull) by (intros E; rewrite E in Enull; discriminate).
    assert (Hvlt : pa_val_lt (pa_pnext ps) v) by (eapply Hdlt; eassumption).
    (* what is pushed: v itself, or a new indirect object holding it *)
    assert (Hpush : forall v' ps',
      pa_pnext ps <= pa_pnext ps' -> pa_st_ext (pa_pnext ps) (pa_pstore ps) (pa_pstore ps') -> pa_pwarn ps' = pa_pwarn ps ->
      pa_val_lt (pa_pnext ps') v' -> pa_den (pa_pstore ps') v' = pa_den (pa_pstore ps) v ->
      pa_key_inv (fun k => D k \/ k = k0) (pa_erase d k0, pa_qset stk k0 (v' :: pa_qget stk k0), ps', k0 :: pushed)).
    { intros v' ps' Hle' Hext' Hw' Hv'lt Hv'den. cbn [pa_key_inv].
      split; [lia|]. split; [eapply pa_st_ext_trans; [exact Hle | exact Hext | exact Hext']|].
      split; [congruence|]. split; [exact Hoth|].
      split.
      { intros k w Hg. destruct (pa_ik_eq_dec k0 k) as [<-|Hne].
        - rewrite pa_get_erase_same in Hg. discriminate.
        - rewrite pa_get_erase_other in Hg by assumption. eapply pa_val_lt_mono; [exact Hle'|]. eapply Hdlt; eassumption. }
      split.
      { intros k w Hin. destruct (pa_ik_eq_dec k0 k) as [<-|Hne].
        - rewrite pa_qget_qset_same in Hin. destruct Hin as [<-|Hin]; [assumption|].
          eapply pa_val_lt_mono; [exact Hle'|]. eapply Hslt; eassumption.
        - rewrite pa_qget_qset_other in Hin by assumption. eapply pa_val_lt_mono; [exact Hle'|]. eapply Hslt; eassumption. }
      split; [constructor; assumption|].
      split.
      { intros k Hk. assert (Hne : k0 <> k) by (intros ->; apply Hk; right; reflexivity).
        destruct (Hrest k) as (A & B & C); [tauto|].
        rewrite pa_get_erase_other, pa_qget_qset_other by assumption. split; [assumption|]. split; [assumption|].
        intros [E|E]; [congruence | contradiction]. }
      intros k [Hk | ->].
      - assert (Hne : k0 <> k) by (intros ->; contradiction).
        destruct (Hdone k Hk) as (A & B).
        split.
        { unfold pa_getden. rewrite pa_get_erase_other by assumption. fold (pa_getden (pa_pstore ps') d k).
          erewrite pa_getden_ext; [exact A | exact Hdlt | exact Hext']. }
        rewrite pa_qget_qset_other by assumption.
        destruct B as [(B1 & B2 & B3) | (w & B1 & B2 & B3 & B4)].
        + left. split; [assumption|]. split; [assumption|]. intros [E|E]; [congruence | contradiction].
        + right. exists w. split; [assumption|]. split; [|split; [assumption | right; assumption]].
          rewrite <- B2. eapply pa_den_ext; [|exact Hext']. apply (Hslt k). rewrite B1. left. reflexivity.
      - split; [unfold pa_getden; rewrite pa_get_erase_same; reflexivity|].
        right. exists v'. rewrite pa_qget_qset_same. split; [rewrite Hq0; reflexivity|].
        assert (Hd0k : pa_getden (pa_pstore ps0) d0 k0 = pa_den (pa_pstore ps) v).
        { unfold pa_getden. rewrite Ev0. symmetry. apply Hden0. assumption. }
        split; [congruence|]. split; [congruence | left; reflexivity]. }
    destruct v as [o|i].
    - destruct (pa_is_scalar o) eqn:Esc.
      + apply Hpush; [lia | apply pa_st_ext_refl | reflexivity | exact I | reflexivity].
      + apply Hpush; cbn [pa_pnext pa_pstore pa_pwarn pa_val_lt pa_den].
        * lia.
        * apply pa_st_ext_cons.
        * reflexivity.
        * lia.
        * apply pa_lookup_new.
    - apply Hpush; [lia | apply pa_st_ext_refl | reflexivity | exact Hvlt | reflexivity].
  Qed.

  Lemma pa_key_inv_equiv : forall (D D' : pa_ik -> Prop) acc, (forall k, D k <-> D' k) -> pa_key_inv D acc -> pa_key_inv D' acc.
  Proof.
    intros D D' [[[d stk] ps] pushed] HD H. cbn [pa_key_inv] in *.
    destruct H as (A & B & C & E & F & G & H & I & J). repeat (split; [assumption|]). split.
    - intros k Hk. apply I. rewrite HD. assumption.
    - intros k Hk. apply J. rewrite HD. assumption.
  Qed.

  Lemma pa_key_inv_all :
    pa_key_inv (fun _ => True) (fold_left (fun a k => pa_push_key k a) pa_iks (d0, stk0, ps0, [])).
  Proof.
    unfold pa_iks. cbn [fold_left].
    eapply pa_key_inv_equiv; [|apply pa_key_inv_step; [apply pa_key_inv_step; [apply pa_key_inv_step; [apply pa_key_inv_step; [apply pa_key_inv_init|]|]|]|]].
    - intros k. split; [tauto|]. intros _.
      destruct k; [left; left; left; right | left; left; right | left; right | right]; reflexivity.
    - tauto.
    - intros [[]|E]; discriminate.
    - intros [[[]|E]|E]; discriminate.
    - intros [[[[]|E]|E]|E]; discriminate.
  Qed.
End PushKeys.

Lemma pa_pop_get : forall pushed s k, NoDup pushed ->
  pa_qget (pa_pop s pushed) k = if in_dec pa_ik_eq_dec k pushed then tl (pa_qget s k) else pa_qget s k.
Proof.
  unfold pa_pop. induction pushed as [|k0 l IH]; intros s k Hnd; cbn [fold_left]; [reflexivity|].
  inversion Hnd as [|? ? Hnotin Hnd']; subst. rewrite IH by assumption.
  destruct (in_dec pa_ik_eq_dec k l) as [Hin|Hnin]; destruct (in_dec pa_ik_eq_dec k (k0 :: l)) as [Hin2|Hnin2].
  - assert (k0 <> k) by (intros ->; contradiction). rewrite pa_qget_qset_other by assumption. reflexivity.
  - exfalso. apply Hnin2. right. assumption.
  - destruct Hin2 as [->|]; [|contradiction]. apply pa_qget_qset_same.
  - rewrite pa_qget_qset_other; [reflexivity|]. intros ->. apply Hnin2. left. reflexivity.
Qed.

(* ---------------------------------------------------------------- the walk *)
Fixpoint pa_push_list (warn : bool) (l : list pa_tree) (s : pa_stk) (q : pa_pst) {struct l} : list pa_tree * pa_stk * pa_pst :=
  match l with
  | [] => ([], s, q)
  | kid :: l' =>
      let '(kid', s1, q1) := pa_push_tree warn kid s q in
      let '(l'', s2, q2) := pa_push_list warn l' s1 q1 in
      (kid' :: l'', s2, q2)
  end.

Lemma pa_push_tree_node : forall warn i p c d kids stk ps,
  pa_push_tree warn (PaNode i p c d kids) stk ps =
  let '(d1, stk1, ps1, pushed) := fold_left (fun a k => pa_push_key k a) pa_iks (d, stk, ps, []) in
  let ps2 := pa_add_warn warn i p d ps1 in
  let '(kids', stk2, ps3) := pa_push_list warn kids stk1 ps2 in
  (PaNode i p c d1 kids', pa_pop stk2 pushed, ps3).
Proof.
  intros. cbn [pa_push_tree].
  destruct (fold_left (fun a k => pa_push_key k a) pa_iks (d, stk, ps, [])) as [[[d1 stk1] ps1] pushed].
  cbn zeta.
  assert (E : forall l s q,
    (fix go (l : list pa_tree) (s : pa_stk) (q : pa_pst) {struct l} : list pa_tree * pa_stk * pa_pst :=
       match l with
       | [] => ([], s, q)
       | kid :: l' =>
           let '(kid', s1, q1) := pa_push_tree warn kid s q in
           let '(l'', s2, q2) := go l' s1 q1 in (kid' :: l'', s2, q2)
       end) l s q = pa_push_list warn l s q).
  { induction l as [|k l IH]; intros s q; cbn; [reflexivity|].
    destruct (pa_push_tree warn k s q) as [[k' s1] q1]. rewrite IH. reflexivity. }
  rewrite E. reflexivity.
Qed.

Lemma pa_add_warn_same : forall warn i p d ps,
  pa_pnext (pa_add_warn warn i p d ps) = pa_pnext ps /\ pa_pstore (pa_add_warn warn i p d ps) = pa_pstore ps.
Proof. intros. unfold pa_add_warn. destruct p; [destruct warn|]; cbn; auto. Qed.

Definition pa_push_ok (warn : bool) (t : pa_tree) : Prop :=
  forall stk ps t' stk' ps',
    pa_push_tree warn t stk ps = (t', stk', ps') ->
    pa_tree_lt (pa_pnext ps) t -> pa_stk_lt (pa_pnext ps) stk -> pa_stk_nn (pa_pstore ps) stk ->
    stk' = stk /\ pa_pnext ps <= pa_pnext ps' /\ pa_st_ext (pa_pnext ps) (pa_pstore ps) (pa_pstore ps') /\
    pa_tree_lt (pa_pnext ps') t' /\ pa_clean (pa_pstore ps') t' /\
    (forall inh', (forall k, pa_qget stk k = [] -> pa_qget inh' k = PaoNull) ->
       pas_eff (pa_pstore ps') inh' t' = pas_eff (pa_pstore ps) (pa_tops (pa_pstore ps) stk) t).

Lemma pa_push_list_ok : forall warn l, Forall (pa_push_ok warn) l ->
  forall s q l' s' q',
    pa_push_list warn l s q = (l', s', q') ->
    Forall (pa_tree_lt (pa_pnext q)) l -> pa_stk_lt (pa_pnext q) s -> pa_stk_nn (pa_pstore q) s ->
    s' = s /\ pa_pnext q <= pa_pnext q' /\ pa_st_ext (pa_pnext q) (pa_pstore q) (pa_pstore q') /\
    Forall (pa_tree_lt (pa_pnext q')) l' /\ Forall (pa_clean (pa_pstore q')) l' /\
    (forall inh', (forall k, pa_qget s k = [] -> pa_qget inh' k = PaoNull) ->
       flat_map (pas_eff (pa_pstore q') inh') l' = flat_map (pas_eff (pa_pstore q) (pa_tops (pa_pstore q) s)) l).
Proof.
  intros warn l H. induction H as [|k l Hk Hl IH]; intros s q l' s' q' Hrun Hlt Hslt Hnn.
  - cbn in Hrun. injection Hrun as <- <- <-. split; [reflexivity|]. split; [lia|]. split; [apply pa_st_ext_refl|].
    split; [constructor|]. split; [constructor|]. reflexivity.
  - cbn [pa_push_list] in Hrun.
    destruct (pa_push_tree warn k s q) as [[k' s1] q1] eqn:Ek.
    destruct (pa_push_list warn l s1 q1) as [[l'' s2] q2] eqn:El.
    injection Hrun as <- <- <-.
    inversion Hlt as [|? ? Hltk Hltl]; subst.
    destruct (Hk s q k' s1 q1 Ek Hltk Hslt Hnn) as (-> & Hle1 & Hext1 & Hlt1 & Hcl1 & Heff1).
    assert (Hslt1 : pa_stk_lt (pa_pnext q1) s) by (eapply pa_stk_lt_mono; eassumption).
    assert (Hnn1 : pa_stk_nn (pa_pstore q1) s) by (eapply pa_stk_nn_ext; [exact Hslt | exact Hext1 | exact Hnn]).
    assert (Hltl1 : Forall (pa_tree_lt (pa_pnext q1)) l).
    { eapply Forall_impl; [|exact Hltl]. intros. eapply pa_tree_lt_mono; eassumption. }
    destruct (IH s q1 l'' s2 q2 El Hltl1 Hslt1 Hnn1) as (-> & Hle2 & Hext2 & Hlt2 & Hcl2 & Heff2).
    split; [reflexivity|]. split; [lia|].
    split; [eapply pa_st_ext_trans; [exact Hle1 | exact Hext1 | exact Hext2]|].
    split; [constructor; [eapply pa_tree_lt_mono; eassumption | assumption]|].
    split; [constructor; [eapply pa_clean_ext; eassumption | assumption]|].
    intros inh' Hinh. cbn [flat_map].
    rewrite (pas_eff_ext _ _ _ Hext2 k' inh' Hlt1). rewrite (Heff1 inh' Hinh). rewrite (Heff2 inh' Hinh).
    f_equal. rewrite (pa_tops_ext _ _ _ s Hslt Hext1).
    clear - Hext1 Hltl. induction Hltl as [|x l Hx Hl IHl]; cbn; [reflexivity|].
    rewrite (pas_eff_ext _ _ _ Hext1 x _ Hx). rewrite IHl. reflexivity.
Qed.

Lemma pa_push_tree_ok : forall warn t, pa_push_ok warn t.
Proof.
  intros warn t. induction t as [i p d | i p c d kids IH] using pa_tree_ind2;
    intros stk ps t' stk' ps' Hrun Hlt Hslt Hnn.
  - cbn [pa_push_tree] in Hrun. injection Hrun as <- <- <-.
    unfold pa_tree_lt in Hlt. cbn in Hlt. inversion Hlt as [|? ? Hd _]; subst.
    split; [reflexivity|]. split; [lia|]. split; [apply pa_st_ext_refl|].
    split; [unfold pa_tree_lt; cbn; constructor; [apply pa_fill_lt; assumption | constructor]|].
    split; [constructor|].
    intros inh' Hinh. cbn [pas_eff]. rewrite pa_fill_eff by assumption. reflexivity.
  - rewrite pa_push_tree_node in Hrun.
    apply pa_tree_lt_node in Hlt as [Hd Hkids].
    pose proof (pa_key_inv_all d stk ps Hd Hslt) as Hinv.
    destruct (fold_left (fun a k => pa_push_key k a) pa_iks (d, stk, ps, [])) as [[[d1 stk1] ps1] pushed].
    cbn zeta in Hrun.
    destruct (pa_add_warn_same warn i p d ps1) as [Hwn Hws].
    set (ps2 := pa_add_warn warn i p d ps1) in *.
    destruct (pa_push_list warn kids stk1 ps2) as [[kids' stk2] ps3] eqn:El.
    injection Hrun as <- <- <-.
    cbn [pa_key_inv] in Hinv.
    destruct Hinv as (Hle & Hext & _ & _ & Hd1lt & Hs1lt & Hnd & _ & Hdone).
    assert (Hnn1 : pa_stk_nn (pa_pstore ps1) stk1).
    { intros k v Hin. destruct (Hdone k I) as (_ & [(_ & B & _) | (v' & B & C & D & _)]).
      - rewrite B in Hin. erewrite pa_den_ext; [apply (Hnn k v Hin) | apply (Hslt k v Hin) | exact Hext].
      - rewrite B in Hin. destruct Hin as [<-|Hin]; [congruence|].
        erewrite pa_den_ext; [apply (Hnn k v Hin) | apply (Hslt k v Hin) | exact Hext]. }
    assert (Hkids1 : Forall (pa_tree_lt (pa_pnext ps2)) kids).
    { rewrite Hwn. eapply Forall_impl; [|exact Hkids]. intros. eapply pa_tree_lt_mono; eassumption. }
    rewrite <- Hwn in Hs1lt. rewrite <- Hws in Hnn1.
    destruct (pa_push_list_ok warn kids IH stk1 ps2 kids' stk2 ps3 El Hkids1 Hs1lt Hnn1) as (-> & Hle3 & Hext3 & Hlt3 & Hcl3 & Heff3).
    rewrite Hwn in Hle3, Hext3, Hs1lt. rewrite Hws in Hext3, Heff3, Hnn1.
    split.
    { apply pa_quad_ext. intros k. rewrite pa_pop_get by assumption.
      destruct (Hdone k I) as (_ & [(_ & B & C) | (v' & B & _ & _ & C)]);
        destruct (in_dec pa_ik_eq_dec k pushed); try contradiction; rewrite B; reflexivity. }
    split; [lia|].
    split; [eapply pa_st_ext_trans; [exact Hle | exact Hext | exact Hext3]|].
    split.
    { apply pa_tree_lt_node. split; [eapply pa_dict_lt_mono; eassumption | assumption]. }
    assert (Hd1null : forall k, pa_getden (pa_pstore ps3) d1 k = PaoNull).
    { intros k. erewrite pa_getden_ext; [apply (Hdone k I) | exact Hd1lt | exact Hext3]. }
    split.
    { apply pa_clean_node. split; assumption. }
    intros inh' Hinh. cbn [pas_eff].
    assert (Eo : pas_over (pa_pstore ps3) inh' d1 = inh').
    { apply pa_quad_ext. intros k. rewrite pas_over_get, Hd1null. reflexivity. }
    rewrite Eo. rewrite Heff3.
    2:{ intros k Hk. apply Hinh. destruct (Hdone k I) as (_ & [(_ & B & _) | (v' & B & _)]); [congruence|]. rewrite B in Hk. discriminate. }
    assert (Etops : pa_tops (pa_pstore ps1) stk1 = pas_over (pa_pstore ps) (pa_tops (pa_pstore ps) stk) d).
    { apply pa_quad_ext. intros k. unfold pa_tops at 1. rewrite pa_qget_qinit, pas_over_get.
      destruct (Hdone k I) as (_ & [(A & B & _) | (v' & B & C & D & _)]).
      + rewrite B, A. unfold pa_tops. rewrite pa_qget_qinit.
        destruct (pa_qget stk k) as [|v vs] eqn:Es; [reflexivity|].
        eapply pa_den_ext; [|exact Hext]. apply (Hslt k). rewrite Es. left. reflexivity.
      + rewrite B, C. destruct (pa_getden (pa_pstore ps) d k); congruence. }
    rewrite Etops. generalize (pas_over (pa_pstore ps) (pa_tops (pa_pstore ps) stk) d). intros inh2.
    clear - Hext Hkids. induction Hkids as [|x l Hx Hl IHl]; cbn; [reflexivity|].
    rewrite (pas_eff_ext _ _ _ Hext x _ Hx). rewrite IHl. reflexivity.
Qed.

(* ---------------------------------------------------------------- statements *)
Lemma pa_tops_empty : forall st, pa_tops st pa_stk_empty = pas_none.
Proof. intros. apply pa_quad_ext. intros k. unfold pa_tops, pa_stk_empty, pas_none. rewrite pa_qget_qinit, !pa_qget_qconst. reflexivity. Qed.

(* pushInheritedAttributesToPageInternal from the root with an empty key_ancestors, on ANY tree whose indirect
   references are below the document's next object id: (1) every page, in the same order, has the same effective
   /CropBox, /MediaBox, /Resources and /Rotate as before; (2) no /Pages node is left with an inheritable attribute;
   (3) key_ancestors is empty again (the assertion after the walk holds); (4) objects that existed keep their value. *)
Lemma pa_pushdown_effective_lemma : forall warn t st next wl t' stk' ps',
  pa_tree_lt next t ->
  pa_push_tree warn t pa_stk_empty (PaPst next st wl) = (t', stk', ps') ->
  pas_doc_eff (pa_pstore ps') t' = pas_doc_eff st t /\
  pa_clean (pa_pstore ps') t' /\
  stk' = pa_stk_empty /\
  pa_st_ext next st (pa_pstore ps') /\ pa_tree_lt (pa_pnext ps') t'.
Proof.
  intros warn t st next wl t' stk' ps' Hlt Hrun.
  destruct (pa_push_tree_ok warn t pa_stk_empty (PaPst next st wl) t' stk' ps' Hrun) as (A & B & C & D & E & F).
  - exact Hlt.
  - intros k v Hin. unfold pa_stk_empty in Hin. rewrite pa_qget_qconst in Hin. destruct Hin.
  - intros k v Hin. unfold pa_stk_empty in Hin. rewrite pa_qget_qconst in Hin. destruct Hin.
  - cbn [pa_pnext pa_pstore] in *. split; [|auto].
    unfold pas_doc_eff. rewrite F.
    + rewrite pa_tops_empty. reflexivity.
    + intros k _. unfold pas_none. apply pa_qget_qconst.
Qed.

(* in a tree without inheritable attributes on its nodes the effective attributes of a page are its own *)
Lemma pa_clean_eff : forall st t inh, pa_clean st t -> pas_eff st inh t = flat_map (pas_eff st inh) (pa_pages t).
Proof.
  intros st t. induction t as [i p d | i p c d kids IH] using pa_tree_ind2; intros inh Hc.
  - cbn. reflexivity.
  - apply pa_clean_node in Hc as [Hd Hk]. cbn [pas_eff pa_pages].
    assert (Eo : pas_over st inh d = inh).
    { apply pa_quad_ext. intros k. rewrite pas_over_get, Hd. reflexivity. }
    rewrite Eo. clear Eo Hd.
    induction IH as [|k l Hk1 Hl IHl]; cbn; [reflexivity|]. inversion Hk; subst.
    rewrite flat_map_app. rewrite <- Hk1 by assumption. rewrite IHl by assumption. reflexivity.
Qed.
