(* Proofs for C01 (object queue / renumbering). Statements are fixed. *)
From QV Require Import Base.Bytes Obj.Queue.
From Coq Require Import Lia.
Local Open Scope N_scope.

(* ---------- helper lemmas ---------- *)

Lemma lookup_num_none : forall r x, lookup_num r x = None <-> ~ In x (map fst r).
Proof.
  induction r as [|[k v] t IH]; intros x; cbn [lookup_num map fst In].
  - split; [intros _ H; exact H | reflexivity].
  - destruct (k =? x) eqn:E.
    + apply N.eqb_eq in E. split; [discriminate | intros H; exfalso; apply H; left; exact E].
    + apply N.eqb_neq in E. rewrite IH. split.
      * intros H [H1|H1]; [apply E; exact H1 | apply H; exact H1].
      * intros H H1. apply H. right. exact H1.
Qed.

Lemma lookup_num_in : forall r x v, NoDup (map fst r) -> In (x, v) r -> lookup_num r x = Some v.
Proof.
  induction r as [|[k w] t IH]; intros x v Hnd Hin; cbn [lookup_num map fst In] in *.
  - contradiction.
  - inversion Hnd as [|a l Hni Hnd']; subst.
    destruct Hin as [Heq|Hin].
    + inversion Heq; subst. rewrite N.eqb_refl. reflexivity.
    + destruct (k =? x) eqn:E.
      * apply N.eqb_eq in E. subst k. exfalso. apply Hni.
        apply in_map_iff. exists (x, v). split; [reflexivity | exact Hin].
      * apply IH; assumption.
Qed.

Lemma lookup_num_some : forall r x v, lookup_num r x = Some v -> In (x, v) r.
Proof.
  induction r as [|[k w] t IH]; intros x v H; cbn [lookup_num In] in *.
  - discriminate.
  - destruct (k =? x) eqn:E.
    + apply N.eqb_eq in E. inversion H; subst. left. reflexivity.
    + right. apply IH. exact H.
Qed.

Lemma lookup_num_dom : forall r x, lookup_num r x <> None <-> In x (map fst r).
Proof.
  intros r x. split.
  - intros H. destruct (in_dec N.eq_dec x (map fst r)) as [Hi|Hn]; [exact Hi|].
    exfalso. apply H. apply lookup_num_none. exact Hn.
  - intros Hi Hn. apply lookup_num_none in Hn. apply Hn. exact Hi.
Qed.

Lemma children_in : forall g x y, In y (children g x) -> In (x, children g x) g.
Proof.
  induction g as [|[k cs] t IH]; intros x y H; cbn [children In] in *.
  - contradiction.
  - destruct (k =? x) eqn:E.
    + apply N.eqb_eq in E. subst k. left. reflexivity.
    + right. apply (IH x y). exact H.
Qed.

Lemma reach_in_g : forall g roots x, closed g roots -> reach g roots x -> In x (map fst g).
Proof.
  intros g roots x [Hnd [Hr Hc]] H. induction H as [x Hx | x y Hx IH Hy].
  - apply Hr. exact Hx.
  - apply (Hc x (children g x) y); [|exact Hy]. apply (children_in g x y). exact Hy.
Qed.

Lemma map_inj_in : forall (A B : Type) (f : A -> B) (l : list A) a b,
  NoDup (map f l) -> In a l -> In b l -> f a = f b -> a = b.
Proof.
  intros A B f. induction l as [|c l IH]; intros a b Hnd Ha Hb Hf; cbn [map In] in *.
  - contradiction.
  - inversion Hnd as [|c' l' Hni Hnd']; subst.
    destruct Ha as [Ha|Ha]; destruct Hb as [Hb|Hb].
    + congruence.
    + subst c. exfalso. apply Hni. rewrite Hf. apply in_map. exact Hb.
    + subst c. exfalso. apply Hni. rewrite <- Hf. apply in_map. exact Ha.
    + apply IH; assumption.
Qed.

Lemma NoDup_map_of_nat : forall l, NoDup l -> NoDup (map N.of_nat l).
Proof.
  induction l as [|a l IH]; intros H; cbn [map].
  - constructor.
  - inversion H as [|a' l' Hni Hnd]; subst. constructor.
    + intros Hin. apply in_map_iff in Hin. destruct Hin as [b [Hb Hin]].
      apply Nat2N.inj in Hb. subst b. apply Hni. exact Hin.
    + apply IH. exact Hnd.
Qed.

Lemma NoDup_rev' : forall (A : Type) (l : list A), NoDup (rev l) -> NoDup l.
Proof.
  intros A l. induction l as [|a l IH]; intros H; cbn [rev] in *.
  - constructor.
  - apply NoDup_remove in H. rewrite app_nil_r in H. destruct H as [H1 H2].
    constructor.
    + intros Hin. apply H2. apply in_rev in Hin. exact Hin.
    + apply IH. exact H1.
Qed.

Lemma lookup_num_map : forall r, NoDup (map fst r) -> forall l, incl l r ->
  map (lookup_num r) (map fst l) = map (fun p => Some (snd p)) l.
Proof.
  intros r Hnd. induction l as [|[k v] l IH]; intros Hincl; cbn [map fst snd].
  - reflexivity.
  - f_equal.
    + apply lookup_num_in; [exact Hnd|]. apply Hincl. left. reflexivity.
    + apply IH. intros p Hp. apply Hincl. right. exact Hp.
Qed.

(* ---------- the invariant ---------- *)

Record Inv0 (g : graph) (roots : list N) (s : qstate) : Prop := {
  inv_fst : map fst (rev (q_renumber s)) = rev (q_written_rev s) ++ q_queue s;
  inv_snd : map snd (rev (q_renumber s)) = map N.of_nat (seq 1 (length (q_renumber s)));
  inv_next : q_next s = N.of_nat (S (length (q_renumber s)));
  inv_nodup : NoDup (map fst (q_renumber s));
  inv_reach : forall x, In x (map fst (q_renumber s)) -> reach g roots x
}.

Definition Cl (g : graph) (s : qstate) : Prop :=
  forall x y, In x (q_written_rev s) -> In y (children g x) -> In y (map fst (q_renumber s)).

Definition numbered (s : qstate) (x : N) : Prop := In x (map fst (q_renumber s)).

Lemma enqueue_inv0 : forall g roots s x, Inv0 g roots s -> reach g roots x ->
  Inv0 g roots (q_enqueue s x).
Proof.
  intros g roots s x [H1 H2 H3 H4 H5] Hx. unfold q_enqueue.
  destruct (lookup_num (q_renumber s) x) eqn:E.
  - constructor; assumption.
  - constructor; cbn [q_queue q_renumber q_next q_written_rev].
    + cbn [rev]. rewrite map_app, H1. cbn [map fst]. rewrite app_assoc. reflexivity.
    + cbn [rev length]. rewrite map_app, H2. cbn [map snd].
      rewrite seq_S, map_app. cbn [map]. rewrite H3. reflexivity.
    + cbn [length]. rewrite H3. lia.
    + cbn [map fst]. constructor; [|exact H4]. apply lookup_num_none. exact E.
    + cbn [map fst]. intros z [Hz|Hz]; [subst z; exact Hx | apply H5; exact Hz].
Qed.

Lemma enqueue_written : forall s x, q_written_rev (q_enqueue s x) = q_written_rev s.
Proof.
  intros s x. unfold q_enqueue. destruct (lookup_num (q_renumber s) x); reflexivity.
Qed.

Lemma enqueue_mono : forall s x y, numbered s y -> numbered (q_enqueue s x) y.
Proof.
  intros s x y H. unfold numbered, q_enqueue in *.
  destruct (lookup_num (q_renumber s) x); [exact H|].
  cbn [q_renumber map fst]. right. exact H.
Qed.

Lemma enqueue_numbered : forall s x, numbered (q_enqueue s x) x.
Proof.
  intros s x. unfold numbered, q_enqueue.
  destruct (lookup_num (q_renumber s) x) eqn:E.
  - apply lookup_num_dom. rewrite E. discriminate.
  - cbn [q_renumber map fst]. left. reflexivity.
Qed.

Lemma fold_enqueue : forall g roots l s, Inv0 g roots s ->
  (forall x, In x l -> reach g roots x) ->
  Inv0 g roots (fold_left q_enqueue l s) /\
  q_written_rev (fold_left q_enqueue l s) = q_written_rev s /\
  (forall y, numbered s y -> numbered (fold_left q_enqueue l s) y) /\
  (forall x, In x l -> numbered (fold_left q_enqueue l s) x).
Proof.
  intros g roots. induction l as [|a l IH]; intros s Hinv Hl; cbn [fold_left].
  - split; [exact Hinv|]. split; [reflexivity|]. split; [intros y Hy; exact Hy|]. intros x [].
  - destruct (IH (q_enqueue s a)) as [I1 [I2 [I3 I4]]].
    + apply enqueue_inv0; [exact Hinv|]. apply Hl. left. reflexivity.
    + intros x Hx. apply Hl. right. exact Hx.
    + split; [exact I1|]. split; [rewrite I2; apply enqueue_written|].
      split.
      * intros y Hy. apply I3. apply enqueue_mono. exact Hy.
      * intros x [Hx|Hx].
        -- subst x. apply I3. apply enqueue_numbered.
        -- apply I4. exact Hx.
Qed.

Lemma inv0_bound : forall g roots s, closed g roots -> Inv0 g roots s ->
  (length (q_written_rev s) + length (q_queue s) <= length g)%nat.
Proof.
  intros g roots s Hcl [H1 H2 H3 H4 H5].
  assert (Hlen : length (q_renumber s) = (length (q_written_rev s) + length (q_queue s))%nat).
  { apply (f_equal (@length N)) in H1.
    rewrite map_length, rev_length, app_length, rev_length in H1. exact H1. }
  rewrite <- Hlen. rewrite <- (map_length fst (q_renumber s)), <- (map_length fst g).
  apply NoDup_incl_length; [exact H4|].
  intros x Hx. apply (reach_in_g g roots x Hcl). apply H5. exact Hx.
Qed.

Lemma loop_inv : forall g roots, closed g roots -> forall fuel s,
  Inv0 g roots s -> Cl g s ->
  Inv0 g roots (q_loop fuel g s) /\ Cl g (q_loop fuel g s) /\
  (forall y, numbered s y -> numbered (q_loop fuel g s) y) /\
  ((length (q_written_rev s) + fuel > length g)%nat -> q_queue (q_loop fuel g s) = []).
Proof.
  intros g roots Hclosed. induction fuel as [|f IH]; intros s Hinv Hcl; cbn [q_loop].
  - split; [exact Hinv|]. split; [exact Hcl|]. split; [intros y Hy; exact Hy|].
    intros Hgt. pose proof (inv0_bound g roots s Hclosed Hinv) as Hb.
    destruct (q_queue s); [reflexivity|]. exfalso. lia.
  - destruct (q_queue s) as [|x rest] eqn:Eq.
    + split; [exact Hinv|]. split; [exact Hcl|]. split; [intros y Hy; exact Hy|].
      intros _. exact Eq.
    + set (s1 := {| q_queue := rest; q_renumber := q_renumber s; q_next := q_next s;
                    q_written_rev := x :: q_written_rev s |}).
      assert (Hinv1 : Inv0 g roots s1).
      { destruct Hinv as [H1 H2 H3 H4 H5]. constructor; cbn [s1 q_queue q_renumber q_next q_written_rev]; try assumption.
        rewrite H1, Eq. cbn [rev]. rewrite <- app_assoc. reflexivity. }
      assert (Hx : reach g roots x).
      { destruct Hinv as [H1 H2 H3 H4 H5]. apply H5.
        rewrite map_rev in H1. apply in_rev. rewrite H1, Eq.
        apply in_or_app. right. left. reflexivity. }
      destruct (fold_enqueue g roots (children g x) s1 Hinv1) as [F1 [F2 [F3 F4]]].
      { intros y Hy. apply (reach_step g roots x y); assumption. }
      set (s2 := fold_left q_enqueue (children g x) s1) in *.
      assert (Hcl2 : Cl g s2).
      { intros a b Ha Hb. rewrite F2 in Ha. cbn [s1 q_written_rev] in Ha.
        destruct Ha as [Ha|Ha].
        - subst a. apply F4. exact Hb.
        - apply F3. unfold numbered. cbn [s1 q_renumber]. apply (Hcl a b); assumption. }
      destruct (IH s2 F1 Hcl2) as [L1 [L2 [L3 L4]]].
      split; [exact L1|]. split; [exact L2|]. split.
      * intros y Hy. apply L3. apply F3. exact Hy.
      * intros Hgt. apply L4. rewrite F2. cbn [s1 q_written_rev length]. lia.
Qed.

Definition q_init : qstate := {| q_queue := []; q_renumber := []; q_next := 1; q_written_rev := [] |}.

Lemma init_inv0 : forall g roots, Inv0 g roots q_init.
Proof.
  intros g roots. constructor; cbn; try reflexivity.
  - constructor.
  - intros x [].
Qed.

Lemma final_facts : forall g roots, closed g roots ->
  let s := run_queue g roots in
  Inv0 g roots s /\ map fst (q_renumber s) = q_written_rev s /\
  (forall x, numbered s x <-> reach g roots x).
Proof.
  intros g roots Hclosed s.
  destruct (fold_enqueue g roots roots q_init (init_inv0 g roots)) as [F1 [F2 [F3 F4]]].
  { intros x Hx. apply reach_root. exact Hx. }
  set (s0 := fold_left q_enqueue roots q_init) in *.
  assert (Hcl0 : Cl g s0).
  { intros a b Ha. rewrite F2 in Ha. destruct Ha. }
  destruct (loop_inv g roots Hclosed (S (length g)) s0 F1 Hcl0) as [L1 [L2 [L3 L4]]].
  fold q_init in s. change (q_loop (S (length g)) g s0) with s in *.
  assert (Hq : q_queue s = []). { apply L4. lia. }
  assert (Hw : map fst (q_renumber s) = q_written_rev s).
  { pose proof (inv_fst g roots s L1) as H1. rewrite Hq, app_nil_r, map_rev in H1.
    apply (f_equal (@rev N)) in H1. rewrite !rev_involutive in H1. exact H1. }
  split; [exact L1|]. split; [exact Hw|].
  intros x. split.
  - apply (inv_reach g roots s L1).
  - intros Hr. induction Hr as [x Hx | x y Hx IHx Hy].
    + apply L3. apply F4. exact Hx.
    + unfold numbered in *. apply (L2 x y); [|exact Hy]. rewrite <- Hw. exact IHx.
Qed.

(* ---------- main lemmas ---------- *)

(* every object reachable from the trailer is written, exactly once, and nothing else is *)
Lemma queue_complete_lemma : forall g roots, closed g roots ->
  NoDup (written g roots) /\ (forall x, In x (written g roots) <-> reach g roots x).
Proof.
  intros g roots Hclosed. destruct (final_facts g roots Hclosed) as [Hinv [Hw Hnum]].
  unfold written. rewrite rev'_rev, <- Hw. split.
  - apply NoDup_rev'. rewrite rev_involutive. apply (inv_nodup g roots _ Hinv).
  - intros x. rewrite <- in_rev. apply Hnum.
Qed.

(* new numbers: a bijection between the written objects and 1..n, assigned in writing order *)
Lemma renumber_order_lemma : forall g roots, closed g roots ->
  map (renumber g roots) (written g roots)
  = map (fun i => Some (N.of_nat i)) (seq 1 (length (written g roots))).
Proof.
  intros g roots Hclosed. destruct (final_facts g roots Hclosed) as [Hinv [Hw Hnum]].
  unfold written, renumber. rewrite rev'_rev, <- Hw.
  rewrite rev_length, map_length, <- map_rev.
  change (fun x => lookup_num (q_renumber (run_queue g roots)) x)
    with (lookup_num (q_renumber (run_queue g roots))).
  rewrite (lookup_num_map _ (inv_nodup g roots _ Hinv)).
  - rewrite <- (map_map snd Some), (inv_snd g roots _ Hinv), map_map. reflexivity.
  - intros p Hp. apply in_rev. exact Hp.
Qed.

Lemma renumber_injective_lemma : forall g roots x y n, closed g roots ->
  renumber g roots x = Some n -> renumber g roots y = Some n -> x = y.
Proof.
  intros g roots x y n Hclosed Hx Hy.
  destruct (final_facts g roots Hclosed) as [Hinv [Hw Hnum]].
  unfold renumber in *. apply lookup_num_some in Hx. apply lookup_num_some in Hy.
  assert (Hnd : NoDup (map snd (q_renumber (run_queue g roots)))).
  { apply NoDup_rev'. rewrite <- map_rev, (inv_snd g roots _ Hinv).
    apply NoDup_map_of_nat. apply seq_NoDup. }
  pose proof (map_inj_in _ _ snd _ (x, n) (y, n) Hnd Hx Hy eq_refl) as H.
  inversion H. reflexivity.
Qed.

(* only reachable objects get a number *)
Lemma renumber_domain_lemma : forall g roots x, closed g roots ->
  (renumber g roots x <> None <-> reach g roots x).
Proof.
  intros g roots x Hclosed. destruct (final_facts g roots Hclosed) as [Hinv [Hw Hnum]].
  unfold renumber. rewrite lookup_num_dom. apply Hnum.
Qed.
