(* Shared-object identifiers of the page offset hint table: the end of Lin::calculateLinearizationData
   (libqpdf/QPDF_linearization.cc), written from the C++:

     c_shared_object_data_.entries = all of part6_ in order, then all of part8_ in order;  obj_to_index[obj] = position
     for i in 1 .. npages-1:
       for og in obj_user_to_objects_[page i]:                                   (std::set order)
         if object_to_obj_users_[og].size() > 1 && obj_to_index.contains(og):    ++nshared_objects; identifiers.push_back(index)

   together with the rule that decides whether pushInheritedAttributesToPage leaves anything for a page to inherit
   (the page tree nodes are users of the root key /Pages only, so they are classified "other": part 9).

   The object-to-users map is an association list in std::map order (ascending object); every object occurs once. An
   object of an object stream has been replaced by its stream (filterCompressedObjects) before this code runs. *)
From QV Require Import Base.Bytes Lin.Parts.
Local Open Scope N_scope.

Definition lsi_umap := list (N * list ouser).

Definition lsi_is_page (i : N) (u : ouser) : bool := match u with OuPage n => n =? i | _ => false end.
Definition lsi_uses (i : N) (us : list ouser) : bool := existsb (lsi_is_page i) us.

(* part6_ / part8_ as sequences of objects (the writer numbers the objects of a part consecutively in this order) *)
Definition lsi_part_objs (uo : bool) (part : N) (um : lsi_umap) : list N :=
  map fst (filter (fun e => lc_part uo (lc_classify (snd e)) =? part) um).

(* c_shared_object_data_.entries *)
Definition lsi_table (uo : bool) (um : lsi_umap) : list N := lsi_part_objs uo 6 um ++ lsi_part_objs uo 8 um.

(* obj_to_index *)
Fixpoint lsi_index_from (k : N) (tbl : list N) (og : N) : option N :=
  match tbl with
  | [] => None
  | x :: t => if x =? og then Some k else lsi_index_from (k + 1) t og
  end.
Definition lsi_index (tbl : list N) (og : N) : option N := lsi_index_from 0 tbl og.

(* the loop body for one page: identifiers in the order they are pushed *)
Definition lsi_page_ids (uo : bool) (um : lsi_umap) (i : N) : list N :=
  let tbl := lsi_table uo um in
  flat_map (fun e =>
              if lsi_uses i (snd e) && (1 <? N.of_nat (length (snd e))) then
                match lsi_index tbl (fst e) with Some k => [k] | None => [] end
              else []) um.

(* all pages: page 0 gets none (nshared_objects stays 0) *)
Definition lsi_all_ids (uo : bool) (um : lsi_umap) (npages : nat) : list (list N) :=
  map (fun i => if i =? 0 then [] else lsi_page_ids uo um i) (map N.of_nat (seq 0 npages)).
