(* non-vacuity: the hypotheses of scan_finds_all / recon_table_spec are met by a concrete four-object file, and the
   conclusion is the list of its header offsets *)
Example c08_scan_example :
  ev_objs (rc_scan_events c08_twin) = [(1%Z, 0%Z, 9); (2%Z, 0%Z, 67); (3%Z, 0%Z, 126); (4%Z, 0%Z, 173)].
Proof.
  unfold c08_twin. rewrite scan_finds_all.
  - vm_compute. reflexivity.
  - vm_compute. reflexivity.
  - discriminate.
  - repeat (constructor; [vm_compute; reflexivity|]). constructor.
  - vm_compute. reflexivity.
Qed.
(* a body with a look-alike line, `(abcdefghijkl` newline `7 0 obj` newline `)` ..., is rejected by the hypothesis *)
Example c08_lookalike_not_quiet :
  rs_quiet [40; 97; 98; 99; 100; 101; 102; 103; 104; 105; 106; 107; 108; 10; 55; 32; 48; 32; 111; 98; 106; 10; 41; 10; 101; 110; 100; 111; 98; 106; 10] = false.
Proof. vm_compute. reflexivity. Qed.
