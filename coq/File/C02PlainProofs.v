(* C02, plain output mode: every file the plain writer model produces is strictly well-formed.
   Corollary of the C01 capstone (Obj/C01FileProofs.v); the model is tied to qpdf byte for byte by the C01 check. *)
From QV Require Import Base.Bytes File.StrictSyntax File.ReadStrict Obj.Queue Obj.WriterModel Obj.WmPrinters Obj.C01FileProofs.
Local Open Scope N_scope.

(* the strict reader accepts the output: one classic section, a table (not a stream), /Size = number of objects + 1,
   and exactly the written objects are present; "accepts" includes: every xref entry points at its object, every
   /Length is exact, every byte of the file is accounted for *)
Lemma plain_output_well_formed_lemma : forall d, wf_doc d -> N.of_nat (length (wm_out d)) < 10 ^ 10 ->
  exists f, read_strict (wm_out d) = RsOk f
            /\ sf_sections f = 1 /\ sf_xref_stream f = false
            /\ length (sf_objs f) = length (written (graph_of d) (roots_of d)).
Proof.
  intros d Hwf Hlen.
  destruct (write_read_strict_lemma d Hwf Hlen) as [f [H1 [_ [H3 [H4 [_ [H6 _]]]]]]].
  exists f. repeat split; assumption.
Qed.
