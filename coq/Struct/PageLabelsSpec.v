(* C12 (extension) - specification of page labels, ISO 32000-1 12.4.2: "The number tree's keys are page indices ... each
   of which is the first page in a labelling range; the value is a page label dictionary ... The tree shall include a value for
   page index 0." and Table 159: /S numbering style (absent: no numeric portion), /P label prefix, /St "the value of the numeric
   portion for the first page label in the range. Subsequent pages shall be numbered sequentially from this value, which shall
   be greater than or equal to 1. Default value: 1."
   Declarative: the label of page i is given by the entry with the GREATEST key <= i. *)
From QV Require Import Base.Bytes Struct.PageLabels.
From Coq Require Import List ZArith NArith Bool.
Import ListNotations.
Local Open Scope Z_scope.

(* a label as a reader computes it: style, prefix, value of the numeric portion *)
Definition plbs_label := (option N * option N * Z)%type.

Definition plbs_labelled (t : plb_tree) (i : Z) (lab : plbs_label) : Prop :=
  exists k l, In (k, l) t /\ k <= i /\ (forall k' l', In (k', l') t -> k' <= i -> k' <= k) /\
              lab = (plb_S l, plb_P l, plb_start l + (i - k)).

(* no range covers page i *)
Definition plbs_unlabelled (t : plb_tree) (i : Z) : Prop := forall k l, In (k, l) t -> i < k.

(* a number tree: keys strictly ascending *)
Fixpoint plbs_sorted (t : plb_tree) : Prop :=
  match t with
  | [] => True
  | (k, _) :: t' => match t' with [] => True | (k', _) :: _ => k < k' end /\ plbs_sorted t'
  end.
