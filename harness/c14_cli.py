# C14, file level: the real qpdf CLI over generated documents (pdfgen ground truth) and corpus files.
#   --json-output x stream data {none, inline, file} x decode levels x object subsets (all, nothing selected, trailer only,
#   streams only, random) ; --json (v1, v2) x --json-key subsets ; --json-input (generation 2, generation 2 = 3 byte for byte) ;
#   --update-from-json with the document's own JSON (unchanged) and with an edited subset (exactly the edited object changes).
# Every JSON text goes through the extracted json_valid (<= 150 kB) and Python's strict json; the layout is checked against the
# schema printed by --json-help; object values are compared with the generator's ground truth.
import base64, json, os, re, zlib
import common, pdfgen
from common import hexs
from pdfgen import Name, Ref, Str, Real, Stream, D, N
import c14

MAXSIZE = 150000
SD = ["none", "inline", "file"]
DL = ["none", "generalized", "specialized", "all"]
V2_KEYS = ["acroform", "attachments", "encrypt", "outlines", "pagelabels", "pages", "qpdf"]
V1_KEYS = ["acroform", "attachments", "encrypt", "objectinfo", "objects", "outlines", "pagelabels", "pages"]


class Sp:
    """spelling chooser for pdfgen.ser: default spellings, except that a NUL in a name is written as a stray '#'
    (what the tokenizer turns into NUL on reading) and strings are written in hexadecimal"""

    def ws(self):
        return b" "

    def ws1(self):
        return b" "

    def integer(self, i):
        return str(i).encode()

    def string(self, b):
        return b"<" + b.hex().encode() + b">"

    def name(self, b):
        out = bytearray(b"/")
        for c in b:
            if c == 0:
                out += b"#"
            elif c in pdfgen.REGULAR:
                out.append(c)
            else:
                out += b"#%02x" % c
        return bytes(out)


CLEAN_STRINGS = [b"", b"plain text", b"caf\xe9 au lait, long enough to stay literal", b"\x00\x01\x02\xff", b"\xfe\xff\x00A\x20\xac\xd8\x3d\xde\x00",
                 b"\xff\xfeA\x00\xac\x20", b"\xef\xbb\xbf\xe2\x82\xac uro", b"quo\"te back\\slash\nnl\ttab", b"(unbalanced", b"\x80\x81\x82\x83", b"\xfe\xff",
                 b"12 0 R", b"u:not a prefix", b"/NotAName", b"\x18\x19 low pdfdoc accents kept in a longer text", b"\xfe\xff\x00\xfe\x00\xff", b"10\xf7"]
CLEAN_NAMES = [b"Plain", b"Quo\"te", b"Back\\slash", b"Sp ace", b"\xc3\xa9t\xc3\xa9", b"Bin\x80", b"Bin\x80\"q", b"Bin\xff\\b", b"A#B", b"", b"\x7f",
               b"\xf0\x9f\x98\x80", b"\xc0\xaf", b"Ctl\x01\n", b"n:/x", b"1 0 R", b"Nul\x00zz"]
CLEAN_REALS = ["1.5", "-0.25", "3.", ".5", "-.5", "0.0", "100.000", "007.50", "00.5", "-3.", "0.", "12345678901234567890.123456789"]

DEFECT_CLASSES = {
    "D1-plus": (c14.SIG_D1 + "leading-plus", lambda: {b"V": Real("+1.5"), b"W": Real("+.5")}),
    "D1-zeros": (c14.SIG_D1 + "zeros-after-minus", lambda: {b"V": Real("-007.50"), b"W": Real("-00.5")}),
    "D7": (c14.SIG_D7, lambda: {b"S": Str(b"\xfe\xff\xdc\x01\x00\x41"), b"T": Str(b"\xfe\xff\xd8\x00\x00\x41"), b"U": Str(b"\xfe\xff\x00\x41\x42")}),
    "D8": (c14.SIG_D8, lambda: {b"S": Str(b"\xef\xbb\xbf\xff\x41\xc0")}),
    "D9-value": (c14.SIG_D9, lambda: {b"N": Name(b"\xed\xa0\x80"), b"M": Name(b"x\xf4\x90\x80\x80")}),
    "D9-key": (c14.SIG_D9, lambda: {b"\xf5\x80\x80\x80": 1, b"Ok": 2}),
    "F1-value": (c14.SIG_F1, lambda: {b"N": Name(b"W\xff\x00z")}),
    "F1-key": (c14.SIG_F1, lambda: {b"K\x80\x00zz": 2}),
}


def flate(b):
    return zlib.compress(b)


def gen_doc(rng, i, defect=None):
    """returns (pdfgen.Doc, plain: {objnum: decoded stream bytes}, raw: {objnum: raw bytes})"""
    npages = rng.choice([1, 1, 2, 3])
    d = pdfgen.page_doc(npages, marker="J", kids_levels=rng.choice([1, 2]))
    extras = {}
    scal = {}
    for k, s in enumerate(rng.sample(CLEAN_STRINGS, rng.randint(3, len(CLEAN_STRINGS)))):
        scal[b"S%d" % k] = Str(s)
    for k, n in enumerate(rng.sample(CLEAN_NAMES, rng.randint(3, len(CLEAN_NAMES)))):
        scal[b"N%d" % k] = Name(n)
    for k, r in enumerate(rng.sample(CLEAN_REALS, rng.randint(2, len(CLEAN_REALS)))):
        scal[b"R%d" % k] = Real(r)
    scal[b"I"] = rng.choice([0, -1, 2 ** 31, -2 ** 63, 2 ** 63 - 1])
    scal[b"B"] = rng.choice([True, False])
    scal[b"A"] = [1, Real("2.5"), [Name(b"x"), [], {}], {b"k": Str(b"v")}, None, True]
    extras[b"Scalars"] = d.add(scal)
    keyd = {}
    for n in rng.sample(CLEAN_NAMES, rng.randint(2, len(CLEAN_NAMES))):
        keyd[n] = rng.choice([1, Name(b"v"), Str(b"s"), [Ref(1)], Real("0.5")])
    extras[b"Keys"] = d.add(keyd)
    extras[b"Nested"] = d.add({b"a": {b"b": {b"c": [Ref(2), {b"\xff": Ref(3)}]}}, b"e": [], b"f": {}})
    extras[b"IndirectScalars"] = [d.add(rng.choice([42, Real("1.25"), Str(b"\xfe\xff\x00x"), Name(b"Nm\x80"), True, [1, 2]])) for _ in range(rng.randint(1, 4))]
    plain, raw = {}, {}
    streams = []
    for k in range(rng.choice([1, 2, 4])):
        kind = rng.randrange(5)
        data = bytes(rng.choice(b"abc \n\x00\xff(") for _ in range(rng.choice([0, 1, 2, 3, 57, 300, 4000])))
        if kind == 0:
            s = Stream({b"Marker": k}, data)
        elif kind == 1:
            s = Stream({b"Filter": N("FlateDecode"), b"Marker": Str(b"fl")}, flate(data))
        elif kind == 2:
            s = Stream({b"Filter": [N("ASCIIHexDecode"), N("FlateDecode")]}, flate(data).hex().encode() + b">")
        elif kind == 3:
            s = Stream({b"Filter": N("FlateDecode"), b"DecodeParms": {b"Predictor": 12, b"Columns": 4}},
                       flate(b"".join(b"\x00" + data[j:j + 4].ljust(4, b"\x00") for j in range(0, len(data), 4))))
            data = b"".join(data[j:j + 4].ljust(4, b"\x00") for j in range(0, len(data), 4))
        else:
            s = Stream({b"Filter": N("RunLengthDecode"), b"Bin\x80\"key": Name(b"v\xff")}, b"".join(bytes([0, c]) for c in data) + b"\x80")
        r = d.add(s)
        streams.append(r)
        plain[r.n] = (data, [None, "generalized", "generalized", "generalized", "specialized"][kind])
        raw[r.n] = s.data
    extras[b"Streams"] = list(streams)
    sig = ""
    if defect:
        sig, mk = DEFECT_CLASSES[defect]
        extras[b"Defect"] = d.add(mk())
    d.objects[1][b"Extras"] = d.add(extras)
    d.trailer[b"Info"] = d.add(D(Title=Str(b"C14 doc %d" % i), Producer=Str(b"\xfe\xff\x00v\x00e\x00r\x00i\x00f")))
    # page content streams are plain
    for n, o in d.objects.items():
        if isinstance(o, Stream) and n not in raw:
            raw[n] = o.data
            plain[n] = (o.data, None)
    return d, plain, raw, sig


RANK = {"none": 0, "generalized": 1, "specialized": 2, "all": 3, "never": 99}


def predict12(data, cols=4):
    """(PNG-up rows with filter type 0, the row-padded plaintext)"""
    rows = [data[j:j + cols].ljust(cols, b"\x00") for j in range(0, len(data), cols)]
    return b"".join(b"\x00" + r for r in rows), b"".join(rows)


def stream_layer_doc(rng):
    """one page + streams at the case splits of Stream::writeStreamJSON / pipeStreamData: empty and 1-byte data, with and without
    filters, filters with parameters, chains with parameter arrays (null entries), indirect /Filter and /DecodeParms, filters of the
    specialized level, a filter qpdf cannot decode, an empty filter array. plain[n] = (decoded data, lowest decode level that decodes)"""
    d = pdfgen.page_doc(1, marker="S")
    plain, raw = {}, {}
    refs = []

    def add(dic, rawdata, decoded, level):
        r = d.add(Stream(dic, rawdata))
        refs.append(r)
        plain[r.n] = (decoded, level)
        raw[r.n] = rawdata
        return r
    text = bytes(rng.choice(b"abc \n\x00\xff(") for _ in range(rng.choice([5, 57, 300])))
    rows, padded = predict12(text)
    one = bytes([rng.randrange(256)])
    fname = d.add(N("FlateDecode"))
    fparms = d.add({b"Predictor": 12, b"Columns": 4})
    farr = d.add([N("ASCIIHexDecode"), N("FlateDecode")])
    # empty data
    add({}, b"", b"", None)
    add({b"Filter": N("FlateDecode")}, b"", b"", "generalized")
    add({b"Filter": N("FlateDecode"), b"DecodeParms": {b"Predictor": 1}}, b"", b"", "generalized")
    add({b"Filter": N("FlateDecode"), b"DecodeParms": {b"Predictor": 12, b"Columns": 4}, b"Marker": Str(b"empty")}, b"", b"", "generalized")
    add({b"Filter": [N("ASCIIHexDecode"), N("FlateDecode")], b"DecodeParms": [None, {b"Predictor": 12, b"Columns": 4}]}, b"", b"", "generalized")
    add({b"Filter": fname, b"DecodeParms": fparms}, b"", b"", "generalized")
    add({b"Filter": N("RunLengthDecode")}, b"", b"", "specialized")
    add({b"Filter": N("JBIG2Decode")}, b"", b"", "never")
    add({b"Filter": []}, b"", b"", "generalized")
    # one byte
    add({}, one, one, None)
    add({b"Filter": N("FlateDecode")}, flate(one), one, "generalized")
    add({b"Filter": N("ASCIIHexDecode")}, one.hex().encode() + b">", one, "generalized")
    add({b"Filter": N("RunLengthDecode")}, b"\x00" + one + b"\x80", one, "specialized")
    # parameters, chains, parameter arrays, indirect keys
    add({b"Filter": N("FlateDecode"), b"DecodeParms": {b"Predictor": 12, b"Columns": 4}}, flate(rows), padded, "generalized")
    add({b"Filter": [N("ASCIIHexDecode"), N("FlateDecode")], b"DecodeParms": [None, {b"Predictor": 12, b"Columns": 4}]},
        flate(rows).hex().encode() + b">", padded, "generalized")
    add({b"Filter": [N("ASCII85Decode"), N("FlateDecode")], b"DecodeParms": [None, None]}, base64.a85encode(flate(text)) + b"~>", text, "generalized")
    add({b"Filter": fname, b"DecodeParms": fparms}, flate(rows), padded, "generalized")
    add({b"Filter": farr, b"DecodeParms": [None, fparms]}, flate(rows).hex().encode() + b">", padded, "generalized")
    add({b"Filter": [N("FlateDecode"), N("RunLengthDecode")]}, flate(b"".join(bytes([0, c]) for c in text) + b"\x80"), text, "specialized")
    add({b"Filter": N("JBIG2Decode"), b"DecodeParms": {b"K": 1}}, text, text, "never")
    add({b"Filter": [], b"Marker": 1}, text, text, "generalized")
    add({b"Filter": [N("FlateDecode")], b"DecodeParms": [{b"Predictor": 12, b"Columns": 4}]}, flate(rows), padded, "generalized")
    d.objects[1][b"Streams"] = list(refs)
    # the indirect filter objects stay referenced when an export has decoded the streams (the writer drops unreferenced objects)
    d.objects[1][b"Keep"] = [fname, fparms, farr]
    for n, o in d.objects.items():
        if isinstance(o, Stream) and n not in raw:
            raw[n] = o.data
            plain[n] = (o.data, None)
    return d, plain, raw


# ------------------------------------------------------------------ schema (layout printed by --json-help)

def schema_check(v, sch, path, errs, optional_top=None):
    if len(errs) > 5:
        return
    if isinstance(sch, dict):
        if not isinstance(v, dict):
            errs.append("%s should be an object" % path)
            return
        keys = list(sch)
        if len(keys) == 1 and keys[0].startswith("<") and keys[0].endswith(">"):
            for k, x in v.items():
                schema_check(x, sch[keys[0]], path + "." + k, errs)
            return
        for k in keys:
            if k in v:
                schema_check(v[k], sch[k], path + "." + k, errs)
            elif optional_top is None or k in optional_top:
                errs.append("%s lacks key %s" % (path, k))
        for k in v:
            if k not in sch:
                errs.append("%s has unknown key %s" % (path, k))
    elif isinstance(sch, list):
        if len(sch) == 1:
            for j, x in enumerate(v if isinstance(v, list) else [v]):
                schema_check(x, sch[0], "%s.%d" % (path, j), errs)
        elif not isinstance(v, list) or len(v) != len(sch):
            errs.append("%s should be an array of length %d" % (path, len(sch)))
        else:
            for j, x in enumerate(v):
                schema_check(x, sch[j], "%s.%d" % (path, j), errs)


def objects_layout(objs, sd):
    """the second element of "qpdf": "obj:n g R" -> {"value": v} | {"stream": {"dict": {..}, data|datafile}}, "trailer" -> {"value": {..}}"""
    errs = []
    for k, v in objs.items():
        if k == "trailer":
            if not (isinstance(v, dict) and set(v) == {"value"} and isinstance(v["value"], dict)):
                errs.append("trailer is not {value: {...}}")
            continue
        if not re.fullmatch(r"obj:[1-9]\d* \d+ R", k):
            errs.append("object key %r" % k)
            continue
        if not isinstance(v, dict) or len(v) != 1 or next(iter(v)) not in ("value", "stream"):
            errs.append("%s is not exactly one of value / stream" % k)
            continue
        if "stream" in v:
            s = v["stream"]
            want = {"dict"} | ({"data"} if sd == "inline" else {"datafile"} if sd == "file" else set())
            if not isinstance(s, dict) or set(s) != want or not isinstance(s["dict"], dict):
                errs.append("%s stream has keys %s, expected %s" % (k, sorted(s) if isinstance(s, dict) else s, sorted(want)))
            elif sd == "inline":
                if not isinstance(s["data"], str) or not re.fullmatch(r"(?:[A-Za-z0-9+/]{4})*(?:[A-Za-z0-9+/]{2}==|[A-Za-z0-9+/]{3}=)?", s["data"]):
                    errs.append("%s stream data is not RFC 4648 base64" % k)
    return errs


# ------------------------------------------------------------------ comparison with the ground truth

class Texts:
    """batched text_of (extracted specification) for byte strings"""

    def __init__(self, cx):
        self.cx = cx
        self.cache = {}

    def get(self, blist):
        need = [b for b in set(blist) if b not in self.cache]
        if need:
            outs = self.cx.model(["jtext " + hexs(b) for b in need])
            for b, o in zip(need, outs):
                self.cache[b] = o
        return self.cache


def jkey(k):
    return c14.key_from_json(k)


def cmp_value(t, v, pend, path):
    """ground truth t (pdfgen model) against decoded JSON v; text strings are queued in pend for text comparison"""
    if t is None:
        return "" if v is None else "%s: null became %r" % (path, v)
    if t is True or t is False:
        return "" if v is t else "%s: bool became %r" % (path, v)
    if isinstance(t, int):
        return "" if isinstance(v, c14.Num) and str(v) == str(t) else "%s: integer %d became %r" % (path, t, v)
    if isinstance(t, Real):
        try:
            ok = isinstance(v, c14.Num) and c14.frac(str(v).encode()) == c14.frac(t.s.encode())
        except ValueError:
            ok = False
        return "" if ok else "%s: real %s became %r" % (path, t.s, v)
    if isinstance(t, Str):
        if not isinstance(v, str):
            return "%s: string became %r" % (path, v)
        if v.startswith("b:"):
            try:
                return "" if bytes.fromhex(v[2:]) == t.b else "%s: binary string %s became %s" % (path, t.b.hex(), v)
            except ValueError:
                return "%s: bad b: string %r" % (path, v)
        if v.startswith("u:"):
            pend.append((path, t.b, v[2:]))
            return ""
        return "%s: string became %r" % (path, v)
    if isinstance(t, Name):
        if not isinstance(v, str) or not (v.startswith("/") or v.startswith("n:/")):
            return "%s: name became %r" % (path, v)
        got = jkey(v)
        want = b"/" + t.b
        if 0 in want and v.startswith("n:"):
            want = want.replace(b"\x00", b"#")
        return "" if got == want else "%s: name %r became %r" % (path, t.b, v)
    if isinstance(t, Ref):
        return "" if v == "%d %d R" % (t.n, t.g) else "%s: reference became %r" % (path, v)
    if isinstance(t, list):
        if not isinstance(v, list) or len(v) != len(t):
            return "%s: array of %d became %r" % (path, len(t), v)
        for j, (a, b) in enumerate(zip(t, v)):
            p = cmp_value(a, b, pend, "%s[%d]" % (path, j))
            if p:
                return p
        return ""
    if isinstance(t, dict):
        if not isinstance(v, dict):
            return "%s: dictionary became %r" % (path, v)
        want = {}
        for k, x in t.items():
            kb = k.b if isinstance(k, Name) else k
            if x is not None:
                want[b"/" + kb] = x
        got = {}
        for k, x in v.items():
            kk = jkey(k)
            got[kk] = x
        wk = {(k.replace(b"\x00", b"#") if (0 in k and not c14.utf8_ok(k)) else k): x for k, x in want.items()}
        if set(got) != set(wk) or len(got) != len(v):
            return "%s: dictionary keys %r became %r" % (path, sorted(wk), sorted(v))
        for k in wk:
            p = cmp_value(wk[k], got[k], pend, path + k.decode("latin-1"))
            if p:
                return p
        return ""
    return "%s: unexpected ground truth %r" % (path, t)


def cmp_doc(doc, plain, raw, objs, sd, dl, wanted, wd, prefix):
    """compare the objects of one JSON output with the ground truth; returns (problems, pending text comparisons)"""
    probs, pend = [], []
    want_keys = set()
    for n in doc.objects:
        k = "obj:%d 0 R" % n
        if wanted is None or k in wanted:
            want_keys.add(k)
    if wanted is None or "trailer" in wanted:
        want_keys.add("trailer")
    if set(objs) != want_keys:
        probs.append("selected objects %s, expected %s" % (sorted(set(objs) ^ want_keys)[:6], "…"))
        return probs, pend
    for k, v in objs.items():
        if k == "trailer":
            tr = dict(doc.trailer)
            got = dict(v["value"])
            got.pop("/Size", None)
            got.pop("/ID", None)
            p = cmp_value({kk: x for kk, x in tr.items() if kk not in (b"Size", b"ID")}, got, pend, "trailer")
            if p:
                probs.append(p)
            continue
        n = int(k.split(":")[1].split(" ")[0])
        t = doc.objects[n]
        if isinstance(t, Stream):
            if "stream" not in v:
                probs.append("%s: stream exported as value" % k)
                continue
            s = v["stream"]
            sdict = dict(s["dict"])
            data, level = plain[n]
            td = dict(t.d)
            # /Filter and /DecodeParms leave the dictionary exactly when the exported data are the decoded data
            decoded_expected = level is not None and dl != "none" and RANK[dl] >= RANK[level]
            got_data = None
            if sd == "inline":
                try:
                    got_data = base64.b64decode(s["data"], validate=True)
                except Exception:
                    probs.append("%s: data is not base64" % k)
            elif sd == "file":
                fn = s["datafile"]
                if fn != "%s-%d" % (prefix, n):
                    probs.append("%s: datafile %r, expected %s-%d" % (k, fn, prefix, n))
                try:
                    got_data = open(os.path.join(wd, fn), "rb").read()
                except OSError:
                    probs.append("%s: side file %r missing" % (k, fn))
            if sd != "none":
                if "/Length" in sdict:
                    probs.append("%s: /Length kept in the stream dictionary" % k)
                if decoded_expected:
                    td.pop(b"Filter", None)
                    td.pop(b"DecodeParms", None)
                    if got_data is not None and got_data != data:
                        probs.append("%s: decoded stream data differs (%d vs %d bytes)" % (k, len(got_data), len(data)))
                elif got_data is not None and got_data != raw[n]:
                    probs.append("%s: raw stream data differs (%d vs %d bytes)" % (k, len(got_data), len(raw[n])))
            else:
                sdict.pop("/Length", None)
            p = cmp_value(td, sdict, pend, k + ".dict")
            if p:
                probs.append(p)
        else:
            if "value" not in v:
                probs.append("%s: value exported as stream" % k)
                continue
            p = cmp_value(t, v["value"], pend, k)
            if p:
                probs.append(p)
    return probs, pend


# ------------------------------------------------------------------ the run

def q(args, cwd=None, timeout=120):
    return common.run_qpdf(args, cwd=cwd, timeout=timeout)


def validate_json_files(cx, paths):
    """returns {path: (verdict by the extracted recogniser or None when too large, python verdict, value)}"""
    small = [p for p in paths if os.path.exists(p) and os.path.getsize(p) <= MAXSIZE]
    verd = dict(zip(small, cx.model(["jvalidf " + p for p in small])))
    out = {}
    for p in paths:
        if not os.path.exists(p):
            out[p] = ("missing", 2, None)
            continue
        pv, val = c14.strict_loads(open(p, "rb").read())
        out[p] = (verd.get(p), pv, val)
    return out


def run_cli(cx):
    chk, rng = cx.chk, cx.rng
    quick = cx.quick
    wd = common.workdir("C14")
    sp = Sp()
    texts = Texts(cx)
    # the schema printed by the binary under test
    schemas = {}
    for ver in (1, 2):
        rc, so, se = q(["--json-help=%d" % ver])
        pv, val = c14.strict_loads(so)
        if rc != 0 or pv != 0:
            cx.bad("cli-schema", {"argv": ["qpdf", "--json-help=%d" % ver]}, "--json-help does not print valid JSON", stderr=se.decode("latin-1")[-300:])
            return
        schemas[ver] = val
    docs = []
    ndocs = 10 if quick else 120
    for i in range(ndocs):
        d, plain, raw, sig = gen_doc(rng, i)
        data, _ = pdfgen.write_classic(d, sp=sp, with_id=(b"0123456789abcdef", b"fedcba9876543210"))
        p = os.path.join(wd, "g%d.pdf" % i)
        open(p, "wb").write(data)
        docs.append({"name": "g%d" % i, "path": p, "doc": d, "plain": plain, "raw": raw, "sig": "", "kind": "generated"})
    for j, cls in enumerate(sorted(DEFECT_CLASSES)):
        d, plain, raw, sig = gen_doc(rng, 1000 + j, defect=cls)
        data, _ = pdfgen.write_classic(d, sp=sp)
        p = os.path.join(wd, "defect-%s.pdf" % cls)
        open(p, "wb").write(data)
        docs.append({"name": "defect-" + cls, "path": p, "doc": d, "plain": plain, "raw": raw, "sig": sig, "kind": "defect-class:" + cls})
    for j in range(1 if quick else 6):
        d, plain, raw = stream_layer_doc(rng)
        data, _ = pdfgen.write_classic(d, sp=sp)
        p = os.path.join(wd, "streams%d.pdf" % j)
        open(p, "wb").write(data)
        docs.append({"name": "streams%d" % j, "path": p, "doc": d, "plain": plain, "raw": raw, "sig": "", "kind": "generated-stream-layer"})
    # corpus: small files of the repository test suite
    cdir = os.path.join(common.REPO, "qpdf", "qtest", "qpdf")
    cfiles = sorted(f for f in os.listdir(cdir) if f.endswith(".pdf") and os.path.getsize(os.path.join(cdir, f)) <= 40000)
    for f in rng.sample(cfiles, 12 if quick else min(len(cfiles), 250)):
        docs.append({"name": f, "path": os.path.join(cdir, f), "doc": None, "sig": "", "kind": "corpus"})

    # ---------------- jobs of kind A: --json-output
    jobs = []
    for dd in docs:
        combos = [(sd, dl) for sd in SD for dl in DL]
        if (quick or dd["kind"] == "corpus") and dd["kind"] != "generated-stream-layer":
            combos = rng.sample(combos, 3 if dd["kind"] != "corpus" else 1)
            if dd["kind"] == "generated" and ("inline", "none") not in combos:
                combos.append(("inline", "none"))
        for sd, dl in combos:
            subsets = [None]
            if dd["doc"] is not None and dd["kind"] != "generated-stream-layer":
                nums = sorted(dd["doc"].objects)
                streams = [n for n in nums if isinstance(dd["doc"].objects[n], Stream)]
                allsub = [["%d" % (max(nums) + 7)], ["trailer"], ["%d" % n for n in streams], ["%d" % n for n in rng.sample(nums, 3)] + ["trailer"],
                          ["%d,0" % nums[0], "%d" % (max(nums) + 1)]]
                subsets += allsub if not quick else rng.sample(allsub, 2)
            for sub in subsets:
                jobs.append((dd, sd, dl, sub))

    def run_a(i):
        dd, sd, dl, sub = jobs[i]
        out = os.path.join(wd, "a%d.json" % i)
        prefix = "a%d-data" % i
        args = ["--json-output", "--json-stream-data=" + sd, "--decode-level=" + dl]
        if sd == "file":
            args.append("--json-stream-prefix=" + prefix)
        for s in (sub or []):
            args.append("--json-object=" + s)
        rc, so, se = q(args + [dd["path"], out], cwd=wd)
        return rc, se, out, prefix, ["qpdf"] + args + [dd["path"], "out.json"]
    res = common.par_map(run_a, range(len(jobs)))
    vals = validate_json_files(cx, [r[2] for r in res if r[0] in (0, 3)])

    # reference export per document: stream data none, where writeStreamJSON copies the dictionary as it is
    def run_ref(dd):
        out = os.path.join(wd, "ref-%s.json" % re.sub(r"[^A-Za-z0-9]", "_", dd["name"]))
        rc, so, se = q(["--json-output", "--json-stream-data=none", "--decode-level=none", dd["path"], out], cwd=wd)
        if rc not in (0, 3):
            return None
        pv, val = c14.strict_loads(open(out, "rb").read())
        return val["qpdf"][1] if pv == 0 else None
    refs = dict(zip([dd["name"] for dd in docs], common.par_map(run_ref, docs)))
    nontriv = set()
    kinds = {}
    pend_all = []
    roundtrip = []
    for i, (rc, se, out, prefix, argv) in enumerate(res):
        dd, sd, dl, sub = jobs[i]
        case = {"input": dd["path"], "input_kind": dd["kind"], "argv": argv, "qpdf_exit": rc}
        if rc not in (0, 3):
            if dd["kind"] != "corpus":
                cx.bad("cli-json-output", case, "qpdf failed on a readable generated document: " + se.decode("latin-1")[-300:], signature=dd["sig"])
            continue
        ev, pv, val = vals[out]
        kinds[dd["kind"].split(":")[0]] = kinds.get(dd["kind"].split(":")[0], 0) + 1
        if ev is not None and ev != str(pv):
            cx.tie("spec-vs-python", dict(case, file=out), "python=%s" % pv, "json_verdict=%s" % ev)
        if pv != 0 or (ev is not None and ev != "0"):
            cx.bad("cli-json-output", case, "output is not strictly valid UTF-8 JSON (%s)" % {1: "not UTF-8", 2: "grammar / duplicate key"}.get(pv, ev),
                   signature=dd["sig"], head=open(out, "rb").read()[:300].decode("latin-1"))
            continue
        nontriv.add((dd["name"], sd, dl, tuple(sub or ())))
        errs = []
        if not (isinstance(val, dict) and set(val) == {"qpdf"}):
            errs.append("top-level keys %s, expected only qpdf" % (sorted(val) if isinstance(val, dict) else type(val)))
        else:
            schema_check(val["qpdf"], schemas[2]["qpdf"], "qpdf", errs)
            if not errs:
                errs += objects_layout(val["qpdf"][1], sd)
        if errs:
            cx.bad("cli-json-output", case, "output does not conform to the --json-help layout: " + "; ".join(errs[:3]), signature=dd["sig"])
            continue
        ref = refs.get(dd["name"])
        if ref is not None:
            for k, v in val["qpdf"][1].items():
                if "stream" not in v or "stream" not in ref.get(k, {}):
                    continue
                own = {kk: x for kk, x in ref[k]["stream"]["dict"].items() if kk != "/Length"}
                got = {kk: x for kk, x in v["stream"]["dict"].items() if kk != "/Length"}
                stripped = {kk: x for kk, x in own.items() if kk not in ("/Filter", "/DecodeParms")}
                if not (same_json_objects(got, own) or (dl != "none" and sd != "none" and same_json_objects(got, stripped))):
                    cx.bad("cli-json-output", case, "%s: the exported stream dictionary %s is not the document's own %s (decode level %s: "
                           "/Filter and /DecodeParms may only leave together with decoding)" % (k, json.dumps(got)[:200], json.dumps(own)[:200], dl), signature=dd["sig"])
                    break
        if dd["doc"] is not None:
            wanted = None
            if sub is not None:
                wanted = set()
                for s in sub:
                    wanted.add("trailer" if s == "trailer" else "obj:%s %s R" % (s.split(",")[0], s.split(",")[1] if "," in s else "0"))
            probs, pend = cmp_doc(dd["doc"], dd["plain"], dd["raw"], val["qpdf"][1], sd, dl, wanted, wd, prefix)
            for p in probs[:2]:
                cx.bad("cli-json-output", case, "exported objects differ from the document: " + p, signature=dd["sig"])
            pend_all += [(case, dd["sig"], a, b, c) for a, b, c in pend]
            if sub is None and sd != "none" and (not probs or dd["kind"] == "generated-stream-layer"):
                roundtrip.append((i, dd, sd, dl, out, val))
    # text strings: the exported text is the text the bytes denote (extracted text_of)
    tmap = texts.get([b for _, _, _, b, _ in pend_all])
    for case, sig, path, b, u in pend_all:
        want = tmap[b]
        got = "1 " + (",".join(str(ord(c)) for c in u) or "-")
        if want != got:
            cx.bad("cli-json-output", case, "%s: text form u:%r does not denote the text of the string %s (%s)" % (path, u[:40], b.hex()[:60], want[:80]), signature=sig)
    chk.count("cli-json-output", len(jobs), nontriv, samples=[{"argv": res[0][4], "exit": res[0][0]}])
    chk.cov["parts"]["cli-json-output"]["by_input_kind"] = kinds

    # ---------------- kind B: --json (v1 and v2) with --json-key subsets
    bjobs = []
    for dd in docs:
        if dd["kind"] == "corpus" and quick and rng.random() < 0.5:
            continue
        for ver in (1, 2):
            keys_all = V1_KEYS if ver == 1 else V2_KEYS
            choices = [None, rng.sample(keys_all, 1), rng.sample(keys_all, 3)]
            if ver == 2:
                choices.append(["pagelabels", "qpdf"])
            for keys in (choices if not quick else rng.sample(choices, 2)):
                bjobs.append((dd, ver, keys, rng.choice(SD[:2]), rng.choice([None, ["trailer"], ["1"], ["9999"]]) if keys is None or "qpdf" in keys or "objects" in keys else None))

    def run_b(i):
        dd, ver, keys, sd, sub = bjobs[i]
        args = ["--json=%d" % ver]
        for k in (keys or []):
            args.append("--json-key=" + k)
        if ver == 2:
            args.append("--json-stream-data=" + sd)
        for s in (sub or []):
            args.append("--json-object=" + s)
        rc, so, se = q(args + [dd["path"]], cwd=wd)
        p = os.path.join(wd, "b%d.json" % i)
        open(p, "wb").write(so)
        return rc, se, p, ["qpdf"] + args + [dd["path"]]
    bres = common.par_map(run_b, range(len(bjobs)))
    bvals = validate_json_files(cx, [r[2] for r in bres if r[0] in (0, 3)])
    nontriv = set()
    for i, (rc, se, p, argv) in enumerate(bres):
        dd, ver, keys, sd, sub = bjobs[i]
        case = {"input": dd["path"], "input_kind": dd["kind"], "argv": argv, "qpdf_exit": rc}
        if rc not in (0, 3):
            if dd["kind"] != "corpus":
                cx.bad("cli-json", case, "qpdf --json failed on a readable generated document: " + se.decode("latin-1")[-300:], signature=dd["sig"])
            continue
        ev, pv, val = bvals[p]
        if ev is not None and ev != str(pv):
            cx.tie("spec-vs-python", dict(case, file=p), "python=%s" % pv, "json_verdict=%s" % ev)
        if pv != 0 or (ev is not None and ev != "0"):
            cx.bad("cli-json", case, "--json output is not strictly valid UTF-8 JSON (%s)" % {1: "not UTF-8", 2: "grammar / duplicate key"}.get(pv, ev),
                   signature=dd["sig"], head=open(p, "rb").read()[:300].decode("latin-1"))
            continue
        nontriv.add((dd["name"], ver, tuple(keys or ())))
        errs = []
        want_top = set(keys) | {"version", "parameters"} if keys else None
        if keys and isinstance(val, dict) and set(val) != want_top:
            errs.append("top-level keys %s, expected %s" % (sorted(val), sorted(want_top)))
        sch = schemas[ver]
        if sub is not None and ver == 1:
            pass
        schema_check(val, sch, "", errs, optional_top=want_top if keys else None)
        if errs:
            cx.bad("cli-json", case, "--json output does not conform to --json-help=%d: %s" % (ver, "; ".join(errs[:3])), signature=dd["sig"])
    chk.count("cli-json", len(bjobs), nontriv, samples=[{"argv": bres[0][3], "exit": bres[0][0]}])

    # ---------------- kind C: --json-input round trip, generation 2 = generation 3; kind D: --update-from-json
    rt = roundtrip
    if quick:   # one round trip per generated / defect-class document (inline + decode level none first), a few corpus files
        seen, rt, ncorpus = set(), [], 0
        for t in sorted(roundtrip, key=lambda t: (t[2] != "inline", t[3] != "none")):
            dd = t[1]
            if dd["name"] in seen and dd["kind"] != "generated-stream-layer":     # the stream-layer document: every mode x level
                continue
            if dd["kind"] == "corpus":
                ncorpus += 1
                if ncorpus > 4:
                    continue
            seen.add(dd["name"])
            rt.append(t)

    def run_c(t):
        i, dd, sd, dl, out, val = t
        b = os.path.join(wd, "c%d.pdf" % i)
        g2 = os.path.join(wd, "c%d-g2.json" % i)
        g3 = os.path.join(wd, "c%d-g3.json" % i)
        r = {}
        # generation 2: JSON -> JSON keeps the object numbers; decode level none so that the data of generation 2 is what was imported
        r["in"] = q(["--json-input", "--json-output", "--json-stream-data=inline", "--decode-level=none", out, g2], cwd=wd)
        r["g2"] = r["in"]
        if r["in"][0] in (0, 3):
            r["g3"] = q(["--json-input", "--json-output", "--json-stream-data=inline", "--decode-level=none", g2, g3], cwd=wd)
            # JSON -> PDF -> JSON: the written file (renumbered by the writer) holds the same objects
            r["pdf"] = q(["--json-input", "--static-id", "--compress-streams=n", "--decode-level=none", out, b], cwd=wd)
            if r["pdf"][0] in (0, 3):
                r["pdfj"] = q(["--json-output", "--json-stream-data=inline", "--decode-level=none", b, b + ".json"], cwd=wd)
        # update-from-json with the document's own JSON leaves the document unchanged (in the same sense): a PDF can be written,
        # and the JSON of the updated in-memory document (same object numbers) equals generation 1 up to text normalisation
        ref = os.path.join(wd, "d%d-upd.json" % i)
        upd = os.path.join(wd, "d%d-upd.pdf" % i)
        r["upd"] = q(["--static-id", "--qdf", "--update-from-json=" + out, dd["path"], upd], cwd=wd)
        r["ref"] = q(["--update-from-json=" + out, "--json-output", "--json-stream-data=inline", "--decode-level=none", dd["path"], ref], cwd=wd)
        if dl == "none":
            # independent of generation 1: what --json-input / --update-from-json make of it, seen with stream data none, against the
            # document's own reference export (whole stream dictionaries, /Filter and /DecodeParms included)
            r["in_none"] = q(["--json-input", "--json-output", "--json-stream-data=none", "--decode-level=none", out, ref + ".in-none.json"], cwd=wd)
            r["upd_none"] = q(["--update-from-json=" + out, "--json-output", "--json-stream-data=none", "--decode-level=none", dd["path"], ref + ".upd-none.json"], cwd=wd)
        return r, b, g2, g3, ref, upd
    cres = common.par_map(run_c, rt)
    g2vals = validate_json_files(cx, [c[2] for c in cres if "g2" in c[0] and c[0]["g2"][0] in (0, 3)])
    nontriv = set()
    pend2 = []
    for t, (r, b, g2, g3, ref, upd) in zip(rt, cres):
        i, dd, sd, dl, out, val = t
        case = {"input": dd["path"], "input_kind": dd["kind"], "generation1": ["qpdf", "--json-output", "--json-stream-data=" + sd, "--decode-level=" + dl, dd["path"], "g1.json"]}
        if r["in"][0] not in (0, 3):
            cx.bad("cli-roundtrip", dict(case, argv=["qpdf", "--json-input", "g1.json", "out.pdf"], qpdf_exit=r["in"][0]),
                   "--json-input rejects qpdf's own JSON: " + r["in"][2].decode("latin-1")[-300:], signature=dd["sig"])
            continue
        if "g3" not in r or r["g2"][0] not in (0, 3) or r["g3"][0] not in (0, 3):
            cx.bad("cli-roundtrip", case, "exporting / re-importing the imported document fails: %s" % (r.get("g3", r.get("g2"))[2].decode("latin-1")[-300:]), signature=dd["sig"])
            continue
        ev, pv, v2 = g2vals[g2]
        if pv != 0 or (ev is not None and ev != "0"):
            cx.bad("cli-roundtrip", case, "generation 2 JSON is not valid", signature=dd["sig"])
            continue
        nontriv.add((dd["name"], sd, dl))
        if open(g2, "rb").read() != open(g3, "rb").read():
            cx.bad("cli-roundtrip", dict(case, generation2=g2, generation3=g3), "generation 2 and generation 3 differ: no byte-identical fixpoint after one generation", signature=dd["sig"])
        # same object numbers, values and stream bytes; a string exported in binary form keeps its bytes, one exported in text form
        # keeps its text (generation 2 may show it as u: or, after normalisation to PDFDoc, as b:)
        o1, o2 = val["qpdf"][1], v2["qpdf"][1]
        if set(o1) != set(o2):
            cx.bad("cli-roundtrip", case, "object set changes through --json-input: %s" % sorted(set(o1) ^ set(o2))[:5], signature=dd["sig"])
            continue
        for k in o1:
            a, bb = o1[k], o2[k]
            if "stream" in a:
                if "stream" not in bb:
                    cx.bad("cli-roundtrip", case, "%s: stream became a value" % k, signature=dd["sig"])
                    continue
                d1 = a["stream"]["dict"]
                d2 = {kk: x for kk, x in bb["stream"]["dict"].items() if kk != "/Length"}
                data1 = base64.b64decode(a["stream"]["data"]) if sd == "inline" else open(os.path.join(wd, a["stream"]["datafile"]), "rb").read()
                data2 = base64.b64decode(bb["stream"]["data"])
                if data1 != data2:
                    cx.bad("cli-roundtrip", case, "%s: stream bytes change through --json-input (%d -> %d bytes)" % (k, len(data1), len(data2)), signature=dd["sig"])
                p = cmp_gen(d1, d2, pend2, k + ".dict")
            else:
                p = cmp_gen(a.get("value"), bb.get("value"), pend2, k) if "value" in bb else "%s: value became a stream" % k
            if p:
                cx.bad("cli-roundtrip", case, "document read back from its JSON differs: " + p, signature=dd["sig"])
        pend2 = [(x if len(x) == 5 else (case, dd["sig"]) + tuple(x)) for x in pend2]
        # the PDF written from the JSON holds the same objects as generation 2 (up to the writer's renumbering)
        if "pdfj" not in r or r["pdfj"][0] not in (0, 3):
            cx.bad("cli-roundtrip", dict(case, argv=["qpdf", "--json-input", "g1.json", "out.pdf"]), "writing a PDF from qpdf's own JSON fails: %s" %
                   (r.get("pdfj", r.get("pdf", (0, b"", b"?")))[2].decode("latin-1")[-300:]), signature=dd["sig"])
        else:
            pvp, vp = c14.strict_loads(open(b + ".json", "rb").read())
            if pvp != 0:
                cx.bad("cli-roundtrip", case, "JSON of the PDF written from JSON is not valid", signature=dd["sig"])
            else:
                sh2 = sorted(shape(v) for kk, v in o2.items() if kk != "trailer")
                shp = sorted(shape(v) for kk, v in vp["qpdf"][1].items() if kk != "trailer")
                if sh2 != shp:
                    diff = [x for x in sh2 if x not in shp][:1] + [x for x in shp if x not in sh2][:1]
                    cx.bad("cli-roundtrip", dict(case, argv=["qpdf", "--json-input", "g1.json", "out.pdf"]),
                           "the PDF written from the JSON does not hold the objects of the JSON: %s" % " vs ".join(d[:200] for d in diff), signature=dd["sig"])
        # update-from-json with own JSON
        if r["upd"][0] not in (0, 3) or r["ref"][0] not in (0, 3):
            cx.bad("cli-update", dict(case, argv=["qpdf", "--update-from-json=g1.json", dd["path"], "out.pdf"]),
                   "--update-from-json with the document's own JSON fails: " + (r["upd"][2] + r["ref"][2]).decode("latin-1")[-300:], signature=dd["sig"])
        else:
            pvu, vu = c14.strict_loads(open(ref, "rb").read())
            if pvu != 0:
                cx.bad("cli-update", case, "JSON after --update-from-json is not valid", signature=dd["sig"])
            else:
                ou = vu["qpdf"][1]
                pl = []
                if set(ou) != set(o2):
                    cx.bad("cli-update", case, "--update-from-json with the document's own JSON changes the object set", signature=dd["sig"])
                else:
                    for k in o2:
                        # generation 2 is exactly what the own JSON denotes; the updated document must show the same
                        if shape(o2[k]) != shape(ou[k]) and json.dumps(o2[k], sort_keys=True) != json.dumps(ou[k], sort_keys=True):
                            cx.bad("cli-update", dict(case, argv=["qpdf", "--update-from-json=g1.json", dd["path"], "--json-output", "after.json"]),
                                   "--update-from-json with the document's own JSON changes %s: %s -> %s" % (k, json.dumps(o2[k])[:160], json.dumps(ou[k])[:160]), signature=dd["sig"])
                            break
        # the document after the round trip against the document itself (reference export, stream data none)
        own = refs.get(dd["name"])
        for key, what, part in (("in_none", "--json-input of the document's JSON yields", "cli-roundtrip"),
                                ("upd_none", "--update-from-json with the document's own JSON changes the document:", "cli-update")):
            if key not in r or own is None or r[key][0] not in (0, 3):
                continue
            pvn, vn = c14.strict_loads(open(ref + (".in-none.json" if key == "in_none" else ".upd-none.json"), "rb").read())
            if pvn != 0:
                continue
            on = vn["qpdf"][1]
            for k in own:
                if k not in on:
                    cx.bad(part, case, "%s no %s" % (what, k), signature=dd["sig"])
                    break
                a, bb = own[k], on[k]
                if "stream" in a and "stream" in bb:
                    pl = []
                    p = cmp_gen({kk: x for kk, x in a["stream"]["dict"].items() if kk != "/Length"},
                                {kk: x for kk, x in bb["stream"]["dict"].items() if kk != "/Length"}, pl, k + ".dict")
                    pend2 += [(case, dd["sig"]) + tuple(x) for x in pl]
                    if p:
                        cx.bad(part, dict(case, argv=["qpdf"] + (["--json-input", "g1.json"] if key == "in_none" else ["--update-from-json=g1.json", dd["path"]]) +
                                          ["--json-output", "--json-stream-data=none", "after.json"]),
                               "%s a different stream dictionary: %s" % (what, p), signature=dd["sig"])
                        break
    tmap = texts.get([b for _, _, _, b, _ in pend2])
    for case, sig, path, b, u in pend2:
        got = "1 " + (",".join(str(ord(c)) for c in u) or "-")
        if tmap[b] != got:
            cx.bad("cli-roundtrip", case, "%s: a string exported in text form u:%r comes back as bytes %s whose text is %s" % (path, u[:40], b.hex()[:60], tmap[b][:80]), signature=sig)
    chk.count("cli-roundtrip", 5 * len(rt), nontriv, samples=[{"input": rt[0][1]["name"], "stream_data": rt[0][2]}] if rt else [])

    # ---------------- kind E: edited subset changes exactly the edited object
    ejobs = []
    for t in rt:
        i, dd, sd, dl, out, val = t
        if dd["doc"] is None or sd != "inline" or dl != "none":
            continue
        objs = val["qpdf"][1]
        cands = [k for k, v in objs.items() if "value" in v and isinstance(v["value"], dict) and k != "trailer"]
        if not cands:
            continue
        k = rng.choice(sorted(cands))
        newv = dict(objs[k]["value"])
        newv["/EditedByC14"] = "u:changed \u20ac"
        edit = {"qpdf": [val["qpdf"][0], {k: {"value": newv}}]}
        ep = os.path.join(wd, "e%d-edit.json" % i)
        open(ep, "w").write(dump_json(edit))      # numbers keep the spelling qpdf wrote
        ejobs.append((i, dd, out, k, ep, val))

    def run_e(t):
        i, dd, out, k, ep, val = t
        j2 = os.path.join(wd, "e%d-after.json" % i)
        r1 = q(["--update-from-json=" + ep, "--json-output", "--json-stream-data=inline", "--decode-level=none", dd["path"], j2], cwd=wd)
        return r1, j2
    eres = common.par_map(run_e, ejobs)
    nontriv = set()
    pend3 = []
    for (i, dd, out, k, ep, val), (r1, j2) in zip(ejobs, eres):
        case = {"input": dd["path"], "edited_object": k, "argv": ["qpdf", "--update-from-json=edit.json", dd["path"], "--json-output", "after.json"], "edit": open(ep).read()[:400]}
        if r1[0] not in (0, 3):
            cx.bad("cli-update", case, "--update-from-json with an edited subset fails: " + r1[2].decode("latin-1")[-300:], signature=dd["sig"])
            continue
        pv, after = c14.strict_loads(open(j2, "rb").read())
        if pv != 0:
            cx.bad("cli-update", case, "JSON of the updated document is not valid", signature=dd["sig"])
            continue
        o1, o2 = val["qpdf"][1], after["qpdf"][1]
        if set(o1) != set(o2):
            cx.bad("cli-update", case, "an edited subset changed the object set", signature=dd["sig"])
            continue
        bad = [kk for kk in o1 if kk != k and json.dumps(o1[kk], sort_keys=True) != json.dumps(o2[kk], sort_keys=True)]
        if bad:
            cx.bad("cli-update", case, "an edited subset changed objects that were not edited: %s" % bad[:4], signature=dd["sig"])
            continue
        e2 = dict(o2[k].get("value", {}))
        if e2.pop("/EditedByC14", None) != "u:changed \u20ac":
            cx.bad("cli-update", case, "the edit is not visible in the edited object", signature=dd["sig"])
            continue
        pl = []
        p = cmp_gen(o1[k]["value"], e2, pl, k)
        if p:
            cx.bad("cli-update", case, "the edited object changed in more than the edit: " + p, signature=dd["sig"])
        pend3 += [(case, dd["sig"]) + tuple(x) for x in pl]
        nontriv.add((dd["name"], k))
    tmap = texts.get([b for _, _, _, b, _ in pend3])
    for case, sig, path, b, u in pend3:
        got = "1 " + (",".join(str(ord(c)) for c in u) or "-")
        if tmap[b] != got:
            cx.bad("cli-update", case, "%s: text of a string in the edited object changed" % path, signature=sig)
    chk.count("cli-update-subset", 2 * len(ejobs), nontriv, samples=[{"input": ejobs[0][1]["name"], "edited": ejobs[0][3]}] if ejobs else [])

    # ---------------- kind F: non-zero generations, several --json-object selections per run
    run_generations(cx, wd, sp)

    # ---------------- kind G: semantically equal JSON texts (member order, white space, number and string spellings) import alike
    import c14_import
    # one generated document rewritten with object streams: most of its objects are compressed objects, resolved lazily
    osdocs = []
    for dd in [dd for dd in docs if dd["kind"] == "generated"][:1 if quick else 4]:
        p = os.path.join(wd, dd["name"] + "-objstm.pdf")
        rc, so, se = q(["--static-id", "--object-streams=generate", dd["path"], p], cwd=wd)
        if rc in (0, 3):
            osdocs.append({"name": dd["name"] + "-objstm", "path": p, "doc": None, "sig": "", "kind": "generated-objstm"})
    # ... and one with enough objects for several object streams: those that hold no page-tree object are still unresolved
    # when --update-from-json runs
    for j in range(1 if quick else 3):
        d = pdfgen.page_doc(1, marker="M")
        many = [d.add({b"K": k, b"S": Str(b"object %d" % k), b"A": [k, Real("%d.5" % k)]}) for k in range(rng.choice([130, 180, 230]))]
        d.objects[1][b"ZMany"] = many      # sorts after /Pages: the page tree is numbered first and shares no object stream with the last of these
        data, _ = pdfgen.write_classic(d, sp=sp)
        p0 = os.path.join(wd, "many%d.pdf" % j)
        open(p0, "wb").write(data)
        p = os.path.join(wd, "many%d-objstm.pdf" % j)
        rc, so, se = q(["--static-id", "--object-streams=generate", p0, p], cwd=wd)
        if rc in (0, 3):
            osdocs.append({"name": "many%d-objstm" % j, "path": p, "doc": None, "sig": "", "kind": "generated-objstm"})
    vdocs = osdocs + [dd for dd in docs if dd["kind"] == "generated-stream-layer"][:1 if quick else 3] + \
            [dd for dd in docs if dd["kind"] == "generated"][:2 if quick else 20] + \
            [dd for dd in docs if dd["kind"] == "corpus"][:0 if quick else 40]
    c14_import.run_cli_variants(cx, vdocs, wd)


# ------------------------------------------------------------------ objects with non-zero generations, several --json-object per run

def write_generations(objs, trailer, sp):
    """classic file whose in-use xref entries carry the generations of objs: {(num, gen): object}; numbers are 1..N without gaps"""
    out = bytearray(b"%PDF-1.4\n%\xbf\xf7\xa2\xfe\n")
    offs = {}
    for (n, g) in sorted(objs):
        offs[n] = (len(out), g)
        out += pdfgen.ser_indirect(n, objs[(n, g)], sp, gen=g)
    size = max(n for n, _ in objs) + 1
    xref = len(out)
    out += b"xref\n0 %d\n0000000000 65535 f \n" % size
    for i in range(1, size):
        out += b"%010d %05d n \n" % offs[i]
    tr = dict(trailer)
    tr[b"Size"] = size
    out += b"trailer\n" + pdfgen.ser(tr, None, sp) + b"\nstartxref\n%d\n%%%%EOF\n" % xref
    return bytes(out)


def generations_doc(rng):
    g4, g6, g8, g9 = (rng.choice([1, 2, 3, 7, 65534]) for _ in range(4))
    content = b"BT /F1 12 Tf 72 720 Td (gen) Tj ET\n"
    objs = {
        (1, 0): D(Type=N("Catalog"), Pages=Ref(2), Extra=[Ref(5), Ref(6, g6), Ref(7), Ref(8, g8), Ref(9, g9)]),
        (2, 0): D(Type=N("Pages"), Kids=[Ref(3)], Count=1),
        (3, 0): D(Type=N("Page"), Parent=Ref(2), MediaBox=[0, 0, 612, 792], Resources={}, Contents=Ref(4, g4)),
        (4, g4): Stream({}, content),
        (5, 0): {b"K": Str(b"five"), b"Next": Ref(6, g6)},
        (6, g6): [1, 2, {b"Z": Ref(7)}],
        (7, 0): {b"K": N("seven"), b"Back": Ref(5)},
        (8, g8): {b"K": 8, b"S": Ref(9, g9)},
        (9, g9): Stream({b"Filter": N("FlateDecode"), b"K": 9}, flate(b"nine")),
    }
    return objs, {b"Root": Ref(1)}


def selection_args(objs, rng, quick):
    """argument lists for --json-object: every spelling (n | n,g | trailer), objects that do not exist under the default generation,
    all pairs, random longer lists, in varying order"""
    pool = ["trailer", "12", "12,3"]
    for (n, g) in sorted(objs):
        pool.append("%d,%d" % (n, g))
        pool.append("%d" % n)                      # generation 0 implied: selects the object only when its generation is 0
        if g != 0:
            pool.append("%d,0" % n)
    pool = sorted(set(pool))
    sels = [[a] for a in pool]
    pairs = [[a, b] for i, a in enumerate(pool) for b in pool[i + 1:]]
    if quick:
        # every pair that mixes an explicit non-zero generation with an implied one, a sample of the others
        mixed = [p for p in pairs if any("," in a and not a.endswith(",0") for a in p) and any("," not in a and a != "trailer" for a in p)]
        others = [p for p in pairs if p not in mixed]
        pairs = mixed[::2] + rng.sample(others, 25)
    for p in pairs:
        sels.append(p if rng.random() < 0.5 else p[::-1])
        if not quick:
            sels.append(p[::-1])
    for _ in range(25 if quick else 400):
        sels.append(rng.sample(pool, rng.choice([3, 3, 4, 6])))
    return sels


def expected_selection(objs, args):
    want = set()
    for a in args:
        if a == "trailer":
            want.add("trailer")
            continue
        n, _, g = a.partition(",")
        og = (int(n), int(g or 0))
        if og in objs:
            want.add("obj:%d %d R" % og)
    return want


def run_generations(cx, wd, sp):
    chk, rng, quick = cx.chk, cx.rng, cx.quick
    nontriv = set()
    total = 0
    for j in range(1 if quick else 5):
        objs, trailer = generations_doc(rng)
        path = os.path.join(wd, "gens%d.pdf" % j)
        open(path, "wb").write(write_generations(objs, trailer, sp))
        full_p = os.path.join(wd, "gens%d-full.json" % j)
        rc, so, se = q(["--json-output", "--json-stream-data=inline", "--decode-level=none", path, full_p], cwd=wd)
        base = {"input": path, "input_kind": "generated-generations"}
        pv, full = c14.strict_loads(open(full_p, "rb").read()) if rc in (0, 3) else (2, None)
        if pv != 0:
            cx.bad("cli-json-object", dict(base, argv=["qpdf", "--json-output", path, "out.json"], qpdf_exit=rc), "full export of a document with non-zero generations fails: " + se.decode("latin-1")[-300:])
            continue
        fobjs = full["qpdf"][1]
        want_all = set("obj:%d %d R" % og for og in objs) | {"trailer"}
        if set(fobjs) != want_all:
            cx.bad("cli-json-object", dict(base, argv=["qpdf", "--json-output", path, "out.json"]), "full export has objects %s, the document has %s" % (sorted(fobjs), sorted(want_all)))
            continue
        # ground truth of the values
        pend = []
        for og, t in objs.items():
            v = fobjs["obj:%d %d R" % og]
            if isinstance(t, Stream):
                p = cmp_value(t.d, {k: x for k, x in v.get("stream", {}).get("dict", {}).items()}, pend, "obj:%d %d R.dict" % og)
                if not p and base64.b64decode(v["stream"]["data"]) != t.data:
                    p = "obj:%d %d R: stream data differs" % og
            else:
                p = cmp_value(t, v.get("value"), pend, "obj:%d %d R" % og)
            if p:
                cx.bad("cli-json-object", dict(base, argv=["qpdf", "--json-output", path, "out.json"]), "exported objects differ from the document: " + p)
        sels = selection_args(objs, rng, quick)
        jobs = []
        for i, args in enumerate(sels):
            jobs.append((i, args, "output"))
            if i % 3 == 0:
                jobs.append((i, args, "json2"))
            if i % 3 == 1:
                jobs.append((i, args, "json1"))

        def run_sel(t):
            i, args, mode = t
            sel = ["--json-object=" + a for a in args]
            if mode == "output":
                out = os.path.join(wd, "gens%d-s%d.json" % (j, i))
                argv = ["--json-output", "--json-stream-data=inline", "--decode-level=none"] + sel + [path, out]
                rc, so, se = q(argv, cwd=wd)
                data = open(out, "rb").read() if rc in (0, 3) and os.path.exists(out) else b""
            elif mode == "json2":
                argv = ["--json=2", "--json-key=qpdf", "--json-stream-data=inline", "--decode-level=none"] + sel + [path]
                rc, data, se = q(argv, cwd=wd)
            else:
                argv = ["--json=1", "--json-key=objects", "--json-key=objectinfo"] + sel + [path]
                rc, data, se = q(argv, cwd=wd)
            return rc, data, se, ["qpdf"] + argv
        res = common.par_map(run_sel, jobs)
        total += len(jobs)
        good = []
        for (i, args, mode), (rc, data, se, argv) in zip(jobs, res):
            case = dict(base, argv=[("out.json" if a.endswith(".json") else a) for a in argv], qpdf_exit=rc, json_objects=args)
            pv, val = c14.strict_loads(data)
            if rc not in (0, 3) or pv != 0:
                cx.bad("cli-json-object", case, "qpdf fails or writes invalid JSON for this object selection: " + se.decode("latin-1")[-200:])
                continue
            want = expected_selection(objs, args)
            if mode == "json1":
                got = set(val.get("objects", {}))
                want1 = set(("trailer" if k == "trailer" else k[4:]) for k in want)
                goti = set(val.get("objectinfo", {}))
                if got != want1 or goti != want1 - {"trailer"}:
                    cx.bad("cli-json-object", case, "--json=1 contains objects %s / objectinfo %s, requested exactly %s" % (sorted(got), sorted(goti), sorted(want1)))
                continue
            got = val["qpdf"][1]
            if set(got) != want:
                cx.bad("cli-json-object", case, "the JSON contains %s, requested exactly %s" % (sorted(got), sorted(want)))
                continue
            diff = [k for k in got if not same_json_objects(got[k], fobjs[k])]
            if diff:
                cx.bad("cli-json-object", case, "selected objects differ from the full export: %s" % diff[:3])
                continue
            nontriv.add((j, tuple(args), mode))
            if mode == "output" and len(want) >= 2:
                good.append((i, args, val))
        # an edited subset reaches each selected object and changes exactly that object
        ejobs = []
        for i, args, val in (good if not quick else rng.sample(good, min(len(good), 8))):
            for k in sorted(val["qpdf"][1]):
                ejobs.append((i, args, val, k))

        def run_edit(t):
            i, args, val, k = t
            sub = {kk: vv for kk, vv in val["qpdf"][1].items()}
            v = sub[k]
            marker = "u:edited %s" % k
            if "stream" in v:
                st = dict(v["stream"]); st["dict"] = dict(st["dict"], **{"/EditedByC14": marker}); sub[k] = {"stream": st}
            elif isinstance(v.get("value"), dict):
                sub[k] = {"value": dict(v["value"], **{"/EditedByC14": marker})}
            else:
                sub[k] = {"value": [v.get("value"), marker]}
            ep = os.path.join(wd, "gens%d-e%d-%s.json" % (j, i, re.sub(r"[^0-9a-z]", "_", k)))
            open(ep, "w").write(dump_json({"qpdf": [val["qpdf"][0], sub]}))
            after = ep[:-5] + "-after.json"
            rc, so, se = q(["--update-from-json=" + ep, "--json-output", "--json-stream-data=inline", "--decode-level=none", path, after], cwd=wd)
            return rc, se, ep, after
        eres = common.par_map(run_edit, ejobs)
        total += len(ejobs)
        for (i, args, val, k), (rc, se, ep, after) in zip(ejobs, eres):
            case = dict(base, json_objects=args, edited_object=k, argv=["qpdf", "--update-from-json=edit.json", path, "--json-output", "after.json"], edit=open(ep).read()[:600])
            pv, av = c14.strict_loads(open(after, "rb").read()) if rc in (0, 3) and os.path.exists(after) else (2, None)
            if pv != 0:
                cx.bad("cli-json-object", case, "--update-from-json with an edited object subset fails: " + se.decode("latin-1")[-300:])
                continue
            aobjs = av["qpdf"][1]
            changed = sorted(kk for kk in set(aobjs) | set(fobjs) if not same_json_objects(aobjs.get(kk), fobjs.get(kk)))
            if changed != [k] or ("edited %s" % k) not in json.dumps(aobjs[k]):
                cx.bad("cli-json-object", case, "editing %s through the subset JSON changed %s" % (k, changed))
            else:
                nontriv.add((j, tuple(args), "edit", k))
    chk.count("cli-json-object", total, nontriv, samples=[{"json_objects": sorted(nontriv, key=str)[0][1] if nontriv else []}])


def cmp_gen(a, b, pend, path):
    """generation 1 value a against generation 2 value b (decoded JSON)"""
    if isinstance(a, str) and not isinstance(a, c14.Num):
        if a.startswith("u:") and isinstance(b, str):
            if b.startswith("u:"):
                return "" if a == b else "%s: text %r became %r" % (path, a[:60], b[:60])
            if b.startswith("b:"):
                try:
                    pend.append((path, bytes.fromhex(b[2:]), a[2:]))
                    return ""
                except ValueError:
                    pass
        return "" if a == b and type(a) == type(b) else "%s: %r became %r" % (path, a[:80], b if not isinstance(b, str) else b[:80])
    if isinstance(a, list):
        if not isinstance(b, list) or len(a) != len(b):
            return "%s: array changed" % path
        for j, (x, y) in enumerate(zip(a, b)):
            p = cmp_gen(x, y, pend, "%s[%d]" % (path, j))
            if p:
                return p
        return ""
    if isinstance(a, dict):
        if not isinstance(b, dict) or set(a) != set(b):
            return "%s: dictionary keys %r became %r" % (path, sorted(a), sorted(b) if isinstance(b, dict) else b)
        for k in a:
            p = cmp_gen(a[k], b[k], pend, path + k)
            if p:
                return p
        return ""
    return "" if a == b and type(a) == type(b) else "%s: %r became %r" % (path, a, b)


def dump_json(v):
    """serialise a value read by c14.strict_loads: numbers (c14.Num) are written with their original spelling"""
    if isinstance(v, c14.Num):
        return str(v)
    if isinstance(v, str):
        return json.dumps(v)
    if v is None:
        return "null"
    if v is True:
        return "true"
    if v is False:
        return "false"
    if isinstance(v, list):
        return "[" + ", ".join(dump_json(x) for x in v) + "]"
    if isinstance(v, dict):
        return "{" + ", ".join(json.dumps(k) + ": " + dump_json(x) for k, x in v.items()) + "}"
    raise TypeError(type(v))


def shape(v):
    """JSON of an object with the reference targets erased and the /Length of streams dropped (the writer renumbers)"""
    if isinstance(v, dict) and "stream" in v:
        st = dict(v["stream"])
        st["dict"] = {k: x for k, x in st["dict"].items() if k != "/Length"}
        v = {"stream": st}
    return re.sub(r'"\d+ \d+ R"', '"R"', json.dumps(v, sort_keys=True))


def same_json_objects(a, b):
    return json.dumps(a, sort_keys=True) == json.dumps(b, sort_keys=True)
