# Document equivalence up to the writer-owned details (DESIGN §5 C01): graph isomorphism between the
# objects reachable from two trailers, value equality of scalars, decoded-bytes equality of streams.
# Side A is the ground truth (generator document or strictly-read input), side B the strictly-read output.
import zlib
from fractions import Fraction
from pdfgen import Name, Ref, Str, Real, Stream

INHERITABLE = (b"Resources", b"MediaBox", b"CropBox", b"Rotate")
TRAILER_OWNED = {b"ID", b"Encrypt", b"Prev", b"Index", b"W", b"Length", b"Filter", b"DecodeParms", b"Type", b"XRefStm", b"Size"}
UNDECODABLE = {b"DCTDecode", b"JPXDecode", b"CCITTFaxDecode", b"JBIG2Decode", b"Crypt"}


# ---------------------------------------------------------------- stream decoding (harness-side reference decoders)

def _png_unpredict(data, colors, bpc, columns):
    bpp = max(1, (colors * bpc + 7) // 8)
    bpr = (colors * bpc * columns + 7) // 8
    out = bytearray()
    prev = bytearray(bpr)
    i = 0
    while i < len(data):
        ft = data[i]
        row = bytearray(data[i + 1:i + 1 + bpr])
        if len(row) < bpr:
            row += bytes(bpr - len(row))
        for k in range(bpr):
            a = row[k - bpp] if k >= bpp else 0
            b = prev[k]
            c = prev[k - bpp] if k >= bpp else 0
            if ft == 1:
                p = a
            elif ft == 2:
                p = b
            elif ft == 3:
                p = (a + b) // 2
            elif ft == 4:
                pp = a + b - c
                pa, pb, pc = abs(pp - a), abs(pp - b), abs(pp - c)
                p = a if (pa <= pb and pa <= pc) else (b if pb <= pc else c)
            else:
                p = 0
            row[k] = (row[k] + p) & 255
        out += row
        prev = row
        i += 1 + bpr
    return bytes(out)


def _tiff_unpredict(data, colors, bpc, columns):
    bpr = (colors * bpc * columns + 7) // 8
    out = bytearray()
    for r in range(0, len(data), bpr):
        row = data[r:r + bpr]
        if bpc == 8:
            o = bytearray(row)
            for k in range(colors, len(o)):
                o[k] = (o[k] + o[k - colors]) & 255
            out += o
        else:
            bits = int.from_bytes(row, "big")
            total = len(row) * 8
            vals = [(bits >> (total - (i + 1) * bpc)) & ((1 << bpc) - 1) for i in range(colors * columns) if (i + 1) * bpc <= total]
            for k in range(colors, len(vals)):
                vals[k] = (vals[k] + vals[k - colors]) & ((1 << bpc) - 1)
            acc = 0
            for v in vals:
                acc = (acc << bpc) | v
            acc <<= total - len(vals) * bpc
            out += acc.to_bytes(len(row), "big")
    return bytes(out)


def _lzw(data, early=1):
    out = bytearray()
    table = {}
    nxt = 258
    width = 9
    prev = None
    acc = 0
    nb = 0
    for byte in data:
        acc = (acc << 8) | byte
        nb += 8
        while nb >= width:
            code = (acc >> (nb - width)) & ((1 << width) - 1)
            nb -= width
            acc &= (1 << nb) - 1
            if code == 256:
                table = {}
                nxt = 258
                width = 9
                prev = None
                continue
            if code == 257:
                return bytes(out)
            if code < 256:
                entry = bytes([code])
            elif code in table:
                entry = table[code]
            elif prev is not None and code == nxt:
                entry = prev + prev[:1]
            else:
                raise ValueError("lzw")
            out += entry
            if prev is not None:
                table[nxt] = prev + entry[:1]
                nxt += 1
                if nxt + early in (512, 1024, 2048):
                    width += 1
            prev = entry
    return bytes(out)


def _a85(data):
    out = bytearray()
    grp = []
    i = 0
    while i < len(data):
        c = data[i]
        i += 1
        if c in b" \t\r\n\f\v\0":
            continue
        if c == ord("~"):
            break
        if c == ord("z") and not grp:
            out += b"\0\0\0\0"
            continue
        grp.append(c - 33)
        if len(grp) == 5:
            v = 0
            for g in grp:
                v = v * 85 + g
            out += (v & 0xffffffff).to_bytes(4, "big")
            grp = []
    if grp:
        n = len(grp)
        grp += [84] * (5 - n)
        v = 0
        for g in grp:
            v = v * 85 + g
        out += (v & 0xffffffff).to_bytes(4, "big")[:n - 1]
    return bytes(out)


def _ahx(data):
    hexd = bytearray()
    for c in data:
        if c == ord(">"):
            break
        if c in b" \t\r\n\f\v\0":
            continue
        hexd.append(c)
    if len(hexd) % 2:
        hexd += b"0"
    return bytes.fromhex(hexd.decode("ascii"))


def _rl(data):
    out = bytearray()
    i = 0
    while i < len(data):
        l = data[i]
        i += 1
        if l == 128:
            break
        if l < 128:
            out += data[i:i + l + 1]
            i += l + 1
        else:
            out += data[i:i + 1] * (257 - l)
            i += 1
    return bytes(out)


def resolve(objs, v):
    seen = 0
    while isinstance(v, Ref) and seen < 50:
        v = objs.get((v.n, v.g))
        seen += 1
    return v


def decode_stream(objs, s):
    """returns (data, remaining_filter_names) - decodes the prefix of the filter chain it knows"""
    d = s.d
    f = resolve(objs, d.get(b"Filter"))
    p = resolve(objs, d.get(b"DecodeParms"))
    if f is None:
        return s.data, []
    filters = f if isinstance(f, list) else [f]
    parms = p if isinstance(p, list) else [p] * len(filters) if not isinstance(p, list) and len(filters) == 1 else (p if isinstance(p, list) else [None] * len(filters))
    data = s.data
    for idx, fl in enumerate(filters):
        fl = resolve(objs, fl)
        name = fl.b if isinstance(fl, Name) else b"?"
        pm = resolve(objs, parms[idx]) if idx < len(parms) else None
        pm = pm if isinstance(pm, dict) else {}
        try:
            if name in (b"FlateDecode", b"Fl"):
                data = zlib.decompressobj().decompress(data)
            elif name in (b"LZWDecode", b"LZW"):
                ec = resolve(objs, pm.get(b"EarlyChange"))
                data = _lzw(data, 1 if ec is None else int(ec))
            elif name in (b"ASCII85Decode", b"A85"):
                data = _a85(data)
            elif name in (b"ASCIIHexDecode", b"AHx"):
                data = _ahx(data)
            elif name in (b"RunLengthDecode", b"RL"):
                data = _rl(data)
            else:
                return data, [resolve(objs, x).b if isinstance(resolve(objs, x), Name) else b"?" for x in filters[idx:]]
            if name in (b"FlateDecode", b"Fl", b"LZWDecode", b"LZW"):
                pred = resolve(objs, pm.get(b"Predictor")) or 1
                colors = resolve(objs, pm.get(b"Colors")) or 1
                bpc = resolve(objs, pm.get(b"BitsPerComponent")) or 8
                cols = resolve(objs, pm.get(b"Columns")) or 1
                if pred >= 10:
                    data = _png_unpredict(data, colors, bpc, cols)
                elif pred == 2:
                    data = _tiff_unpredict(data, colors, bpc, cols)
        except Exception:
            return None, [b"undecodable-" + name]
    return data, []


# ---------------------------------------------------------------- page-tree normal form (inherited attributes pushed down)

def push_down(objs, trailer):
    """returns a modified copy of objs in which inheritable attributes live on the page objects"""
    objs = dict(objs)
    root = resolve(objs, trailer.get(b"Root"))
    if not isinstance(root, dict):
        return objs
    seen = set()

    def walk(ref, inherited, depth):
        if not isinstance(ref, Ref) or (ref.n, ref.g) in seen or depth > 60:
            return
        seen.add((ref.n, ref.g))
        node = objs.get((ref.n, ref.g))
        if not isinstance(node, dict):
            return
        kids = resolve(objs, node.get(b"Kids"))
        is_pages = node.get(b"Type") == Name(b"Pages") or (isinstance(kids, list) and node.get(b"Type") != Name(b"Page"))
        if is_pages:
            inh = dict(inherited)
            newnode = dict(node)
            for k in INHERITABLE:
                if k in node and resolve(objs, node[k]) is not None:
                    inh[k] = node[k]
                    del newnode[k]
            objs[(ref.n, ref.g)] = newnode
            for kid in (kids or []):
                walk(kid, inh, depth + 1)
        else:
            newnode = dict(node)
            for k, v in inherited.items():
                if k not in newnode or resolve(objs, newnode[k]) is None:
                    newnode[k] = v
            objs[(ref.n, ref.g)] = newnode
    walk(root.get(b"Pages"), {}, 0)
    return objs


def page_content_streams(objs, trailer):
    out = set()
    root = resolve(objs, trailer.get(b"Root"))
    if not isinstance(root, dict):
        return out
    seen = set()

    def walk(ref, depth):
        if not isinstance(ref, Ref) or (ref.n, ref.g) in seen or depth > 60:
            return
        seen.add((ref.n, ref.g))
        node = objs.get((ref.n, ref.g))
        if not isinstance(node, dict):
            return
        kids = resolve(objs, node.get(b"Kids"))
        if isinstance(kids, list) and node.get(b"Type") != Name(b"Page"):
            for k in kids:
                walk(k, depth + 1)
        else:
            c = node.get(b"Contents")
            cr = resolve(objs, c)
            if isinstance(c, Ref) and isinstance(cr, Stream):
                out.add((c.n, c.g))
            elif isinstance(cr, list):
                for x in cr:
                    if isinstance(x, Ref):
                        out.add((x.n, x.g))
    walk(root.get(b"Pages"), 0)
    return out


# ---------------------------------------------------------------- isomorphism

class Mismatch(Exception):
    pass


class _Opaque:
    def __repr__(self):
        return "<encrypted, not decrypted here>"


OPAQUE = _Opaque()      # member of an encrypted object stream: not readable without the decryptor (C05)


def real_val(r):
    s = r.s
    try:
        return Fraction(s if s not in ("", ".", "+", "-") else "0")
    except Exception:
        return None


def iso(A, Atr, B, Btr, skip_content_of_B=(), skip_content_of_A=(), strings_opaque=False, max_nodes=200000):
    """raises Mismatch(why) unless the documents reachable from the trailers are equivalent.
    Returns the bijection {A og -> B og}."""
    a2b, b2a = {}, {}
    work = []
    count = [0]

    def is_null(objs, v):
        if v is None:
            return True
        if isinstance(v, Ref):
            t = objs.get((v.n, v.g), None)
            return t is None
        return False

    def cmp(va, vb, path):
        count[0] += 1
        if count[0] > max_nodes:
            return
        # null / dangling
        if is_null(A, va) or is_null(B, vb):
            if is_null(A, va) and is_null(B, vb):
                return
            raise Mismatch("%s: null on one side only (%r vs %r)" % (path, va, vb))
        if isinstance(va, Ref) and isinstance(vb, Ref):
            ka, kb = (va.n, va.g), (vb.n, vb.g)
            if ka in a2b or kb in b2a:
                if a2b.get(ka) != kb or b2a.get(kb) != ka:
                    raise Mismatch("%s: sharing differs (%r->%r but %r / %r)" % (path, ka, kb, a2b.get(ka), b2a.get(kb)))
                return
            a2b[ka] = kb
            b2a[kb] = ka
            if B[kb] is OPAQUE:
                return
            work.append((A[ka], B[kb], "%d %d R" % ka, ka, kb))
            return
        if vb is OPAQUE or (isinstance(vb, Ref) and B.get((vb.n, vb.g)) is OPAQUE):
            return
        if isinstance(va, Ref) or isinstance(vb, Ref):
            # directness is writer-owned for a few keys (/Extensions, pushed-down attributes, /Length ...): compare values
            return cmp(resolve(A, va), resolve(B, vb), path)
        if isinstance(va, bool) or isinstance(vb, bool):
            if va is not vb:
                raise Mismatch("%s: boolean %r vs %r" % (path, va, vb))
            return
        if isinstance(va, int) and isinstance(vb, int):
            if va != vb:
                raise Mismatch("%s: integer %r vs %r" % (path, va, vb))
            return
        if isinstance(va, (int, Real)) and isinstance(vb, (int, Real)):
            xa = Fraction(va) if isinstance(va, int) else real_val(va)
            xb = Fraction(vb) if isinstance(vb, int) else real_val(vb)
            if isinstance(va, int) != isinstance(vb, int) or xa != xb:
                raise Mismatch("%s: number %r vs %r" % (path, va, vb))
            return
        if type(va) != type(vb):
            raise Mismatch("%s: type %s vs %s (%r vs %r)" % (path, type(va).__name__, type(vb).__name__, va, vb))
        if isinstance(va, Name):
            if va.b != vb.b:
                raise Mismatch("%s: name %r vs %r" % (path, va.b, vb.b))
            return
        if isinstance(va, Str):
            if not strings_opaque and va.b != vb.b:
                raise Mismatch("%s: string %r vs %r" % (path, va.b, vb.b))
            return
        if isinstance(va, list):
            if len(va) != len(vb):
                raise Mismatch("%s: array length %d vs %d" % (path, len(va), len(vb)))
            for i, (x, y) in enumerate(zip(va, vb)):
                cmp(x, y, "%s[%d]" % (path, i))
            return
        if isinstance(va, dict):
            ka = {k for k, v in va.items() if not is_null(A, v)}
            kb = {k for k, v in vb.items() if not is_null(B, v)}
            if (kb ^ ka) == {b"Extensions"} and (vb.get(b"Type") == Name(b"Catalog") or va.get(b"Type") == Name(b"Catalog")):
                only = resolve(B if b"Extensions" in kb else A, (vb if b"Extensions" in kb else va)[b"Extensions"])
                if isinstance(only, dict) and set(only) <= {b"ADBE"}:
                    ka, kb = ka - {b"Extensions"}, kb - {b"Extensions"}       # /Extensions /ADBE is written by qpdf for 256-bit encryption (writer-owned)
            if path.endswith("/Extensions"):
                # the /ADBE extension level is writer-owned: added for 256-bit encryption, dropped when a version is forced
                ka, kb = ka - {b"ADBE"}, kb - {b"ADBE"}
            if ka != kb:
                raise Mismatch("%s: dictionary keys differ: only in input %r, only in output %r" % (path, sorted(ka - kb), sorted(kb - ka)))
            for k in sorted(ka):
                cmp(va[k], vb[k], "%s/%s" % (path, k.decode("latin-1")))
            return
        raise Mismatch("%s: unexpected %r" % (path, va))

    ta = {k: v for k, v in Atr.items() if k not in TRAILER_OWNED}
    tb = {k: v for k, v in Btr.items() if k not in TRAILER_OWNED}
    cmp(ta, tb, "trailer")
    while work:
        oa, ob, path, ka, kb = work.pop()
        if isinstance(oa, Stream) != isinstance(ob, Stream):
            raise Mismatch("%s: stream on one side only" % path)
        if isinstance(oa, Stream):
            da = {k: v for k, v in oa.d.items() if k not in (b"Length", b"Filter", b"DecodeParms")}
            db = {k: v for k, v in ob.d.items() if k not in (b"Length", b"Filter", b"DecodeParms")}
            cmp(da, db, path + "<dict>")
            if kb in skip_content_of_B or ka in skip_content_of_A or strings_opaque:
                continue
            xa, ra = decode_stream(A, oa)
            xb, rb = decode_stream(B, ob)
            if xa is None or xb is None:
                # not decodable by the harness on one side: require raw equality when both sides kept the chain
                if oa.data != ob.data and xa is None and xb is None:
                    raise Mismatch("%s: undecodable stream data changed" % path)
                continue
            if any(f in UNDECODABLE or f.startswith(b"undecodable") for f in ra + rb):
                if ra == rb and xa != xb:
                    raise Mismatch("%s: stream with %r: bytes differ" % (path, ra))
                continue
            if ra != rb or xa != xb:
                raise Mismatch("%s: stream decodes to different bytes (%d vs %d bytes, remaining filters %r vs %r)" % (path, len(xa), len(xb), ra, rb))
        else:
            cmp(oa, ob, path)
    return a2b
