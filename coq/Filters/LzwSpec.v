(* Reference LZW encoder, written from PDF 32000-1 7.4.4 (and TIFF 6.0 section 13):
   codes 0..255 literal bytes, 256 clear-table, 257 EOD, new entries from 258; codes are packed
   MSB first, 9 bits at the start, one more bit each time the table outgrows the width
   (EarlyChange = 1: one code early); the table is cleared before it would exceed 4096 entries.
   Not shared with the model of qpdf's decoder (Filters.v). *)
From QV Require Import Base.Bytes.
Local Open Scope N_scope.

(* table: association list ((prefix code, byte) -> code) *)
Definition lz_tab := list (N * N * N).
Fixpoint tab_find (t : lz_tab) (w c : N) : option N :=
  match t with
  | [] => None
  | (w', c', code) :: r => if (w' =? w) && (c' =? c) then Some code else tab_find r w c
  end.

(* width of the next code when k codes have been sent since the last clear *)
Definition lz_width (early : bool) (k : N) : N :=
  let top := 256 + k + (if early then 1 else 0) in
  9 + (if 511 <=? top then 1 else 0) + (if 1023 <=? top then 1 else 0) + (if 2047 <=? top then 1 else 0).

(* emitted codes with their widths, reversed *)
Fixpoint ref_lzw_codes (early : bool) (d : list N) (w : option N) (tab : lz_tab) (next : N) (k : N)
         (acc : list (N * N)) : list (N * N) :=
  match d with
  | [] => let acc1 := match w with
                      | None => acc
                      | Some wc => (wc, lz_width early k) :: acc
                      end in
          let k1 := match w with None => k | Some _ => k + 1 end in
          (257, lz_width early k1) :: acc1
  | c :: t =>
      match w with
      | None => ref_lzw_codes early t (Some c) tab next k acc
      | Some wc =>
          match tab_find tab wc c with
          | Some code => ref_lzw_codes early t (Some code) tab next k acc
          | None =>
              let acc1 := (wc, lz_width early k) :: acc in
              if 3838 <=? k + 1 then
                (* table would overflow: clear (at the current width) and start over *)
                ref_lzw_codes early t (Some c) [] 258 0 ((256, lz_width early (k + 1)) :: acc1)
              else ref_lzw_codes early t (Some c) ((wc, c, next) :: tab) (next + 1) (k + 1) acc1
          end
      end
  end.

(* MSB-first packing *)
Fixpoint pack_codes (codes : list (N * N)) (acc : N) (nbits : N) (out_rev : list N) (fuel : nat) : list N :=
  match codes with
  | [] => rev' (if nbits =? 0 then out_rev else ((acc * 2 ^ (8 - nbits)) mod 256) :: out_rev)
  | (code, width) :: r =>
      let acc' := acc * 2 ^ width + code in
      let nb := nbits + width in
      (* flush whole bytes: at most 2 per code since width <= 12 and nbits < 8 *)
      let '(acc1, nb1, out1) :=
        if 8 <=? nb then (acc' mod 2 ^ (nb - 8), nb - 8, (acc' / 2 ^ (nb - 8)) :: out_rev) else (acc', nb, out_rev) in
      let '(acc2, nb2, out2) :=
        if 8 <=? nb1 then (acc1 mod 2 ^ (nb1 - 8), nb1 - 8, (acc1 / 2 ^ (nb1 - 8)) :: out1) else (acc1, nb1, out1) in
      pack_codes r acc2 nb2 out2 fuel
  end.

Definition ref_lzw_encode (early : bool) (d : list N) : list N :=
  pack_codes ((256, 9) :: rev' (ref_lzw_codes early d None [] 258 0 [])) 0 0 [] 0.
