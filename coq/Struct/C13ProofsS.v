(* C13 extension - a safety invariant of the page model for ARBITRARY states: every dictionary anywhere in the object
   store is strictly sorted by key (in qpdf a dictionary is a std::map; the model keeps dictionaries sorted through
   pg_dins / pg_dset / pg_ddel).  Sorted dictionaries have distinct keys (pgs_nodup), which is what the renaming lemmas
   of the copier need.  sorted_store_invariant_lemma: every operation of the model keeps the invariant. *)
From Coq Require Import Sorted.
From QV Require Import Base.Bytes Struct.PgModel Struct.C13ProofsA Struct.C13ProofsB Struct.PgyModel.
Local Open Scope N_scope.

(* ------------------------------------------------------------------ the key order *)
Lemma pgs_cmp_antisym : forall a b, pg_key_cmp b a = CompOpp (pg_key_cmp a b).
Proof.
  induction a as [|x a IH]; destruct b as [|y b]; cbn [pg_key_cmp]; try reflexivity.
  rewrite (N.compare_antisym x y). destruct (x ?= y); cbn [CompOpp]; [apply IH|reflexivity|reflexivity].
Qed.

Lemma pgs_cmp_trans : forall a b c, pg_key_cmp a b = Lt -> pg_key_cmp b c = Lt -> pg_key_cmp a c = Lt.
Proof.
  induction a as [|x a IH]; destruct b as [|y b]; destruct c as [|z c]; cbn [pg_key_cmp]; try discriminate; try reflexivity.
  destruct (N.compare_spec x y) as [->|Hxy|Hxy]; destruct (N.compare_spec y z) as [->|Hyz|Hyz]; intros H1 H2;
    try discriminate; try reflexivity;
    first [ eapply IH; eassumption
          | match goal with |- context [?p ?= ?q] => rewrite (proj2 (N.compare_lt_iff p q)) by lia; reflexivity end ].
Qed.

Definition pgs_lt (a b : pg_key * pg_val) : Prop := pg_key_cmp (fst a) (fst b) = Lt.
Definition pgs_sd (d : pg_dict) : Prop := StronglySorted pgs_lt d.

Lemma pgs_nodup : forall d, pgs_sd d -> NoDup (map fst d).
Proof.
  induction d as [|[k v] t IH]; intros H; [constructor|]. inversion H as [|? ? Ht Hall]; subst. cbn [map fst]. constructor; [|apply IH, Ht].
  intros Hin. apply in_map_iff in Hin. destruct Hin as ([k' v'] & E & Hin'). cbn [fst] in E. subst k'.
  rewrite Forall_forall in Hall. specialize (Hall _ Hin'). unfold pgs_lt in Hall. cbn [fst] in Hall.
  rewrite (proj2 (pg_key_cmp_eq k k) eq_refl) in Hall. discriminate.
Qed.

Lemma pgs_dins_in : forall d k v kv, In kv (pg_dins d k v) -> kv = (k, v) \/ In kv d.
Proof.
  induction d as [|[k' v'] t IH]; intros k v kv H; cbn [pg_dins] in H.
  - destruct H as [<-|[]]. left. reflexivity.
  - destruct (pg_key_cmp k k').
    + destruct H as [<-|H]; [left; reflexivity|right; right; exact H].
    + destruct H as [<-|H]; [left; reflexivity|right; exact H].
    + destruct H as [<-|H]; [right; left; reflexivity|]. destruct (IH _ _ _ H) as [E|E]; [left; exact E|right; right; exact E].
Qed.

Lemma pgs_ddel_in : forall d k kv, In kv (pg_ddel d k) -> In kv d.
Proof.
  induction d as [|[k' v'] t IH]; intros k kv H; [exact H|]. cbn [pg_ddel] in H.
  destruct (pg_key_eqb k k'); [right; eapply IH; exact H|]. destruct H as [<-|H]; [left; reflexivity|right; eapply IH; exact H].
Qed.

Lemma pgs_sd_dins : forall d k v, pgs_sd d -> pgs_sd (pg_dins d k v).
Proof.
  induction d as [|[k' v'] t IH]; intros k v H; cbn [pg_dins]; [constructor; constructor|].
  inversion H as [|? ? Ht Hall]; subst. destruct (pg_key_cmp k k') eqn:E.
  - apply pg_key_cmp_eq in E. subst k'. constructor; [exact Ht|]. exact Hall.
  - constructor; [exact H|]. constructor; [exact E|]. eapply Forall_impl; [|exact Hall].
    intros a Ha. unfold pgs_lt in *. cbn [fst] in *. eapply pgs_cmp_trans; eassumption.
  - constructor; [apply IH, Ht|]. apply Forall_forall. intros x Hx. apply pgs_dins_in in Hx. destruct Hx as [->|Hx].
    + unfold pgs_lt. cbn [fst]. rewrite (pgs_cmp_antisym k k'), E. reflexivity.
    + rewrite Forall_forall in Hall. apply Hall, Hx.
Qed.

Lemma pgs_sd_ddel : forall d k, pgs_sd d -> pgs_sd (pg_ddel d k).
Proof.
  induction d as [|[k' v'] t IH]; intros k H; [exact H|]. inversion H as [|? ? Ht Hall]; subst. cbn [pg_ddel].
  destruct (pg_key_eqb k k'); [apply IH, Ht|]. constructor; [apply IH, Ht|].
  apply Forall_forall. intros x Hx. apply pgs_ddel_in in Hx. rewrite Forall_forall in Hall. apply Hall, Hx.
Qed.

Lemma pgs_sd_dset : forall d k v, pgs_sd d -> pgs_sd (pg_dset d k v).
Proof. intros d k v H. unfold pg_dset. destruct v; try (apply pgs_sd_dins, H). apply pgs_sd_ddel, H. Qed.

Lemma pgs_dset_in : forall d k v kv, In kv (pg_dset d k v) -> kv = (k, v) \/ In kv d.
Proof.
  intros d k v kv H. unfold pg_dset in H. destruct v; try (apply pgs_dins_in, H). right. eapply pgs_ddel_in, H.
Qed.

(* ------------------------------------------------------------------ hereditarily sorted values *)
Fixpoint pgs_val (v : pg_val) : Prop :=
  match v with
  | PvArr l => (fix all (l : list pg_val) : Prop := match l with [] => True | x :: t => pgs_val x /\ all t end) l
  | PvDict d => pgs_sd d /\
                (fix all (d : pg_dict) : Prop := match d with [] => True | (k, x) :: t => pgs_val x /\ all t end) d
  | _ => True
  end.

Definition pgs_vals (d : pg_dict) : Prop := Forall (fun kv : pg_key * pg_val => pgs_val (snd kv)) d.

Lemma pgs_val_arr_cons : forall x t, pgs_val (PvArr (x :: t)) = (pgs_val x /\ pgs_val (PvArr t)).
Proof. reflexivity. Qed.

Lemma pgs_val_arr : forall l, pgs_val (PvArr l) <-> Forall pgs_val l.
Proof.
  induction l as [|x t IH]; [split; intros; [constructor|exact I]|]. rewrite pgs_val_arr_cons. split.
  - intros [A B]. constructor; [exact A|apply IH, B].
  - intros H. inversion H; subst. split; [assumption|apply IH; assumption].
Qed.

Fixpoint pgs_vals_fix (d : pg_dict) : Prop := match d with [] => True | (k, x) :: t => pgs_val x /\ pgs_vals_fix t end.

Lemma pgs_val_dict_fix : forall d, pgs_val (PvDict d) = (pgs_sd d /\ pgs_vals_fix d).
Proof. reflexivity. Qed.

Lemma pgs_val_dict : forall d, pgs_val (PvDict d) <-> pgs_sd d /\ pgs_vals d.
Proof.
  intros d. rewrite pgs_val_dict_fix.
  assert (H : pgs_vals_fix d <-> pgs_vals d).
  { induction d as [|[k x] t IH]; [split; intros; [constructor|exact I]|]. cbn [pgs_vals_fix]. split.
    - intros [A B]. constructor; [exact A|apply IH, B].
    - intros H. inversion H; subst. split; [assumption|apply IH; assumption]. }
  split; intros [A B]; (split; [exact A|apply H, B]).
Qed.

Lemma pgs_dget : forall d k, pgs_val (PvDict d) -> pgs_val (pg_dget d k).
Proof.
  intros d k H. apply pgs_val_dict in H. destruct H as [_ H]. induction H as [|[k' v] t Hv Ht IH]; [exact I|].
  cbn [pg_dget]. destruct (pg_key_eqb k k'); [exact Hv|exact IH].
Qed.

Lemma pgs_val_dset : forall d k v, pgs_val (PvDict d) -> pgs_val v -> pgs_val (PvDict (pg_dset d k v)).
Proof.
  intros d k v H Hv. apply pgs_val_dict in H. destruct H as [A B]. apply pgs_val_dict. split; [apply pgs_sd_dset, A|].
  apply Forall_forall. intros x Hx. apply pgs_dset_in in Hx. destruct Hx as [->|Hx]; [exact Hv|].
  unfold pgs_vals in B. rewrite Forall_forall in B. apply B, Hx.
Qed.

Lemma pgs_val_ddel : forall d k, pgs_val (PvDict d) -> pgs_val (PvDict (pg_ddel d k)).
Proof.
  intros d k H. apply pgs_val_dict in H. destruct H as [A B]. apply pgs_val_dict. split; [apply pgs_sd_ddel, A|].
  apply Forall_forall. intros x Hx. apply pgs_ddel_in in Hx. unfold pgs_vals in B. rewrite Forall_forall in B. apply B, Hx.
Qed.

Lemma pgs_val_nil_dict : pgs_val (PvDict []).
Proof. split; [constructor|exact I]. Qed.

Lemma pgs_list_set : forall {A} (P : A -> Prop) l n x, Forall P l -> P x -> Forall P (pg_list_set l n x).
Proof.
  intros A P l. induction l as [|h t IH]; intros n x Hl Hx; [constructor|]. inversion Hl; subst.
  destruct n; cbn [pg_list_set]; constructor; auto.
Qed.
Lemma pgs_list_ins : forall {A} (P : A -> Prop) l n x, Forall P l -> P x -> Forall P (pg_list_ins l n x).
Proof.
  intros A P l n. revert l. induction n as [|n IH]; intros l x Hl Hx; destruct l as [|h t]; cbn [pg_list_ins];
    try (constructor; assumption). inversion Hl; subst. constructor; auto.
Qed.
Lemma pgs_list_del : forall {A} (P : A -> Prop) l n, Forall P l -> Forall P (pg_list_del l n).
Proof.
  intros A P l. induction l as [|h t IH]; intros n Hl; [constructor|]. inversion Hl; subst.
  destruct n; cbn [pg_list_del]; [assumption|constructor; auto].
Qed.

(* ------------------------------------------------------------------ stores *)
Definition pgs_cell (c : pg_cell) : Prop := match c with PcObj v => pgs_val v | PcStream d _ _ => pgs_val (PvDict d) end.
Definition pgs_store (s : pg_store) : Prop := forall j c, pg_lookup s j = Some c -> pgs_cell c.
Definition pgs_doc (p : pg_doc) : Prop := pgs_store (pd_store p).
Definition pgs_world (w : pg_world) : Prop := pgs_doc (fst w) /\ pgs_doc (snd w).
Definition pgs_href (h : pg_href) : Prop := match h with PhDirect v => pgs_val v | _ => True end.
Definition pgs_op (o : pg_op) : Prop :=
  match o with
  | PoAddPage _ h _ | PoHAddPage _ h _ | PoAddPageAt _ h _ _ => pgs_href h
  | PoReplace _ _ v | PoMakeIndirect _ v => pgs_val v
  | PoReplaceInd _ _ h => pgs_href h
  | _ => True
  end.

Lemma pgs_store_supd : forall s i c, pgs_store s -> pgs_cell c -> pgs_store (pg_supd s i c).
Proof.
  intros s i c Hs Hc j cj H. rewrite pg_lookup_supd in H. destruct (j =? i); [inversion H; subst; exact Hc|eapply Hs, H].
Qed.

Lemma pgs_store_cons : forall s i c, pgs_store s -> pgs_cell c -> pgs_store ((i, c) :: s).
Proof.
  intros s i c Hs Hc j cj H. cbn [pg_lookup] in H. destruct (j =? i); [inversion H; subst; exact Hc|eapply Hs, H].
Qed.

Lemma pgs_store_alloc : forall s c, pgs_store s -> pgs_cell c -> pgs_store (fst (pg_alloc s c)).
Proof. intros s c Hs Hc. unfold pg_alloc. cbn [fst]. apply pgs_store_cons; assumption. Qed.

Lemma pgs_rv : forall s v, pgs_store s -> pgs_val v -> pgs_val (pg_rv s v).
Proof.
  intros s v Hs Hv. unfold pg_rv. destruct v; try exact Hv. destruct (pg_lookup s i) as [[w|]|] eqn:E; try exact I. exact (Hs i _ E).
Qed.

Lemma pgs_hget : forall s h k, pgs_store s -> pgs_val h -> pgs_val (pg_hget s h k).
Proof.
  intros s h k Hs Hh. unfold pg_hget. pose proof (pgs_rv s h Hs Hh) as H. destruct (pg_rv s h); try exact I. apply pgs_dget, H.
Qed.

Lemma pgs_set_key : forall s i k v, pgs_store s -> pgs_val v -> pgs_store (pg_obj_set_key s i k v).
Proof.
  intros s i k v Hs Hv. unfold pg_obj_set_key. destruct (pg_lookup s i) as [[w|]|] eqn:E; try exact Hs. destruct w; try exact Hs.
  apply pgs_store_supd; [exact Hs|]. cbn [pgs_cell]. apply pgs_val_dset; [exact (Hs i _ E)|exact Hv].
Qed.

Lemma pgs_del_key : forall s i k, pgs_store s -> pgs_store (pg_obj_del_key s i k).
Proof.
  intros s i k Hs. unfold pg_obj_del_key. destruct (pg_lookup s i) as [[w|]|] eqn:E; try exact Hs. destruct w; try exact Hs.
  apply pgs_store_supd; [exact Hs|]. cbn [pgs_cell]. apply pgs_val_ddel. exact (Hs i _ E).
Qed.

Lemma pgs_kids_of : forall s i, pgs_store s -> Forall pgs_val (pg_kids_of s i).
Proof.
  intros s i Hs. unfold pg_kids_of. pose proof (pgs_hget s (PvRef i) pgk_Kids Hs I) as H.
  destruct (pg_hget s (PvRef i) pgk_Kids); try constructor. apply pgs_val_arr, H.
Qed.

Lemma pgs_set_kid : forall s node idx v, pgs_store s -> pgs_val v -> pgs_store (pg_set_kid s node idx v).
Proof.
  intros s node idx v Hs Hv. unfold pg_set_kid. apply pgs_set_key; [exact Hs|]. apply pgs_val_arr.
  apply pgs_list_set; [apply pgs_kids_of, Hs|exact Hv].
Qed.

(* ------------------------------------------------------------------ renaming *)
Fixpoint pgs_val_ind (P : pg_val -> Prop)
    (Hnull : P PvNull) (Hint : forall z, P (PvInt z)) (Hname : forall s, P (PvName s)) (Href : forall i, P (PvRef i))
    (Harr : forall l, Forall P l -> P (PvArr l))
    (Hdict : forall d, Forall (fun kv : pg_key * pg_val => P (snd kv)) d -> P (PvDict d))
    (v : pg_val) {struct v} : P v :=
  match v with
  | PvNull => Hnull
  | PvInt z => Hint z
  | PvName s => Hname s
  | PvRef i => Href i
  | PvArr l =>
      Harr l ((fix go (l : list pg_val) : Forall P l :=
                 match l with
                 | [] => Forall_nil P
                 | x :: t => Forall_cons x (pgs_val_ind P Hnull Hint Hname Href Harr Hdict x) (go t)
                 end) l)
  | PvDict d =>
      Hdict d ((fix go (d : list (pg_key * pg_val)) : Forall (fun kv : pg_key * pg_val => P (snd kv)) d :=
                  match d with
                  | [] => Forall_nil _
                  | kv :: t =>
                      Forall_cons kv
                        (match kv as kv0 return P (snd kv0) with
                         | (k, x) => pgs_val_ind P Hnull Hint Hname Href Harr Hdict x
                         end) (go t)
                  end) d)
  end.

Lemma pgs_rename_dict_cons : forall ss m k x t,
  pg_rename_dict ss m ((k, x) :: t) =
  if pg_is_null ss x then pg_rename_dict ss m t
  else match pg_rename ss m x with PvNull => pg_rename_dict ss m t | y => (k, y) :: pg_rename_dict ss m t end.
Proof.
  intros. unfold pg_rename_dict. cbn [pg_rename]. destruct (pg_is_null ss x); [reflexivity|].
  destruct (pg_rename ss m x); reflexivity.
Qed.

(* the renamed dictionary: an order-preserving selection of the entries, keys untouched *)
Lemma pgs_rename_dict_sd : forall ss m d, pgs_sd d -> pgs_sd (pg_rename_dict ss m d) /\
  (forall a, Forall (pgs_lt a) d -> Forall (pgs_lt a) (pg_rename_dict ss m d)).
Proof.
  intros ss m d. induction d as [|[k x] t IH]; intros H; [split; [constructor|intros a Ha; constructor]|].
  inversion H as [|? ? Ht Hall]; subst. destruct (IH Ht) as [IH1 IH2]. rewrite pgs_rename_dict_cons.
  assert (Hkeep : forall y, pgs_sd ((k, y) :: pg_rename_dict ss m t) /\
                            (forall a, Forall (pgs_lt a) ((k, x) :: t) -> Forall (pgs_lt a) ((k, y) :: pg_rename_dict ss m t))).
  { intros y. split.
    - constructor; [exact IH1|]. exact (IH2 (k, y) Hall).
    - intros a Ha. inversion Ha; subst. constructor; [assumption|apply IH2; assumption]. }
  assert (Hdrop : pgs_sd (pg_rename_dict ss m t) /\
                  (forall a, Forall (pgs_lt a) ((k, x) :: t) -> Forall (pgs_lt a) (pg_rename_dict ss m t))).
  { split; [exact IH1|]. intros a Ha. inversion Ha; subst. apply IH2; assumption. }
  destruct (pg_is_null ss x); [exact Hdrop|]. destruct (pg_rename ss m x); try apply Hkeep. exact Hdrop.
Qed.

Lemma pgs_rename : forall ss m v, pgs_val v -> pgs_val (pg_rename ss m v).
Proof.
  intros ss m v. induction v as [| z | s | i | l IH | d IH] using pgs_val_ind; intros H; try exact I.
  - cbn [pg_rename]. destruct (pg_omap_find m i); exact I.
  - cbn [pg_rename]. apply pgs_val_arr. apply pgs_val_arr in H. induction IH as [|x t Hx Ht IHt]; [constructor|].
    inversion H; subst. cbn [map]. constructor; [apply Hx; assumption|apply IHt; assumption].
  - apply pgs_val_dict in H. destruct H as [A B]. change (pg_rename ss m (PvDict d)) with (PvDict (pg_rename_dict ss m d)).
    apply pgs_val_dict. split; [apply pgs_rename_dict_sd, A|]. clear A.
    induction IH as [|[k x] t Hx Ht IHt]; [constructor|]. inversion B; subst. cbn [snd] in *. rewrite pgs_rename_dict_cons.
    destruct (pg_is_null ss x); [apply IHt; assumption|]. specialize (Hx H1). specialize (IHt H2).
    destruct (pg_rename ss m x); try (constructor; [exact Hx|exact IHt]). exact IHt.
Qed.

Lemma pgs_rename_dict : forall ss m d, pgs_val (PvDict d) -> pgs_val (PvDict (pg_rename_dict ss m d)).
Proof. intros ss m d H. exact (pgs_rename ss m (PvDict d) H). Qed.

Lemma pgs_fold_dset : forall (D : pg_dict) d0, pgs_val (PvDict d0) -> pgs_vals D ->
  pgs_val (PvDict (fold_left (fun acc (kv : pg_key * pg_val) => pg_dset acc (fst kv) (snd kv)) D d0)).
Proof.
  induction D as [|[k v] t IH]; intros d0 H0 HD; [exact H0|]. inversion HD; subst. cbn [fold_left fst snd].
  apply IH; [apply pgs_val_dset; assumption|assumption].
Qed.

(* ------------------------------------------------------------------ getAllPagesInternal *)
Lemma pgs_fold_inv : forall {A B} (P : A -> Prop) (f : A -> B -> A) (l : list B) (a : A),
  (forall a x, In x l -> P a -> P (f a x)) -> P a -> P (fold_left f l a).
Proof.
  intros A B P f l. induction l as [|x t IH]; intros a H Ha; [exact Ha|]. cbn [fold_left].
  apply IH; [intros a0 y Hy; apply H; right; exact Hy|apply H; [left; reflexivity|exact Ha]].
Qed.

Lemma pgs_if : forall (b : bool) s s', pgs_store s -> pgs_store s' -> pgs_store (if b then s else s').
Proof. intros b s s' H H'. destruct b; assumption. Qed.

Lemma pgs_letter : pgs_val pg_letter.
Proof. unfold pg_letter. apply pgs_val_arr. repeat constructor. Qed.

Lemma pgs_val_refs : forall l : list N, pgs_val (PvArr (map PvRef l)).
Proof. intros l. apply pgs_val_arr, Forall_forall. intros x Hx. apply in_map_iff in Hx. destruct Hx as (k & <- & _). exact I. Qed.

Lemma pgs_leaf : forall g node idx kid mb res, pgs_store (pgg_s g) -> pgs_store (pgg_s (pg_leaf g node idx kid mb res)).
Proof.
  intros g node idx kid mb res H. unfold pg_leaf.
  set (s0 := pgg_s g) in *.
  set (s1 := if negb mb && negb (pg_is_rect s0 (pg_hget s0 (PvRef kid) pgk_MediaBox)) then pg_obj_set_key s0 kid pgk_MediaBox pg_letter else s0).
  assert (H1 : pgs_store s1) by (unfold s1; apply pgs_if; [apply pgs_set_key; [exact H|apply pgs_letter]|exact H]).
  set (s2 := if negb res && negb (pg_is_dict s1 (pg_hget s1 (PvRef kid) pgk_Resources)) then pg_obj_set_key s1 kid pgk_Resources (PvDict []) else s1).
  assert (H2 : pgs_store s2) by (unfold s2; apply pgs_if; [apply pgs_set_key; [exact H1|apply pgs_val_nil_dict]|exact H1]).
  set (s3 := if negb (pg_is_null s2 (pg_hget s2 (PvRef kid) pgk_Annots)) && negb (pg_is_arr s2 (pg_hget s2 (PvRef kid) pgk_Annots))
             then pg_obj_del_key s2 kid pgk_Annots else s2).
  assert (H3 : pgs_store s3) by (unfold s3; apply pgs_if; [apply pgs_del_key, H2|exact H2]).
  cbv zeta. fold s1. fold s2. fold s3.
  destruct (pg_memN kid (pgg_seen g)); unfold pg_alloc; cbv beta iota zeta; cbn [pgg_s];
    apply pgs_if;
      repeat first [ exact H3 | exact I | apply pgs_set_kid | apply pgs_set_key | apply pgs_store_cons | apply pgs_rv ].
Qed.

Lemma pgs_gapi : forall fuel node level mb res g, pgs_store (pgg_s g) -> pgs_store (pgg_s (pg_gapi fuel node level mb res g)).
Proof.
  induction fuel as [|f IH]; intros node level mb res g H; cbn [pg_gapi]; [exact H|].
  destruct (Nat.ltb 100 (S level)); [exact H|]. destruct (pg_memN node (pgg_vis g)); [exact H|].
  set (s1 := if pg_is_dict_of_type (pgg_s g) (PvRef node) pgk_Pages then pgg_s g else pg_obj_set_key (pgg_s g) node pgk_Type (PvName pgk_Pages)).
  assert (H1 : pgs_store s1) by (unfold s1; apply pgs_if; [exact H|apply pgs_set_key; [exact H|exact I]]).
  cbv zeta. fold s1. destruct (pg_hget s1 (PvRef node) pgk_Kids); try exact H1.
  apply (pgs_fold_inv (fun g0 => pgs_store (pgg_s g0))); [|exact H1].
  intros g0 idx _ H0. destruct (pgg_err g0); [exact H0|].
  destruct (nth_error (pg_kids_of (pgg_s g0) node) idx) as [kv|] eqn:En; [|exact H0].
  destruct (negb (pg_is_dict (pgg_s g0) kv)); [exact H0|].
  assert (Hkv : pgs_val kv).
  { pose proof (pgs_kids_of (pgg_s g0) node H0) as Hk. rewrite Forall_forall in Hk. apply Hk. eapply nth_error_In, En. }
  match goal with |- context [let '(s1, kid) := ?X in _] => assert (Hp : pgs_store (fst X)); [|destruct X as [sx kid]] end.
  { destruct kv; try exact H0; unfold pg_alloc; cbv beta iota zeta; cbn [fst];
      (apply pgs_set_kid; [apply pgs_store_cons; [exact H0|exact Hkv]|exact I]). }
  cbn [fst] in Hp. destruct (pg_has_key sx (PvRef kid) pgk_Kids); [apply IH; exact Hp|apply pgs_leaf; exact Hp].
Qed.

(* ------------------------------------------------------------------ pushInheritedAttributesToPageInternal *)
Lemma pgs_pia : forall fuel cur ka s, pgs_store s -> (forall kv, In kv ka -> pgs_val (snd kv)) -> pgs_store (fst (pg_pia fuel cur ka s)).
Proof.
  induction fuel as [|f IH]; intros cur ka s Hs Hka; cbn [pg_pia]; [exact Hs|].
  match goal with |- context [fold_left ?F ?keys ?init] =>
    pose proof (pgs_fold_inv (fun st : pg_store * pg_ka => pgs_store (fst st) /\ (forall kv, In kv (snd st) -> pgs_val (snd kv))) F keys init) as H1;
    destruct (fold_left F keys init) as [s1 ka1] end.
  destruct H1 as [Hs1 Hka1]; [|split; assumption|].
  { intros [s0 ka0] key _ [H0 Hk0]. cbn [fst snd] in *. destruct (pg_is_inh key); [|split; assumption].
    assert (Hoh : pgs_val (pg_hget s0 (PvRef cur) key)) by (apply pgs_hget; [exact H0|exact I]).
    set (oh := pg_hget s0 (PvRef cur) key) in *.
    assert (Hpush : forall s' oh', pgs_store s' -> pgs_val oh' ->
              pgs_store (fst (pg_obj_del_key s' cur key, pg_ka_push ka0 key oh')) /\
              (forall kv, In kv (snd (pg_obj_del_key s' cur key, pg_ka_push ka0 key oh')) -> pgs_val (snd kv))).
    { intros s' oh' Hs' Ho'. cbn [fst snd]. split; [apply pgs_del_key, Hs'|]. intros kv Hin. unfold pg_ka_push in Hin.
      apply pgs_dins_in in Hin. destruct Hin as [->|Hin]; [exact Ho'|apply Hk0, Hin]. }
    destruct (pg_is_ref oh); [apply Hpush; assumption|]. destruct (pg_is_scalar oh); [apply Hpush; assumption|].
    unfold pg_alloc. cbv beta iota zeta. apply Hpush; [|exact I]. apply pgs_set_key; [apply pgs_store_cons; assumption|exact I]. }
  cbn [fst snd] in Hs1, Hka1.
  apply (pgs_fold_inv (fun st : pg_store * option pg_err => pgs_store (fst st))); [|exact Hs1].
  intros [s0 e0] idx _ H0. cbn [fst] in *. destruct e0; [exact H0|].
  destruct (nth_error _ idx) as [kid|]; [|exact H0].
  destruct (pg_is_dict_of_type s0 kid pgk_Pages).
  - destruct kid; try exact H0. apply IH; assumption.
  - destruct kid; try (destruct ka1; exact H0). cbn [fst].
    apply (pgs_fold_inv pgs_store); [|exact H0]. intros s2 kv Hin H2. destruct (pg_has_key s2 (PvRef i) (fst kv)); [exact H2|].
    apply pgs_set_key; [exact H2|apply Hka1, Hin].
Qed.

(* ------------------------------------------------------------------ cache / push / flatten *)
Lemma pgs_climb : forall fuel s pages seen changed, pgs_store s -> pgs_val pages -> pgs_val (fst (pg_climb fuel s pages seen changed)).
Proof.
  induction fuel as [|f IH]; intros s pages seen changed Hs Hp; cbn [pg_climb]; [exact Hp|].
  destruct (pg_is_dict s pages && pg_has_key s pages pgk_Parent); [|exact Hp].
  destruct pages; try (apply IH; [exact Hs|apply pgs_hget; assumption]).
  destruct (pg_memN i seen); [exact Hp|apply IH; [exact Hs|apply pgs_hget; assumption]].
Qed.

Lemma pgs_root_pages : forall p, pgs_doc p -> pgs_val (pg_root_pages p).
Proof. intros p H. unfold pg_root_pages. apply pgs_hget; [exact H|exact I]. Qed.

Lemma pgs_cache_core : forall p, pgs_doc p -> pgs_doc (fst (fst (pg_cache_core p))).
Proof.
  intros p H. unfold pg_cache_core. destruct (_ && negb (pd_invalid p)); [|exact H].
  pose proof (pgs_climb (S (length (pd_store p))) (pd_store p) (pg_root_pages p) [] false H (pgs_root_pages p H)) as Hc.
  destruct (pg_climb _ _ _ _ _) as [pages changed]. cbn [fst] in Hc.
  set (s1 := if changed then pg_obj_set_key (pd_store p) (pd_root p) pgk_Pages pages else pd_store p).
  assert (H1 : pgs_store s1) by (unfold s1; apply pgs_if; [apply pgs_set_key; assumption|exact H]).
  cbv zeta. fold s1. destruct (negb (pg_has_key s1 pages pgk_Kids)); [exact H1|].
  destruct pages; try exact H1.
  pose proof (pgs_gapi 102 i 0 false false (mkPgGst s1 [] [] [] (pd_invalid (pd_with_store p s1)) None) H1) as Hg.
  destruct (pgg_err _); exact Hg.
Qed.

Lemma pgs_push_after_cache : forall p, pgs_doc p -> pgs_doc (fst (pg_push_after_cache p)).
Proof.
  intros p H. unfold pg_push_after_cache. destruct (pg_root_pages p); try exact H.
  pose proof (pgs_pia 110 i [] (pd_store p) H (fun kv (Hin : In kv []) => match Hin with end)) as Hp.
  destruct (pg_pia 110 i [] (pd_store p)) as [s e]. cbn [fst] in Hp. destruct e; exact Hp.
Qed.

Lemma pgs_flatten_tail : forall p, pgs_doc p -> pgs_doc (fst (pg_flatten_tail p)).
Proof.
  intros p H. unfold pg_flatten_tail. destruct (pg_root_pages p) as [| | |pn| |]; try exact H.
  match goal with |- context [fold_left ?F ?l ?init] =>
    pose proof (pgs_fold_inv (fun st : pg_store * list (N * Z) * option pg_err * Z => pgs_store (fst (fst (fst st)))) F l init) as H1;
    destruct (fold_left F l init) as [[[s m] e] i] end.
  cbn [fst] in H1. assert (Hs : pgs_store s).
  { apply H1; [|exact H]. intros [[[s0 m0] e0] i0] pg _ H0. cbn [fst] in *. destruct e0; [exact H0|].
    destruct (pg_pos_find m0 pg); [exact H0|]. cbn [fst]. apply pgs_set_key; [exact H0|exact I]. }
  clear H1. destruct e; [exact Hs|].
  cbn [pd_all pd_with_pos pd_with_store pd_store pd_invalid].
  set (s2 := pg_obj_set_key s pn pgk_Kids (PvArr (map PvRef (pd_all p)))).
  assert (H2 : pgs_store s2) by (apply pgs_set_key; [exact Hs|apply pgs_val_refs]).
  destruct (pg_uint s2 _); [|exact H2]. destruct (_ =? _)%Z; [exact H2|]. destruct (_ && _); [|exact H2].
  unfold pgs_doc. cbn [pd_store pd_with_store]. apply pgs_set_key; [exact H2|exact I].
Qed.

Section PgsWithCache.
  Context (cachef : pg_doc -> pg_doc * option pg_err) (Hc : forall q, pgs_doc q -> pgs_doc (fst (cachef q))).

  Lemma pgs_push_gen : forall p b, pgs_doc p -> pgs_doc (fst (pg_push_gen cachef p b)).
  Proof.
    intros p b H. unfold pg_push_gen. destruct (pd_pushed p && negb b); [exact H|].
    pose proof (Hc p H) as H1. destruct (cachef p) as [p1 e]. cbn [fst] in H1. destruct e; [exact H1|apply pgs_push_after_cache, H1].
  Qed.

  Lemma pgs_flatten_gen : forall p, pgs_doc p -> pgs_doc (fst (pg_flatten_gen cachef p)).
  Proof.
    intros p H. unfold pg_flatten_gen. destruct (pd_pos p); [|exact H].
    pose proof (pgs_push_gen p true H) as H1. destruct (pg_push_gen cachef p true) as [p1 e]. cbn [fst] in H1.
    destruct e; [exact H1|apply pgs_flatten_tail, H1].
  Qed.
End PgsWithCache.

Lemma pgs_cache : forall p, pgs_doc p -> pgs_doc (fst (pg_cache p)).
Proof.
  intros p H. unfold pg_cache. pose proof (pgs_cache_core p H) as H1. destruct (pg_cache_core p) as [[p1 e] need]. cbn [fst] in H1.
  destruct e; [exact H1|]. destruct need; [|exact H1].
  pose proof (pgs_flatten_gen (fun q => (q, None)) (fun q Hq => Hq) p1 H1) as H2.
  destruct (pg_flatten_gen _ p1) as [p2 e2]. cbn [fst] in H2. destruct e2; exact H2.
Qed.

Lemma pgs_all : forall p, pgs_doc p -> pgs_doc (fst (pg_all p)).
Proof. intros p H. unfold pg_all. destruct (pd_all p); [apply pgs_cache, H|exact H]. Qed.

Lemma pgs_push : forall p b, pgs_doc p -> pgs_doc (fst (pg_push p b)).
Proof. intros p b H. unfold pg_push. apply pgs_push_gen; [exact pgs_cache|exact H]. Qed.

Lemma pgs_flatten : forall p, pgs_doc p -> pgs_doc (fst (pg_flatten p)).
Proof. intros p H. unfold pg_flatten. apply pgs_flatten_gen; [exact pgs_cache|exact H]. Qed.

Lemma pgs_update_cache : forall p, pgs_doc p -> pgs_doc (fst (pg_update_cache p)).
Proof. intros p H. unfold pg_update_cache. apply pgs_cache. exact H. Qed.

Lemma pgs_find : forall p og, pgs_doc p -> pgs_doc (fst (fst (pg_find p og))).
Proof.
  intros p og H. unfold pg_find. pose proof (pgs_flatten p H) as H1. destruct (pg_flatten p) as [p1 e]. cbn [fst] in H1.
  destruct e; [exact H1|]. destruct (pg_pos_find (pd_pos p1) og); exact H1.
Qed.

(* ------------------------------------------------------------------ insert / erase on one document *)
Ltac pgs_fin :=
  unfold pgs_doc; cbn [fst snd pd_store pd_with_store pd_with_all pd_with_pos pd_with_pushed pd_with_invalid pd_with_omap pd_with_reg];
  try assumption.

Lemma pgs_rv_arr : forall s v l, pgs_store s -> pgs_val v -> pg_rv s v = PvArr l -> Forall pgs_val l.
Proof. intros s v l Hs Hv E. apply pgs_val_arr. rewrite <- E. apply pgs_rv; assumption. Qed.

Lemma pgs_insert_core : forall p ni pos, pgs_doc p -> pgs_doc (fst (pg_insert_core p ni pos)).
Proof.
  intros p ni pos H. unfold pg_insert_core. destruct (pg_root_pages p) as [| | |pn| |]; try exact H.
  set (s1 := pg_obj_set_key (pd_store p) ni pgk_Parent (PvRef pn)).
  assert (H1 : pgs_store s1) by (apply pgs_set_key; [exact H|exact I]).
  cbv zeta. fold s1. destruct (pg_rv s1 (pg_hget s1 (PvRef pn) pgk_Kids)) as [| | | |kids|] eqn:Ek; try (pgs_fin; fail).
  assert (Hk : Forall pgs_val kids) by (exact (pgs_rv_arr s1 _ kids H1 (pgs_hget s1 (PvRef pn) pgk_Kids H1 I) Ek)).
  assert (H3 : pgs_store (pg_obj_set_key (pg_obj_set_key s1 pn pgk_Kids (PvArr (pg_list_ins kids (Z.to_nat pos) (PvRef ni)))) pn pgk_Count
                            (PvInt (pg_len (pg_list_ins kids (Z.to_nat pos) (PvRef ni)))))).
  { apply pgs_set_key; [|exact I]. apply pgs_set_key; [exact H1|]. apply pgs_val_arr, pgs_list_ins; [exact Hk|exact I]. }
  destruct (pg_hget s1 (PvRef pn) pgk_Kids); try (pgs_fin; fail);
    (destruct (Nat.ltb (length kids) (Z.to_nat pos)); [pgs_fin|]; destruct (negb _); [pgs_fin|]; destruct (pg_pos_find _ ni); pgs_fin).
Qed.

Lemma pgs_insert_dup : forall p np, pgs_doc p -> pgs_doc (fst (fst (pg_insert_dup p np))).
Proof.
  intros p np H. unfold pg_insert_dup. destruct np; try exact H. destruct (pg_pos_find (pd_pos p) i); [|exact H].
  destruct (pg_lookup (pd_store p) i) as [[v|]|]; try exact H; unfold pg_alloc; pgs_fin;
    (apply pgs_store_cons; [exact H|apply pgs_rv; [exact H|exact I]]).
Qed.

Lemma pgs_insert_local : forall p np pos, pgs_doc p -> pgs_doc (fst (pg_insert_local p np pos)).
Proof.
  intros p np pos H. unfold pg_insert_local. destruct (_ || _); [exact H|].
  pose proof (pgs_insert_dup p np H) as H1. destruct (pg_insert_dup p np) as [[p1 e] np1]. cbn [fst] in H1.
  destruct e; [exact H1|]. destruct np1; try exact H1. apply pgs_insert_core, H1.
Qed.

Lemma pgs_erase_core : forall p og pos, pgs_doc p -> pgs_doc (fst (pg_erase_core p og pos)).
Proof.
  intros p og pos H. unfold pg_erase_core. destruct (pg_root_pages p) as [| | |pn| |]; try exact H.
  destruct (pg_hget (pd_store p) (PvRef pn) pgk_Kids) as [| | | |kids|] eqn:Ek; try exact H.
  assert (Hk : Forall pgs_val kids) by (apply pgs_val_arr; rewrite <- Ek; apply pgs_hget; [exact H|exact I]).
  cbv zeta. destruct (_ || _); pgs_fin;
    (apply pgs_set_key; [|exact I]; apply pgs_set_key; [exact H|]; apply pgs_val_arr, pgs_list_del, Hk).
Qed.

(* ------------------------------------------------------------------ the foreign-object copier *)
Definition pgs_Q (c : pg_cst) : Prop := pgs_doc (pgc_src c) /\ pgs_store (pgc_dst c).

Lemma pgs_Q_type_is : forall c h t, pgs_Q c -> pgs_Q (fst (pg_src_type_is c h t)).
Proof.
  intros c h t [A B]. unfold pg_src_type_is. destruct h; try (split; assumption).
  pose proof (pgs_all _ A) as H1. destruct (pg_all (pgc_src c)) as [src e]. cbn [fst] in H1.
  destruct e; (split; [exact H1|exact B]).
Qed.

Lemma pgs_Q_head : forall h top c, pgs_Q c -> pgs_Q (fst (pg_reserve_head h top c)).
Proof.
  intros h top c H. unfold pg_reserve_head. destruct h as [| | |og| |]; try exact H.
  destruct (pg_memN og (pgc_visiting c)); [exact H|].
  cbn [pgc_omap pgc_src pgc_dst pgc_visiting pgc_tocopy pgc_err].
  destruct (pg_omap_find (pgc_omap c) og) as [l|].
  - destruct top.
    + pose proof (pgs_Q_type_is (mkPgCst (pgc_src c) (pgc_dst c) (pgc_omap c) (og :: pgc_visiting c) (pgc_tocopy c) (pgc_err c))
                    (PvRef og) pgk_Page H) as H2.
      destruct (pg_src_type_is _ (PvRef og) pgk_Page) as [c2 isp]. cbn [fst] in H2.
      destruct (true && isp && pg_is_null (pgc_dst c2) (PvRef l)); exact H2.
    + exact H.
  - assert ((if pg_is_stream (pd_store (pgc_src c)) (PvRef og) then pg_alloc (pgc_dst c) (PcStream [] [] 0) else pg_alloc (pgc_dst c) (PcObj PvNull))
            = ((pg_next_id (pgc_dst c), if pg_is_stream (pd_store (pgc_src c)) (PvRef og) then PcStream [] [] 0 else PcObj PvNull) :: pgc_dst c,
               pg_next_id (pgc_dst c))) as -> by (destruct (pg_is_stream _ _); reflexivity).
    cbv iota beta.
    assert (H1 : forall v t e, pgs_Q (mkPgCst (pgc_src c)
               ((pg_next_id (pgc_dst c), if pg_is_stream (pd_store (pgc_src c)) (PvRef og) then PcStream [] [] 0 else PcObj PvNull) :: pgc_dst c)
               ((og, pg_next_id (pgc_dst c)) :: pgc_omap c) v t e)).
    { intros v t e. destruct H as [A B]. split; [exact A|]. cbn [pgc_dst]. apply pgs_store_cons; [exact B|].
      destruct (pg_is_stream _ _); [exact pgs_val_nil_dict|exact I]. }
    destruct top.
    + apply H1.
    + match goal with |- context [pg_src_type_is ?c1 (PvRef og) pgk_Page] =>
        pose proof (pgs_Q_type_is c1 (PvRef og) pgk_Page (H1 _ _ _)) as H2;
        destruct (pg_src_type_is c1 (PvRef og) pgk_Page) as [c2 isp] end.
      cbn [fst] in H2. destruct (negb false && isp); exact H2.
Qed.

Lemma pgs_Q_kids : forall rec h c, (forall x c, pgs_Q c -> pgs_Q (rec x c)) -> pgs_Q c -> pgs_Q (pg_reserve_kids rec h c).
Proof.
  intros rec h c Hrec W. unfold pg_reserve_kids.
  assert (Hd : forall d c0, pgs_Q c0 -> pgs_Q (fold_left (fun c1 (kv : pg_key * pg_val) => if pg_is_null (pd_store (pgc_src c1)) (snd kv) then c1 else rec (snd kv) c1) d c0)).
  { intros d c0. apply pgs_fold_inv. intros c1 kv _ W1. destruct (pg_is_null _ _); [exact W1 | apply Hrec, W1]. }
  assert (Ha : forall l c0, pgs_Q c0 -> pgs_Q (fold_left (fun c1 x => rec x c1) l c0)).
  { intros l c0. apply pgs_fold_inv. intros c1 x _ W1. apply Hrec, W1. }
  destruct h as [| | |og|l|d]; try exact W; [|apply Ha, W|apply Hd, W].
  destruct (pg_lookup (pd_store (pgc_src c)) og) as [[v|d x k]|]; try exact W; [|apply Hd, W].
  destruct v; try exact W; [apply Ha, W|apply Hd, W].
Qed.

Lemma pgs_Q_reserve : forall fuel h top c, pgs_Q c -> pgs_Q (pg_reserve fuel h top c).
Proof.
  induction fuel as [|f IH]; intros h top c W; cbn [pg_reserve]; [exact W|].
  destruct (pgc_err c); [exact W|].
  pose proof (pgs_Q_type_is c h pgk_Pages W) as W1.
  destruct (pg_src_type_is c h pgk_Pages) as [c1 isp]. cbn [fst] in W1.
  destruct (pgc_err c1); [exact W1|]. destruct isp; [exact W1|].
  destruct (pg_is_selfref (pd_store (pgc_src c1)) h); [exact W1|].
  pose proof (pgs_Q_head h top c1 W1) as W2.
  destruct (pg_reserve_head h top c1) as [c2 go]. cbn [fst] in W2.
  destruct (pgc_err c2); [exact W2|]. destruct go; cbn [negb]; [|exact W2].
  pose proof (pgs_Q_kids (fun x c0 => pg_reserve f x false c0) h c2 (fun x c0 => IH x false c0) W2) as W3.
  destruct (pgc_err (pg_reserve_kids (fun x c0 => pg_reserve f x false c0) h c2)); [exact W3|].
  unfold pg_reserve_done. destruct h; exact W3.
Qed.
Local Opaque pg_reserve.

Lemma pgs_replace_step : forall src omap st og, pgs_doc src -> pgs_store (fst (fst st)) ->
  pgs_store (fst (fst (pg_replace_step src omap st og))).
Proof.
  intros src omap [[ds reg] e] og Hsrc Hds. unfold pg_replace_step. cbn [fst] in *. destruct e; [exact Hds|].
  destruct (pg_omap_find omap og) as [l|]; [|exact Hds].
  destruct (pg_lookup (pd_store src) og) as [[v|d data k]|] eqn:Es; cbn [fst]; try exact Hds.
  - destruct (pg_is_null ds (PvRef l)); cbn [fst]; [|exact Hds]. apply pgs_store_supd; [exact Hds|].
    cbn [pgs_cell]. apply pgs_rename. exact (Hsrc og _ Es).
  - apply pgs_store_supd; [exact Hds|]. cbn [pgs_cell]. apply pgs_fold_dset.
    + destruct (pg_lookup ds l) as [[w|d0 x0 k0]|] eqn:El; try exact pgs_val_nil_dict. exact (Hds l _ El).
    + pose proof (pgs_rename_dict (pd_store src) omap d (Hsrc og _ Es)) as Hr. apply pgs_val_dict in Hr. apply Hr.
Qed.

Lemma pgs_copied : forall src dst fid, pgs_doc src -> pgs_doc dst ->
  pgs_doc (fst (fst (fst (pg_copied src dst fid)))) /\ pgs_doc (snd (fst (fst (pg_copied src dst fid)))).
Proof.
  intros src dst fid Hs Hd. unfold pg_copied.
  pose proof (pgs_Q_reserve 200 (PvRef fid) true (mkPgCst src (pd_store dst) (pd_omap dst) [] [] None) (conj Hs Hd)) as [A B].
  set (c := pg_reserve 200 (PvRef fid) true (mkPgCst src (pd_store dst) (pd_omap dst) [] [] None)) in *. clearbody c.
  destruct (pgc_err c); [split; pgs_fin|].
  match goal with |- context [fold_left ?F ?l ?init] =>
    pose proof (pgs_fold_inv (fun st : pg_store * list (N * list N) * option pg_err => pgs_store (fst (fst st))) F l init) as H1;
    destruct (fold_left F l init) as [[ds reg] e] end.
  cbn [fst] in H1. assert (Hds : pgs_store ds).
  { apply H1; [|exact B]. intros st og _ H0. apply pgs_replace_step; assumption. }
  destruct e; [split; pgs_fin|]. destruct (pg_omap_find (pgc_omap c) fid); split; pgs_fin.
Qed.

(* ------------------------------------------------------------------ two documents *)
Lemma pgs_get : forall w d, pgs_world w -> pgs_doc (pg_get w d).
Proof. intros w d [A B]. unfold pg_get. destruct d; assumption. Qed.

Lemma pgs_put : forall w d p, pgs_world w -> pgs_doc p -> pgs_world (pg_put w d p).
Proof. intros w d p [A B] H. unfold pg_put. destruct d; split; cbn [fst snd]; assumption. Qed.

Lemma pgs_put_store : forall w d s, pgs_world w -> pgs_store s -> pgs_world (pg_put w d (pd_with_store (pg_get w d) s)).
Proof. intros w d s Hw Hs. apply pgs_put; [exact Hw|exact Hs]. Qed.

Lemma pgs_norm : forall w h, pgs_href h -> pgs_href (pg_norm w h).
Proof. intros w h H. unfold pg_norm. destruct h; [exact H|]. destruct (pg_lookup _ i); exact I. Qed.

Lemma pgs_erase : forall w d og, pgs_world w -> pgs_world (fst (pg_erase w d og)).
Proof.
  intros w d og Hw. unfold pg_erase. pose proof (pgs_find (pg_get w d) og (pgs_get w d Hw)) as H1.
  destruct (pg_find (pg_get w d) og) as [[p e] pos]. cbn [fst] in H1. destruct e; [apply pgs_put; assumption|].
  pose proof (pgs_erase_core p og pos H1) as H2. destruct (pg_erase_core p og pos) as [p2 e2]. apply pgs_put; assumption.
Qed.

Lemma pgs_insert : forall w d h pos, pgs_world w -> pgs_href h -> pgs_world (fst (pg_insert w d h pos)).
Proof.
  intros w d h pos Hw Hh. unfold pg_insert. destruct (negb (pg_insertable w d h)); [exact Hw|].
  pose proof (pgs_flatten (pg_get w d) (pgs_get w d Hw)) as H1. destruct (pg_flatten (pg_get w d)) as [p e]. cbn [fst] in H1.
  pose proof (pgs_put w d p Hw H1) as Hw1. set (w1 := pg_put w d p) in *. destruct e; [exact Hw1|].
  set (X := match pg_norm w1 h with
            | PhDirect v =>
                let '(s, i) := pg_alloc (pd_store (pg_get w1 d)) (PcObj v) in
                (pg_put w1 d (pd_with_store (pg_get w1 d) s), @None pg_err, PvRef i)
            | PhObj b i =>
                if Bool.eqb b d then (w1, None, PvRef i)
                else
                  let '(src, e) := pg_push (pg_get w1 b) false in
                  let w := pg_put w1 b src in
                  match e with
                  | Some _ => (w, e, PvNull)
                  | None =>
                      let '(src, dst, e, r) := pg_copied (pg_get w b) (pg_get w d) i in
                      (pg_put (pg_put w b src) d dst, e, r)
                  end
            end).
  assert (Hmid : pgs_world (fst (fst X))); [unfold X|destruct X as [[w2 e2] np]].
  { pose proof (pgs_norm w1 h Hh) as Hn. destruct (pg_norm w1 h) as [v|b i].
    - unfold pg_alloc. cbn [fst]. apply pgs_put_store; [exact Hw1|]. apply pgs_store_cons; [apply (pgs_get w1 d Hw1)|exact Hn].
    - destruct (Bool.eqb b d); [exact Hw1|].
      pose proof (pgs_push (pg_get w1 b) false (pgs_get w1 b Hw1)) as H2. destruct (pg_push (pg_get w1 b) false) as [src e]. cbn [fst] in H2.
      pose proof (pgs_put w1 b src Hw1 H2) as Hw2. destruct e; [exact Hw2|].
      destruct (pgs_copied (pg_get (pg_put w1 b src) b) (pg_get (pg_put w1 b src) d) i (pgs_get _ b Hw2) (pgs_get _ d Hw2)) as [A B].
      destruct (pg_copied _ _ i) as [[[src' dst'] e'] r]. cbn [fst snd] in *. apply pgs_put; [apply pgs_put; assumption|exact B]. }
  cbn [fst] in Hmid. destruct e2; [exact Hmid|].
  pose proof (pgs_insert_local (pg_get w2 d) np pos (pgs_get w2 d Hmid)) as H3.
  destruct (pg_insert_local (pg_get w2 d) np pos) as [p3 e3]. apply pgs_put; assumption.
Qed.

(* ------------------------------------------------------------------ every operation keeps every dictionary sorted *)
Lemma sorted_store_invariant_lemma : forall w o, pgs_world w -> pgs_op o -> pgs_world (fst (pg_step w o)).
Proof.
  intros w o Hw Ho. destruct o as [d h first|d h first|d h before r|d h|d i|d h|d i v|d i j|d|d|d|d i|d v|d i h|d i]; cbn [pgs_op] in Ho; cbn [pg_step].
  - (* addPage *)
    destruct first.
    + pose proof (pgs_insert w d h 0 Hw Ho) as H. destruct (pg_insert w d h 0). exact H.
    + destruct (pg_rv _ _); try exact Hw. pose proof (pgs_insert w d h z Hw Ho) as H. destruct (pg_insert w d h z). exact H.
  - destruct first.
    + pose proof (pgs_insert w d h 0 Hw Ho) as H. destruct (pg_insert w d h 0). exact H.
    + pose proof (pgs_all (pg_get w d) (pgs_get w d Hw)) as H1. destruct (pg_all (pg_get w d)) as [p e]. cbn [fst] in H1.
      pose proof (pgs_put w d p Hw H1) as Hw1. destruct e; [exact Hw1|].
      pose proof (pgs_insert (pg_put w d p) d h (pg_len (pd_all p)) Hw1 Ho) as H. destruct (pg_insert _ d h _). exact H.
  - destruct (pg_foreign_handle w d r); [exact Hw|].
    pose proof (pgs_find (pg_get w d) (pg_og_of w r) (pgs_get w d Hw)) as H1. destruct (pg_find _ _) as [[p e] pos]. cbn [fst] in H1.
    pose proof (pgs_put w d p Hw H1) as Hw1. destruct e; [exact Hw1|].
    match goal with |- context [pg_insert ?W d h ?z] => pose proof (pgs_insert W d h z Hw1 Ho) as H; destruct (pg_insert W d h z) end. exact H.
  - destruct (pg_foreign_handle w d h); [exact Hw|].
    pose proof (pgs_erase w d (pg_og_of w h) Hw) as H. destruct (pg_erase _ _ _). exact H.
  - destruct (pg_lookup (pd_store (pg_get w d)) i) as [[v|]|] eqn:E; try exact Hw. unfold pg_alloc. cbn [fst].
    apply pgs_put_store; [exact Hw|]. apply pgs_store_cons; [apply (pgs_get w d Hw)|exact (pgs_get w d Hw i _ E)].
  - destruct (pg_norm w h) as [v|b i]; [exact Hw|]. destruct (Bool.eqb b d); [exact Hw|].
    destruct (pgs_copied (pg_get w b) (pg_get w d) i (pgs_get w b Hw) (pgs_get w d Hw)) as [A B].
    destruct (pg_copied _ _ i) as [[[src' dst'] e'] r]. cbn [fst snd] in A, B.
    assert (pgs_world (pg_put (pg_put w b src') d dst')) by (apply pgs_put; [apply pgs_put; assumption|exact B]).
    destruct e'; assumption.
  - cbn [fst]. apply pgs_put_store; [exact Hw|]. apply pgs_store_supd; [apply (pgs_get w d Hw)|exact Ho].
  - destruct (pg_lookup (pd_store (pg_get w d)) i) as [ci|] eqn:Ei; [|exact Hw].
    destruct (pg_lookup (pd_store (pg_get w d)) j) as [cj|] eqn:Ej; [|exact Hw]. cbn [fst].
    apply pgs_put_store; [exact Hw|]. pose proof (pgs_get w d Hw) as Hd.
    apply pgs_store_supd; [apply pgs_store_supd; [exact Hd|exact (Hd j _ Ej)]|exact (Hd i _ Ei)].
  - pose proof (pgs_update_cache (pg_get w d) (pgs_get w d Hw)) as H. destruct (pg_update_cache _) as [p e]. apply pgs_put; assumption.
  - pose proof (pgs_push (pg_get w d) false (pgs_get w d Hw)) as H. destruct (pg_push _ false) as [p e]. apply pgs_put; assumption.
  - pose proof (pgs_all (pg_get w d) (pgs_get w d Hw)) as H. destruct (pg_all _) as [p e]. apply pgs_put; assumption.
  - pose proof (pgs_find (pg_get w d) i (pgs_get w d Hw)) as H. destruct (pg_find _ i) as [[p e] z]. apply pgs_put; assumption.
  - unfold pg_alloc. cbn [fst]. apply pgs_put_store; [exact Hw|]. apply pgs_store_cons; [apply (pgs_get w d Hw)|exact Ho].
  - pose proof (pgs_norm w h Ho) as Hn. destruct (pg_norm w h) as [v|b j].
    + cbn [fst]. apply pgs_put_store; [exact Hw|]. apply pgs_store_supd; [apply (pgs_get w d Hw)|exact Hn].
    + destruct (_ && _); [|exact Hw]. destruct (Bool.eqb b d); [|exact Hw]. cbn [fst].
      apply pgs_put_store; [exact Hw|]. apply pgs_store_supd; [apply (pgs_get w d Hw)|exact I].
  - unfold pg_alloc. cbn [fst]. apply pgs_put_store; [exact Hw|]. apply pgs_store_cons; [apply (pgs_get w d Hw)|exact I].
Qed.

(* ------------------------------------------------------------------ the in-place edits of Struct/PgyModel.v *)
Lemma pgs_apply : forall e v v', pgs_val v -> pgy_apply e v = Some v' -> pgs_val v'.
Proof.
  intros e v v' Hv H. destruct e as [k z|z|key z]; destruct v; try discriminate; cbn [pgy_apply] in H.
  - destruct (Nat.ltb k (length l)); [|discriminate]. inversion H; subst. apply pgs_val_arr, pgs_list_set; [apply pgs_val_arr, Hv|exact I].
  - inversion H; subst. apply pgs_val_arr, Forall_app. split; [apply pgs_val_arr, Hv|constructor; [exact I|constructor]].
  - injection H as <-. exact (pgs_val_dset l key (PvInt z) Hv I).
Qed.

Lemma pgs_edit_attr : forall s i attr e, pgs_store s -> pgs_store (fst (pgy_edit_attr s i attr e)).
Proof.
  intros s i attr e Hs. unfold pgy_edit_attr. destruct (pg_lookup s i) as [[v|]|] eqn:Ei; try exact Hs. destruct v as [| | | | |d]; try exact Hs.
  pose proof (Hs i _ Ei) as Hd. cbn [pgs_cell] in Hd. pose proof (pgs_dget d attr Hd) as Ha.
  assert (Hdirect : forall v, pgs_val v -> pgs_store (fst (match pgy_apply e v with
             | Some v' => (pg_supd s i (PcObj (PvDict (pg_dset d attr v'))), PrOk) | None => (s, PrDirect) end))).
  { intros v Hv. destruct (pgy_apply e v) as [v'|] eqn:Ea; [|exact Hs]. cbn [fst]. apply pgs_store_supd; [exact Hs|].
    cbn [pgs_cell]. apply pgs_val_dset; [exact Hd|eapply pgs_apply; eassumption]. }
  destruct (pg_dget d attr) eqn:Eg; try (apply Hdirect; exact Ha).
  destruct (pg_lookup s i0) as [[v|]|] eqn:Ej; try exact Hs.
  destruct (pgy_apply e v) as [v'|] eqn:Ea; [|exact Hs]. cbn [fst]. apply pgs_store_supd; [exact Hs|].
  cbn [pgs_cell]. eapply pgs_apply; [exact (Hs i0 _ Ej)|exact Ea].
Qed.

Lemma pgs_edit_kids : forall p e, pgs_doc p -> pgs_doc (fst (pgy_edit_kids p e)).
Proof.
  intros p e H. unfold pgy_edit_kids. destruct (pg_root_pages p) as [| | |pn| |]; try exact H.
  destruct (pg_hget (pd_store p) (PvRef pn) pgk_Kids) as [| | | |l|] eqn:Ek; try exact H.
  assert (Hl : Forall pgs_val l) by (apply pgs_val_arr; rewrite <- Ek; apply pgs_hget; [exact H|exact I]).
  destruct e as [a|a b].
  - destruct (Nat.ltb a (length l)); [|exact H]. pgs_fin. apply pgs_set_key; [exact H|]. apply pgs_val_arr, pgs_list_set; [exact Hl|exact I].
  - destruct (nth_error l a) as [x|] eqn:Ea; [|exact H]. destruct (nth_error l b) as [y|] eqn:Eb; [|exact H].
    rewrite Forall_forall in Hl. pose proof (Hl x (nth_error_In _ _ Ea)) as Hx. pose proof (Hl y (nth_error_In _ _ Eb)) as Hy.
    pgs_fin. apply pgs_set_key; [exact H|]. apply pgs_val_arr. apply pgs_list_set; [apply pgs_list_set; [apply Forall_forall, Hl|exact Hy]|exact Hx].
Qed.

Definition pgs_yop (o : pgy_op) : Prop := match o with PyBase o => pgs_op o | _ => True end.

Lemma pgs_ystep : forall w o, pgs_world w -> pgs_yop o -> pgs_world (fst (pgy_step w o)).
Proof.
  intros w o Hw Ho. destruct o as [o|d i attr e|d e]; cbn [pgy_step pgs_yop] in *.
  - apply sorted_store_invariant_lemma; assumption.
  - pose proof (pgs_edit_attr (pd_store (pg_get w d)) i attr e (pgs_get w d Hw)) as H.
    destruct (pgy_edit_attr _ i attr e) as [s r]. cbn [fst] in *. apply pgs_put_store; assumption.
  - pose proof (pgs_edit_kids (pg_get w d) e (pgs_get w d Hw)) as H. destruct (pgy_edit_kids _ e) as [p done]. cbn [fst] in *.
    apply pgs_put; assumption.
Qed.
