(* C19 - proofs. Part 2: the front-end models (Sys/JobFront.v) refine the specification (Sys/JobSpec.v) from either notation,
   hence agree with each other. Facts about the generated tables are computed (the domain is the table); everything about
   values, words and jobs is proved for all strings / all jobs by induction. *)
From Coq Require Import String.
From Coq Require Import List NArith Bool Lia.
From QV Require Import Base.Bytes Sys.JobTypes Sys.JobTableSpec Gen.JobTables Sys.JobFront Sys.JobSpec.
Import ListNotations.
Open Scope N_scope.

(* ------------------------------------------------------------------ reflection *)
Lemma bstr_eqb_refl : forall a, bstr_eqb a a = true.
Proof. induction a; simpl; auto. rewrite N.eqb_refl, IHa. reflexivity. Qed.

Lemma bstr_eqb_eq : forall a b, bstr_eqb a b = true -> a = b.
Proof.
  induction a; destruct b; simpl; intros H; try discriminate; auto.
  apply andb_true_iff in H. destruct H as [H1 H2]. apply N.eqb_eq in H1. subst. f_equal. auto.
Qed.

Lemma blist_eqb_eq : forall a b, blist_eqb a b = true -> a = b.
Proof.
  induction a; destruct b; simpl; intros H; try discriminate; auto.
  apply andb_true_iff in H. destruct H as [H1 H2]. apply bstr_eqb_eq in H1. subst. f_equal. auto.
Qed.

Lemma okind_eqb_eq : forall a b, okind_eqb a b = true -> a = b.
Proof. destruct a, b; simpl; intros; try discriminate; reflexivity. Qed.

Lemma otarget_eqb_eq : forall a b, otarget_eqb a b = true -> a = b.
Proof.
  destruct a, b; simpl; intros H; try discriminate.
  - apply andb_true_iff in H. destruct H as [H1 H2]. apply bstr_eqb_eq in H1. apply bstr_eqb_eq in H2. subst. reflexivity.
  - apply bstr_eqb_eq in H. subst. reflexivity.
Qed.

(* ------------------------------------------------------------------ words *)
Definition no_eq (f : bstr) : bool := negb (existsb (N.eqb 61) f).

Lemma no_eq_cons : forall a f, no_eq (a :: f) = true -> (a =? 61) = false /\ no_eq f = true.
Proof.
  intros a f H. unfold no_eq in *. cbn [existsb] in H. apply negb_true_iff in H. apply orb_false_iff in H.
  destruct H as [H1 H2]. split.
  - rewrite N.eqb_sym. exact H1.
  - apply negb_true_iff. exact H2.
Qed.

Lemma split_aux_none : forall f, no_eq f = true -> split_eq_from1_aux f = None.
Proof.
  induction f; cbn [split_eq_from1_aux]; intros H; auto.
  apply no_eq_cons in H. destruct H as [H1 H2]. rewrite H1. rewrite IHf; auto.
Qed.

Lemma split_aux_app : forall f v, no_eq f = true -> split_eq_from1_aux (f ++ 61 :: v) = Some (f, v).
Proof.
  induction f; intros v H.
  - cbn. reflexivity.
  - apply no_eq_cons in H. destruct H as [H1 H2]. cbn [app split_eq_from1_aux]. rewrite H1. rewrite IHf; auto.
Qed.

Lemma split_none : forall c f, no_eq (c :: f) = true -> split_eq_from1 (c :: f) = None.
Proof.
  intros c f H. apply no_eq_cons in H. destruct H as [_ H]. unfold split_eq_from1. rewrite split_aux_none; auto.
Qed.

Lemma split_app : forall c f v, no_eq (c :: f) = true -> split_eq_from1 ((c :: f) ++ 61 :: v) = Some (c :: f, v).
Proof.
  intros c f v H. apply no_eq_cons in H. destruct H as [_ H]. cbn [app split_eq_from1]. rewrite split_aux_app; auto.
Qed.

(* ------------------------------------------------------------------ table facts used by the argv side (computed per entry) *)
Definition aentry_same (a b : aentry) : bool :=
  bstr_eqb (ae_table a) (ae_table b) && bstr_eqb (ae_flag a) (ae_flag b) && okind_eqb (ae_kind a) (ae_kind b) &&
  blist_eqb (ae_choices a) (ae_choices b) && otarget_eqb (ae_target a) (ae_target b).

Lemma aentry_same_eq : forall a b, aentry_same a b = true -> a = b.
Proof.
  intros [t1 f1 k1 c1 g1] [t2 f2 k2 c2 g2]. unfold aentry_same. simpl. intros H.
  repeat (apply andb_true_iff in H; destruct H as [H ?]).
  apply bstr_eqb_eq in H. apply bstr_eqb_eq in H3. apply okind_eqb_eq in H2. apply blist_eqb_eq in H1. apply otarget_eqb_eq in H0.
  subst. reflexivity.
Qed.

Definition flag_ok (f : bstr) : bool :=
  negb (is_nil f) && negb (starts_with_dash f) && no_eq f && negb (is_help_only f).

Definition choices_shape (e : aentry) : bool :=
  match ae_kind e with KChoices | KOptChoices => negb (is_nil (ae_choices e)) | _ => is_nil (ae_choices e) end.

Definition argv_entry_ok (e : aentry) : bool :=
  flag_ok (ae_flag e) && choices_shape e &&
  match a_lookup (ae_table e) (ae_flag e) with Some e' => aentry_same e' e | None => false end &&
  match a_lookup B"help" (ae_flag e) with None => true | Some _ => false end.

Definition main_opt (e : aentry) : bool := main_scalar e || main_array e.

(* an option of any table that is bound to a Config method *)
Definition cfg_opt (e : aentry) : bool :=
  is_config (ae_target e) && match ae_kind e with KBare | KParam | KOptParam | KChoices | KOptChoices => true | _ => false end.

Lemma main_opt_cfg_opt : forall e, main_opt e = true -> cfg_opt e = true /\ ae_table e = MAIN.
Proof.
  intros [tbl flag kind choices target] H. unfold main_opt, main_scalar, main_array, cfg_opt in *. cbn [ae_table ae_flag ae_kind ae_target] in *.
  apply orb_true_iff in H. destruct H as [H|H]; repeat (apply andb_true_iff in H; destruct H as [H ?]);
    apply bstr_eqb_eq in H; subst; split; try reflexivity; apply andb_true_iff; split; assumption.
Qed.

Lemma argv_entries_ok : forallb argv_entry_ok (filter cfg_opt argv_table) = true.
Proof. vm_compute. reflexivity. Qed.

(* an option word whose flag is a known main flag: parseArgs finds the entry and applies its checks *)
Lemma a_step_option : forall files sole s c X flag have param e,
  flag_ok flag = true ->
  a_lookup (a_table s) flag = Some e -> a_lookup B"help" flag = None ->
  match split_eq_from1 (c :: X) with Some (f, p) => (f, true, p) | None => (c :: X, false, []) end = (flag, have, param) ->
  a_step files sole (45 :: 45 :: c :: X) s = inl (a_apply files e have param s).
Proof.
  intros files sole s c X flag have param e Hf Hl Hh Hs.
  unfold a_step.
  replace (bstr_eqb (45 :: 45 :: c :: X) B"--") with false by (cbn; reflexivity).
  replace (strip_dashes (45 :: 45 :: c :: X)) with (Some (c :: X)) by (cbn; reflexivity).
  cbv beta iota.
  assert (Hgoal : forall t : bstr * bool * bstr, t = (flag, have, param) ->
            (let '(flag0, have_param, param0) := t in
             if sole && match a_lookup B"help" flag0 with Some _ => true | None => false end then inr tt
             else if is_help_only flag0 then (if sole then inr tt else inl (AErr s 1))
             else if is_nil flag0 || starts_with_dash flag0 then inl (AErr s 1)
             else match a_lookup (a_table s) flag0 with
                  | Some e0 => inl (a_apply files e0 have_param param0 s)
                  | None => inl (AErr s 1)
                  end) = (inl (a_apply files e have param s) : astep + unit)).
  2: { apply Hgoal. exact Hs. }
  intros t ->. cbv beta iota.
  rewrite Hh. rewrite andb_false_r.
  unfold flag_ok in Hf. repeat (apply andb_true_iff in Hf; destruct Hf as [Hf ?]).
  apply negb_true_iff in H. rewrite H.
  apply negb_true_iff in Hf. apply negb_true_iff in H1. rewrite Hf, H1. cbn [orb].
  rewrite Hl. reflexivity.
Qed.

Definition rej_kind (e : aentry) : N := match ae_kind e with KBare => 3 | _ => 2 end.

Lemma cfg_opt_inv : forall e, cfg_opt e = true ->
  (exists obj meth, ae_target e = TConfig obj meth) /\
  (ae_kind e = KBare \/ ae_kind e = KParam \/ ae_kind e = KOptParam \/ ae_kind e = KChoices \/ ae_kind e = KOptChoices).
Proof.
  intros [tbl flag kind choices target] H. unfold cfg_opt in H. cbn [ae_table ae_flag ae_kind ae_target] in *.
  apply andb_true_iff in H. destruct H as [H2 H3]. split.
  - destruct target; simpl in H2; try discriminate. eauto.
  - destruct kind; try discriminate; tauto.
Qed.

(* every word the specification writes for an option is read back by the parser (in that option's table) as that option with that value *)
Lemma a_step_word : forall e v s files sole,
  cfg_opt e = true -> argv_entry_ok e = true -> a_table s = ae_table e ->
  a_step files sole (word_of e v) s =
  inl (match opt_denote e v with Some c => AOk (a_emit c s) | None => AErr s (rej_kind e) end).
Proof.
  intros e v s files sole Hm Hok Ht.
  destruct (cfg_opt_inv e Hm) as [[obj [meth Htg]] Hk].
  unfold argv_entry_ok in Hok.
  apply andb_true_iff in Hok; destruct Hok as [Hok Hhelp].
  apply andb_true_iff in Hok; destruct Hok as [Hok Hlook].
  apply andb_true_iff in Hok; destruct Hok as [Hflag Hshape].
  destruct (a_lookup (ae_table e) (ae_flag e)) as [e'|] eqn:Hl; try discriminate.
  apply aentry_same_eq in Hlook. subst e'.
  destruct (a_lookup B"help" (ae_flag e)) eqn:Hh; try discriminate.
  destruct e as [tbl flag kind choices target]. cbn [ae_table ae_flag ae_kind ae_choices ae_target] in *. subst target.
  assert (Hne : exists c fl, flag = c :: fl).
  { unfold flag_ok in Hflag. destruct flag; [cbn in Hflag; discriminate|eauto]. }
  destruct Hne as [c [fl ->]].
  assert (Hnoeq : no_eq (c :: fl) = true).
  { pose proof Hflag as Hf2. unfold flag_ok in Hf2. repeat (apply andb_true_iff in Hf2; destruct Hf2 as [Hf2 ?]). assumption. }
  (* the two word shapes *)
  assert (W1 : a_step files sole (45 :: 45 :: c :: fl) s =
               inl (a_apply files (mk_aentry tbl (c :: fl) kind choices (TConfig obj meth)) false [] s)).
  { apply a_step_option with (flag := c :: fl); [exact Hflag|rewrite Ht; exact Hl|exact Hh|].
    rewrite (split_none c fl Hnoeq). reflexivity. }
  assert (W2 : forall v, a_step files sole (45 :: 45 :: c :: (fl ++ 61 :: v)) s =
               inl (a_apply files (mk_aentry tbl (c :: fl) kind choices (TConfig obj meth)) true v s)).
  { intros v0. apply a_step_option with (flag := c :: fl); [exact Hflag|rewrite Ht; exact Hl|exact Hh|].
    change (c :: fl ++ 61 :: v0) with ((c :: fl) ++ 61 :: v0). rewrite (split_app c fl v0 Hnoeq). reflexivity. }
  unfold word_of, opt_denote, rej_kind, choices_shape in *. cbn [ae_table ae_flag ae_kind ae_choices ae_target] in *.
  change (B"--" ++ (c :: fl) ++ ?x) with (45 :: 45 :: c :: (fl ++ x)).
  destruct Hk as [ -> | [ -> | [ -> | [ -> | -> ] ] ] ].
  - (* bare *)
    destruct v as [|b v].
    + rewrite app_nil_r. rewrite W1. unfold a_apply. cbn. destruct choices; [|discriminate]. cbn. reflexivity.
    + rewrite W2. unfold a_apply. cbn. destruct choices; [|discriminate]. cbn. reflexivity.
  - (* required parameter *)
    rewrite W2. unfold a_apply. cbn. destruct choices; [|discriminate]. cbn. reflexivity.
  - (* optional parameter *)
    destruct v as [|b v].
    + rewrite app_nil_r. rewrite W1. unfold a_apply. cbn. destruct choices; [|discriminate]. cbn. reflexivity.
    + rewrite W2. unfold a_apply. cbn. destruct choices; [|discriminate]. cbn. reflexivity.
  - (* required choice *)
    rewrite W2. unfold a_apply. cbn [ae_kind ae_choices andb orb negb]. rewrite Hshape. cbn [andb orb negb].
    destruct (bmem v choices); cbn; reflexivity.
  - (* optional choice *)
    destruct v as [|b v].
    + rewrite app_nil_r. rewrite W1. unfold a_apply. cbn [ae_kind ae_choices andb orb negb]. rewrite Hshape. cbn. reflexivity.
    + rewrite W2. unfold a_apply. cbn [ae_kind ae_choices andb orb negb]. rewrite Hshape. cbn [andb orb negb].
      destruct (bmem (b :: v) choices); cbn; reflexivity.
Qed.

(* ------------------------------------------------------------------ table facts used by the JSON side (computed per entry) *)
(* the handlers registered at a path (es) are the generated string handler for e, or (main --password) the hand-written
   setupPassword, which makes the same call *)
Definition scalar_ok_on (es : list jentry) (e : aentry) : bool :=
  negb (is_nil es) &&
  match find is_jmanual es with
  | Some jm => bstr_eqb (handler_name jm) B"setupPassword" && otarget_eqb (ae_target e) (TConfig C_MAIN B"password") &&
               okind_eqb (ae_kind e) KParam
  | None =>
      match find is_jscalar es with
      | Some je => otarget_eqb (je_target je) (ae_target e) && jkind_eqb (je_kind je) (JScalar (json_kind_of (ae_kind e))) &&
                   blist_eqb (je_choices je) (ae_choices e)
      | None => false
      end
  end.
Definition json_scalar_ok (e : aentry) (p : list bstr) : bool := scalar_ok_on (j_entries p) e.

Definition noop_array (h : bstr) : bool := negb (bstr_eqb h B"beginPagesArray") && negb (bstr_eqb h B"beginSetPageLabelsArray").

(* the facts are stated over abstract arguments (entry lists, schema nodes) so that proofs never compute inside the generated tables *)
Definition is_sstring (sn : option snode) : bool := match sn with Some SString => true | _ => false end.
Definition is_sarray (sn : option snode) : bool := match sn with Some SArray => true | _ => false end.

Definition scalar_facts (hc : bool) (es : list jentry) (sn : option snode) (e : aentry) : bool :=
  hc && scalar_ok_on es e && is_sstring sn.
Definition array_facts (hc : bool) (es es2 : list jentry) (sn sn2 : option snode) (e : aentry) : bool :=
  hc && match find is_jmanual es with Some _ => false | None => true end &&
  match find is_jarray es with Some je => noop_array (handler_name je) | None => false end &&
  negb (is_nil es) && scalar_ok_on es2 e && is_sarray sn && is_sstring sn2.

Definition json_scalar_entry_ok (e : aentry) : bool :=
  scalar_facts (schema_has_child [] (camel (ae_flag e))) (j_entries [camel (ae_flag e)]) (schema_node [camel (ae_flag e)]) e.
Definition json_array_entry_ok (e : aentry) : bool :=
  array_facts (schema_has_child [] (camel (ae_flag e))) (j_entries [camel (ae_flag e)]) (j_entries [camel (ae_flag e); ARRK])
              (schema_node [camel (ae_flag e)]) (schema_node [camel (ae_flag e); ARRK]) e.

Lemma json_scalar_entries_ok : forallb json_scalar_entry_ok (filter main_scalar argv_table) = true.
Proof. vm_compute. reflexivity. Qed.
Lemma json_array_entries_ok : forallb json_array_entry_ok (filter main_array argv_table) = true.
Proof. vm_compute. reflexivity. Qed.

Lemma scalar_facts_inv : forall hc es sn e, scalar_facts hc es sn e = true ->
  hc = true /\ scalar_ok_on es e = true /\ sn = Some SString.
Proof.
  intros hc es sn e H. unfold scalar_facts in H.
  apply andb_true_iff in H. destruct H as [H H3]. apply andb_true_iff in H. destruct H as [H1 H2].
  repeat split; auto. destruct sn as [[]|]; try discriminate. reflexivity.
Qed.

Lemma array_facts_inv : forall hc es es2 sn sn2 e, array_facts hc es es2 sn sn2 e = true ->
  hc = true /\ find is_jmanual es = None /\ (exists je, find is_jarray es = Some je /\ noop_array (handler_name je) = true) /\
  es <> [] /\ scalar_ok_on es2 e = true /\ sn = Some SArray /\ sn2 = Some SString.
Proof.
  intros hc es es2 sn sn2 e H. unfold array_facts in H.
  apply andb_true_iff in H. destruct H as [H H7]. apply andb_true_iff in H. destruct H as [H H6].
  apply andb_true_iff in H. destruct H as [H H5]. apply andb_true_iff in H. destruct H as [H H4].
  apply andb_true_iff in H. destruct H as [H H3]. apply andb_true_iff in H. destruct H as [H1 H2].
  split; [exact H1|]. split.
  { destruct (find is_jmanual es); [discriminate|reflexivity]. }
  split.
  { destruct (find is_jarray es) as [je|]; [|discriminate]. exists je. auto. }
  split.
  { destruct es; [discriminate|congruence]. }
  split; [exact H5|]. split.
  - destruct sn as [[]|]; try discriminate. reflexivity.
  - destruct sn2 as [[]|]; try discriminate. reflexivity.
Qed.

Definition jrej_kind (e : aentry) : N := match ae_kind e with KBare => 20 | _ => 21 end.

Lemma jkind_eqb_eq : forall a b, jkind_eqb a b = true -> a = b.
Proof. destruct a, b; simpl; intros H; try discriminate; auto. apply okind_eqb_eq in H. subst. reflexivity. Qed.

(* the string handler generated for a key does what the manual's table says for that option *)
Lemma j_scalar_apply_denote : forall e je x s,
  cfg_opt e = true -> choices_shape e = true ->
  je_target je = ae_target e -> je_kind je = JScalar (json_kind_of (ae_kind e)) -> je_choices je = ae_choices e ->
  j_scalar_apply je x s = match opt_denote e x with Some c => JOk (j_emit c s) | None => JErr s (EFront (jrej_kind e)) end.
Proof.
  intros e je x s Hm Hshape Ht Hk Hc.
  destruct (cfg_opt_inv e Hm) as [[obj [meth Htg]] Hkind].
  unfold j_scalar_apply, opt_denote, jrej_kind. rewrite Ht, Hk, Hc, Htg.
  destruct Hkind as [ -> | [ -> | [ -> | [ -> | -> ] ] ] ]; cbn [json_kind_of].
  - destruct x; cbn; reflexivity.
  - reflexivity.
  - reflexivity.
  - destruct (bmem x (ae_choices e)); reflexivity.
  - destruct x; cbn [is_nil orb]; [reflexivity|]. destruct (bmem (n :: x) (ae_choices e)); reflexivity.
Qed.

Lemma j_handle_str_eq : forall p x s,
  j_handle p (JJStr x) s =
  match j_string_at p x s with
  | Some r => r
  | None => if match find is_jarray (j_entries p) with Some _ => true | None => false end
            then match j_string_at (p ++ [ARRK]) x s with Some r => r | None => JErr s (EFront 22) end
            else JErr s (EFront 22)
  end.
Proof. intros. reflexivity. Qed.

Lemma setup_password_string : forall x s,
  (if is_ignore B"setupPassword" then JOk s else j_manual_string B"setupPassword" x s) =
  JOk (j_emit (CCall C_MAIN B"password" [x]) s).
Proof. intros. reflexivity. Qed.

Lemma j_handle_str_manual : forall p x s jm, find is_jmanual (j_entries p) = Some jm -> handler_name jm = B"setupPassword" ->
  j_handle p (JJStr x) s = JOk (j_emit (CCall C_MAIN B"password" [x]) s).
Proof.
  intros. rewrite j_handle_str_eq. unfold j_string_at. rewrite H. rewrite H0. rewrite setup_password_string. reflexivity.
Qed.

Lemma j_handle_str_scalar : forall p x s je, find is_jmanual (j_entries p) = None -> find is_jscalar (j_entries p) = Some je ->
  j_handle p (JJStr x) s = j_scalar_apply je x s.
Proof.
  intros. rewrite j_handle_str_eq. unfold j_string_at. rewrite H. rewrite H0. reflexivity.
Qed.

Lemma jkind_eqb_eq' : forall a b, jkind_eqb a b = true -> a = b.
Proof. exact jkind_eqb_eq. Qed.

Lemma scalar_ok_on_inv : forall es e, scalar_ok_on es e = true ->
  es <> [] /\
  ((exists jm, find is_jmanual es = Some jm /\ handler_name jm = B"setupPassword" /\
               ae_target e = TConfig C_MAIN B"password" /\ ae_kind e = KParam) \/
   (find is_jmanual es = None /\
    exists je, find is_jscalar es = Some je /\ je_target je = ae_target e /\
               je_kind je = JScalar (json_kind_of (ae_kind e)) /\ je_choices je = ae_choices e)).
Proof.
  intros es e H. unfold scalar_ok_on in H. apply andb_true_iff in H. destruct H as [Hne H]. split.
  { destruct es; [discriminate|congruence]. }
  destruct (find is_jmanual es) as [jm|].
  - left. exists jm. apply andb_true_iff in H. destruct H as [H Hk]. apply andb_true_iff in H. destruct H as [Hn Ht].
    apply bstr_eqb_eq in Hn. apply otarget_eqb_eq in Ht. apply okind_eqb_eq in Hk. auto.
  - right. split; [reflexivity|]. destruct (find is_jscalar es) as [je|]; [|discriminate].
    exists je. apply andb_true_iff in H. destruct H as [H Hc]. apply andb_true_iff in H. destruct H as [Ht Hk].
    apply otarget_eqb_eq in Ht. apply jkind_eqb_eq in Hk. apply blist_eqb_eq in Hc. auto.
Qed.

Lemma j_handle_str : forall e p x s,
  cfg_opt e = true -> choices_shape e = true -> scalar_ok_on (j_entries p) e = true ->
  j_handle p (JJStr x) s = match opt_denote e x with Some c => JOk (j_emit c s) | None => JErr s (EFront (jrej_kind e)) end.
Proof.
  intros e p x s Hm Hshape Hok.
  destruct (scalar_ok_on_inv _ _ Hok) as [_ [[jm [Hman [Hn [Ht Hk]]]] | [Hman [je [Hsca [Ht [Hk Hc]]]]]]].
  - rewrite (j_handle_str_manual p x s jm Hman Hn). unfold opt_denote. rewrite Ht, Hk. reflexivity.
  - rewrite (j_handle_str_scalar p x s je Hman Hsca). apply j_scalar_apply_denote; auto.
Qed.

(* ================================================================== the argv front end refines the specification *)
Definition a_inv (s : astate) (gi go : bool) : Prop :=
  a_table s = MAIN /\ a_gave_input s = gi /\ a_gave_output s = go /\ a_used_enc_pw s = false.

Fixpoint a_emits (cs : list cfg_call) (s : astate) : astate :=
  match cs with [] => s | c :: r => a_emits r (a_emit c s) end.

Lemma a_emits_inv : forall cs s gi go, a_inv s gi go -> a_inv (a_emits cs s) gi go.
Proof.
  induction cs; simpl; intros s gi go H; [exact H|].
  apply IHcs. destruct s; unfold a_inv in *; simpl in *; exact H.
Qed.

Lemma a_emits_calls : forall cs s, a_calls (a_emits cs s) = rev cs ++ a_calls s.
Proof.
  induction cs; simpl; intros s; [reflexivity|]. rewrite IHcs. destruct s; simpl. rewrite <- app_assoc. reflexivity.
Qed.

Lemma a_emits_fields : forall cs s, a_table (a_emits cs s) = a_table s /\ a_gave_input (a_emits cs s) = a_gave_input s /\
                                    a_gave_output (a_emits cs s) = a_gave_output s /\ a_used_enc_pw (a_emits cs s) = a_used_enc_pw s.
Proof. induction cs; simpl; intros s; [auto|]. destruct (IHcs (a_emit a s)) as [H1 [H2 [H3 H4]]]. rewrite H1, H2, H3, H4. destruct s; auto. Qed.

Lemma a_emits_app : forall c1 c2 s, a_emits (c1 ++ c2) s = a_emits c2 (a_emits c1 s).
Proof. induction c1; simpl; intros c2 s; [reflexivity|apply IHc1]. Qed.

(* the words of one (possibly repeated) main option *)
Lemma a_loop_vals : forall files sole e, cfg_opt e = true -> argv_entry_ok e = true ->
  forall vs rest s, a_table s = ae_table e ->
  a_loop files sole (map (word_of e) vs ++ rest) s =
  let (cs, ok) := denote_vals e vs in
  if ok then a_loop files sole rest (a_emits cs s)
  else mk_fe_res (rev' (a_calls (a_emits cs s))) (EFront (rej_kind e)).
Proof.
  intros files sole e Hm Hok. induction vs as [|v vs IH]; intros rest s Ht.
  - reflexivity.
  - cbn [map app a_loop denote_vals]. rewrite (a_step_word e v s files sole Hm Hok Ht).
    destruct (opt_denote e v) as [c|].
    + rewrite IH by (destruct s; exact Ht).
      destruct (denote_vals e vs) as [cs ok]. cbn. reflexivity.
    + reflexivity.
Qed.

(* ---- positional arguments, --empty, --replace-input *)
Lemma pos_lookup_main : a_lookup_pos MAIN = Some (mk_aentry MAIN [] KPositional [] (TManual B"argPositional")).
Proof. vm_compute. reflexivity. Qed.

Lemma positional_word_facts : forall f, positional_word f = true -> bstr_eqb f B"--" = false /\ strip_dashes f = None.
Proof.
  intros f H. destruct f as [|c [|c2 r]].
  - split; reflexivity.
  - split; [|reflexivity]. cbn. apply andb_false_r.
  - cbn in H. apply negb_true_iff in H. split.
    + cbn [bstr_eqb]. rewrite H. reflexivity.
    + cbn [strip_dashes]. rewrite H. reflexivity.
Qed.

Lemma a_step_positional : forall files sole f s, positional_word f = true -> a_table s = MAIN ->
  a_step files sole f s = inl (a_manual files B"argPositional" f s).
Proof.
  intros files sole f s Hp Ht. destruct (positional_word_facts f Hp) as [H1 H2].
  unfold a_step. rewrite H1, H2, Ht, pos_lookup_main. reflexivity.
Qed.

Lemma a_manual_positional : forall files f s,
  a_manual files B"argPositional" f s =
  if negb (a_gave_input s) then AOk (a_set_gave true (a_gave_output s) (a_emit (CCall C_MAIN B"inputFile" [f]) s))
  else if negb (a_gave_output s) then AOk (a_set_gave (a_gave_input s) true (a_emit (CCall C_MAIN B"outputFile" [f]) s))
  else AErr s 7.
Proof. intros. reflexivity. Qed.

Definition E_EMPTY := mk_aentry MAIN B"empty" KBare [] (TManual B"argEmpty").
Definition E_REPLACE := mk_aentry MAIN B"replace-input" KBare [] (TManual B"argReplaceInput").

Lemma lookup_empty : a_lookup MAIN B"empty" = Some E_EMPTY /\ a_lookup B"help" B"empty" = None /\
                     a_lookup MAIN B"replace-input" = Some E_REPLACE /\ a_lookup B"help" B"replace-input" = None.
Proof. vm_compute. repeat split; reflexivity. Qed.

Lemma a_step_empty : forall files sole s, a_table s = MAIN ->
  a_step files sole B"--empty" s = inl (AOk (a_set_gave true (a_gave_output s) (a_emit (CCall C_MAIN B"emptyInput" []) s))).
Proof.
  intros files sole s Ht. destruct lookup_empty as [H1 [H2 _]].
  change (B"--empty") with (45 :: 45 :: 101 :: [109; 112; 116; 121]).
  rewrite (a_step_option files sole s 101 [109; 112; 116; 121] B"empty" false [] E_EMPTY); auto. rewrite Ht. exact H1.
Qed.

Lemma a_step_replace : forall files sole s, a_table s = MAIN ->
  a_step files sole B"--replace-input" s = inl (AOk (a_set_gave (a_gave_input s) true (a_emit (CCall C_MAIN B"replaceInput" []) s))).
Proof.
  intros files sole s Ht. destruct lookup_empty as [_ [_ [H1 H2]]].
  change (B"--replace-input") with (45 :: 45 :: 114 :: [101; 112; 108; 97; 99; 101; 45; 105; 110; 112; 117; 116]).
  rewrite (a_step_option files sole s 114 [101; 112; 108; 97; 99; 101; 45; 105; 110; 112; 117; 116] B"replace-input" false [] E_REPLACE); auto.
  rewrite Ht. exact H1.
Qed.

Definition a_after (it : item) (s : astate) : astate :=
  match it with
  | IIn _ | IEmpty => a_set_gave true (a_gave_output s) s
  | IOut _ | IReplace => a_set_gave (a_gave_input s) true s
  | _ => s
  end.

Lemma entry_ok_of_wf : forall e, In e argv_table -> cfg_opt e = true -> argv_entry_ok e = true.
Proof.
  intros e Hin Hm. pose proof argv_entries_ok as H. rewrite forallb_forall in H. apply H. apply filter_In. auto.
Qed.

Lemma wf_item_main_opt : forall it e, (exists v, it = IOpt e v) \/ (exists vs, it = IArr e vs) -> wf_item argv_table it ->
  In e argv_table /\ cfg_opt e = true /\ ae_table e = MAIN.
Proof.
  intros it e [[v ->]|[vs ->]] H; simpl in H; destruct H as [H1 H2]; split; auto; apply main_opt_cfg_opt; unfold main_opt; rewrite H2; auto using orb_true_r.
Qed.

Lemma sub_opt_cfg_opt : forall t e, sub_opt t e = true -> cfg_opt e = true /\ ae_table e = t.
Proof.
  intros t e H. unfold sub_opt, cfg_opt in *. repeat (apply andb_true_iff in H; destruct H as [H ?]).
  apply bstr_eqb_eq in H. split; [apply andb_true_iff; split; assumption|exact H].
Qed.

(* ---- the options of a nested table, between the word that opens the table and "--" *)
Definition wf_subs (t : bstr) (l : list (aentry * bstr)) : Prop := Forall (fun p => In (fst p) argv_table /\ sub_opt t (fst p) = true) l.

Lemma a_loop_subs : forall files sole t l, wf_subs t l ->
  forall rest s, a_table s = t ->
  exists k, a_loop files sole (map (fun p => word_of (fst p) (snd p)) l ++ rest) s =
  if snd (denote_subs l) then a_loop files sole rest (a_emits (fst (denote_subs l)) s)
  else mk_fe_res (rev' (a_calls (a_emits (fst (denote_subs l)) s))) (EFront k).
Proof.
  intros files sole t. induction l as [|[e v] l IH]; intros Hwf rest s Ht.
  - exists 0. reflexivity.
  - pose proof (Forall_inv Hwf) as [Hin Hsub]. pose proof (Forall_inv_tail Hwf) as Hl. cbn [fst snd] in *.
    destruct (sub_opt_cfg_opt _ e Hsub) as [Hm Htb].
    pose proof (entry_ok_of_wf e Hin Hm) as Hok.
    cbn [map app a_loop denote_subs fst snd].
    rewrite (a_step_word e v s files sole Hm Hok (eq_trans Ht (eq_sym Htb))).
    destruct (opt_denote e v) as [c|].
    + destruct (IH Hl rest (a_emit c s)) as [k Hk]. { destruct s; exact Ht. }
      exists k. rewrite Hk. destruct (denote_subs l) as [cs ok]. cbn. reflexivity.
    + exists (rej_kind e). reflexivity.
Qed.

Lemma close_table_fields : forall t c s,
  a_table (a_set_table t (a_emit c s)) = t /\ a_gave_input (a_set_table t (a_emit c s)) = a_gave_input s /\
  a_gave_output (a_set_table t (a_emit c s)) = a_gave_output s /\ a_calls (a_set_table t (a_emit c s)) = c :: a_calls s /\
  a_used_enc_pw (a_set_table t (a_emit c s)) = a_used_enc_pw s.
Proof. intros t c s. destruct s. cbn. auto 6. Qed.

Definition E_GLOBAL := mk_aentry MAIN B"global" KBare [] (TManual B"argGlobal").
Definition E_END_GLOBAL := mk_aentry B"global" B"--" KEnd [] (TManual B"argEndGlobal").
Lemma lookup_global : a_lookup MAIN B"global" = Some E_GLOBAL /\ a_lookup B"help" B"global" = None /\
                      a_lookup B"global" B"--" = Some E_END_GLOBAL.
Proof. vm_compute. repeat split; reflexivity. Qed.

Lemma a_step_global : forall files sole s, a_table s = MAIN ->
  a_step files sole B"--global" s = inl (AOk (a_set_table B"global" (a_set_acc [] (a_emit (CCall C_MAIN B"global" []) s)))).
Proof.
  intros files sole s Ht. destruct lookup_global as [H1 [H2 _]].
  change (B"--global") with (45 :: 45 :: 103 :: [108; 111; 98; 97; 108]).
  rewrite (a_step_option files sole s 103 [108; 111; 98; 97; 108] B"global" false [] E_GLOBAL); auto. rewrite Ht. exact H1.
Qed.

Lemma a_step_end_global : forall files sole s, a_table s = B"global" ->
  a_step files sole B"--" s = inl (AOk (a_set_table MAIN (a_emit (CCall C_GLOBAL B"endGlobal" []) s))).
Proof.
  intros files sole s Ht. destruct lookup_global as [_ [_ H3]].
  unfold a_step. change (bstr_eqb B"--" B"--") with true. cbv beta iota. rewrite Ht.
  change (bstr_eqb B"global" MAIN) with false. cbv beta iota. rewrite H3. reflexivity.
Qed.

(* ---- --encrypt user owner bits <options> -- *)
Definition ENC0 : cfg_call := CCall C_MAIN B"encrypt" [B"0"; []; []].
Definition E_ENCRYPT := mk_aentry MAIN B"encrypt" KBare [] (TManual B"argEncrypt").
Lemma lookup_encrypt :
  a_lookup MAIN B"encrypt" = Some E_ENCRYPT /\ a_lookup B"help" B"encrypt" = None /\
  a_lookup_pos B"encryption" = Some (mk_aentry B"encryption" [] KPositional [] (TManual B"argEncPositional")) /\
  a_lookup B"40-bit-encryption" B"--" = Some (mk_aentry B"40-bit-encryption" B"--" KEnd [] (TManual B"argEnd40BitEncryption")) /\
  a_lookup B"128-bit-encryption" B"--" = Some (mk_aentry B"128-bit-encryption" B"--" KEnd [] (TManual B"argEnd128BitEncryption")) /\
  a_lookup B"256-bit-encryption" B"--" = Some (mk_aentry B"256-bit-encryption" B"--" KEnd [] (TManual B"argEnd256BitEncryption")).
Proof. vm_compute. repeat split; reflexivity. Qed.

Lemma a_step_encrypt : forall files sole s, a_table s = MAIN ->
  a_step files sole B"--encrypt" s = inl (AOk (a_set_table B"encryption" (a_set_acc [] (a_emit ENC0 s)))).
Proof.
  intros files sole s Ht. destruct lookup_encrypt as [H1 [H2 _]].
  change (B"--encrypt") with (45 :: 45 :: 101 :: [110; 99; 114; 121; 112; 116]).
  rewrite (a_step_option files sole s 101 [110; 99; 114; 121; 112; 116] B"encrypt" false [] E_ENCRYPT); auto. rewrite Ht. exact H1.
Qed.

Lemma a_step_enc_positional : forall files sole w s, positional_word w = true -> a_table s = B"encryption" ->
  a_step files sole w s = inl (a_manual files B"argEncPositional" w s).
Proof.
  intros files sole w s Hp Ht. destruct (positional_word_facts w Hp) as [H1 H2]. destruct lookup_encrypt as [_ [_ [H3 _]]].
  unfold a_step. rewrite H1, H2, Ht, H3. reflexivity.
Qed.

Lemma a_manual_enc_positional : forall files w s,
  a_manual files B"argEncPositional" w s =
  if a_used_enc_pw s then AErr s 5 else
  let acc := a_acc s ++ [w] in
  match acc with
  | u :: o :: l :: _ => arg_enc_bits l (a_set_acc [] (a_set_pw u o (a_used_enc_pw s) s))
  | _ => AOk (a_set_acc acc s)
  end.
Proof. intros. reflexivity. Qed.

(* the three positional words after --encrypt, from the state --encrypt leaves *)
Lemma a_loop_enc_head : forall files sole u o bits rest s0,
  valid_bits bits = true -> positional_word u = true -> positional_word o = true ->
  a_table s0 = B"encryption" -> a_acc s0 = [] -> a_used_enc_pw s0 = false ->
  a_loop files sole (u :: o :: bits :: rest) s0 =
  a_loop files sole rest (a_emit (CCall C_MAIN B"encrypt" [bits; u; o]) (a_set_table (enc_table bits) (a_set_acc [] (a_set_pw u o false s0)))).
Proof.
  intros files sole u o bits rest s0 Hb Hu Ho Ht Hacc Hused.
  assert (Hpb : positional_word bits = true).
  { unfold valid_bits in Hb. apply orb_true_iff in Hb. destruct Hb as [Hb|Hb]; [apply orb_true_iff in Hb; destruct Hb as [Hb|Hb]|];
      apply bstr_eqb_eq in Hb; subst; reflexivity. }
  destruct s0 as [tb acc us ow pf pr rs used gi go calls]. cbn in Ht, Hacc, Hused. subst tb acc used.
  cbn [a_loop].
  rewrite a_step_enc_positional by (first [exact Hu | reflexivity]). rewrite a_manual_enc_positional. cbn [a_used_enc_pw a_acc app a_set_acc].
  cbn [a_loop].
  rewrite a_step_enc_positional by (first [exact Ho | reflexivity]). rewrite a_manual_enc_positional. cbn [a_used_enc_pw a_acc app a_set_acc].
  cbn [a_loop].
  rewrite a_step_enc_positional by (first [exact Hpb | reflexivity]). rewrite a_manual_enc_positional. cbn [a_used_enc_pw a_acc app a_set_acc a_set_pw].
  unfold valid_bits in Hb. apply orb_true_iff in Hb. destruct Hb as [Hb|Hb]; [apply orb_true_iff in Hb; destruct Hb as [Hb|Hb]|];
    apply bstr_eqb_eq in Hb; subst bits; reflexivity.
Qed.

Lemma a_step_end_enc : forall files sole bits s, valid_bits bits = true -> a_table s = enc_table bits ->
  a_step files sole B"--" s = inl (AOk (a_set_table MAIN (a_emit (CCall C_ENC B"endEncrypt" []) s))).
Proof.
  intros files sole bits s Hb Ht. destruct lookup_encrypt as [_ [_ [_ [H40 [H128 H256]]]]].
  unfold a_step. change (bstr_eqb B"--" B"--") with true. cbv beta iota. rewrite Ht.
  unfold valid_bits in Hb. apply orb_true_iff in Hb. destruct Hb as [Hb|Hb]; [apply orb_true_iff in Hb; destruct Hb as [Hb|Hb]|];
    apply bstr_eqb_eq in Hb; subst bits.
  - change (bstr_eqb (enc_table B"40") MAIN) with false. cbv beta iota. change (enc_table B"40") with B"40-bit-encryption". rewrite H40. reflexivity.
  - change (bstr_eqb (enc_table B"128") MAIN) with false. cbv beta iota. change (enc_table B"128") with B"128-bit-encryption". rewrite H128. reflexivity.
  - change (bstr_eqb (enc_table B"256") MAIN) with false. cbv beta iota. change (enc_table B"256") with B"256-bit-encryption". rewrite H256. reflexivity.
Qed.

(* the calls the argv front end makes for an item: those of its denotation, preceded for --encrypt by the call encrypt(0, "", "")
   that ArgParser::argEncrypt makes before the key length is known (it is overwritten by the call that follows) *)
Definition argv_calls_item (it : item) : list cfg_call :=
  match it with IEncrypt _ _ _ _ => ENC0 :: fst (denote_item it) | _ => fst (denote_item it) end.

(* one item of a job: the parser makes exactly the calls of its denotation (and stops with a usage error iff it is not acceptable) *)
Lemma a_loop_item : forall files sole it rest s gi go,
  wf_item argv_table it -> a_inv s gi go -> pos_ok it gi go = true ->
  exists k s', (snd (denote_item it) = true -> a_inv s' (fst (pos_next it gi go)) (snd (pos_next it gi go))) /\
               a_calls s' = rev (argv_calls_item it) ++ a_calls s /\
               a_loop files sole (argv_of_item it ++ rest) s =
               if snd (denote_item it) then a_loop files sole rest s' else mk_fe_res (rev' (a_calls s')) (EFront k).
Proof.
  intros files sole it rest s gi go Hwf [Ht [Hgi [Hgo Hused]]] Hpos.
  destruct it as [e v|e vs|f|f| | |l|u o bits l]; cbn [argv_calls_item].
  - (* IOpt *)
    destruct (wf_item_main_opt (IOpt e v) e (or_introl (ex_intro _ v eq_refl)) Hwf) as [Hin [Hm Htb]].
    pose proof (entry_ok_of_wf e Hin Hm) as Hok. rewrite <- Htb in Ht.
    pose proof (a_loop_vals files sole e Hm Hok [v] rest s Ht) as H. cbn [map app] in H. cbn [argv_of_item app].
    rewrite H. cbn [denote_vals denote_item]. rewrite Htb in Ht. destruct (opt_denote e v) as [c|]; cbn.
    + exists 0, (a_emit c s). split; [intros _; destruct s; unfold a_inv in *; cbn in *; auto|]. split; [destruct s; reflexivity|reflexivity].
    + exists (rej_kind e), s. split; [unfold a_inv; auto|]. split; reflexivity.
  - (* IArr *)
    destruct (wf_item_main_opt (IArr e vs) e (or_intror (ex_intro _ vs eq_refl)) Hwf) as [Hin [Hm Htb]].
    pose proof (entry_ok_of_wf e Hin Hm) as Hok. rewrite <- Htb in Ht.
    cbn [argv_of_item denote_item]. rewrite (a_loop_vals files sole e Hm Hok vs rest s Ht).
    destruct (denote_vals e vs) as [cs ok]. cbn [fst snd pos_next]. rewrite Htb in Ht.
    exists (rej_kind e), (a_emits cs s). split; [intros _; apply a_emits_inv; unfold a_inv; auto|]. split; [apply a_emits_calls|].
    destruct ok; reflexivity.
  - (* IIn *)
    cbn [pos_ok] in Hpos. apply andb_true_iff in Hpos. destruct Hpos as [Hg Hp]. apply negb_true_iff in Hg. subst gi.
    cbn [argv_of_item app a_loop denote_item fst snd pos_next].
    rewrite (a_step_positional files sole f s Hp Ht). rewrite a_manual_positional. rewrite Hg. cbn [negb].
    exists 0, (a_set_gave true (a_gave_output s) (a_emit (CCall C_MAIN B"inputFile" [f]) s)).
    split; [intros _; destruct s; unfold a_inv; cbn in *; subst; auto|]. split; [destruct s; reflexivity|reflexivity].
  - (* IOut *)
    cbn [pos_ok] in Hpos. apply andb_true_iff in Hpos. destruct Hpos as [Hg Hp]. apply andb_true_iff in Hg. destruct Hg as [Hg1 Hg2].
    apply negb_true_iff in Hg2. subst gi go.
    cbn [argv_of_item app a_loop denote_item fst snd pos_next].
    rewrite (a_step_positional files sole f s Hp Ht). rewrite a_manual_positional. rewrite Hg1, Hg2. cbn [negb].
    exists 0, (a_set_gave true true (a_emit (CCall C_MAIN B"outputFile" [f]) s)).
    split; [intros _; destruct s; unfold a_inv; cbn in *; subst; auto|]. split; [destruct s; reflexivity|reflexivity].
  - (* IEmpty *)
    cbn [argv_of_item app a_loop denote_item fst snd pos_next].
    rewrite (a_step_empty files sole s Ht).
    exists 0, (a_set_gave true (a_gave_output s) (a_emit (CCall C_MAIN B"emptyInput" []) s)).
    split; [intros _; destruct s; unfold a_inv; cbn in *; subst; auto|]. split; [destruct s; reflexivity|reflexivity].
  - (* IReplace *)
    cbn [argv_of_item app a_loop denote_item fst snd pos_next].
    rewrite (a_step_replace files sole s Ht).
    exists 0, (a_set_gave (a_gave_input s) true (a_emit (CCall C_MAIN B"replaceInput" []) s)).
    split; [intros _; destruct s; unfold a_inv; cbn in *; subst; auto|]. split; [destruct s; reflexivity|reflexivity].
  - (* IGlobal *)
    cbn [wf_item] in Hwf. fold (wf_subs B"global" l) in Hwf.
    cbn [argv_of_item app a_loop denote_item pos_next fst snd].
    rewrite (a_step_global files sole s Ht).
    set (s1 := a_set_table B"global" (a_set_acc [] (a_emit (CCall C_MAIN B"global" []) s))).
    assert (Ht1 : a_table s1 = B"global") by (destruct s; reflexivity).
    rewrite <- app_assoc. cbn [app].
    destruct (a_loop_subs files sole B"global" l Hwf (B"--" :: rest) s1 Ht1) as [k Hk].
    destruct (denote_subs l) as [cs ok]. cbn [fst snd] in *.
    destruct (a_emits_fields cs s1) as [F1 [F2 [F3 F4]]].
    destruct ok.
    + exists 0, (a_set_table MAIN (a_emit (CCall C_GLOBAL B"endGlobal" []) (a_emits cs s1))).
      destruct (close_table_fields MAIN (CCall C_GLOBAL B"endGlobal" []) (a_emits cs s1)) as [G1 [G2 [G3 [G4 G5]]]].
      split.
      { intros _. unfold a_inv. rewrite G1, G2, G3, G5, F2, F3, F4. unfold s1. destruct s; cbn in *. auto. }
      split.
      { rewrite G4. rewrite a_emits_calls. unfold s1. destruct s; cbn. rewrite rev_app_distr. cbn. rewrite <- app_assoc. reflexivity. }
      etransitivity; [exact Hk|]. cbn [a_loop]. rewrite (a_step_end_global files sole (a_emits cs s1)) by (rewrite F1; exact Ht1). reflexivity.
    + exists k, (a_emits cs s1). split; [discriminate|].
      split; [|exact Hk].
      rewrite a_emits_calls. unfold s1. destruct s; cbn. rewrite app_nil_r. rewrite <- app_assoc. reflexivity.
  - (* IEncrypt *)
    cbn [wf_item] in Hwf. destruct Hwf as [Hb [Hu [Ho Hl]]].
    assert (Hsubs : wf_subs (enc_table bits) l).
    { unfold wf_subs. eapply Forall_impl; [|exact Hl]. intros p [H1 [H2 _]]. auto. }
    set (s0 := a_set_table B"encryption" (a_set_acc [] (a_emit ENC0 s))).
    set (s1 := a_emit (CCall C_MAIN B"encrypt" [bits; u; o]) (a_set_table (enc_table bits) (a_set_acc [] (a_set_pw u o false s0)))).
    set (words := map (fun p : aentry * bstr => word_of (fst p) (snd p)) l).
    assert (Hhead : a_loop files sole (argv_of_item (IEncrypt u o bits l) ++ rest) s = a_loop files sole (words ++ B"--" :: rest) s1).
    { cbn [argv_of_item app a_loop]. rewrite (a_step_encrypt files sole s Ht). fold s0. fold words.
      rewrite <- app_assoc. cbn [app].
      apply (a_loop_enc_head files sole u o bits (words ++ B"--" :: rest) s0 Hb Hu Ho); unfold s0; destruct s; cbn in *; auto. }
    assert (Ht1 : a_table s1 = enc_table bits) by (unfold s1, s0; destruct s; reflexivity).
    destruct (a_loop_subs files sole (enc_table bits) l Hsubs (B"--" :: rest) s1 Ht1) as [k Hk]. fold words in Hk.
    cbn [denote_item pos_next fst snd].
    destruct (denote_subs l) as [cs ok]. cbn [fst snd] in *.
    destruct (a_emits_fields cs s1) as [F1 [F2 [F3 F4]]].
    destruct ok.
    + exists 0, (a_set_table MAIN (a_emit (CCall C_ENC B"endEncrypt" []) (a_emits cs s1))).
      destruct (close_table_fields MAIN (CCall C_ENC B"endEncrypt" []) (a_emits cs s1)) as [G1 [G2 [G3 [G4 G5]]]].
      split.
      { intros _. unfold a_inv. rewrite G1, G2, G3, G5, F2, F3, F4. unfold s1, s0. destruct s; cbn in *. auto. }
      split.
      { rewrite G4. rewrite a_emits_calls. unfold s1, s0. destruct s; cbn. rewrite rev_app_distr. cbn. rewrite <- !app_assoc. reflexivity. }
      etransitivity; [exact Hhead|]. etransitivity; [exact Hk|].
      cbn [a_loop]. rewrite (a_step_end_enc files sole bits (a_emits cs s1) Hb) by (rewrite F1; exact Ht1). reflexivity.
    + exists k, (a_emits cs s1). split; [discriminate|].
      split; [|etransitivity; [exact Hhead|exact Hk]].
      rewrite a_emits_calls. unfold s1, s0. destruct s; cbn. rewrite app_nil_r. rewrite <- !app_assoc. reflexivity.
Qed.

Definition CHECK : cfg_call := CCall C_MAIN B"checkConfiguration" [].

(* what a front end reports for a job whose denotation is (cs, ok): exactly the calls cs (plus the final consistency check when the
   job is acceptable); EFin when acceptable, a front-end usage error otherwise *)
Definition res_is (r : fe_res) (pre cs : list cfg_call) (ok : bool) : Prop :=
  if ok then r = mk_fe_res (pre ++ cs ++ [CHECK]) EFin
  else exists k, r = mk_fe_res (pre ++ cs) (EFront k).

(* the calls of the argv front end for a job (up to and including the first unacceptable item) *)
Fixpoint argv_calls (j : list item) : list cfg_call :=
  match j with
  | [] => []
  | it :: r => if snd (denote_item it) then argv_calls_item it ++ argv_calls r else argv_calls_item it
  end.

Lemma a_loop_job : forall files sole j s gi go,
  Forall (wf_item argv_table) j -> wf_pos j gi go = true -> a_inv s gi go ->
  res_is (a_loop files sole (render_argv j) s) (rev (a_calls s)) (argv_calls j) (snd (denote_items j)).
Proof.
  intros files sole. induction j as [|it j IH]; intros s gi go Hwf Hpos Hinv.
  - unfold res_is. cbn [render_argv flat_map denote_items argv_calls fst snd a_loop]. destruct Hinv as [Ht _]. rewrite Ht.
    rewrite bstr_eqb_refl. rewrite rev'_rev. cbn [rev app]. reflexivity.
  - pose proof (Forall_inv Hwf) as Hit. pose proof (Forall_inv_tail Hwf) as Hj.
    cbn [wf_pos] in Hpos. apply andb_true_iff in Hpos. destruct Hpos as [Hp1 Hp2].
    cbn [render_argv flat_map].
    destruct (a_loop_item files sole it (flat_map argv_of_item j) s gi go Hit Hinv Hp1) as [k [s' [Hinv' [Hcalls Heq]]]].
    rewrite Heq. cbn [denote_items argv_calls].
    destruct (denote_item it) as [cs ok] eqn:Hd. cbn [fst snd] in *.
    destruct ok.
    + specialize (IH _ _ _ Hj Hp2 (Hinv' eq_refl)). fold (render_argv j).
      rewrite Hcalls in IH. rewrite rev_app_distr, rev_involutive in IH.
      destruct (denote_items j) as [cs2 ok2]. cbn [fst snd] in *.
      unfold res_is in *. destruct ok2.
      * rewrite IH. rewrite <- !app_assoc. reflexivity.
      * destruct IH as [k2 IH]. exists k2. rewrite IH. rewrite <- !app_assoc. reflexivity.
    + unfold res_is. exists k. rewrite rev'_rev, Hcalls, rev_app_distr, rev_involutive. reflexivity.
Qed.

(* FULL STATEMENT of nested_equivalent (DESIGN §5 C19): for every abstract job over ALL option tables (main options and the nested
   tables pages, encrypt, overlay/underlay, attachments, global, set-page-labels) the two front ends make the same Config calls.
   PROVED below for jobs made of: every main-table option bound to a Config method (given once, or repeatable) with ANY value
   string (acceptable or not), the positional input/output files, --empty and --replace-input, the nested table --global ... -- /
   "global": {...} and the nested tables of --encrypt user owner 40|128|256 ... -- / "encrypt": {...} with any of their options and
   any values (minus the two 40-bit options of tables_equivalent_refuted).  Not covered by the proof (covered by the
   model/implementation correspondence and the end-to-end runs): the nested tables pages, overlay/underlay, attachments,
   set-page-labels, whose hand-written handlers are modelled in Sys/JobFront.v. *)
Lemma argv_refines_spec_partial_lemma : forall files j, wf_job argv_table j ->
  res_is (front_argv files (render_argv j)) [] (argv_calls j) (snd (denote_items j)).
Proof.
  intros files j [Hwf Hpos]. unfold front_argv.
  apply (a_loop_job files _ j a_init false false Hwf Hpos). unfold a_inv. cbn. auto.
Qed.

(* ================================================================== the JSON front end refines the specification *)
Fixpoint j_emits (cs : list cfg_call) (s : jstate) : jstate :=
  match cs with [] => s | c :: r => j_emits r (j_emit c s) end.

Lemma j_emits_calls : forall cs s, j_calls (j_emits cs s) = rev cs ++ j_calls s.
Proof.
  induction cs; simpl; intros s; [reflexivity|]. rewrite IHcs. destruct s; simpl. rewrite <- app_assoc. reflexivity.
Qed.

(* ---- schema check of rendered members *)
Lemma check_schema_str : forall p x,
  check_schema p (JJStr x) =
  match (match p with [] => Some SDict | _ => schema_node p end) with
  | None => false
  | Some SString => true
  | Some SNull => false
  | Some SDict => false
  | Some SArray => match schema_node (p ++ [ARRK]) with Some SString => true | _ => false end
  end.
Proof. intros. destruct p; reflexivity. Qed.

Fixpoint all_items_ok (p : list bstr) (l : list jjv) : bool :=
  match l with [] => true | x :: r => check_schema (p ++ [ARRK]) x && all_items_ok p r end.

Lemma check_schema_arr : forall k l,
  schema_node [k] = Some SArray -> check_schema [k] (JJArr l) = all_items_ok [k] l.
Proof.
  intros k l H. induction l as [|x l IH].
  - cbn [check_schema all_items_ok]. rewrite H. reflexivity.
  - cbn [check_schema all_items_ok] in *. rewrite H in *. rewrite IH. reflexivity.
Qed.

Lemma all_items_str : forall k vs, schema_node [k; ARRK] = Some SString -> all_items_ok [k] (map JJStr vs) = true.
Proof.
  intros k vs H. induction vs; cbn [map all_items_ok]; [reflexivity|].
  rewrite check_schema_str. cbn [app]. rewrite H. exact IHvs.
Qed.

Fixpoint members_ok (l : list (bstr * jjv)) : bool :=
  match l with
  | [] => true
  | (k, x) :: r => (if schema_has_child [] k then check_schema [k] x else false) && members_ok r
  end.

Lemma check_schema_top : forall l, check_schema [] (JJObj l) = members_ok l.
Proof.
  induction l as [|[k x] l IH].
  - reflexivity.
  - cbn [check_schema members_ok app] in *. rewrite IH. reflexivity.
Qed.

Lemma main_array_not_scalar : forall e, main_array e = true -> main_scalar e = false.
Proof.
  intros e H. unfold main_array, main_scalar in *.
  repeat (apply andb_true_iff in H; destruct H as [H ?]). rewrite H1. cbn. rewrite andb_false_r. reflexivity.
Qed.

Lemma json_scalar_facts : forall e, In e argv_table -> main_scalar e = true ->
  schema_has_child [] (camel (ae_flag e)) = true /\ scalar_ok_on (j_entries [camel (ae_flag e)]) e = true /\
  schema_node [camel (ae_flag e)] = Some SString.
Proof.
  intros e Hin Hs. pose proof json_scalar_entries_ok as H. rewrite forallb_forall in H.
  apply scalar_facts_inv. apply (H e). apply filter_In. auto.
Qed.

Lemma json_array_facts : forall e, In e argv_table -> main_array e = true ->
  schema_has_child [] (camel (ae_flag e)) = true /\ find is_jmanual (j_entries [camel (ae_flag e)]) = None /\
  (exists je, find is_jarray (j_entries [camel (ae_flag e)]) = Some je /\ noop_array (handler_name je) = true) /\
  j_entries [camel (ae_flag e)] <> [] /\ scalar_ok_on (j_entries [camel (ae_flag e); ARRK]) e = true /\
  schema_node [camel (ae_flag e)] = Some SArray /\ schema_node [camel (ae_flag e); ARRK] = Some SString.
Proof.
  intros e Hin Hs. pose proof json_array_entries_ok as H. rewrite forallb_forall in H.
  apply array_facts_inv. apply (H e). apply filter_In. auto.
Qed.

(* ---- arrays *)
Definition arr_go (p : list bstr) : list jjv -> jstate -> jstep :=
  fix go (l : list jjv) (s : jstate) : jstep :=
    match l with
    | [] => JOk s
    | x :: rest =>
        match x with
        | JJArr _ => JErr s (EFront 22)
        | _ => match j_handle p x s with
               | JOk s' => go rest s'
               | JErr s' en => JErr s' en
               end
        end
    end.

Lemma arr_go_nil : forall p s, arr_go p [] s = JOk s.
Proof. reflexivity. Qed.
Lemma arr_go_str : forall p x rest s,
  arr_go p (JJStr x :: rest) s = match j_handle p (JJStr x) s with JOk s' => arr_go p rest s' | JErr s' en => JErr s' en end.
Proof. reflexivity. Qed.

Lemma j_handle_arr_eq : forall p items s,
  j_handle p (JJArr items) s =
  match find is_jmanual (j_entries p) with
  | Some e => if is_ignore (handler_name e) then JOk s else JErr s (EFront 22)
  | None =>
    match find is_jarray (j_entries p) with
    | None => JErr s (EFront 22)
    | Some e =>
        match j_begin_array (handler_name e) s with
        | JErr s' en => JErr s' en
        | JOk s1 =>
            match arr_go (p ++ [ARRK]) items s1 with
            | JOk s2 => j_end_array (handler_name e) s2
            | JErr s' en => JErr s' en
            end
        end
    end
  end.
Proof. intros. reflexivity. Qed.

Lemma noop_array_begin_end : forall h s, noop_array h = true -> j_begin_array h s = JOk s /\ j_end_array h s = JOk s.
Proof.
  intros h s H. unfold noop_array in H. apply andb_true_iff in H. destruct H as [H1 H2].
  apply negb_true_iff in H1. apply negb_true_iff in H2.
  unfold j_begin_array, j_end_array. rewrite H1, H2. split; reflexivity.
Qed.

Lemma arr_go_vals : forall e p, cfg_opt e = true -> choices_shape e = true -> scalar_ok_on (j_entries p) e = true ->
  forall vs s,
  arr_go p (map JJStr vs) s =
  if snd (denote_vals e vs) then JOk (j_emits (fst (denote_vals e vs)) s)
  else JErr (j_emits (fst (denote_vals e vs)) s) (EFront (jrej_kind e)).
Proof.
  intros e p Hm Hshape Hok. induction vs as [|v vs IH]; intros s.
  - reflexivity.
  - cbn [map denote_vals]. rewrite arr_go_str. rewrite (j_handle_str e p v s Hm Hshape Hok).
    destruct (opt_denote e v) as [c|].
    + rewrite IH. destruct (denote_vals e vs) as [cs ok]. cbn. reflexivity.
    + reflexivity.
Qed.

(* ---- the named keys of the hand-written handlers *)
Lemma manual_key_facts :
  find is_jmanual (j_entries [B"inputFile"]) = Some (mk_jentry [B"inputFile"] JManual [] (TManual B"setupInputFile")) /\
  find is_jmanual (j_entries [B"outputFile"]) = Some (mk_jentry [B"outputFile"] JManual [] (TManual B"setupOutputFile")) /\
  find is_jmanual (j_entries [B"empty"]) = Some (mk_jentry [B"empty"] JManual [] (TManual B"setupEmpty")) /\
  find is_jmanual (j_entries [B"replaceInput"]) = Some (mk_jentry [B"replaceInput"] JManual [] (TManual B"setupReplaceInput")) /\
  is_nil (j_entries [B"inputFile"]) = false /\ is_nil (j_entries [B"outputFile"]) = false /\
  is_nil (j_entries [B"empty"]) = false /\ is_nil (j_entries [B"replaceInput"]) = false /\
  schema_has_child [] B"inputFile" = true /\ schema_has_child [] B"outputFile" = true /\
  schema_has_child [] B"empty" = true /\ schema_has_child [] B"replaceInput" = true /\
  schema_node [B"inputFile"] = Some SString /\ schema_node [B"outputFile"] = Some SString /\
  schema_node [B"empty"] = Some SString /\ schema_node [B"replaceInput"] = Some SString.
Proof. vm_compute. repeat split; reflexivity. Qed.

Lemma j_handle_manual : forall p x s jm, find is_jmanual (j_entries p) = Some jm -> is_ignore (handler_name jm) = false ->
  j_handle p (JJStr x) s = j_manual_string (handler_name jm) x s.
Proof.
  intros. rewrite j_handle_str_eq. unfold j_string_at. rewrite H. rewrite H0. reflexivity.
Qed.

Lemma argv_ok_shape : forall e, argv_entry_ok e = true -> choices_shape e = true.
Proof.
  intros e H. unfold argv_entry_ok in H.
  apply andb_true_iff in H; destruct H as [H _]. apply andb_true_iff in H; destruct H as [H _].
  apply andb_true_iff in H; destruct H as [_ H]. exact H.
Qed.

(* ---- dictionaries: the members of a nested object *)
Definition dict_go (dp : list bstr) : list (bstr * jjv) -> jstate -> jstep :=
  fix go (l : list (bstr * jjv)) (s : jstate) : jstep :=
    match l with
    | [] => JOk s
    | (k, x) :: rest =>
        match j_entries (dp ++ [k]) with
        | [] => JErr s (EFront 22)
        | _ => match j_handle (dp ++ [k]) x s with
               | JOk s' => go rest s'
               | JErr s' e => JErr s' e
               end
        end
    end.

Lemma dict_go_nil : forall dp s, dict_go dp [] s = JOk s.
Proof. reflexivity. Qed.
Lemma dict_go_cons : forall dp k x rest s,
  dict_go dp ((k, x) :: rest) s =
  match j_entries (dp ++ [k]) with
  | [] => JErr s (EFront 22)
  | _ => match j_handle (dp ++ [k]) x s with JOk s' => dict_go dp rest s' | JErr s' e => JErr s' e end
  end.
Proof. reflexivity. Qed.

Definition dict_walk (dp : list bstr) (h : bstr) (l : list (bstr * jjv)) (s : jstate) : jstep :=
  match j_begin_dict h l s with
  | JErr s' e => JErr s' e
  | JOk s1 => match dict_go dp l s1 with
              | JOk s2 => j_end_dict h s2
              | JErr s' e => JErr s' e
              end
  end.

Lemma j_handle_obj_eq : forall p l s,
  j_handle p (JJObj l) s =
  match find is_jmanual (j_entries p) with
  | Some e => if is_ignore (handler_name e) then JOk s else JErr s (EFront 22)
  | None =>
    match find is_jdict (j_entries p) with
    | Some e => dict_walk p (handler_name e) l s
    | None =>
        if match find is_jarray (j_entries p) with Some _ => true | None => false end
        then match find is_jdict (j_entries (p ++ [ARRK])) with
             | Some e2 => dict_walk (p ++ [ARRK]) (handler_name e2) l s
             | None => JErr s (EFront 22)
             end
        else JErr s (EFront 22)
    end
  end.
Proof. intros. reflexivity. Qed.

Fixpoint sub_members_ok (p : list bstr) (l : list (bstr * jjv)) : bool :=
  match l with
  | [] => true
  | (k, x) :: r => (if schema_has_child p k then check_schema (p ++ [k]) x else false) && sub_members_ok p r
  end.

Lemma check_schema_obj : forall k0 p l, schema_node (k0 :: p) = Some SDict ->
  check_schema (k0 :: p) (JJObj l) = sub_members_ok (k0 :: p) l.
Proof.
  intros k0 p l H. induction l as [|[k x] l IH].
  - cbn [check_schema sub_members_ok]. rewrite H. reflexivity.
  - cbn [check_schema sub_members_ok] in *. rewrite H in *. rewrite IH. reflexivity.
Qed.

(* table facts for the options of a nested table living at JSON path dp *)
Definition json_sub_entry_ok (dp : list bstr) (e : aentry) : bool :=
  scalar_facts (schema_has_child dp (camel (ae_flag e))) (j_entries (dp ++ [camel (ae_flag e)])) (schema_node (dp ++ [camel (ae_flag e)])) e.

Lemma json_global_entries_ok : forallb (json_sub_entry_ok [B"global"]) (filter (sub_opt B"global") argv_table) = true.
Proof. vm_compute. reflexivity. Qed.

Definition member_of (p : aentry * bstr) : bstr * jjv := (camel (ae_flag (fst p)), JJStr (snd p)).

(* the members standing for the options of a nested table: accepted by the schema, and handled with the calls of denote_subs *)
Lemma dict_subs : forall t dp l,
  Forall (fun p => In (fst p) argv_table /\ sub_opt t (fst p) = true /\ json_sub_entry_ok dp (fst p) = true) l ->
  forall k0 dp', dp = k0 :: dp' ->
  sub_members_ok dp (map member_of l) = true /\
  forall s, exists k, dict_go dp (map member_of l) s =
            if snd (denote_subs l) then JOk (j_emits (fst (denote_subs l)) s)
            else JErr (j_emits (fst (denote_subs l)) s) (EFront k).
Proof.
  intros t dp. induction l as [|[e v] l IH]; intros Hwf k0 dp' Hdp.
  - split; [reflexivity|]. intros s. exists 0. reflexivity.
  - pose proof (Forall_inv Hwf) as [Hin [Hsub Hfact]]. pose proof (Forall_inv_tail Hwf) as Hl. cbn [fst snd] in *.
    destruct (sub_opt_cfg_opt _ e Hsub) as [Hm Htb].
    pose proof (argv_ok_shape e (entry_ok_of_wf e Hin Hm)) as Hshape.
    destruct (scalar_facts_inv _ _ _ _ Hfact) as [Hc [Hok Hn]].
    destruct (scalar_ok_on_inv _ _ Hok) as [Hne _].
    destruct (IH Hl k0 dp' Hdp) as [IH1 IH2].
    split.
    + cbn [map]. change (member_of (e, v)) with (camel (ae_flag e), JJStr v). cbn [sub_members_ok]. rewrite Hc. rewrite check_schema_str.
      replace (match dp ++ [camel (ae_flag e)] with [] => Some SDict | _ :: _ => schema_node (dp ++ [camel (ae_flag e)]) end)
        with (schema_node (dp ++ [camel (ae_flag e)])) by (rewrite Hdp; reflexivity).
      rewrite Hn. exact IH1.
    + intros s.
      assert (Hstep : dict_go dp (map member_of ((e, v) :: l)) s =
                      match (match opt_denote e v with Some c => JOk (j_emit c s) | None => JErr s (EFront (jrej_kind e)) end) with
                      | JOk s' => dict_go dp (map member_of l) s'
                      | JErr s' en => JErr s' en
                      end).
      { cbn [map]. change (member_of (e, v)) with (camel (ae_flag e), JJStr v). rewrite dict_go_cons.
        destruct (j_entries (dp ++ [camel (ae_flag e)])) as [|je0 es0] eqn:Hes; [congruence|]. rewrite <- Hes in Hok.
        rewrite (j_handle_str e (dp ++ [camel (ae_flag e)]) v s Hm Hshape Hok). reflexivity. }
      cbn [denote_subs]. destruct (opt_denote e v) as [c|].
      * destruct (IH2 (j_emit c s)) as [k Hk]. exists k. rewrite Hstep. rewrite Hk.
        destruct (denote_subs l) as [cs ok]. cbn. reflexivity.
      * exists (jrej_kind e). rewrite Hstep. reflexivity.
Qed.

Lemma global_node_facts :
  schema_has_child [] B"global" = true /\ schema_node [B"global"] = Some SDict /\ is_nil (j_entries [B"global"]) = false /\
  find is_jmanual (j_entries [B"global"]) = None /\
  find is_jdict (j_entries [B"global"]) = Some (mk_jentry [B"global"] JDict [] (TManual B"beginGlobal")).
Proof. vm_compute. repeat split; reflexivity. Qed.

Lemma global_begin_end : forall l s,
  j_begin_dict B"beginGlobal" l s = JOk (j_emit (CCall C_MAIN B"global" []) s) /\
  j_end_dict B"beginGlobal" s = JOk (j_emit (CCall C_GLOBAL B"endGlobal" []) s).
Proof. intros. split; reflexivity. Qed.

Lemma manual_member : forall (k h x : bstr) s c,
  find is_jmanual (j_entries [k]) = Some (mk_jentry [k] JManual [] (TManual h)) -> is_nil (j_entries [k]) = false ->
  schema_has_child [] k = true -> schema_node [k] = Some SString -> is_ignore h = false ->
  j_manual_string h x s = JOk (j_emit c s) ->
  (if schema_has_child [] k then check_schema [k] (JJStr x) else false) = true /\
  j_entries [k] <> [] /\
  j_handle [k] (JJStr x) s = JOk (j_emits [c] s).
Proof.
  intros k h x s c M N C S I J. rewrite C. rewrite check_schema_str. cbv beta iota. rewrite S.
  split; [reflexivity|]. split.
  { intro H. rewrite H in N. discriminate. }
  rewrite (j_handle_manual [k] x s _ M I). exact J.
Qed.

Lemma j_emits_app : forall c1 c2 s, j_emits (c1 ++ c2) s = j_emits c2 (j_emits c1 s).
Proof. induction c1; simpl; intros c2 s; [reflexivity|apply IHc1]. Qed.

(* a top-level key holding a dictionary with begin/end handlers that make one call each *)
Lemma dict_member : forall (k h : bstr) l cs (ok : bool) s kk (beginc endc : cfg_call),
  schema_has_child [] k = true -> schema_node [k] = Some SDict -> is_nil (j_entries [k]) = false ->
  find is_jmanual (j_entries [k]) = None -> find is_jdict (j_entries [k]) = Some (mk_jentry [k] JDict [] (TManual h)) ->
  sub_members_ok [k] l = true ->
  j_begin_dict h l s = JOk (j_emit beginc s) ->
  (forall s2, j_end_dict h s2 = JOk (j_emit endc s2)) ->
  dict_go [k] l (j_emit beginc s) =
    (if ok then JOk (j_emits cs (j_emit beginc s)) else JErr (j_emits cs (j_emit beginc s)) (EFront kk)) ->
  (if schema_has_child [] k then check_schema [k] (JJObj l) else false) = true /\
  j_entries [k] <> [] /\
  j_handle [k] (JJObj l) s =
    if ok then JOk (j_emits (beginc :: cs ++ [endc]) s) else JErr (j_emits (beginc :: cs ++ []) s) (EFront kk).
Proof.
  intros k h l cs ok s kk beginc endc G1 G2 G3 G4 G5 D1 B1 B2 Hgo.
  split.
  { rewrite G1. rewrite (check_schema_obj k [] _ G2). exact D1. }
  split.
  { intro H. rewrite H in G3. discriminate. }
  rewrite j_handle_obj_eq. rewrite G4, G5. cbn [handler_name je_target]. unfold dict_walk.
  rewrite B1. rewrite Hgo. destruct ok.
  - rewrite B2. cbn [j_emits]. rewrite j_emits_app. reflexivity.
  - cbn [j_emits]. rewrite app_nil_r. reflexivity.
Qed.

(* ---- "encrypt": { "<bits>bit": {...}, "ownerPassword": o, "userPassword": u } *)
Definition ENC : bstr := B"encrypt".
Definition OWNERPW : bstr := B"ownerPassword".
Definition USERPW : bstr := B"userPassword".

Lemma encrypt_node_facts :
  schema_has_child [] ENC = true /\ schema_node [ENC] = Some SDict /\ is_nil (j_entries [ENC]) = false /\
  find is_jmanual (j_entries [ENC]) = None /\
  find is_jdict (j_entries [ENC]) = Some (mk_jentry [ENC] JDict [] (TManual B"beginEncrypt")) /\
  schema_has_child [ENC] OWNERPW = true /\ schema_node [ENC; OWNERPW] = Some SString /\ is_nil (j_entries [ENC; OWNERPW]) = false /\
  find is_jmanual (j_entries [ENC; OWNERPW]) = Some (mk_jentry [ENC; OWNERPW] JManual [] (TManual B"setupEncryptOwnerPassword")) /\
  schema_has_child [ENC] USERPW = true /\ schema_node [ENC; USERPW] = Some SString /\ is_nil (j_entries [ENC; USERPW]) = false /\
  find is_jmanual (j_entries [ENC; USERPW]) = Some (mk_jentry [ENC; USERPW] JManual [] (TManual B"setupEncryptUserPassword")).
Proof. vm_compute. repeat split; reflexivity. Qed.

Lemma j_handle_ignore : forall p x s jm, find is_jmanual (j_entries p) = Some jm -> is_ignore (handler_name jm) = true ->
  j_handle p (JJStr x) s = JOk s.
Proof. intros. rewrite j_handle_str_eq. unfold j_string_at. rewrite H. rewrite H0. reflexivity. Qed.

Lemma encrypt_member : forall (key hkey bits u o : bstr) members cs (ok : bool) kk s,
  schema_has_child [ENC] key = true -> schema_node [ENC; key] = Some SDict -> is_nil (j_entries [ENC; key]) = false ->
  find is_jmanual (j_entries [ENC; key]) = None ->
  find is_jdict (j_entries [ENC; key]) = Some (mk_jentry [ENC; key] JDict [] (TManual hkey)) ->
  (forall l s, j_begin_dict hkey l s = JOk s) -> (forall s, j_end_dict hkey s = JOk s) ->
  j_begin_dict B"beginEncrypt" [(key, JJObj members); (OWNERPW, JJStr o); (USERPW, JJStr u)] s =
    JOk (j_emit (CCall C_MAIN B"encrypt" [bits; u; o]) s) ->
  sub_members_ok [ENC; key] members = true ->
  dict_go [ENC; key] members (j_emit (CCall C_MAIN B"encrypt" [bits; u; o]) s) =
    (if ok then JOk (j_emits cs (j_emit (CCall C_MAIN B"encrypt" [bits; u; o]) s))
     else JErr (j_emits cs (j_emit (CCall C_MAIN B"encrypt" [bits; u; o]) s)) (EFront kk)) ->
  let L := [(key, JJObj members); (OWNERPW, JJStr o); (USERPW, JJStr u)] in
  (if schema_has_child [] ENC then check_schema [ENC] (JJObj L) else false) = true /\
  j_entries [ENC] <> [] /\
  j_handle [ENC] (JJObj L) s =
    if ok then JOk (j_emits (CCall C_MAIN B"encrypt" [bits; u; o] :: cs ++ [CCall C_ENC B"endEncrypt" []]) s)
    else JErr (j_emits (CCall C_MAIN B"encrypt" [bits; u; o] :: cs ++ []) s) (EFront kk).
Proof.
  intros key hkey bits u o members cs ok kk s K1 K2 K3 K4 K5 Kb Ke Hbegin Hsub Hgo L.
  destruct encrypt_node_facts as [E1 [E2 [E3 [E4 [E5 [O1 [O2 [O3 [O4 [U1 [U2 [U3 U4]]]]]]]]]]]].
  split.
  { rewrite E1. rewrite (check_schema_obj ENC [] _ E2). unfold L. cbn [sub_members_ok app].
    rewrite K1, O1, U1. rewrite (check_schema_obj ENC [key] _ K2). rewrite Hsub.
    rewrite !check_schema_str. cbv beta iota. rewrite O2, U2. reflexivity. }
  split.
  { intro H. rewrite H in E3. discriminate. }
  rewrite j_handle_obj_eq. rewrite E4, E5. cbn [handler_name je_target]. unfold dict_walk.
  unfold L. rewrite Hbegin.
  set (s1 := j_emit (CCall C_MAIN B"encrypt" [bits; u; o]) s) in *.
  rewrite dict_go_cons. cbn [app].
  destruct (j_entries [ENC; key]) as [|je0 es0] eqn:Hes; [discriminate|]. rewrite <- Hes in K4, K5.
  rewrite j_handle_obj_eq. rewrite K4, K5. cbn [handler_name je_target]. unfold dict_walk.
  rewrite Kb. rewrite Hgo. destruct ok.
  - rewrite Ke.
    rewrite dict_go_cons. cbn [app].
    destruct (j_entries [ENC; OWNERPW]) as [|je1 es1] eqn:Hes1; [discriminate|]. rewrite <- Hes1 in O4.
    rewrite (j_handle_ignore _ o _ _ O4 eq_refl).
    rewrite dict_go_cons. cbn [app].
    destruct (j_entries [ENC; USERPW]) as [|je2 es2] eqn:Hes2; [discriminate|]. rewrite <- Hes2 in U4.
    rewrite (j_handle_ignore _ u _ _ U4 eq_refl).
    rewrite dict_go_nil.
    change (j_end_dict B"beginEncrypt" (j_emits cs s1)) with (JOk (j_emit (CCall C_ENC B"endEncrypt" []) (j_emits cs s1))).
    unfold s1. cbn [j_emits]. rewrite j_emits_app. reflexivity.
  - unfold s1. cbn [j_emits]. rewrite app_nil_r. reflexivity.
Qed.

Definition enc_nd (t : bstr) (e : aentry) : bool := sub_opt t e && negb (divergent e).

Lemma enc_key_facts : forall bits, valid_bits bits = true ->
  exists hkey,
  schema_has_child [ENC] (enc_key bits) = true /\ schema_node [ENC; enc_key bits] = Some SDict /\
  is_nil (j_entries [ENC; enc_key bits]) = false /\ find is_jmanual (j_entries [ENC; enc_key bits]) = None /\
  find is_jdict (j_entries [ENC; enc_key bits]) = Some (mk_jentry [ENC; enc_key bits] JDict [] (TManual hkey)) /\
  (forall l s, j_begin_dict hkey l s = JOk s) /\ (forall s, j_end_dict hkey s = JOk s) /\
  (forall members u o s,
     j_begin_dict B"beginEncrypt" [(enc_key bits, JJObj members); (OWNERPW, JJStr o); (USERPW, JJStr u)] s =
     JOk (j_emit (CCall C_MAIN B"encrypt" [bits; u; o]) s)) /\
  forallb (json_sub_entry_ok [ENC; enc_key bits]) (filter (enc_nd (enc_table bits)) argv_table) = true.
Proof.
  intros bits Hb. unfold valid_bits in Hb. apply orb_true_iff in Hb. destruct Hb as [Hb|Hb]; [apply orb_true_iff in Hb; destruct Hb as [Hb|Hb]|];
    apply bstr_eqb_eq in Hb; subst bits.
  - exists B"beginEncrypt40bit". vm_compute. repeat split; reflexivity.
  - exists B"beginEncrypt128bit". vm_compute. repeat split; reflexivity.
  - exists B"beginEncrypt256bit". vm_compute. repeat split; reflexivity.
Qed.

(* one member of the job object: accepted by the schema, and handled with exactly the calls of its denotation *)
Lemma j_member : forall it s, wf_item argv_table it ->
  let k := fst (json_of_item it) in let v := snd (json_of_item it) in
  (if schema_has_child [] k then check_schema [k] v else false) = true /\
  j_entries [k] <> [] /\
  exists kind, j_handle [k] v s =
  if snd (denote_item it) then JOk (j_emits (fst (denote_item it)) s)
  else JErr (j_emits (fst (denote_item it)) s) (EFront kind).
Proof.
  intros it s Hwf. destruct manual_key_facts as
    [M1 [M2 [M3 [M4 [N1 [N2 [N3 [N4 [C1 [C2 [C3 [C4 [S1 [S2 [S3 S4]]]]]]]]]]]]]]].
  destruct it as [e v|e vs|f|f| | |l|u o bits l]; cbn [json_of_item fst snd denote_item].
  - (* IOpt *)
    destruct Hwf as [Hin Hs].
    assert (Hm0 : main_opt e = true) by (unfold main_opt; rewrite Hs; reflexivity).
    destruct (main_opt_cfg_opt e Hm0) as [Hm _].
    pose proof (argv_ok_shape e (entry_ok_of_wf e Hin Hm)) as Hshape.
    destruct (json_scalar_facts e Hin Hs) as [Hc [Hok Hn]].
    destruct (scalar_ok_on_inv _ _ Hok) as [Hne _].
    rewrite Hc. rewrite check_schema_str. rewrite Hn. split; [reflexivity|]. split; [exact Hne|].
    exists (jrej_kind e). rewrite (j_handle_str e _ v s Hm Hshape Hok). destruct (opt_denote e v); reflexivity.
  - (* IArr *)
    destruct Hwf as [Hin Ha].
    assert (Hm0 : main_opt e = true) by (unfold main_opt; rewrite Ha; apply orb_true_r).
    destruct (main_opt_cfg_opt e Hm0) as [Hm _].
    pose proof (argv_ok_shape e (entry_ok_of_wf e Hin Hm)) as Hshape.
    destruct (json_array_facts e Hin Ha) as [Hc [Hman [[je [Harr Hnoop]] [Hne [Hok [Hn1 Hn2]]]]]].
    rewrite Hc. rewrite (check_schema_arr _ _ Hn1). rewrite (all_items_str _ vs Hn2). split; [reflexivity|]. split; [exact Hne|].
    exists (jrej_kind e).
    rewrite j_handle_arr_eq. rewrite Hman, Harr.
    destruct (noop_array_begin_end (handler_name je) s Hnoop) as [Hb _]. rewrite Hb.
    cbn [app]. rewrite (arr_go_vals e _ Hm Hshape Hok vs s).
    destruct (denote_vals e vs) as [cs ok]. cbn [fst snd]. destruct ok; [|reflexivity].
    destruct (noop_array_begin_end (handler_name je) (j_emits cs s) Hnoop) as [_ He]. exact He.
  - (* IIn *)
    destruct (manual_member B"inputFile" B"setupInputFile" f s _ M1 N1 C1 S1 eq_refl eq_refl) as [X1 [X2 X3]].
    split; [exact X1|]. split; [exact X2|]. exists 0. exact X3.
  - (* IOut *)
    destruct (manual_member B"outputFile" B"setupOutputFile" f s _ M2 N2 C2 S2 eq_refl eq_refl) as [X1 [X2 X3]].
    split; [exact X1|]. split; [exact X2|]. exists 0. exact X3.
  - (* IEmpty *)
    destruct (manual_member B"empty" B"setupEmpty" [] s _ M3 N3 C3 S3 eq_refl eq_refl) as [X1 [X2 X3]].
    split; [exact X1|]. split; [exact X2|]. exists 0. exact X3.
  - (* IReplace *)
    destruct (manual_member B"replaceInput" B"setupReplaceInput" [] s _ M4 N4 C4 S4 eq_refl eq_refl) as [X1 [X2 X3]].
    split; [exact X1|]. split; [exact X2|]. exists 0. exact X3.
  - (* IGlobal *)
    cbn [wf_item] in Hwf. fold (wf_subs B"global" l) in Hwf.
    destruct global_node_facts as [G1 [G2 [G3 [G4 G5]]]].
    assert (Hfacts : Forall (fun p => In (fst p) argv_table /\ sub_opt B"global" (fst p) = true /\
                                      json_sub_entry_ok [B"global"] (fst p) = true) l).
    { eapply Forall_impl; [|exact Hwf]. intros p0 [Hin Hsub]. split; [exact Hin|]. split; [exact Hsub|].
      pose proof json_global_entries_ok as H. rewrite forallb_forall in H. apply H. apply filter_In. auto. }
    destruct (dict_subs B"global" [B"global"] l Hfacts B"global" [] eq_refl) as [D1 D2].
    change (map (fun p : aentry * bstr => (camel (ae_flag (fst p)), JJStr (snd p))) l) with (map member_of l).
    destruct (D2 (j_emit (CCall C_MAIN B"global" []) s)) as [k Hk].
    destruct (global_begin_end (map member_of l) s) as [B1 _].
    destruct (dict_member B"global" B"beginGlobal" (map member_of l) (fst (denote_subs l)) (snd (denote_subs l)) s k
                (CCall C_MAIN B"global" []) (CCall C_GLOBAL B"endGlobal" []) G1 G2 G3 G4 G5 D1 B1
                (fun s2 => proj2 (global_begin_end [] s2)) Hk) as [X1 [X2 X3]].
    split; [exact X1|]. split; [exact X2|]. exists k. rewrite X3.
    destruct (denote_subs l) as [cs ok]. cbn [fst snd]. destruct ok; reflexivity.
  - (* IEncrypt *)
    cbn [wf_item] in Hwf. destruct Hwf as [Hb [Hu [Ho Hl]]].
    change (map (fun p : aentry * bstr => (camel (ae_flag (fst p)), JJStr (snd p))) l) with (map member_of l).
    destruct (enc_key_facts bits Hb) as [hkey [K1 [K2 [K3 [K4 [K5 [Kb [Ke [Hbegin Hentries]]]]]]]]].
    assert (Hfacts : Forall (fun p => In (fst p) argv_table /\ sub_opt (enc_table bits) (fst p) = true /\
                                      json_sub_entry_ok [ENC; enc_key bits] (fst p) = true) l).
    { eapply Forall_impl; [|exact Hl]. intros p0 [Hin [Hsub Hnd]]. split; [exact Hin|]. split; [exact Hsub|].
      rewrite forallb_forall in Hentries. apply Hentries. apply filter_In. split; [exact Hin|]. unfold enc_nd. rewrite Hsub, Hnd. reflexivity. }
    destruct (dict_subs (enc_table bits) [ENC; enc_key bits] l Hfacts ENC [enc_key bits] eq_refl) as [D1 D2].
    destruct (D2 (j_emit (CCall C_MAIN B"encrypt" [bits; u; o]) s)) as [k Hk].
    destruct (encrypt_member (enc_key bits) hkey bits u o (map member_of l) (fst (denote_subs l)) (snd (denote_subs l)) k s
                K1 K2 K3 K4 K5 Kb Ke (Hbegin _ _ _ _) D1 Hk) as [X1 [X2 X3]].
    split; [exact X1|]. split; [exact X2|]. exists k. etransitivity; [exact X3|].
    destruct (denote_subs l) as [cs ok]. cbn [fst snd]. destruct ok; reflexivity.
Qed.

Lemma members_ok_job : forall j, Forall (wf_item argv_table) j -> members_ok (map json_of_item j) = true.
Proof.
  induction j as [|it j IH]; intros H; [reflexivity|]. inversion H as [|? ? Hit Hj]; subst.
  cbn [map members_ok]. destruct (json_of_item it) as [k v] eqn:Hk.
  destruct (j_member it (mk_jstate [] false []) Hit) as [H1 _]. rewrite Hk in H1. cbn [fst snd] in H1.
  rewrite H1. exact (IH Hj).
Qed.

Lemma j_top_job : forall j s, Forall (wf_item argv_table) j ->
  exists k, j_top_members (map json_of_item j) s =
  if snd (denote_items j) then JOk (j_emits (fst (denote_items j)) s)
  else JErr (j_emits (fst (denote_items j)) s) (EFront k).
Proof.
  induction j as [|it j IH]; intros s H.
  - exists 0. reflexivity.
  - pose proof (Forall_inv H) as Hit. pose proof (Forall_inv_tail H) as Hj.
    cbn [map j_top_members denote_items]. destruct (json_of_item it) as [k v] eqn:Hk.
    destruct (j_member it s Hit) as [_ [Hne [kind Hh]]]. rewrite Hk in Hne, Hh. cbn [fst snd] in Hne, Hh.
    destruct (j_entries [k]) as [|je0 es0] eqn:Hes; [congruence|].
    rewrite Hh. destruct (denote_item it) as [cs ok]. cbn [fst snd]. destruct ok.
    + destruct (IH (j_emits cs s) Hj) as [k2 IH2]. exists k2. rewrite IH2.
      destruct (denote_items j) as [cs2 ok2]. cbn [fst snd]. rewrite j_emits_app. reflexivity.
    + exists kind. reflexivity.
Qed.

Lemma json_refines_spec_partial_lemma : forall j, Forall (wf_item argv_table) j ->
  res_is (front_json false (render_json j)) [] (fst (denote_items j)) (snd (denote_items j)).
Proof.
  intros j Hwf. unfold front_json, render_json. rewrite check_schema_top. rewrite (members_ok_job j Hwf). cbn [negb].
  destruct (j_top_job j (mk_jstate [] false []) Hwf) as [k Hk]. rewrite Hk.
  unfold res_is. destruct (denote_items j) as [cs ok]. cbn [fst snd]. destruct ok.
  - rewrite rev'_rev. cbn [rev]. rewrite j_emits_calls. cbn [j_calls]. rewrite app_nil_r, rev_involutive. reflexivity.
  - exists k. rewrite rev'_rev, j_emits_calls. cbn [j_calls]. rewrite app_nil_r, rev_involutive. reflexivity.
Qed.

(* ---- the only difference between the two call sequences: ArgParser::argEncrypt's preliminary encrypt(0, "", "") *)
Definition is_enc0 (c : cfg_call) : bool :=
  match c with CCall o m args => bstr_eqb o C_MAIN && bstr_eqb m B"encrypt" && blist_eqb args [B"0"; []; []] end.
Definition strip_enc0 (l : list cfg_call) : list cfg_call := filter (fun c => negb (is_enc0 c)) l.

Lemma strip_app : forall a b, strip_enc0 (a ++ b) = strip_enc0 a ++ strip_enc0 b.
Proof. intros. unfold strip_enc0. apply filter_app. Qed.

Lemma opt_denote_not_enc0 : forall e v c, opt_denote e v = Some c -> is_enc0 c = false.
Proof.
  intros e v c H. unfold opt_denote in H. destruct (ae_target e); [|discriminate].
  destruct (ae_kind e); try discriminate.
  - destruct v; inversion H; subst; cbn; rewrite ?andb_false_r; reflexivity.
  - inversion H; subst; cbn. rewrite !andb_false_r. reflexivity.
  - inversion H; subst; cbn. rewrite !andb_false_r. reflexivity.
  - destruct (bmem v (ae_choices e)); inversion H; subst; cbn. rewrite !andb_false_r. reflexivity.
  - destruct v; [inversion H; subst; cbn; rewrite !andb_false_r; reflexivity|].
    destruct (bmem (n :: v) (ae_choices e)); inversion H; subst; cbn. rewrite !andb_false_r. reflexivity.
Qed.

Lemma strip_vals : forall e vs, strip_enc0 (fst (denote_vals e vs)) = fst (denote_vals e vs).
Proof.
  intros e. induction vs as [|v vs IH]; [reflexivity|]. cbn [denote_vals].
  destruct (opt_denote e v) as [c|] eqn:Hc; [|reflexivity].
  destruct (denote_vals e vs) as [cs ok]. cbn [fst] in *. cbn [strip_enc0 filter]. rewrite (opt_denote_not_enc0 e v c Hc). cbn [negb].
  f_equal. exact IH.
Qed.

Lemma strip_subs : forall l, strip_enc0 (fst (denote_subs l)) = fst (denote_subs l).
Proof.
  induction l as [|[e v] l IH]; [reflexivity|]. cbn [denote_subs].
  destruct (opt_denote e v) as [c|] eqn:Hc; [|reflexivity].
  destruct (denote_subs l) as [cs ok]. cbn [fst] in *. cbn [strip_enc0 filter]. rewrite (opt_denote_not_enc0 e v c Hc). cbn [negb].
  f_equal. exact IH.
Qed.

Lemma strip_item : forall it, wf_item argv_table it -> strip_enc0 (argv_calls_item it) = fst (denote_item it).
Proof.
  intros it Hwf. destruct it as [e v|e vs|f|f| | |l|u o bits l]; cbn [argv_calls_item denote_item].
  - destruct (opt_denote e v) as [c|] eqn:Hc; [|reflexivity]. cbn [fst strip_enc0 filter]. rewrite (opt_denote_not_enc0 e v c Hc). reflexivity.
  - apply strip_vals.
  - reflexivity.
  - reflexivity.
  - reflexivity.
  - reflexivity.
  - pose proof (strip_subs l) as H. destruct (denote_subs l) as [cs ok]. cbn [fst] in *.
    change (strip_enc0 (CCall B"c_main" B"global" [] :: cs ++ (if ok then [CCall B"c_global" B"endGlobal" []] else [])))
      with (CCall B"c_main" B"global" [] :: strip_enc0 (cs ++ (if ok then [CCall B"c_global" B"endGlobal" []] else []))).
    rewrite strip_app, H. destruct ok; reflexivity.
  - cbn [wf_item] in Hwf. destruct Hwf as [Hb _].
    pose proof (strip_subs l) as H. destruct (denote_subs l) as [cs ok]. cbn [fst] in *.
    assert (He : is_enc0 (CCall B"c_main" B"encrypt" [bits; u; o]) = false).
    { unfold valid_bits in Hb. apply orb_true_iff in Hb. destruct Hb as [Hb|Hb]; [apply orb_true_iff in Hb; destruct Hb as [Hb|Hb]|];
        apply bstr_eqb_eq in Hb; subst bits; reflexivity. }
    change (strip_enc0 (ENC0 :: CCall B"c_main" B"encrypt" [bits; u; o] :: cs ++ (if ok then [CCall B"c_enc" B"endEncrypt" []] else [])))
      with (if negb (is_enc0 (CCall B"c_main" B"encrypt" [bits; u; o]))
            then CCall B"c_main" B"encrypt" [bits; u; o] :: strip_enc0 (cs ++ (if ok then [CCall B"c_enc" B"endEncrypt" []] else []))
            else strip_enc0 (cs ++ (if ok then [CCall B"c_enc" B"endEncrypt" []] else []))).
    rewrite He. cbn [negb]. rewrite strip_app, H. destruct ok; reflexivity.
Qed.

Lemma strip_argv_calls : forall j, Forall (wf_item argv_table) j -> strip_enc0 (argv_calls j) = fst (denote_items j).
Proof.
  induction j as [|it j IH]; intros Hwf; [reflexivity|].
  pose proof (Forall_inv Hwf) as Hit. pose proof (Forall_inv_tail Hwf) as Hj.
  cbn [argv_calls denote_items]. pose proof (strip_item it Hit) as Hs.
  destruct (denote_item it) as [cs ok]. cbn [fst snd] in *. destruct ok.
  - rewrite strip_app, Hs, (IH Hj). destruct (denote_items j). reflexivity.
  - exact Hs.
Qed.

(* nested_equivalent (see the FULL STATEMENT above argv_refines_spec_partial): command line and job JSON make the same Config calls
   (the command line's preliminary encrypt(0, "", "") apart), and one is rejected as a usage error iff the other is *)
Lemma nested_equivalent_partial_lemma : forall files j, wf_job argv_table j ->
  strip_enc0 (r_calls (front_argv files (render_argv j))) = r_calls (front_json false (render_json j)) /\
  ((r_end (front_argv files (render_argv j)) = EFin /\ r_end (front_json false (render_json j)) = EFin) \/
   (exists k1 k2, r_end (front_argv files (render_argv j)) = EFront k1 /\ r_end (front_json false (render_json j)) = EFront k2)).
Proof.
  intros files j Hwf. pose proof (argv_refines_spec_partial_lemma files j Hwf) as HA.
  destruct Hwf as [Hwf _]. pose proof (json_refines_spec_partial_lemma j Hwf) as HJ.
  pose proof (strip_argv_calls j Hwf) as HS.
  unfold res_is in *. destruct (snd (denote_items j)).
  - rewrite HA, HJ. cbn [r_calls r_end app]. split; [|left; split; reflexivity].
    rewrite strip_app, HS. reflexivity.
  - destruct HA as [k1 HA]. destruct HJ as [k2 HJ]. rewrite HA, HJ. cbn [r_calls r_end app]. split; [exact HS|].
    right. exists k1, k2. split; reflexivity.
Qed.

(* usage_errors_agree: a job is rejected by the argv front end iff it is rejected by the JSON front end (same jobs as above) *)
Definition is_front_usage (r : fe_res) : Prop := exists k, r_end r = EFront k.
Lemma usage_errors_agree_partial_lemma : forall files j, wf_job argv_table j ->
  is_front_usage (front_argv files (render_argv j)) <-> is_front_usage (front_json false (render_json j)).
Proof.
  intros files j Hwf. destruct (nested_equivalent_partial_lemma files j Hwf) as [_ [[H1 H2]|[k1 [k2 [H1 H2]]]]]; unfold is_front_usage.
  - rewrite H1, H2. split; intros [k Hk]; discriminate.
  - rewrite H1, H2. split; intros _; eauto.
Qed.

(* ------------------------------------------------------------------ the full statements are false on the faithful model: witnesses *)
(* without the positional discipline of wf_pos: "empty" followed by "inputFile" is accepted by the JSON front end (Config calls
   emptyInput, inputFile, outputFile, then the consistency check) while the command line rejects the second positional word *)
Lemma empty_with_input_refuted_lemma :
  exists j, Forall (wf_item argv_table) j /\
            r_end (front_json false (render_json j)) = EFin /\ r_end (front_argv [] (render_argv j)) = EFront 7.
Proof.
  exists [IEmpty; IIn B"A.pdf"; IOut B"out.pdf"]. split.
  - repeat constructor.
  - vm_compute. split; reflexivity.
Qed.

(* over the nested tables: 40-bit encryption, --modify=y is accepted on the command line, "modify": "y" is a usage error in job JSON
   (and "modify": "all" the other way round) - the divergence of the generated tables (tables_equivalent_refuted) seen through the
   front-end models *)
Lemma nested_equivalent_refuted_lemma :
  r_end (front_argv [] [B"A.pdf"; B"out.pdf"; B"--encrypt"; B"u"; B"o"; B"40"; B"--modify=y"; B"--"]) = EFin /\
  r_end (front_json false (JJObj [(B"encrypt", JJObj [(B"40bit", JJObj [(B"modify", JJStr B"y")]);
                                                       (B"ownerPassword", JJStr B"o"); (B"userPassword", JJStr B"u")]);
                                  (B"inputFile", JJStr B"A.pdf"); (B"outputFile", JJStr B"out.pdf")])) = EFront 21 /\
  r_end (front_argv [] [B"A.pdf"; B"out.pdf"; B"--encrypt"; B"u"; B"o"; B"40"; B"--modify=all"; B"--"]) = EFront 2 /\
  r_end (front_json false (JJObj [(B"encrypt", JJObj [(B"40bit", JJObj [(B"modify", JJStr B"all")]);
                                                       (B"ownerPassword", JJStr B"o"); (B"userPassword", JJStr B"u")]);
                                  (B"inputFile", JJStr B"A.pdf"); (B"outputFile", JJStr B"out.pdf")])) = EFin.
Proof. vm_compute. repeat split; reflexivity. Qed.

(* a single object / string where the schema has a one-element array passes JSON::checkSchema and reaches the item handler without the
   array's begin/end handlers: "pages": {...} dereferences the null c_pages; "setPageLabels": "1:r" never calls setPageLabels *)
Lemma json_single_item_refuted_lemma :
  r_end (front_json false (JJObj [(B"inputFile", JJStr B"A.pdf"); (B"outputFile", JJStr B"out.pdf");
                                  (B"pages", JJObj [(B"file", JJStr B"B.pdf")])])) = ECrash /\
  front_json false (JJObj [(B"inputFile", JJStr B"A.pdf"); (B"outputFile", JJStr B"out.pdf"); (B"setPageLabels", JJStr B"1:r")]) =
  mk_fe_res [CCall C_MAIN B"inputFile" [B"A.pdf"]; CCall C_MAIN B"outputFile" [B"out.pdf"]; CHECK] EFin /\
  r_calls (front_argv [] [B"A.pdf"; B"out.pdf"; B"--set-page-labels"; B"1:r"; B"--"]) =
  [CCall C_MAIN B"inputFile" [B"A.pdf"]; CCall C_MAIN B"outputFile" [B"out.pdf"]; CCall C_MAIN B"setPageLabels" [B"1:r"]; CHECK].
Proof. vm_compute. repeat split; reflexivity. Qed.

Lemma in_by_compute : forall e l, existsb (fun x => aentry_same x e) l = true -> In e l.
Proof.
  intros e l H. apply existsb_exists in H. destruct H as [x [Hin Hs]]. apply aentry_same_eq in Hs. subst. exact Hin.
Qed.

(* ================================================================== argv + --job-json-file (partial job JSON) *)
Lemma denote_items_app : forall a b, snd (denote_items a) = true ->
  denote_items (a ++ b) = (fst (denote_items a) ++ fst (denote_items b), snd (denote_items b)).
Proof.
  induction a as [|it a IH]; intros b H.
  - cbn. destruct (denote_items b). reflexivity.
  - cbn [app denote_items] in *. destruct (denote_item it) as [cs ok]. destruct ok; [|discriminate].
    destruct (denote_items a) as [cs2 ok2] eqn:Ha. cbn [fst snd] in *. rewrite (IH b H).
    cbn [fst snd]. rewrite app_assoc. reflexivity.
Qed.

Lemma argv_calls_app : forall a b, snd (denote_items a) = true -> argv_calls (a ++ b) = argv_calls a ++ argv_calls b.
Proof.
  induction a as [|it a IH]; intros b H; [reflexivity|].
  cbn [app argv_calls denote_items] in *. destruct (denote_item it) as [cs ok]. cbn [snd]. destruct ok; [|discriminate].
  destruct (denote_items a) as [cs2 ok2] eqn:Ha. cbn [fst snd] in *. rewrite (IH b H). rewrite app_assoc. reflexivity.
Qed.

Lemma json_partial_refines : forall j, Forall (wf_item argv_table) j -> snd (denote_items j) = true ->
  front_json true (render_json j) = mk_fe_res (fst (denote_items j)) EFin.
Proof.
  intros j Hwf Hok. unfold front_json, render_json. rewrite check_schema_top. rewrite (members_ok_job j Hwf). cbn [negb].
  destruct (j_top_job j (mk_jstate [] false []) Hwf) as [k Hk]. rewrite Hk. rewrite Hok.
  rewrite rev'_rev, j_emits_calls. cbn [j_calls]. rewrite app_nil_r, rev_involutive. reflexivity.
Qed.

(* FULL STATEMENT mixture_equivalent (DESIGN §5 C19): argv ++ --job-json-file(partial) is equivalent to the merged job, over all option tables.
   PROVED for the jobs of nested_equivalent_partial: the command line  <j1> --job-json-file=F <j3>  makes the calls of j1, then
   Config::jobJsonFile(F), then the calls of j3 and the consistency check; reading F as a partial job (initializeFromJson(.., true))
   where F holds the job JSON of j2 makes exactly the calls of j2 (and no consistency check); and the merged command line
   <j1> <j2> <j3> makes the calls of j1, j2, j3 and the consistency check - the same as what the JSON reading makes for j2, the
   preliminary encrypt(0, "", "") apart.  What Config::jobJsonFile does in between (reading the file, JSON::parse) is outside the
   front-end model and exercised by the 'cli-mix' rendering of the end-to-end runs. *)
Lemma mixture_equivalent_partial_lemma : forall files e F j1 j2 j3,
  ae_target e = TConfig C_MAIN B"jobJsonFile" -> ae_kind e = KParam ->
  wf_job argv_table (j1 ++ [IOpt e F] ++ j3) -> wf_job argv_table (j1 ++ j2 ++ j3) ->
  snd (denote_items j1) = true -> snd (denote_items j2) = true -> snd (denote_items j3) = true ->
  front_argv files (render_argv (j1 ++ [IOpt e F] ++ j3)) =
    mk_fe_res (argv_calls j1 ++ [CCall C_MAIN B"jobJsonFile" [F]] ++ argv_calls j3 ++ [CHECK]) EFin /\
  front_json true (render_json j2) = mk_fe_res (fst (denote_items j2)) EFin /\
  front_argv files (render_argv (j1 ++ j2 ++ j3)) =
    mk_fe_res (argv_calls j1 ++ argv_calls j2 ++ argv_calls j3 ++ [CHECK]) EFin /\
  strip_enc0 (argv_calls j2) = fst (denote_items j2).
Proof.
  intros files e F j1 j2 j3 Htg Hkind Hwf1 Hwf2 H1 H2 H3.
  assert (Hc : opt_denote e F = Some (CCall C_MAIN B"jobJsonFile" [F])).
  { unfold opt_denote. rewrite Htg, Hkind. reflexivity. }
  assert (Hwf2' : Forall (wf_item argv_table) j2).
  { destruct Hwf2 as [Hwf2 _]. apply Forall_app in Hwf2. destruct Hwf2 as [_ Hwf2]. apply Forall_app in Hwf2. tauto. }
  split; [|split; [|split]].
  - pose proof (argv_refines_spec_partial_lemma files _ Hwf1) as HA. unfold res_is in HA.
    rewrite (denote_items_app j1 _ H1) in HA. rewrite (argv_calls_app j1 _ H1) in HA. cbn [fst snd] in HA.
    cbn [app denote_items denote_item argv_calls argv_calls_item] in HA. rewrite Hc in HA. cbn [fst snd] in HA.
    destruct (denote_items j3) as [cs3 ok3] eqn:H3'. cbn [fst snd] in *. subst ok3.
    cbn [fst snd app] in HA. cbn [app]. rewrite HA. rewrite <- app_assoc. reflexivity.
  - apply json_partial_refines; auto.
  - pose proof (argv_refines_spec_partial_lemma files _ Hwf2) as HA. unfold res_is in HA.
    rewrite (denote_items_app j1 _ H1) in HA. rewrite (denote_items_app j2 _ H2) in HA. cbn [fst snd] in HA.
    rewrite (argv_calls_app j1 _ H1) in HA. rewrite (argv_calls_app j2 _ H2) in HA.
    rewrite H3 in HA. rewrite HA. rewrite <- !app_assoc. reflexivity.
  - apply strip_argv_calls. exact Hwf2'.
Qed.

(* the option table does contain that entry *)
Lemma job_json_file_entry_lemma :
  existsb (fun e => otarget_eqb (ae_target e) (TConfig C_MAIN B"jobJsonFile") && okind_eqb (ae_kind e) KParam && main_scalar e) argv_table = true.
Proof. vm_compute. reflexivity. Qed.
