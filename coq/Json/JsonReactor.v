(* C14, import side at document level: QPDF::JSONReactor (libqpdf/QPDF_json.cc) driven by JSONParser
   (libqpdf/JSON.cc, handleToken) - what --json-input (createFromJSON, must_be_complete = true) and
   --update-from-json (updateFromJSON, must_be_complete = false) make of a whole qpdf JSON text.

   The parser hands the reactor one event per member IN TEXT ORDER (dictionaryItem / arrayItem when the value
   starts, dictionaryStart / arrayStart, containerEnd); the reactor is a state machine over these events
   (st_top, st_qpdf, st_qpdf_meta, st_objects, st_trailer, st_object_top, st_stream, st_object, st_ignore).
   Because the events of a container are exactly the walk of its subtree, the model is written as one function
   per state over the parsed tree `jr_json`, whose objects keep their members in text order (duplicates
   included: qpdf's parser does not reject them, the last one wins where the reactor overwrites).

   Model conventions
   * `jobj` (JsonEmit.v) is the imported object; dictionaries are std::map: key-sorted association lists
     (`jr_put`: insert or assign; a direct null value ERASES the key - BaseHandle::replace).
   * Stream::replaceStreamData(data, filter, decode_parms) -> replaceFilterData: an uninitialised handle (None)
     leaves /Filter resp. /DecodeParms alone, an initialised one is stored with replaceKey (so a direct null
     removes the key). The reactor passes uninitialised handles for "data" and "datafile" (`jr_stream_step`).
   * /Length. `lenfix = false` is the tree as it is: "dict" installs the dictionary as written, /Length
     included; replaceFilterData (called for "data" / "datafile" with length 0) removes /Length; when the data
     of a stream come from a provider, pipeStreamData compares their size with an integer /Length and throws
     on a mismatch (`jr_stream_view`). So a stale /Length survives exactly when "dict" FOLLOWS "data" (qpdf's
     own order), although the manual says /Length is ignored (known finding C14-F3).
     `lenfix = true` is the tree after proposed_fixes/C14-F3_json_stream_length_ignored.diff: /Length is
     dropped from "dict". There /Length is never consulted again (the writer recomputes it, writeStreamJSON
     drops it), and the model's stream dictionary is the real one WITHOUT /Length.
     The driver leaves /Length out of its dump in both cases (pipeStreamData sets it as a side effect).
     The same flag also stands for proposed_fixes/C14-F4_json_value_own_reference.diff ("value": "n g R" is refused
     for a stream as it is for every other object): lenfix = the tree after the proposed repairs of the reader.
   * an object whose value is the direct null is the same as an absent object (`jr_set`).
   * errors: JSONReactor::error sets a flag and import goes on, importJSON throws at the end; exceptions
     (QPDFObjectHandle::parse on a bad "n:/..." key, a top-level array or scalar) abort at once. Both end in
     "no document": the model ORs them into one flag and `jr_import` returns None.
   * outside the model (flag jr_unmodelled): a number with an exponent (std::stod + double_to_string), and
     "pushedinheritedpageresources" / "calledgetallpages" = true in update mode (they run page-tree code).
   No proofs in this file (C14ProofsJ.v). *)
From QV Require Import Base.Bytes Json.JsonEmit Filters.Filters.
Local Open Scope N_scope.

Inductive jr_json :=
| JrNull
| JrBool (b : bool)
| JrNum (spelling : list N)                  (* the token as written *)
| JrStr (s : list N)                         (* the string VALUE (escapes resolved, UTF-8) *)
| JrArr (l : list jr_json)
| JrObj (m : list (list N * jr_json)).       (* members in text order *)

(* ------------------------------------------------------------------ std::map<std::string, ...> *)

Fixpoint jr_bytes_ltb (a b : list N) : bool :=
  match a, b with
  | [], [] => false
  | [], _ :: _ => true
  | _ :: _, [] => false
  | x :: a', y :: b' => if x <? y then true else if y <? x then false else jr_bytes_ltb a' b'
  end.

Section Map.
  Context {K V : Type}.
  Variable keq klt : K -> K -> bool.
  (* items[key] = value (Some) / items.erase(key) (None) *)
  Fixpoint jr_map_upd (k : K) (ov : option V) (m : list (K * V)) : list (K * V) :=
    match m with
    | [] => match ov with Some v => [(k, v)] | None => [] end
    | (k', v') :: r =>
      if keq k k' then match ov with Some v => (k, v) :: r | None => r end
      else if klt k k' then match ov with Some v => (k, v) :: m | None => m end
      else (k', v') :: jr_map_upd k ov r
    end.
  Fixpoint jr_map_get (k : K) (m : list (K * V)) : option V :=
    match m with
    | [] => None
    | (k', v') :: r => if keq k k' then Some v' else jr_map_get k r
    end.
End Map.

Definition jr_keq := list_eqb N.eqb.
(* BaseHandle::replace *)
Definition jr_put (k : list N) (o : jobj) (d : list (list N * jobj)) : list (list N * jobj) :=
  jr_map_upd jr_keq jr_bytes_ltb k (if jm_is_null o then None else Some o) d.

Definition jr_s_length : list N := [47; 76; 101; 110; 103; 116; 104].                          (* /Length *)
Definition jr_s_filter : list N := [47; 70; 105; 108; 116; 101; 114].                          (* /Filter *)
Definition jr_s_decodeparms : list N := [47; 68; 101; 99; 111; 100; 101; 80; 97; 114; 109; 115]. (* /DecodeParms *)
Definition jr_strip_length (d : list (list N * jobj)) : list (list N * jobj) :=
  jr_map_upd jr_keq jr_bytes_ltb jr_s_length None d.

(* ------------------------------------------------------------------ numbers: makeObject, value.getNumber *)

(* QUtil::is_long_long: strtoll succeeds without ERANGE and std::to_string gives back the spelling *)
Definition jr_ll (sp : list N) : option Z :=
  let '(neg, ds) := match sp with 45 :: t => (true, t) | _ => (false, sp) end in
  match ds with
  | [] => None
  | _ =>
    if forallb is_digit ds then
      let z := if neg then (- Z.of_N (dec_value ds))%Z else Z.of_N (dec_value ds) in
      if ((-9223372036854775808 <=? z) && (z <=? 9223372036854775807))%Z && jr_keq (dec_of_Z z) sp
      then Some z else None
    else None
  end.

Definition jr_has_exponent (sp : list N) : bool := existsb (fun c => (c =? 101) || (c =? 69)) sp.

(* ------------------------------------------------------------------ st_object: makeObject + the members that follow *)

Definition jr_s_npfx (k : list N) : option (list N) :=      (* is_pdf_name: "n:/" + rest *)
  match k with 110 :: 58 :: 47 :: s => Some s | _ => None end.

(* dictionaryItem in st_object: is_pdf_name(key) ? QPDFObjectHandle::parse(&pdf, key.substr(2)).getName() : key
   (None: parse throws) *)
Definition jr_key (strict : bool) (k : list N) : option (list N) :=
  match jr_s_npfx k with
  | Some s => match jm_name_token strict s [] with Some n => Some (47 :: n) | None => None end
  | None => Some k
  end.

(* result of a walk in st_object: (object, error seen, something outside the model seen) *)
Definition jr_res : Type := jobj * bool * bool.

Definition jr_dict_step (strict : bool) (s : list (list N * jobj) * bool * bool) (kv : list N * jr_res)
  : list (list N * jobj) * bool * bool :=
  let '(d, e, u) := s in
  let '(k, (o, eo, uo)) := kv in
  match jr_key strict k with
  | Some k' => (jr_put k' o d, e || eo, u || uo)
  | None => (d, true, u || uo)
  end.

Fixpoint jr_make (strict : bool) (v : jr_json) : jr_res :=
  match v with
  | JrNull => (JNull, false, false)
  | JrBool b => (JBool b, false, false)
  | JrNum sp =>
    match jr_ll sp with
    | Some z => (JInt z, false, false)
    | None => (JReal sp, false, jr_has_exponent sp)
    end
  | JrStr s =>
    match jm_make_string_object strict s with
    | ImpRef n g => (JRef n g, false, false)          (* objects.getObjectForJSON(obj, gen) *)
    | ImpString b => (JStr b, false, false)
    | ImpName n => (JName n, false, false)
    | ImpError => (JNull, true, false)                (* "unrecognized string value" -> null; or parse throws *)
    end
  | JrArr l =>                                        (* arrayItem in st_object: appendItem(makeObject(value)) *)
    let r := map (jr_make strict) l in
    (JArr (map (fun x => fst (fst x)) r), existsb (fun x => snd (fst x)) r, existsb (fun x => snd x) r)
  | JrObj m =>
    let r := map (fun kv => (fst kv, jr_make strict (snd kv))) m in
    let '(d, e, u) := fold_left (jr_dict_step strict) r ([], false, false) in
    (JDict d, e, u)
  end.

(* ------------------------------------------------------------------ streams *)

Inductive jr_data :=
| JrRaw (bytes : list N)          (* data the stream already had (update mode), or "" *)
| JrInline (base64 : list N)      (* provide_data: the text between the quotes, decoded lazily by Pl_Base64 *)
| JrFile (name : list N).         (* QUtil::file_provider(filename) *)

Inductive jr_pobj :=
| JrValue (o : jobj)
| JrStream (dict : list (list N * jobj)) (data : jr_data).

(* Stream::replaceFilterData(filter, decode_parms, length) *)
Definition jr_replace_filter_data (lenfix : bool) (filter decode_parms : option jobj) (len : N) (d : list (list N * jobj))
  : list (list N * jobj) :=
  let d1 := match filter with Some f => jr_put jr_s_filter f d | None => d end in
  let d2 := match decode_parms with Some p => jr_put jr_s_decodeparms p d1 | None => d1 end in
  if lenfix then d2                                   (* abstraction: no /Length in the model dictionary *)
  else if len =? 0 then jr_strip_length d2 else jr_put jr_s_length (JInt (Z.of_N len)) d2.

(* Stream::replaceStreamData (provider: length 0; a string: its size) *)
Definition jr_replace_stream_data (lenfix : bool) (data : jr_data) (filter decode_parms : option jobj) (len : N)
  (st : list (list N * jobj) * jr_data) : list (list N * jobj) * jr_data :=
  (jr_replace_filter_data lenfix filter decode_parms len (fst st), data).

Definition jr_s_dict : list N := [100; 105; 99; 116].
Definition jr_s_data : list N := [100; 97; 116; 97].
Definition jr_s_datafile : list N := [100; 97; 116; 97; 102; 105; 108; 101].
Definition jr_s_value : list N := [118; 97; 108; 117; 101].
Definition jr_s_stream : list N := [115; 116; 114; 101; 97; 109].
Definition jr_s_trailer : list N := [116; 114; 97; 105; 108; 101; 114].
Definition jr_s_qpdf : list N := [113; 112; 100; 102].
Definition jr_s_pdfversion : list N := [112; 100; 102; 118; 101; 114; 115; 105; 111; 110].
Definition jr_s_jsonversion : list N := [106; 115; 111; 110; 118; 101; 114; 115; 105; 111; 110].
Definition jr_s_pushed : list N :=
  [112; 117; 115; 104; 101; 100; 105; 110; 104; 101; 114; 105; 116; 101; 100; 112; 97; 103; 101; 114; 101; 115; 111; 117; 114; 99; 101; 115].
Definition jr_s_calledgetallpages : list N :=
  [99; 97; 108; 108; 101; 100; 103; 101; 116; 97; 108; 108; 112; 97; 103; 101; 115].

(* the flags of JSONReactor that live as long as one entry of qpdf[1] *)
Record jr_flags := mkJrFlags {
  jf_value : bool; jf_stream : bool; jf_dict : bool; jf_data : bool; jf_datafile : bool; jf_needs : bool }.
Definition jr_flags0 := mkJrFlags false false false false false false.

(* state while the members of one "obj:n g R" entry are read *)
Record jr_ost := mkJrOst { jo_cur : jr_pobj; jo_flags : jr_flags; jo_err : bool; jo_unm : bool }.

(* dictionaryItem in st_stream (tos.object is the stream) *)
Definition jr_stream_step (strict lenfix : bool) (s : jr_ost) (kv : list N * jr_json) : jr_ost :=
  let '(k, v) := kv in
  let f := jo_flags s in
  match jo_cur s with
  | JrValue _ => s                       (* not reachable: st_stream is entered with a stream on the stack *)
  | JrStream d dat =>
    if jr_keq k jr_s_dict then
      let f' := mkJrFlags (jf_value f) (jf_stream f) true (jf_data f) (jf_datafile f) (jf_needs f) in
      match v with
      | JrObj _ =>
        match jr_make strict v with
        | (JDict nd, e, u) => mkJrOst (JrStream (if lenfix then jr_strip_length nd else nd) dat) f' (jo_err s || e) (jo_unm s || u)   (* replaceDict *)
        | (_, e, u) => mkJrOst (jo_cur s) f' true (jo_unm s || u)
        end
      | _ => mkJrOst (jo_cur s) f' true (jo_unm s)                  (* "stream.dict" must be a dictionary *)
      end
    else if jr_keq k jr_s_data then
      let f' := mkJrFlags (jf_value f) (jf_stream f) (jf_dict f) true (jf_datafile f) (jf_needs f) in
      match v with
      | JrStr t =>
        let '(d', dat') := jr_replace_stream_data lenfix (JrInline t) None None 0 (d, dat) in
        mkJrOst (JrStream d' dat') f' (jo_err s) (jo_unm s)
      | _ =>
        let '(d', dat') := jr_replace_stream_data lenfix (JrRaw []) None None 0 (d, dat) in
        mkJrOst (JrStream d' dat') f' true (jo_unm s)
      end
    else if jr_keq k jr_s_datafile then
      let f' := mkJrFlags (jf_value f) (jf_stream f) (jf_dict f) (jf_data f) true (jf_needs f) in
      match v with
      | JrStr t =>
        let '(d', dat') := jr_replace_stream_data lenfix (JrFile t) None None 0 (d, dat) in
        mkJrOst (JrStream d' dat') f' (jo_err s) (jo_unm s)
      | _ =>
        let '(d', dat') := jr_replace_stream_data lenfix (JrRaw []) None None 0 (d, dat) in
        mkJrOst (JrStream d' dat') f' true (jo_unm s)
      end
    else s                               (* unknown keys are ignored *)
  end.

(* dictionaryItem in st_object_top for the object (num, gen) *)
Definition jr_objtop_step (strict lenfix : bool) (num gen : N) (s : jr_ost) (kv : list N * jr_json) : jr_ost :=
  let '(k, v) := kv in
  let f := jo_flags s in
  if jr_keq k jr_s_value then
    let f' := mkJrFlags true (jf_stream f) (jf_dict f) (jf_data f) (jf_datafile f) (jf_needs f) in
    match jr_make strict v with
    | (JRef n g, e, u) =>
      (* replaceObject: an indirect replacement is refused unless it is this very stream (the exception is meant for
         the stream the reactor itself creates for "stream"); QPDF::replaceObject(og, <handle of og>) then turns the
         object into a reference to itself: the stream is gone (known finding C14-F4) *)
      match jo_cur s with
      | JrStream _ _ => if (n =? num) && (g =? gen) && negb lenfix
                        then mkJrOst (JrValue (JRef n g)) f' (jo_err s || e) (jo_unm s || u)
                        else mkJrOst (jo_cur s) f' true (jo_unm s || u)     (* always, after the repair of C14-F4 *)
      | JrValue _ => mkJrOst (jo_cur s) f' true (jo_unm s || u)
      end
    | (o, e, u) => mkJrOst (JrValue o) f' (jo_err s || e) (jo_unm s || u)
    end
  else if jr_keq k jr_s_stream then
    match v with
    | JrObj m =>
      let cur_is_stream := match jo_cur s with JrStream _ _ => true | JrValue _ => false end in
      let f' := mkJrFlags (jf_value f) true (jf_dict f) (jf_data f) (jf_datafile f) (negb cur_is_stream) in
      let cur' := if cur_is_stream then jo_cur s else JrStream [] (JrRaw []) in
      fold_left (jr_stream_step strict lenfix) m (mkJrOst cur' f' (jo_err s) (jo_unm s))
    | _ =>
      let f' := mkJrFlags (jf_value f) true (jf_dict f) (jf_data f) (jf_datafile f) (jf_needs f) in
      mkJrOst (jo_cur s) f' true (jo_unm s)                          (* "stream" must be a dictionary *)
    end
  else s.

(* containerEnd with from_state = st_object_top *)
Definition jr_objtop_end_err (f : jr_flags) : bool :=
  Bool.eqb (jf_value f) (jf_stream f) ||
  (jf_stream f &&
   (negb (jf_dict f) ||
    (Bool.eqb (jf_data f) (jf_datafile f) && (jf_needs f || jf_datafile f)))).

(* ------------------------------------------------------------------ the document *)

Definition jr_og_eqb (a b : N * N) : bool := (fst a =? fst b) && (snd a =? snd b).
Definition jr_og_ltb (a b : N * N) : bool := (fst a <? fst b) || ((fst a =? fst b) && (snd a <? snd b)).

Record jr_doc := mkJrDoc {
  jd_objs : list ((N * N) * jr_pobj);       (* sorted by (number, generation); no entry = null *)
  jd_trailer : jobj;
  jd_version : list N }.

Definition jr_lookup (og : N * N) (m : list ((N * N) * jr_pobj)) : jr_pobj :=
  match jr_map_get jr_og_eqb og m with Some p => p | None => JrValue JNull end.
Definition jr_set (og : N * N) (p : jr_pobj) (m : list ((N * N) * jr_pobj)) : list ((N * N) * jr_pobj) :=
  jr_map_upd jr_og_eqb jr_og_ltb og (match p with JrValue JNull => None | _ => Some p end) m.

(* global reactor state *)
Record jr_st := mkJrSt {
  js_doc : jr_doc; js_err : bool; js_unm : bool;
  js_saw_qpdf : bool; js_saw_meta : bool; js_saw_objects : bool;
  js_saw_jsonversion : bool; js_saw_pdfversion : bool; js_saw_trailer : bool }.

Definition jr_with_err (s : jr_st) : jr_st :=
  mkJrSt (js_doc s) true (js_unm s) (js_saw_qpdf s) (js_saw_meta s) (js_saw_objects s)
         (js_saw_jsonversion s) (js_saw_pdfversion s) (js_saw_trailer s).

Definition jr_s_objpfx (k : list N) : option (list N) :=      (* "obj:" + rest *)
  match k with 111 :: 98 :: 106 :: 58 :: r => Some r | _ => None end.
Definition jr_obj_key (k : list N) : option (N * N) :=
  match jr_s_objpfx k with Some r => jm_is_indirect r | None => None end.

(* st_trailer: members of the "trailer" entry; result (new trailer, saw "value", error, unmodelled) *)
Definition jr_trailer_step (strict : bool) (s : jobj * bool * bool * bool) (kv : list N * jr_json) : jobj * bool * bool * bool :=
  let '(t, sv, e, u) := s in
  let '(k, v) := kv in
  if jr_keq k jr_s_value then
    match v with
    | JrObj _ => let '(o, eo, uo) := jr_make strict v in (o, true, e || eo, u || uo)
    | _ => (t, true, true, u)                                        (* "trailer.value" must be a dictionary *)
    end
  else if jr_keq k jr_s_stream then (t, sv, true, u)                 (* the trailer may not be a stream *)
  else s.

(* dictionaryItem in st_objects, with everything up to the matching containerEnd *)
Definition jr_objects_step (strict lenfix : bool) (s : jr_st) (kv : list N * jr_json) : jr_st :=
  let '(k, v) := kv in
  let d := js_doc s in
  if jr_keq k jr_s_trailer then
    match v with
    | JrObj m =>
      let '(t, sv, e, u) := fold_left (jr_trailer_step strict) m (jd_trailer d, false, false, false) in
      mkJrSt (mkJrDoc (jd_objs d) t (jd_version d)) (js_err s || e || negb sv) (js_unm s || u)
             (js_saw_qpdf s) (js_saw_meta s) (js_saw_objects s) (js_saw_jsonversion s) (js_saw_pdfversion s) true
    | _ => mkJrSt d true (js_unm s) (js_saw_qpdf s) (js_saw_meta s) (js_saw_objects s)
                  (js_saw_jsonversion s) (js_saw_pdfversion s) true
    end
  else
    match jr_obj_key k with
    | Some og =>
      match v with
      | JrObj m =>
        let r := fold_left (jr_objtop_step strict lenfix (fst og) (snd og)) m
                           (mkJrOst (jr_lookup og (jd_objs d)) jr_flags0 false false) in
        mkJrSt (mkJrDoc (jr_set og (jo_cur r) (jd_objs d)) (jd_trailer d) (jd_version d))
               (js_err s || jo_err r || jr_objtop_end_err (jo_flags r)) (js_unm s || jo_unm r)
               (js_saw_qpdf s) (js_saw_meta s) (js_saw_objects s) (js_saw_jsonversion s) (js_saw_pdfversion s) (js_saw_trailer s)
      | _ => jr_with_err s                                           (* "obj:..." must be a dictionary *)
      end
    | None => jr_with_err s                                          (* object key should be "trailer" or "obj:n n R" *)
    end.

(* Objects::validatePDFVersion(p, version) && *p == 0 *)
Definition jr_pdf_version_ok (v : list N) : bool :=
  match jm_take_digits v with
  | ([], _) => false
  | (_, 46 :: r) => match jm_take_digits r with ([], _) => false | (_, []) => true | _ => false end
  | _ => false
  end.

(* QUtil::string_to_int(v) == 2 on a JSON number: strtoll reads the optional minus and the integer part.
   (a value beyond int makes QIntC::to_int throw: an error as well) *)
Definition jr_json_version_ok (sp : list N) : bool :=
  match sp with
  | 45 :: _ => false
  | _ => dec_value (fst (jm_take_digits sp)) =? 2
  end.

(* dictionaryItem in st_qpdf_meta *)
Definition jr_meta_step (complete : bool) (s : jr_st) (kv : list N * jr_json) : jr_st :=
  let '(k, v) := kv in
  let d := js_doc s in
  if jr_keq k jr_s_pdfversion then
    match v with
    | JrStr t =>
      if jr_pdf_version_ok t
      then mkJrSt (mkJrDoc (jd_objs d) (jd_trailer d) t) (js_err s) (js_unm s) (js_saw_qpdf s) (js_saw_meta s) (js_saw_objects s)
                  (js_saw_jsonversion s) true (js_saw_trailer s)
      else mkJrSt d true (js_unm s) (js_saw_qpdf s) (js_saw_meta s) (js_saw_objects s) (js_saw_jsonversion s) true (js_saw_trailer s)
    | _ => mkJrSt d true (js_unm s) (js_saw_qpdf s) (js_saw_meta s) (js_saw_objects s) (js_saw_jsonversion s) true (js_saw_trailer s)
    end
  else if jr_keq k jr_s_jsonversion then
    let ok := match v with JrNum sp => jr_json_version_ok sp | _ => false end in
    mkJrSt d (js_err s || negb ok) (js_unm s) (js_saw_qpdf s) (js_saw_meta s) (js_saw_objects s) true (js_saw_pdfversion s) (js_saw_trailer s)
  else if jr_keq k jr_s_pushed || jr_keq k jr_s_calledgetallpages then
    match v with
    | JrBool b => mkJrSt d (js_err s) (js_unm s || (negb complete && b)) (js_saw_qpdf s) (js_saw_meta s) (js_saw_objects s)
                         (js_saw_jsonversion s) (js_saw_pdfversion s) (js_saw_trailer s)
    | _ => jr_with_err s
    end
  else s.

(* arrayItem in st_qpdf, element by element (an array has no member order to vary) *)
Fixpoint jr_qpdf_items (strict lenfix complete : bool) (l : list jr_json) (s : jr_st) : jr_st :=
  match l with
  | [] => s
  | x :: t =>
    let s' :=
      if negb (js_saw_meta s) then
        let s1 := mkJrSt (js_doc s) (js_err s) (js_unm s) (js_saw_qpdf s) true (js_saw_objects s)
                         (js_saw_jsonversion s) (js_saw_pdfversion s) (js_saw_trailer s) in
        match x with JrObj m => fold_left (jr_meta_step complete) m s1 | _ => jr_with_err s1 end
      else if negb (js_saw_objects s) then
        let s1 := mkJrSt (js_doc s) (js_err s) (js_unm s) (js_saw_qpdf s) (js_saw_meta s) true
                         (js_saw_jsonversion s) (js_saw_pdfversion s) (js_saw_trailer s) in
        match x with JrObj m => fold_left (jr_objects_step strict lenfix) m s1 | _ => jr_with_err s1 end
      else jr_with_err s                                             (* "qpdf" must have two elements *)
    in jr_qpdf_items strict lenfix complete t s'
  end.

(* dictionaryItem in st_top *)
Definition jr_top_step (strict lenfix complete : bool) (s : jr_st) (kv : list N * jr_json) : jr_st :=
  let '(k, v) := kv in
  if jr_keq k jr_s_qpdf then
    let s1 := mkJrSt (js_doc s) (js_err s) (js_unm s) true (js_saw_meta s) (js_saw_objects s)
                     (js_saw_jsonversion s) (js_saw_pdfversion s) (js_saw_trailer s) in
    match v with JrArr l => jr_qpdf_items strict lenfix complete l s1 | _ => jr_with_err s1 end
  else s.

(* containerEnd of the outermost dictionary *)
Definition jr_top_end_err (complete : bool) (s : jr_st) : bool :=
  if negb (js_saw_qpdf s) then true
  else negb (js_saw_jsonversion s) || (complete && negb (js_saw_pdfversion s)) ||
       (if negb (js_saw_objects s) then true else complete && negb (js_saw_trailer s)).

(* QPDF::importJSON on the document d0 (createFromJSON: the document of JSON_PDF, `jr_empty_doc`).
   result: (None = import fails | Some document, something outside the model was met) *)
Definition jr_import (strict lenfix complete : bool) (d0 : jr_doc) (j : jr_json) : option jr_doc * bool :=
  match j with
  | JrObj m =>
    let s := fold_left (jr_top_step strict lenfix complete) m (mkJrSt d0 false false false false false false false false) in
    (if js_err s || jr_top_end_err complete s then None else Some (js_doc s), js_unm s)
  | _ => (None, false)                                               (* "QPDF JSON must be a dictionary" *)
  end.

(* JSON_PDF: %PDF-1.3, no objects, trailer << /Size 1 >> *)
Definition jr_empty_doc : jr_doc := mkJrDoc [] (JDict [([47; 83; 105; 122; 101], JInt 1)]) [49; 46; 51].

(* --json-input followed by nothing / --json-input then --update-from-json *)
Definition jr_create (strict lenfix : bool) (j : jr_json) : option jr_doc * bool := jr_import strict lenfix true jr_empty_doc j.
Definition jr_create_update (strict lenfix : bool) (j1 j2 : jr_json) : option jr_doc * bool :=
  match jr_create strict lenfix j1 with
  | (Some d, u) => let '(r, u2) := jr_import strict lenfix false d j2 in (r, u || u2)
  | r => r
  end.

(* what reading the data of an imported stream gives (getRawStreamData): the bytes, or - for a side file, which the
   model does not read - its name with the size pipeStreamData insists on, or an exception *)
Inductive jr_view :=
| JrBytes (b : list N)
| JrNamedFile (name : list N) (expected : option N)
| JrDataError.

Definition jr_expected_length (d : list (list N * jobj)) : option N :=      (* Stream::Length(): an integer /Length *)
  match jr_map_get jr_keq jr_s_length d with
  | Some (JInt z) => Some (Z.to_N z)
  | _ => None
  end.

Definition jr_stream_view (d : list (list N * jobj)) (data : jr_data) : jr_view :=
  match data with
  | JrRaw b => JrBytes b
  | JrInline t =>
    let b := fst (b64_decode [t]) in              (* Pl_Base64::decode of the text between the quotes *)
    match jr_expected_length d with
    | Some n => if n =? N.of_nat (length b) then JrBytes b else JrDataError
    | None => JrBytes b
    end
  | JrFile name => JrNamedFile name (jr_expected_length d)
  end.

(* ------------------------------------------------------------------ member order: normal form and the domain of the theorems *)

(* the class of a member key: two members of one JSON object whose keys fall into the same class may interact
   in some reactor state (same dictionary key after "n:" decoding, same object id, "value" against "stream",
   "data" against "datafile"); members of different classes never do (C14ProofsJ.v). *)
Definition jr_class (strict : bool) (k : list N) : list N :=
  match jr_obj_key k with
  | Some (n, g) => [111; 98; 106; 58] ++ dec_of_N n ++ [32] ++ dec_of_N g
  | None =>
    if jr_keq k jr_s_data || jr_keq k jr_s_datafile then jr_s_data
    else if jr_keq k jr_s_value || jr_keq k jr_s_stream then jr_s_value
    else match jr_key strict k with Some k' => k' | None => k end
  end.

Fixpoint jr_nodupb (l : list (list N)) : bool :=
  match l with
  | [] => true
  | x :: t => negb (existsb (jr_keq x) t) && jr_nodupb t
  end.

(* every JSON object, at any depth, has members of pairwise different classes *)
Fixpoint jr_wfb (strict : bool) (v : jr_json) : bool :=
  match v with
  | JrArr l => forallb (jr_wfb strict) l
  | JrObj m => jr_nodupb (map (fun kv => jr_class strict (fst kv)) m) && forallb (fun kv => jr_wfb strict (snd kv)) m
  | _ => true
  end.

(* normal form: members sorted by key (bytewise), at every depth *)
Fixpoint jr_insert (kv : list N * jr_json) (l : list (list N * jr_json)) : list (list N * jr_json) :=
  match l with
  | [] => [kv]
  | h :: t => if jr_bytes_ltb (fst h) (fst kv) then h :: jr_insert kv t else kv :: l
  end.
Definition jr_isort (l : list (list N * jr_json)) : list (list N * jr_json) := fold_right jr_insert [] l.

Fixpoint jr_sort (v : jr_json) : jr_json :=
  match v with
  | JrArr l => JrArr (map jr_sort l)
  | JrObj m => JrObj (jr_isort (map (fun kv => (fst kv, jr_sort (snd kv))) m))
  | _ => v
  end.

Fixpoint jr_json_eqb (a b : jr_json) : bool :=
  match a, b with
  | JrNull, JrNull => true
  | JrBool x, JrBool y => Bool.eqb x y
  | JrNum x, JrNum y => jr_keq x y
  | JrStr x, JrStr y => jr_keq x y
  | JrArr x, JrArr y =>
    (fix go (x y : list jr_json) : bool :=
       match x, y with
       | [], [] => true
       | p :: x', q :: y' => jr_json_eqb p q && go x' y'
       | _, _ => false
       end) x y
  | JrObj x, JrObj y =>
    (fix go (x y : list (list N * jr_json)) : bool :=
       match x, y with
       | [], [] => true
       | p :: x', q :: y' => jr_keq (fst p) (fst q) && jr_json_eqb (snd p) (snd q) && go x' y'
       | _, _ => false
       end) x y
  | _, _ => false
  end.

(* two texts that differ at most in the order of members (decided on the parsed trees) *)
Definition jr_same_up_to_order (strict : bool) (a b : jr_json) : bool :=
  jr_wfb strict a && jr_wfb strict b && jr_json_eqb (jr_sort a) (jr_sort b).
