(* Proofs for C09 (determinism and fixpoint). Statements are fixed. *)
From QV Require Import Base.Bytes Obj.Queue Obj.C01QueueProofs Sys.EnvModel.
From Coq Require Import Lia.
Local Open Scope N_scope.

(* With --static-id or --deterministic-id, and a non-random IV, and no fresh V5 key material, nothing
   the writer takes from the environment depends on time, output name or the random source. *)
Lemma env_noninterference_lemma : forall md5 c e1 e2 det info,
  deterministic_cfg c -> w_encrypt_v5 c = false ->
  env_inputs md5 c e1 det info = env_inputs md5 c e2 det info.
Proof.
  intros md5 c e1 e2 det info [Hid Hiv] Hv5. destruct c as [wid wiv wv5 wenc].
  cbn [w_id w_iv w_encrypt_v5 w_encrypted] in *. subst wv5.
  unfold env_inputs. cbn [w_id w_iv w_encrypt_v5 w_encrypted].
  assert (Hi : initial_vector wiv e1 64 = initial_vector wiv e2 64).
  { destruct wiv; try reflexivity. exfalso. apply Hiv. reflexivity. }
  rewrite Hi. destruct Hid as [Hid|Hid]; subst wid; reflexivity.
Qed.

(* Fresh 256-bit encryption (R5/R6) is NOT deterministic even with --static-id --static-aes-iv:
   the file key and salts come from the random source (defect D10). *)
Lemma env_noninterference_v5_refuted_lemma : exists md5 c e1 e2 det info,
  deterministic_cfg c /\ w_encrypt_v5 c = true /\
  env_inputs md5 c e1 det info <> env_inputs md5 c e2 det info.
Proof.
  exists (fun x => x), {| w_id := IdStatic; w_iv := EIvZero; w_encrypt_v5 := true; w_encrypted := true |},
    {| e_time := 0; e_outname := []; e_rand := fun _ => 0 |},
    {| e_time := 0; e_outname := []; e_rand := fun _ => 1 |}, [], [].
  split.
  - split; [left; reflexivity | cbn; discriminate].
  - split; [reflexivity|]. intros H. vm_compute in H. discriminate H.
Qed.

(* the default ID does depend on the environment (so the options matter) *)
Lemma default_id_depends_on_env_lemma : exists e1 e2 det info,
  generate_id2 (fun x => x) IdDefault false e1 det info <> generate_id2 (fun x => x) IdDefault false e2 det info.
Proof.
  exists {| e_time := 0; e_outname := []; e_rand := fun _ => 0 |},
    {| e_time := 1; e_outname := []; e_rand := fun _ => 0 |}, [], [].
  intros H. vm_compute in H. discriminate H.
Qed.

(* the first /ID element of the input is kept: a second generation keeps it too *)
Lemma id1_stable_lemma : forall orig id2 id2', orig <> [] ->
  generate_id1 (generate_id1 orig id2) id2' = generate_id1 orig id2.
Proof.
  intros orig id2 id2' H. destruct orig as [|a l]; [exfalso; apply H; reflexivity | reflexivity].
Qed.

(* ---------- simulation of the queue run under an injective renaming ---------- *)

Definition map_state (f : N -> N) (s : qstate) : qstate :=
  {| q_queue := map f (q_queue s);
     q_renumber := map (fun p => (f (fst p), snd p)) (q_renumber s);
     q_next := q_next s;
     q_written_rev := map f (q_written_rev s) |}.

Definition Good (P : N -> Prop) (s : qstate) : Prop :=
  (forall k, In k (map fst (q_renumber s)) -> P k) /\ (forall k, In k (q_queue s) -> P k).

Section Sim.
  Variable f : N -> N.
  Variable P : N -> Prop.
  Hypothesis f_inj : forall a b, P a -> P b -> f a = f b -> a = b.

  Lemma lookup_map : forall r x, P x -> (forall k, In k (map fst r) -> P k) ->
    lookup_num (map (fun p => (f (fst p), snd p)) r) (f x) = lookup_num r x.
  Proof.
    induction r as [|[k v] t IH]; intros x Hx Hr; cbn [map lookup_num fst snd].
    - reflexivity.
    - destruct (k =? x) eqn:E.
      + apply N.eqb_eq in E. subst k. rewrite N.eqb_refl. reflexivity.
      + destruct (f k =? f x) eqn:E2.
        * apply N.eqb_eq in E2. apply f_inj in E2.
          -- subst k. rewrite N.eqb_refl in E. discriminate E.
          -- apply Hr. cbn [map fst In]. left. reflexivity.
          -- exact Hx.
        * apply IH; [exact Hx|]. intros k' Hk'. apply Hr. cbn [map fst In]. right. exact Hk'.
  Qed.

  Lemma enqueue_map : forall s x, P x -> Good P s ->
    q_enqueue (map_state f s) (f x) = map_state f (q_enqueue s x).
  Proof.
    intros s x Hx [Hk Hq]. unfold q_enqueue. cbn [map_state q_renumber].
    rewrite (lookup_map _ _ Hx Hk).
    destruct (lookup_num (q_renumber s) x); [reflexivity|].
    unfold map_state. cbn [q_queue q_renumber q_next q_written_rev map fst snd].
    rewrite map_app. reflexivity.
  Qed.

  Lemma enqueue_good : forall s x, P x -> Good P s -> Good P (q_enqueue s x).
  Proof.
    intros s x Hx [Hk Hq]. unfold q_enqueue.
    destruct (lookup_num (q_renumber s) x); [split; assumption|].
    split; cbn [q_queue q_renumber map fst].
    - intros k [Hk'|Hk']; [subst k; exact Hx | apply Hk; exact Hk'].
    - intros k Hk'. apply in_app_or in Hk'. destruct Hk' as [Hk'|[Hk'|[]]].
      + apply Hq. exact Hk'.
      + subst k. exact Hx.
  Qed.

  Lemma fold_map : forall l s, (forall x, In x l -> P x) -> Good P s ->
    fold_left q_enqueue (map f l) (map_state f s) = map_state f (fold_left q_enqueue l s)
    /\ Good P (fold_left q_enqueue l s).
  Proof.
    induction l as [|a l IH]; intros s Hl Hg; cbn [map fold_left].
    - split; [reflexivity | exact Hg].
    - assert (Ha : P a) by (apply Hl; left; reflexivity).
      rewrite (enqueue_map s a Ha Hg). apply IH.
      + intros x Hx. apply Hl. right. exact Hx.
      + apply enqueue_good; assumption.
  Qed.

  Variable g g' : graph.
  Hypothesis Hch : forall x, P x -> children g' (f x) = map f (children g x).
  Hypothesis Hstep : forall x y, P x -> In y (children g x) -> P y.

  Lemma loop_sim : forall fuel s, Good P s ->
    q_loop fuel g' (map_state f s) = map_state f (q_loop fuel g s).
  Proof.
    induction fuel as [|fuel IH]; intros s Hg; cbn [q_loop].
    - reflexivity.
    - cbn [map_state q_queue]. destruct (q_queue s) as [|x rest] eqn:Eq; cbn [map].
      + reflexivity.
      + assert (Hx : P x). { destruct Hg as [_ Hq]. apply Hq. rewrite Eq. left. reflexivity. }
        rewrite (Hch x Hx).
        set (s1 := {| q_queue := rest; q_renumber := q_renumber s; q_next := q_next s;
                      q_written_rev := x :: q_written_rev s |}).
        change {| q_queue := map f rest;
                  q_renumber := q_renumber (map_state f s);
                  q_next := q_next (map_state f s);
                  q_written_rev := f x :: q_written_rev (map_state f s) |}
          with (map_state f s1).
        assert (Hg1 : Good P s1).
        { destruct Hg as [Hk Hq]. split; cbn [s1 q_queue q_renumber].
          - exact Hk.
          - intros k Hk'. apply Hq. rewrite Eq. right. exact Hk'. }
        destruct (fold_map (children g x) s1 (fun y Hy => Hstep x y Hx Hy) Hg1) as [F1 F2].
        rewrite F1. apply IH. exact F2.
  Qed.
End Sim.

Lemma children_map : forall (f : N -> N) (h : N -> list N) l x,
  (forall a b, In a l -> In b l -> f a = f b -> a = b) -> In x l ->
  children (map (fun y => (f y, h y)) l) (f x) = h x.
Proof.
  induction l as [|a l IH]; intros x Hinj Hx; cbn [map children].
  - destruct Hx.
  - destruct (f a =? f x) eqn:E.
    + apply N.eqb_eq in E. apply Hinj in E; [subst a; reflexivity | left; reflexivity | exact Hx].
    + destruct Hx as [Hx|Hx].
      * subst a. rewrite N.eqb_refl in E. discriminate E.
      * apply IH; [|exact Hx]. intros p q Hp Hq. apply Hinj; right; assumption.
Qed.

Lemma loop_fuel_indep : forall g k s, q_queue (q_loop k g s) = [] ->
  forall k', (k <= k')%nat -> q_loop k' g s = q_loop k g s.
Proof.
  induction k as [|k IH]; intros s Hq k' Hle.
  - cbn [q_loop] in *. destruct k'; cbn [q_loop]; [reflexivity|]. rewrite Hq. reflexivity.
  - destruct k' as [|k']; [lia|]. cbn [q_loop] in *.
    destruct (q_queue s) as [|x rest]; [reflexivity|].
    apply IH; [exact Hq | lia].
Qed.

Lemma map_nil_inv : forall (A B : Type) (f : A -> B) l, map f l = [] -> l = [].
Proof. intros A B f l H. destruct l; [reflexivity | discriminate H]. Qed.

Section Fix.
  Variable g : graph.
  Variable roots : list N.
  Hypothesis Hclosed : closed g roots.

  Let f := num_or0 g roots.
  Let P := reach g roots.

  Lemma f_some : forall x, P x -> renumber g roots x = Some (f x).
  Proof.
    intros x Hx. apply (renumber_domain_lemma g roots x Hclosed) in Hx.
    unfold f, num_or0. destruct (renumber g roots x); [reflexivity | exfalso; apply Hx; reflexivity].
  Qed.

  Lemma f_inj_reach : forall a b, P a -> P b -> f a = f b -> a = b.
  Proof.
    intros a b Ha Hb Hf. apply f_some in Ha. apply f_some in Hb. rewrite Hf in Ha.
    apply (renumber_injective_lemma g roots a b (f b) Hclosed Ha Hb).
  Qed.

  Lemma written_reach : forall x, In x (written g roots) <-> P x.
  Proof. apply (queue_complete_lemma g roots Hclosed). Qed.

  Lemma map_f_written : map f (written g roots) = map N.of_nat (seq 1 (length (written g roots))).
  Proof.
    pose proof (renumber_order_lemma g roots Hclosed) as H.
    apply (f_equal (map (fun o : option N => match o with Some n => n | None => 0 end))) in H.
    rewrite !map_map in H. exact H.
  Qed.

  Lemma fst_renamed : map fst (renamed_graph g roots) = map f (written g roots).
  Proof. unfold renamed_graph. rewrite map_map. reflexivity. Qed.

  Lemma children_renamed : forall x, P x ->
    children (renamed_graph g roots) (f x) = map f (children g x).
  Proof.
    intros x Hx. unfold renamed_graph.
    apply (children_map f (fun y => map f (children g y))).
    - intros a b Ha Hb. apply f_inj_reach; apply written_reach; assumption.
    - apply written_reach. exact Hx.
  Qed.

  Lemma closed_renamed : closed (renamed_graph g roots) (renamed_roots g roots).
  Proof.
    split; [|split].
    - rewrite fst_renamed, map_f_written. apply NoDup_map_of_nat. apply seq_NoDup.
    - intros x Hx. rewrite fst_renamed. unfold renamed_roots in Hx.
      apply in_map_iff in Hx. destruct Hx as [y [Hy Hin]]. subst x.
      apply in_map. apply written_reach. apply reach_root. exact Hin.
    - intros k cs y Hin Hy. rewrite fst_renamed. unfold renamed_graph in Hin.
      apply in_map_iff in Hin. destruct Hin as [x [Hx Hin]]. inversion Hx; subst k cs.
      apply in_map_iff in Hy. destruct Hy as [c [Hc Hcin]]. subst y.
      apply in_map. apply written_reach. apply (reach_step g roots x c); [|exact Hcin].
      apply written_reach. exact Hin.
  Qed.

  Lemma good_init : Good P q_init.
  Proof. split; intros k []. Qed.

  Lemma run_renamed :
    run_queue (renamed_graph g roots) (renamed_roots g roots) = map_state f (run_queue g roots).
  Proof.
    set (g' := renamed_graph g roots). set (r' := renamed_roots g roots).
    destruct (fold_map f P f_inj_reach roots q_init (fun x Hx => reach_root g roots x Hx) good_init)
      as [F1 F2].
    set (s0 := fold_left q_enqueue roots q_init) in *.
    assert (Hsim : forall fuel, q_loop fuel g' (map_state f s0) = map_state f (q_loop fuel g s0)).
    { intros fuel. apply (loop_sim f P f_inj_reach g g').
      - exact children_renamed.
      - intros x y Hx Hy. apply (reach_step g roots x y); assumption.
      - exact F2. }
    assert (Hrun' : run_queue g' r' = q_loop (S (length g')) g' (map_state f s0)).
    { unfold run_queue. fold q_init. unfold r', renamed_roots. fold f. rewrite <- F1. reflexivity. }
    (* the g'-run ends with an empty queue *)
    assert (Hq' : q_queue (run_queue g' r') = []).
    { pose proof closed_renamed as Hcl'. fold g' r' in Hcl'.
      destruct (fold_enqueue g' r' r' q_init (init_inv0 g' r')) as [G1 [G2 _]].
      { intros x Hx. apply reach_root. exact Hx. }
      assert (Hcl0 : Cl g' (fold_left q_enqueue r' q_init)).
      { intros a b Ha. rewrite G2 in Ha. destruct Ha. }
      destruct (loop_inv g' r' Hcl' (S (length g')) _ G1 Hcl0) as [_ [_ [_ L4]]].
      unfold run_queue. fold q_init. apply L4. lia. }
    rewrite Hrun', Hsim in Hq'. cbn [map_state q_queue] in Hq'. apply map_nil_inv in Hq'.
    assert (Hlen : (length g' <= length g)%nat).
    { unfold g', renamed_graph. rewrite map_length.
      destruct Hclosed as [Hnd _].
      rewrite <- (map_length fst g). apply NoDup_incl_length.
      - apply (queue_complete_lemma g roots Hclosed).
      - intros x Hx. apply (reach_in_g g roots x Hclosed). apply written_reach. exact Hx. }
    rewrite Hrun', Hsim. f_equal. unfold run_queue. fold q_init. fold s0.
    symmetry. apply loop_fuel_indep; [exact Hq' | lia].
  Qed.
End Fix.

(* Fixpoint of the numbering: a document whose objects are already numbered in first-encounter order
   (what generation 2 reads back from generation 1) is renumbered by the identity, and written in the
   same order: generation 2 and generation 3 assign the same numbers. *)
Lemma renumber_fixpoint_lemma : forall g roots, closed g roots ->
  let g' := renamed_graph g roots in
  let r' := renamed_roots g roots in
  written g' r' = map N.of_nat (seq 1 (length (written g roots)))
  /\ forall x, In x (written g' r') -> renumber g' r' x = Some x.
Proof.
  intros g roots Hclosed g' r'.
  assert (Hw : written g' r' = map (num_or0 g roots) (written g roots)).
  { unfold written, g', r'. rewrite (run_renamed g roots Hclosed). cbn [map_state q_written_rev].
    rewrite !rev'_rev, map_rev. reflexivity. }
  split.
  - rewrite Hw. apply (map_f_written g roots Hclosed).
  - intros x Hx. rewrite Hw in Hx. apply in_map_iff in Hx. destruct Hx as [y [Hy Hin]]. subst x.
    apply (written_reach g roots Hclosed) in Hin.
    unfold renumber, g', r'. rewrite (run_renamed g roots Hclosed). cbn [map_state q_renumber].
    rewrite (lookup_map (num_or0 g roots) (reach g roots) (f_inj_reach g roots Hclosed)).
    + apply (f_some g roots Hclosed y Hin).
    + exact Hin.
    + intros k Hk. destruct (final_facts g roots Hclosed) as [Hinv _].
      apply (inv_reach g roots _ Hinv). exact Hk.
Qed.
