(* handlers: Struct/ContentNorm (model of Pl_QPDFTokenizer + ContentNormalizer, coalescing) and
   Struct/ContentSem (the independent content-stream reading). I/O only. *)
open Qvmodel
open Runner

let c16_tt_name = function
  | TT_bad -> "bad" | TT_array_close -> "array_close" | TT_array_open -> "array_open"
  | TT_brace_close -> "brace_close" | TT_brace_open -> "brace_open" | TT_dict_close -> "dict_close"
  | TT_dict_open -> "dict_open" | TT_integer -> "integer" | TT_name -> "name" | TT_real -> "real"
  | TT_string -> "string" | TT_null -> "null" | TT_bool -> "bool" | TT_word -> "word" | TT_eof -> "eof"
  | TT_space -> "space" | TT_comment -> "comment" | TT_inline_image -> "inline_image"

let c16_b b = if b then "1" else "0"

let c16_streams (a : string) : n list list =
  List.map unhexbytes (String.split_on_char ',' a)

let c16_show_z (z : z) : string = string_of_bytes (dec_of_Z z)

let c16_show_sem = function
  | CsNum (m, k) -> "num:" ^ c16_show_z m ^ "/" ^ string_of_int (int_of_n k)
  | CsStr s -> "s:" ^ hexbytes s
  | CsName n -> "n:" ^ hexbytes n
  | CsBool b -> "b:" ^ c16_b b
  | CsNull -> "null"
  | CsOp w -> "op:" ^ hexbytes w
  | CsArrOpen -> "[" | CsArrClose -> "]" | CsDictOpen -> "<<" | CsDictClose -> ">>"
  | CsBraceOpen -> "{" | CsBraceClose -> "}"
  | CsImage d -> "img:" ^ hexbytes d

let () =
  register "c16norm" (fun args -> match args with
    | h :: _ ->
      let ((out, any), last) = c16_normalize_run (unhexbytes h) in
      hexbytes out ^ " " ^ c16_b any ^ " " ^ c16_b last
    | _ -> "?args");
  register "c16toks" (fun args -> match args with
    | [h] ->
      let toks = c16_tokens (unhexbytes h) in
      if toks = [] then "-" else
      String.concat ";" (List.map (fun (t : token) ->
        c16_tt_name t.tok_type ^ "," ^ hexbytes t.tok_value ^ "," ^ hexbytes t.tok_raw) toks)
    | _ -> "?args");
  register "c16pipe" (fun args -> match args with
    | [a] -> hexbytes (c16_coalesce (c16_streams a))
    | _ -> "?args");
  register "c16coalesce" (fun args -> match args with
    | [a] -> hexbytes (c16_coalesce (c16_streams a))
    | _ -> "?args");
  register "c16filter" (fun args -> match args with
    | [a] ->
      let ((out, any), last) = c16_filter_page (c16_streams a) in
      hexbytes out ^ " " ^ c16_b any ^ " " ^ c16_b last
    | _ -> "?args");
  register "c16findei" (fun args -> match args with
    | [h] -> string_of_int (int_of_n (c16_find_ei (unhexbytes h)))
    | _ -> "?args");
  register "c16clean" (fun args -> match args with
    | [h] -> c16_b (c16_clean (unhexbytes h))
    | _ -> "?args");
  register "c16names" (fun args -> match args with
    | [names; mn; n] ->
      let nl = if names = "-" then [] else List.map unhexbytes (String.split_on_char ',' names) in
      (match c16_alloc_names (nat_of_int (int_of_string n)) nl (n_of_int (int_of_string mn)) with
       | None -> "logic"
       | Some l -> if l = [] then "-" else String.concat "," (List.map hexbytes l))
    | _ -> "?args");
  register "c16sem" (fun args -> match args with
    | [h] -> (match c16_sem (unhexbytes h) with
              | None -> "invalid"
              | Some l -> if l = [] then "-" else String.concat " " (List.map c16_show_sem l))
    | _ -> "?args")
