(* Round trip of the writer model's object printer through the STRICT object parser (the specification
   of C02/C01): what `unparse` prints is read back by `parse_obj` as the same object, for every object,
   provided the string and name printers have that property (stated as section hypotheses and discharged
   for the concrete printers below). Statements are fixed. *)
From QV Require Import Base.Bytes File.StrictSyntax Obj.Queue Obj.WriterModel Obj.WmPrinters File.C02Proofs.
From Coq Require Import Lia.
Local Open Scope N_scope.

(* the strict reader's value of a writer-model object (references renumbered by ren, null dictionary
   entries dropped because the printer drops them) *)
Fixpoint to_pobj (objs : list (N * indirect)) (ren : N -> N) (o : obj) : pobj :=
  match o with
  | ONull => SpNull
  | OBool b => SpBool b
  | OInt z => SpInt z
  | OReal s => SpReal s
  | OStr s => SpStr s
  | OName n => SpName n
  | ORef id => SpRef (ren id) 0
  | OArr l => SpArr ((fix go (l : list obj) : list pobj :=
                        match l with [] => [] | x :: t => to_pobj objs ren x :: go t end) l)
  | ODict d => SpDict ((fix go (l : list (list N * obj)) : list (list N * pobj) :=
                          match l with
                          | [] => []
                          | kv :: t => if is_null_val objs (snd kv) then go t
                                       else (fst kv, to_pobj objs ren (snd kv)) :: go t
                          end) d)
  end.

(* what may follow a printed object so that tokenisation does not run on: white space or a delimiter *)
Definition ends_ok (rest : list N) : Prop :=
  match rest with [] => True | c :: _ => is_ws c = true \/ is_delim c = true end.

(* well-formed objects: reals are legal real spellings, names have no NUL, numbers and ids in range *)
Fixpoint wf_wobj (o : obj) : Prop :=
  match o with
  | OReal s => exists t, parse_number s = Some t /\ t = StReal s
  | OName n => ~ In 0 n /\ Forall (fun b => b < 256) n
  | OStr s => Forall (fun b => b < 256) s
  | OArr l => (fix all (l : list obj) : Prop := match l with [] => True | x :: t => wf_wobj x /\ all t end) l
  | ODict d => (fix all (l : list (list N * obj)) : Prop :=
                  match l with [] => True | kv :: t => (~ In 0 (fst kv) /\ Forall (fun b => b < 256) (fst kv)) /\ wf_wobj (snd kv) /\ all t end) d
  | _ => True
  end.

(* ---------- token-level lemmas ---------- *)
Lemma regular_not_ws : forall c, is_regular c = true -> is_ws c = false /\ is_delim c = false.
Proof.
  intros c H. unfold is_regular in H. apply andb_true_iff in H. destruct H as [H1 H2].
  apply negb_true_iff in H1. apply negb_true_iff in H2. split; assumption.
Qed.

Lemma ends_ok_take_regular : forall rest, ends_ok rest -> take_regular rest = ([], rest).
Proof.
  intros [|c t] H; [reflexivity|]. cbn [ends_ok] in H. cbn [take_regular].
  unfold is_regular. destruct H as [H|H]; rewrite H; cbn; try reflexivity.
  rewrite andb_false_r. reflexivity.
Qed.

Lemma take_regular_app : forall w rest, forallb is_regular w = true -> ends_ok rest ->
  take_regular (w ++ rest) = (w, rest).
Proof.
  induction w as [|c w IH]; intros rest Hw Hr.
  - apply ends_ok_take_regular. exact Hr.
  - cbn [forallb] in Hw. apply andb_true_iff in Hw. destruct Hw as [Hc Hw].
    cbn [app take_regular]. rewrite Hc, (IH _ Hw Hr). reflexivity.
Qed.

Lemma skip_ws_regular : forall c t, is_regular c = true -> skip_ws (c :: t) = c :: t.
Proof.
  intros c t H. destruct (regular_not_ws _ H) as [H1 H2].
  unfold skip_ws. cbn [skip_ws_c]. rewrite H1.
  destruct (c =? 37) eqn:E; [|reflexivity].
  apply N.eqb_eq in E. subst c. discriminate H2.
Qed.

(* the tokenizer on a regular first byte *)
Definition tok_regular (s : list N) : option (tok * list N) :=
  let (w, r) := take_regular s in
  match w with
  | [] => None
  | h :: _ => if is_digit h || (h =? 43) || (h =? 45) || (h =? 46)
              then match parse_number w with Some t => Some (t, r) | None => None end
              else Some (StKw w, r)
  end.

Lemma next_tok_regular_byte : forall c, In c all_bytes -> is_regular c = true ->
  forall t, next_tok (c :: t) = tok_regular (c :: t).
Proof.
  intros c Hin.
  vm_compute in Hin.
  repeat (destruct Hin as [<-|Hin]; [intros Hr t; try discriminate Hr; reflexivity|]).
  destruct Hin.
Qed.

Lemma next_tok_regular : forall c t, c < 256 -> is_regular c = true ->
  next_tok (c :: t) = tok_regular (c :: t).
Proof. intros c t Hc Hr. apply next_tok_regular_byte; [apply all_bytes_complete; exact Hc | exact Hr]. Qed.

Lemma all_digits_regular : forall w, all_digits w = true -> forallb is_regular w = true.
Proof.
  induction w as [|c w IH]; intros H; [reflexivity|].
  cbn [all_digits] in H. apply andb_true_iff in H. destruct H as [Hc Hw].
  cbn [forallb]. rewrite (IH Hw), andb_true_r.
  unfold is_digit in Hc. apply andb_true_iff in Hc. destruct Hc as [H1 H2].
  apply N.leb_le in H1. apply N.leb_le in H2.
  unfold is_regular, is_ws, is_delim.
  repeat match goal with |- context [c =? ?k] => replace (c =? k) with false by (symmetry; apply N.eqb_neq; lia) end.
  reflexivity.
Qed.

Lemma digit_lt_256 : forall c, is_digit c = true -> c < 256.
Proof.
  intros c Hc. unfold is_digit in Hc. apply andb_true_iff in Hc. destruct Hc as [H1 H2].
  apply N.leb_le in H2. lia.
Qed.

Lemma digit_not_sign : forall c, is_digit c = true -> c <> 43 /\ c <> 45.
Proof.
  intros c Hc. unfold is_digit in Hc. apply andb_true_iff in Hc. destruct Hc as [H1 H2].
  apply N.leb_le in H1. lia.
Qed.

Lemma strip_sign_digit : forall c w, is_digit c = true -> strip_sign (c :: w) = (false, c :: w).
Proof.
  intros c w Hc. assert (Hlt := digit_lt_256 _ Hc). destruct (digit_not_sign _ Hc) as [H1 H2].
  revert Hc H1 H2. 
  assert (Hin : In c all_bytes) by (apply all_bytes_complete; exact Hlt). clear Hlt.
  vm_compute in Hin.
  repeat (destruct Hin as [<-|Hin]; [intros Hc H1 H2; try discriminate Hc; try reflexivity; congruence|]).
  destruct Hin.
Qed.

(* a nonempty digit string followed by white space or a delimiter is read as that integer *)
Lemma next_tok_digits : forall w rest, all_digits w = true -> w <> [] -> ends_ok rest ->
  next_tok (w ++ rest) = Some (StInt (Z.of_N (dec_value w)), rest).
Proof.
  intros [|c w] rest Hd Hne Hr; [congruence|].
  pose proof (all_digits_regular _ Hd) as Hreg.
  cbn [all_digits] in Hd. apply andb_true_iff in Hd. destruct Hd as [Hc Hw].
  cbn [forallb] in Hreg. apply andb_true_iff in Hreg. destruct Hreg as [Hrc Hrw].
  cbn [app]. rewrite next_tok_regular by (try apply digit_lt_256; assumption).
  unfold tok_regular. change (c :: w ++ rest) with ((c :: w) ++ rest).
  rewrite take_regular_app; [| cbn [forallb]; rewrite Hrc, Hrw; reflexivity | exact Hr].
  rewrite Hc. cbn [orb]. unfold parse_number. rewrite strip_sign_digit by exact Hc.
  cbn [all_digits]. rewrite Hc, Hw. reflexivity.
Qed.

Lemma next_tok_neg_digits : forall w rest, all_digits w = true -> w <> [] -> ends_ok rest ->
  next_tok (45 :: w ++ rest) = Some (StInt (- Z.of_N (dec_value w)), rest).
Proof.
  intros w rest Hd Hne Hr.
  pose proof (all_digits_regular _ Hd) as Hreg.
  rewrite next_tok_regular by (try reflexivity; lia).
  unfold tok_regular. change (45 :: w ++ rest) with ((45 :: w) ++ rest).
  rewrite take_regular_app; [| cbn [forallb]; rewrite Hreg; reflexivity | exact Hr].
  change (is_digit 45 || (45 =? 43) || (45 =? 45) || (45 =? 46)) with true. cbv iota.
  unfold parse_number. change (strip_sign (45 :: w)) with (true, w). cbv iota.
  destruct w as [|c w]; [congruence|]. rewrite Hd. reflexivity.
Qed.

Lemma dec_of_N_nonempty : forall n, dec_of_N n <> [].
Proof.
  intros n E. destruct (dec_of_N_value_lemma n) as [_ [_ H]]. rewrite E in H. cbn in H. lia.
Qed.

Lemma next_tok_dec_of_N : forall n rest, ends_ok rest ->
  next_tok (dec_of_N n ++ rest) = Some (StInt (Z.of_N n), rest).
Proof.
  intros n rest Hr. destruct (dec_of_N_value_lemma n) as [Hv [Hd _]].
  rewrite next_tok_digits by (try apply dec_of_N_nonempty; assumption).
  rewrite Hv. reflexivity.
Qed.

Lemma next_tok_dec_of_Z : forall z rest, ends_ok rest ->
  next_tok (dec_of_Z z ++ rest) = Some (StInt z, rest).
Proof.
  intros z rest Hr. destruct z as [|p|p]; unfold dec_of_Z.
  - change [48] with (dec_of_N 0). apply (next_tok_dec_of_N 0). exact Hr.
  - apply (next_tok_dec_of_N (Npos p)). exact Hr.
  - cbn [app]. destruct (dec_of_N_value_lemma (Npos p)) as [Hv [Hd _]].
    rewrite next_tok_neg_digits by (try apply dec_of_N_nonempty; assumption).
    rewrite Hv. reflexivity.
Qed.

(* keywords *)
Lemma next_tok_kw : forall c w rest, c < 256 -> forallb is_regular (c :: w) = true ->
  (is_digit c || (c =? 43) || (c =? 45) || (c =? 46)) = false -> ends_ok rest ->
  next_tok ((c :: w) ++ rest) = Some (StKw (c :: w), rest).
Proof.
  intros c w rest Hc Hreg Hk Hr.
  assert (Hrc : is_regular c = true) by (cbn [forallb] in Hreg; apply andb_true_iff in Hreg; tauto).
  cbn [app]. rewrite next_tok_regular by assumption.
  unfold tok_regular. change (c :: w ++ rest) with ((c :: w) ++ rest).
  rewrite take_regular_app by assumption. rewrite Hk. reflexivity.
Qed.

Section WithPrinters.
  Variable us : list N -> list N.
  Variable un : list N -> list N.
  (* the two printers are read back by the strict tokenizer *)
  Hypothesis us_ok : forall s rest, Forall (fun b => b < 256) s -> ends_ok rest ->
    next_tok (us s ++ rest) = Some (StStr s, rest).
  Hypothesis un_ok : forall n rest, ~ In 0 n -> Forall (fun b => b < 256) n -> ends_ok rest ->
    next_tok (un n ++ rest) = Some (StName n, rest).

  (* MAIN: every printed object parses back to the same object, leaving exactly the rest *)
  Lemma unparse_parses_lemma : forall objs ren o rest fuel,
    wf_wobj o -> (forall id, 0 < ren id) -> ends_ok rest ->
    (* enough fuel: more than the number of tokens printed *)
    (length (unparse us un objs ren o) < fuel)%nat ->
    parse_obj fuel (unparse us un objs ren o ++ rest) = Some (to_pobj objs ren o, rest).
  Proof. Abort.
End WithPrinters.

(* ---------- strings ---------- *)
Lemma lt16_cases : forall v, v < 16 ->
  v = 0 \/ v = 1 \/ v = 2 \/ v = 3 \/ v = 4 \/ v = 5 \/ v = 6 \/ v = 7 \/ v = 8 \/ v = 9 \/ v = 10 \/
  v = 11 \/ v = 12 \/ v = 13 \/ v = 14 \/ v = 15.
Proof. intros v H. lia. Qed.

Lemma hexd_facts : forall v, v < 16 ->
  (forall t, next_tok (60 :: wm_hexd v :: t) =
             match hex_string (wm_hexd v :: t) None [] with Some (x, r) => Some (StStr x, r) | None => None end) /\
  (forall t acc, hex_string (wm_hexd v :: t) None acc = hex_string t (Some v) acc) /\
  (forall t h acc, hex_string (wm_hexd v :: t) (Some h) acc = hex_string t None ((h * 16 + v) :: acc)).
Proof.
  intros v Hv. pose proof (lt16_cases v Hv) as H.
  repeat (destruct H as [->|H]; [repeat split; intros; reflexivity|]).
  subst v. repeat split; intros; reflexivity.
Qed.

Lemma hex_chars_read : forall s rest acc, Forall (fun b => b < 256) s ->
  hex_string (flat_map (fun b => [wm_hexd (b / 16); wm_hexd (b mod 16)]) s ++ 62 :: rest) None acc
  = Some (rev' (rev s ++ acc), rest).
Proof.
  induction s as [|b s IH]; intros rest acc Hb.
  - reflexivity.
  - inversion Hb as [|? ? Hb1 Hb2]; subst.
    assert (H1 : b / 16 < 16) by (apply N.div_lt_upper_bound; lia).
    assert (H2 : b mod 16 < 16) by (apply N.mod_lt; lia).
    destruct (hexd_facts _ H1) as [_ [HA _]]. destruct (hexd_facts _ H2) as [_ [_ HB]].
    cbn [flat_map app]. rewrite HA, HB, IH by exact Hb2.
    replace (b / 16 * 16 + b mod 16) with b.
    + cbn [rev]. rewrite <- app_assoc. reflexivity.
    + rewrite (N.div_mod' b 16) at 1. lia.
Qed.

Lemma lit_char_byte : forall b, In b all_bytes ->
  forall t acc, lit_string 0 (wm_lit_char b ++ t) acc = lit_string 0 t (b :: acc).
Proof.
  intros b Hin. vm_compute in Hin.
  repeat (destruct Hin as [<-|Hin]; [intros t acc; reflexivity|]).
  destruct Hin.
Qed.

Lemma lit_chars_read : forall s rest acc, Forall (fun b => b < 256) s ->
  lit_string 0 (flat_map wm_lit_char s ++ 41 :: rest) acc = Some (rev' (rev s ++ acc), rest).
Proof.
  induction s as [|b s IH]; intros rest acc Hb.
  - reflexivity.
  - inversion Hb as [|? ? Hb1 Hb2]; subst.
    cbn [flat_map]. rewrite <- app_assoc, lit_char_byte by (apply all_bytes_complete; exact Hb1).
    rewrite IH by exact Hb2. cbn [rev]. rewrite <- app_assoc. reflexivity.
Qed.

(* ---------- names ---------- *)
Lemma name_char_byte : forall b, In b all_bytes -> b <> 0 ->
  (forall t, take_regular (wm_name_char b ++ t) = let (a, r) := take_regular t in (wm_name_char b ++ a, r)) /\
  (forall w, name_unescape (wm_name_char b ++ w) = match name_unescape w with Some r => Some (b :: r) | None => None end).
Proof.
  intros b Hin. vm_compute in Hin.
  repeat (destruct Hin as [<-|Hin];
    [intros Hne; first [congruence | split;
     [intros t; cbn; destruct (take_regular t); reflexivity
     |intros w; cbn; destruct (name_unescape w); reflexivity]]|]).
  destruct Hin.
Qed.

Lemma name_chars_read : forall n rest, ~ In 0 n -> Forall (fun b => b < 256) n -> ends_ok rest ->
  take_regular (flat_map wm_name_char n ++ rest) = (flat_map wm_name_char n, rest) /\
  name_unescape (flat_map wm_name_char n) = Some n.
Proof.
  induction n as [|b n IH]; intros rest H0 Hb Hr.
  - cbn [flat_map app]. split; [apply ends_ok_take_regular; exact Hr | reflexivity].
  - inversion Hb as [|? ? Hb1 Hb2]; subst.
    assert (Hne : b <> 0) by (intros E; apply H0; left; exact E).
    assert (H0' : ~ In 0 n) by (intros E; apply H0; right; exact E).
    destruct (name_char_byte b (all_bytes_complete _ Hb1) Hne) as [HA HB].
    destruct (IH rest H0' Hb2 Hr) as [IH1 IH2].
    cbn [flat_map]. split.
    + rewrite <- app_assoc, HA, IH1. reflexivity.
    + rewrite HB, IH2. reflexivity.
Qed.

(* the concrete printers satisfy the hypotheses *)
Lemma wm_string_read_lemma : forall s rest, Forall (fun b => b < 256) s -> ends_ok rest ->
  next_tok (wm_unparse_string s ++ rest) = Some (StStr s, rest).
Proof.
  intros s rest Hb _. unfold wm_unparse_string. destruct (wm_use_hex s) eqn:Eh.
  - destruct s as [|b s].
    + discriminate Eh.
    + pose proof (hex_chars_read (b :: s) rest [] Hb) as H.
      inversion Hb as [|? ? Hb1 Hb2]; subst.
      assert (H1 : b / 16 < 16) by (apply N.div_lt_upper_bound; lia).
      destruct (hexd_facts _ H1) as [HA _].
      cbn [flat_map app] in *. rewrite <- app_assoc. cbn [app]. rewrite HA, H.
      rewrite app_nil_r, rev'_rev. change (rev s ++ [b]) with (rev (b :: s)). rewrite rev_involutive. reflexivity.
  - cbn [app]. rewrite <- app_assoc. cbn [app]. unfold next_tok.
    change (skip_ws (40 :: flat_map wm_lit_char s ++ 41 :: rest)) with (40 :: flat_map wm_lit_char s ++ 41 :: rest).
    cbv iota beta. rewrite lit_chars_read by exact Hb.
    rewrite app_nil_r, rev'_rev, rev_involutive. reflexivity.
Qed.

Lemma wm_name_read_lemma : forall n rest, ~ In 0 n -> Forall (fun b => b < 256) n -> ends_ok rest ->
  next_tok (wm_unparse_name n ++ rest) = Some (StName n, rest).
Proof.
  intros n rest H0 Hb Hr. destruct (name_chars_read n rest H0 Hb Hr) as [H1 H2].
  unfold wm_unparse_name. cbn [app]. unfold next_tok.
  change (skip_ws (47 :: flat_map wm_name_char n ++ rest)) with (47 :: flat_map wm_name_char n ++ rest).
  cbv iota beta. rewrite H1, H2. reflexivity.
Qed.

(* integers: the decimal printer is read back *)
Lemma dec_of_Z_read_lemma : forall z rest, ends_ok rest ->
  (match rest with c :: _ => is_ws c = true \/ is_delim c = true | [] => True end) ->
  next_tok (dec_of_Z z ++ rest) = Some (StInt z, rest).
Proof. intros z rest Hr _. apply next_tok_dec_of_Z. exact Hr. Qed.
