(* C19 - specification: what a job MEANS, independently of any front end, and how it is written down in the two notations.
   Written from the manual (manual/qpdf-job.rst, table "QPDFJob Interfaces"):
        --some-option         "someOption": ""         config()->someOption()
        --some-option=value   "someOption": "value"    config()->someOption("value")
        positional argument   "otherOption": "value"   config()->otherOption("value")
   A job is a list of items; its denotation is the list of calls of the third column; render_argv / render_json produce the first and
   second column. The front-end models (Sys/JobFront.v) are proved to refine the denotation from either notation (Sys/C19Proofs.v).
   This file does not mention the parser, the handler tree or the option tables' lookup functions. No proofs here. *)
From Coq Require Import String.
From Coq Require Import List NArith Bool.
From QV Require Import Base.Bytes Sys.JobTypes Sys.JobTableSpec.
Import ListNotations.
Open Scope N_scope.

(* an option of the main table bound to a Config method, with the value given to it ("" = no value) *)
Inductive item :=
| IOpt (e : aentry) (v : bstr)            (* a flag that may be given once *)
| IArr (e : aentry) (vs : list bstr)      (* a repeatable flag: an array in job JSON *)
| IIn (f : bstr)                          (* input file: first positional argument / "inputFile" *)
| IOut (f : bstr)                         (* output file: second positional argument / "outputFile" *)
| IEmpty                                  (* --empty / "empty": "" *)
| IReplace                                (* --replace-input / "replaceInput": "" *)
| IGlobal (l : list (aentry * bstr))      (* --global <options of the global table> -- / "global": { ... } *)
| IEncrypt (u o bits : bstr) (l : list (aentry * bstr)).
                                          (* --encrypt user owner bits <options of that key length's table> -- /
                                             "encrypt": {"userPassword": user, "ownerPassword": owner, "<bits>bit": { ... }} *)

(* ---- third column: the Config call an option stands for; None = the value is not acceptable for this option *)
Definition opt_denote (e : aentry) (v : bstr) : option cfg_call :=
  match ae_target e with
  | TManual _ => None
  | TConfig obj meth =>
      match ae_kind e with
      | KBare => match v with [] => Some (CCall obj meth []) | _ => None end
      | KParam | KOptParam => Some (CCall obj meth [v])
      | KChoices => if bmem v (ae_choices e) then Some (CCall obj meth [v]) else None
      | KOptChoices => match v with
                       | [] => Some (CCall obj meth [[]])
                       | _ => if bmem v (ae_choices e) then Some (CCall obj meth [v]) else None
                       end
      | KPositional | KEnd => None
      end
  end.

(* calls made so far, and whether the job is still acceptable *)
Fixpoint denote_vals (e : aentry) (vs : list bstr) : list cfg_call * bool :=
  match vs with
  | [] => ([], true)
  | v :: r => match opt_denote e v with
              | None => ([], false)
              | Some c => let (cs, ok) := denote_vals e r in (c :: cs, ok)
              end
  end.

(* the options of a nested table, in the order given *)
Fixpoint denote_subs (l : list (aentry * bstr)) : list cfg_call * bool :=
  match l with
  | [] => ([], true)
  | (e, v) :: r => match opt_denote e v with
                   | None => ([], false)
                   | Some c => let (cs, ok) := denote_subs r in (c :: cs, ok)
                   end
  end.

(* key lengths: the argv option table and the JSON key of each *)
Definition enc_table (bits : bstr) : bstr := bits ++ B"-bit-encryption".
Definition enc_key (bits : bstr) : bstr := bits ++ B"bit".
Definition valid_bits (bits : bstr) : bool := bstr_eqb bits B"40" || bstr_eqb bits B"128" || bstr_eqb bits B"256".

Definition denote_item (it : item) : list cfg_call * bool :=
  match it with
  | IOpt e v => match opt_denote e v with Some c => ([c], true) | None => ([], false) end
  | IArr e vs => denote_vals e vs
  | IIn f => ([CCall B"c_main" B"inputFile" [f]], true)
  | IOut f => ([CCall B"c_main" B"outputFile" [f]], true)
  | IEmpty => ([CCall B"c_main" B"emptyInput" []], true)
  | IReplace => ([CCall B"c_main" B"replaceInput" []], true)
  | IGlobal l => let (cs, ok) := denote_subs l in
                 (CCall B"c_main" B"global" [] :: cs ++ (if ok then [CCall B"c_global" B"endGlobal" []] else []), ok)
  | IEncrypt u o bits l => let (cs, ok) := denote_subs l in
                 (CCall B"c_main" B"encrypt" [bits; u; o] :: cs ++ (if ok then [CCall B"c_enc" B"endEncrypt" []] else []), ok)
  end.

Fixpoint denote_items (j : list item) : list cfg_call * bool :=
  match j with
  | [] => ([], true)
  | it :: r => let (cs, ok) := denote_item it in
               if ok then let (cs2, ok2) := denote_items r in (cs ++ cs2, ok2) else (cs, false)
  end.

(* a complete job ends with the consistency check (QPDFJob::Config::checkConfiguration) *)
Definition denote_job (j : list item) : list cfg_call * bool :=
  let (cs, ok) := denote_items j in
  if ok then (cs ++ [CCall B"c_main" B"checkConfiguration" []], true) else (cs, false).

(* ---- first column: command-line words *)
Definition word_of (e : aentry) (v : bstr) : bstr :=
  B"--" ++ ae_flag e ++
  match ae_kind e, v with
  | KBare, [] | KOptParam, [] | KOptChoices, [] => []
  | _, _ => 61 :: v
  end.

Definition argv_of_item (it : item) : list bstr :=
  match it with
  | IOpt e v => [word_of e v]
  | IArr e vs => map (word_of e) vs
  | IIn f => [f]
  | IOut f => [f]
  | IEmpty => [B"--empty"]
  | IReplace => [B"--replace-input"]
  | IGlobal l => B"--global" :: map (fun p => word_of (fst p) (snd p)) l ++ [B"--"]
  | IEncrypt u o bits l => B"--encrypt" :: u :: o :: bits :: map (fun p => word_of (fst p) (snd p)) l ++ [B"--"]
  end.
Definition render_argv (j : list item) : list bstr := flat_map argv_of_item j.

(* ---- second column: job JSON members, flags camel-cased, positional arguments as named keys *)
Definition json_of_item (it : item) : bstr * jjv :=
  match it with
  | IOpt e v => (camel (ae_flag e), JJStr v)
  | IArr e vs => (camel (ae_flag e), JJArr (map JJStr vs))
  | IIn f => (B"inputFile", JJStr f)
  | IOut f => (B"outputFile", JJStr f)
  | IEmpty => (B"empty", JJStr [])
  | IReplace => (B"replaceInput", JJStr [])
  | IGlobal l => (B"global", JJObj (map (fun p => (camel (ae_flag (fst p)), JJStr (snd p))) l))
  | IEncrypt u o bits l =>
      (* members in key order: "128bit" / "256bit" / "40bit" < "ownerPassword" < "userPassword" *)
      (B"encrypt", JJObj [(enc_key bits, JJObj (map (fun p => (camel (ae_flag (fst p)), JJStr (snd p))) l));
                          (B"ownerPassword", JJStr o); (B"userPassword", JJStr u)])
  end.
Definition render_json (j : list item) : jjv := JJObj (map json_of_item j).

(* ---- which jobs the statement is about *)
(* a word that the command line reads as a positional argument: not starting with '-' (the single word "-" is positional) *)
Definition positional_word (f : bstr) : bool :=
  match f with
  | c :: _ :: _ => negb (c =? 45)
  | _ => true
  end.

Definition main_scalar (e : aentry) : bool :=
  bstr_eqb (ae_table e) B"main" && is_config (ae_target e) && negb (bmem (ae_flag e) repeatable) &&
  match ae_kind e with KBare | KParam | KOptParam | KChoices | KOptChoices => true | _ => false end.
Definition main_array (e : aentry) : bool :=
  bstr_eqb (ae_table e) B"main" && is_config (ae_target e) && bmem (ae_flag e) repeatable &&
  match ae_kind e with KBare | KParam | KOptParam | KChoices | KOptChoices => true | _ => false end.

(* positional discipline: the command line has no names for its positional arguments, so the first is the input (unless --empty
   took its place) and the second the output (unless --replace-input took its place); job JSON names them. The notations
   correspond when: the input comes before the output, at most one of each, and inputFile is not given after "empty" (for that last
   combination see empty_with_input_refuted). state: (input given, output given) *)
Definition pos_ok (it : item) (gi go : bool) : bool :=
  match it with
  | IIn f => negb gi && positional_word f
  | IOut f => gi && negb go && positional_word f
  | _ => true
  end.
Definition pos_next (it : item) (gi go : bool) : bool * bool :=
  match it with
  | IIn _ | IEmpty => (true, go)
  | IOut _ | IReplace => (gi, true)
  | _ => (gi, go)
  end.
Fixpoint wf_pos (j : list item) (gi go : bool) : bool :=
  match j with
  | [] => true
  | it :: r => pos_ok it gi go && wf_pos r (fst (pos_next it gi go)) (snd (pos_next it gi go))
  end.

(* an option of the named nested table that is bound to a Config method *)
Definition sub_opt (table : bstr) (e : aentry) : bool :=
  bstr_eqb (ae_table e) table && is_config (ae_target e) &&
  match ae_kind e with KBare | KParam | KOptParam | KChoices | KOptChoices => true | _ => false end.

Definition wf_item (tbl : list aentry) (it : item) : Prop :=
  match it with
  | IOpt e v => In e tbl /\ main_scalar e = true
  | IArr e vs => In e tbl /\ main_array e = true
  | IGlobal l => Forall (fun p => In (fst p) tbl /\ sub_opt B"global" (fst p) = true) l
  | IEncrypt u o bits l =>
      valid_bits bits = true /\ positional_word u = true /\ positional_word o = true /\
      (* the two 40-bit options whose JSON choice lists diverge on the pinned tree (tables_equivalent_refuted) are excluded *)
      Forall (fun p => In (fst p) tbl /\ sub_opt (enc_table bits) (fst p) = true /\ divergent (fst p) = false) l
  | _ => True
  end.

Definition wf_job (tbl : list aentry) (j : list item) : Prop := Forall (wf_item tbl) j /\ wf_pos j false false = true.
