(* Proofs for C17 about the model of fix-qdf (File/FixQdf.v), against the strict reader's decoders
   (File/ReadStrict.v) and the writer arithmetic lemmas of File/C02Proofs.v. *)
From QV Require Import Base.Bytes File.StrictSyntax File.ReadStrict File.WriterArith File.C02Proofs File.FixQdf.
From Coq Require Import Lia ZifyBool ZifyNat ZifyN.
Local Open Scope N_scope.

(* ---------- the regenerated classic table is read back by the strict reader ---------- *)
Fixpoint fq_numbered (num : N) (offs : list N) : list (N * xentry) :=
  match offs with
  | [] => []
  | o :: t => (num, XInUse o 0) :: fq_numbered (num + 1) t
  end.

(* the in-use lines fix-qdf prints for offsets below 10^10 are exactly what ReadStrict.xref_entries reads as
   in-use entries, generation 0, at those offsets, numbered consecutively *)
Lemma fixqdf_xref_lines_read_lemma : forall offs num rest acc,
  Forall (fun o => o < 10 ^ 10) offs ->
  xref_entries (length offs) num (concat (map xref_line offs) ++ rest) acc
  = Some (rev (fq_numbered num offs) ++ acc, rest).
Proof.
  induction offs as [|o t IH]; intros num rest acc H.
  - reflexivity.
  - inversion H as [|? ? Ho Ht]; subst.
    cbn [length map concat xref_entries fq_numbered rev].
    rewrite <- app_assoc.
    destruct (xref_line_read_lemma o (concat (map xref_line t) ++ rest) Ho) as [_ Hr].
    rewrite Hr. rewrite IH by assumption.
    rewrite <- app_assoc. reflexivity.
Qed.
