(* Model of the object queue of QPDFWriter (impl::Writer::enqueue / unparseChild / writeStandard,
   object streams disabled, not linearized): objects get their new number at first encounter
   (print order inside an object, FIFO across objects) and are written in queue order.
   A document is abstracted to its reference graph: for each object id, the ids it refers to in
   print order (dictionary keys in std::map order with null values skipped, arrays in order,
   direct containers flattened depth first). *)
From QV Require Import Base.Bytes.
Local Open Scope N_scope.

Definition graph := list (N * list N).

Fixpoint children (g : graph) (x : N) : list N :=
  match g with
  | [] => []
  | (k, cs) :: t => if k =? x then cs else children t x
  end.

Fixpoint lookup_num (r : list (N * N)) (x : N) : option N :=
  match r with
  | [] => None
  | (k, v) :: t => if k =? x then Some v else lookup_num t x
  end.

Record qstate := { q_queue : list N; q_renumber : list (N * N); q_next : N; q_written_rev : list N }.

(* enqueue: if (o.renumber == 0) { object_queue.emplace_back(object); o.renumber = next_objid++; } *)
Definition q_enqueue (s : qstate) (x : N) : qstate :=
  match lookup_num (q_renumber s) x with
  | Some _ => s
  | None => {| q_queue := q_queue s ++ [x]; q_renumber := (x, q_next s) :: q_renumber s;
               q_next := q_next s + 1; q_written_rev := q_written_rev s |}
  end.

(* while (!object_queue.empty()) { cur = front; pop; writeObject(cur) } : writing prints the object,
   and printing enqueues every indirect child just before its reference is written *)
Fixpoint q_loop (fuel : nat) (g : graph) (s : qstate) : qstate :=
  match fuel with
  | O => s
  | S f =>
      match q_queue s with
      | [] => s
      | x :: rest =>
          let s1 := {| q_queue := rest; q_renumber := q_renumber s; q_next := q_next s;
                       q_written_rev := x :: q_written_rev s |} in
          q_loop f g (fold_left q_enqueue (children g x) s1)
      end
  end.

(* writeStandard: enqueue(/Root) then the other trailer values in key order: [roots] in that order *)
Definition run_queue (g : graph) (roots : list N) : qstate :=
  q_loop (S (length g)) g
         (fold_left q_enqueue roots {| q_queue := []; q_renumber := []; q_next := 1; q_written_rev := [] |}).

Definition written (g : graph) (roots : list N) : list N := rev' (q_written_rev (run_queue g roots)).
Definition renumber (g : graph) (roots : list N) (x : N) : option N := lookup_num (q_renumber (run_queue g roots)) x.

(* specification side: reachability in the reference graph *)
Inductive reach (g : graph) (roots : list N) : N -> Prop :=
| reach_root : forall x, In x roots -> reach g roots x
| reach_step : forall x y, reach g roots x -> In y (children g x) -> reach g roots y.

(* the graph is closed: every id that is referred to (or is a root) has an entry, entries are unique *)
Definition closed (g : graph) (roots : list N) : Prop :=
  NoDup (map fst g) /\
  (forall x, In x roots -> In x (map fst g)) /\
  (forall k cs y, In (k, cs) g -> In y cs -> In y (map fst g)).
