/* ptrace-based transient-fault injector of the C10 / C11 checks (x86_64 Linux).
 *
 * glibc's stdio reaches write(2) without going through the PLT, so LD_PRELOAD cannot make ONE kernel-level write fail and
 * let the following ones succeed.  This tracer runs the command under PTRACE_SYSCALL, watches the descriptors the tracee
 * opens for writing on paths containing <substr>, counts the write/pwrite64/writev calls on them, and makes the k-th one
 * return -<errno> without being performed (orig_rax is set to -1 at syscall entry, rax to -errno at syscall exit).  All
 * other system calls run untouched.
 *
 *   ptrace_inject <k> <errno> <substr> <logfile> <ld_preload or -> -- prog args...
 *
 * k = 0: nothing is injected (the log then tells how many writes there are).  Log: one line "W <n> <fd> <len> <ret>" per
 * watched write, and "EXIT <status>" or "SIGNAL <n>" at the end.  Exit status: the tracee's (128+n for a signal);
 * 125 when ptrace is not permitted.
 */
#define _GNU_SOURCE
#include <errno.h>
#include <fcntl.h>
#include <signal.h>
#include <stdio.h>
#include <stdlib.h>
#include <string.h>
#include <sys/ptrace.h>
#include <sys/syscall.h>
#include <sys/types.h>
#include <sys/user.h>
#include <sys/wait.h>
#include <unistd.h>

#define MAXFD 1024
static char watched[MAXFD];

static void read_str(pid_t pid, unsigned long addr, char* buf, size_t n) {
    size_t i = 0;
    while (i + 1 < n) {
        errno = 0;
        long w = ptrace(PTRACE_PEEKDATA, pid, addr + i, 0);
        if (errno) break;
        for (size_t j = 0; j < sizeof(long) && i + 1 < n; ++j, ++i) {
            buf[i] = (char)((w >> (8 * j)) & 0xff);
            if (!buf[i]) return;
        }
    }
    buf[i] = 0;
}

int main(int argc, char** argv) {
    if (argc < 8 || strcmp(argv[6], "--")) {
        fprintf(stderr, "usage: ptrace_inject k errno substr logfile preload -- prog args...\n");
        return 124;
    }
    long K = atol(argv[1]);
    int err = atoi(argv[2]);
    const char* substr = argv[3];
    FILE* lg = fopen(argv[4], "w");
    const char* preload = argv[5];
    if (!lg) return 124;
    pid_t pid = fork();
    if (pid < 0) return 124;
    if (pid == 0) {
        if (strcmp(preload, "-")) setenv("LD_PRELOAD", preload, 1);
        if (ptrace(PTRACE_TRACEME, 0, 0, 0) != 0) _exit(125);
        raise(SIGSTOP);
        execvp(argv[7], argv + 7);
        _exit(127);
    }
    int st;
    if (waitpid(pid, &st, 0) < 0 || !WIFSTOPPED(st)) {
        fprintf(lg, "NOPTRACE\n");
        fclose(lg);
        return 125;
    }
    if (ptrace(PTRACE_SETOPTIONS, pid, 0, PTRACE_O_TRACESYSGOOD | PTRACE_O_EXITKILL) != 0) {
        fprintf(lg, "NOPTRACE\n");
        fclose(lg);
        kill(pid, SIGKILL);
        return 125;
    }
    long nwrites = 0;
    int in_syscall = 0, inject = 0, pending_open = 0, pending_write = 0;
    long w_fd = -1, w_len = 0;
    char path[600];
    int sig = 0;
    for (;;) {
        if (ptrace(PTRACE_SYSCALL, pid, 0, sig) != 0) break;
        sig = 0;
        if (waitpid(pid, &st, 0) < 0) break;
        if (WIFEXITED(st)) {
            fprintf(lg, "EXIT %d\n", WEXITSTATUS(st));
            fclose(lg);
            return WEXITSTATUS(st);
        }
        if (WIFSIGNALED(st)) {
            fprintf(lg, "SIGNAL %d\n", WTERMSIG(st));
            fclose(lg);
            return 128 + WTERMSIG(st);
        }
        if (!WIFSTOPPED(st)) continue;
        if (WSTOPSIG(st) != (SIGTRAP | 0x80)) {
            /* a signal for the tracee (SIGABRT from std::terminate, ...): deliver it; exec's SIGTRAP is dropped */
            sig = WSTOPSIG(st) == SIGTRAP ? 0 : WSTOPSIG(st);
            continue;
        }
        struct user_regs_struct r;
        if (ptrace(PTRACE_GETREGS, pid, 0, &r) != 0) break;
        if (!in_syscall) {
            in_syscall = 1;
            long nr = (long)r.orig_rax;
            pending_open = pending_write = 0;
            if (nr == SYS_openat || nr == SYS_open || nr == SYS_creat) {
                unsigned long paddr = nr == SYS_openat ? r.rsi : r.rdi;
                long flags = nr == SYS_openat ? (long)r.rdx : (nr == SYS_open ? (long)r.rsi : O_WRONLY);
                read_str(pid, paddr, path, sizeof path);
                if ((flags & (O_WRONLY | O_RDWR)) && strstr(path, substr)) pending_open = 1;
            } else if (nr == SYS_write || nr == SYS_pwrite64 || nr == SYS_writev) {
                long fd = (long)r.rdi;
                if (fd >= 0 && fd < MAXFD && watched[fd]) {
                    pending_write = 1;
                    w_fd = fd;
                    w_len = (long)r.rdx;
                    ++nwrites;
                    if (K > 0 && nwrites == K) {
                        inject = 1;
                        r.orig_rax = (unsigned long long)-1; /* no such system call: nothing is performed */
                        ptrace(PTRACE_SETREGS, pid, 0, &r);
                    }
                }
            } else if (nr == SYS_close) {
                long fd = (long)r.rdi;
                if (fd >= 0 && fd < MAXFD) watched[fd] = 0;
            }
        } else {
            in_syscall = 0;
            if (inject) {
                inject = 0;
                r.rax = (unsigned long long)(-(long)err);
                ptrace(PTRACE_SETREGS, pid, 0, &r);
            }
            if (pending_open) {
                long fd = (long)r.rax;
                if (fd >= 0 && fd < MAXFD) watched[fd] = 1;
            }
            if (pending_write) fprintf(lg, "W %ld %ld %ld %ld\n", nwrites, w_fd, w_len, (long)r.rax);
        }
    }
    fprintf(lg, "LOST\n");
    fclose(lg);
    return 124;
}
