# C14, import side: semantically equal JSON texts must import to the same document.
#   JSON member order, white space, the spelling of a number (1.5 = 1.50), the spelling of a string (A = \u0041, surrogate
#   pairs, \/) carry no meaning (RFC 8259 sections 2, 4, 6, 7). qpdf's reader is a reactor over parser events in TEXT order
#   (QPDF::JSONReactor), so every one of these freedoms is a case split of --json-input / --update-from-json.
# Parts
#   import-reactor (in-process): whole JSON texts through QPDF::createFromJSON [+ updateFromJSON] (drv_json.cc jrimp) against the
#     extracted model Json/JsonReactor.v fed with the tree Python's strict json parses from the same text (so qpdf's own parser is
#     tied as well); the property is decided on the implementation's results: every variant of a text must give the document the
#     base text gives (reals compared by value). Texts outside the theorems' domain (duplicate keys, value + stream, ...) are tie only.
#   cli-import-variants: the real CLI on variants of qpdf's own exports: --json-input, --update-from-json with the document's own
#     JSON, and with an edited subset; inline data and data files; "dict" before "data"/"datafile" in every stream.
import base64, json, os, re, zlib
from fractions import Fraction
import common
from common import hexs

SIG_F2 = "C14:F2:escaped-base64-stream-data-rejected"
SIG_F3 = "C14:F3:stale-length-in-stream-dict-after-data-not-ignored"
SIG_F4 = "C14:F4:stream-replaced-by-reference-to-itself"
SIG_F5 = "C14:F5:edit-of-unresolved-compressed-object-lost"


class JO(list):
    """a JSON object as the list of its (key, value) members in text order (duplicates allowed)"""
    pass


class JNum(str):
    """a JSON number kept as its spelling"""
    pass


def _const(c):
    raise ValueError("constant " + c)


def parse_text(b):
    """Python's strict parser on the text (bytes); members keep their order, numbers their spelling"""
    return json.loads(b.decode("utf-8", "strict"), object_pairs_hook=JO, parse_float=JNum, parse_int=JNum, parse_constant=_const)


def jr_tokens(v, out):
    """tree for the model (ocaml/h_json.ml parse_jr)"""
    if v is None:
        out.append("n")
    elif v is True:
        out.append("t")
    elif v is False:
        out.append("f")
    elif isinstance(v, JNum):
        out.append("#" + v.encode().hex())
    elif isinstance(v, str):
        out.append("s" + v.encode("utf-8").hex())
    elif isinstance(v, JO):
        out.append("{")
        for k, x in v:
            out.append("k" + k.encode("utf-8").hex())
            jr_tokens(x, out)
        out.append("}")
    elif isinstance(v, list):
        out.append("[")
        for x in v:
            jr_tokens(x, out)
        out.append("]")
    else:
        raise TypeError(type(v))
    return out


def has_length_with_data(v):
    """some stream of the JSON has "data"/"datafile" and a "dict" with /Length (which the manual says is ignored)"""
    if isinstance(v, JO):
        if is_stream_members(v):
            d = dict(v)
            if ("data" in d or "datafile" in d) and isinstance(d.get("dict"), JO) and any(k in ("/Length", "n:/Length") for k, _ in d["dict"]):
                return True
        return any(has_length_with_data(x) for _, x in v)
    if isinstance(v, list):
        return any(has_length_with_data(x) for x in v)
    return False


def tree_arg(v):
    return ",".join(jr_tokens(v, []))


# ------------------------------------------------------------------ rendering a JSON value with every freedom of the grammar

class Style:
    def __init__(self, rng, order="keep", ws="pretty", esc=0.0, nums=False, esc_data=False):
        self.rng, self.order, self.ws, self.esc, self.nums, self.esc_data = rng, order, ws, esc, nums, esc_data

    def describe(self):
        return "order=%s ws=%s escapes=%.2f respelled_reals=%s escaped_data=%s" % (self.order, self.ws, self.esc, self.nums, self.esc_data)


WS_WILD = ["", "", " ", "\n", "\t", "\r\n", "  ", " \n\t"]
SHORT = {8: "\\b", 9: "\\t", 10: "\\n", 12: "\\f", 13: "\\r", 34: "\\\"", 92: "\\\\", 47: "\\/"}


def render_string(s, st, force_plain=False):
    rng = st.rng
    out = ['"']
    for ch in s:
        c = ord(ch)
        must = c < 0x20 or c in (34, 92)
        if force_plain or (not must and (st.esc == 0.0 or rng.random() >= st.esc)):
            if must:
                out.append(SHORT.get(c) or "\\u%04x" % c)
            else:
                out.append(ch)
            continue
        if c in SHORT and rng.random() < 0.6:
            out.append(SHORT[c])
        elif c >= 0x10000:
            v = c - 0x10000
            hi, lo = 0xd800 + (v >> 10), 0xdc00 + (v & 0x3ff)
            out.append(("\\u%04x\\u%04X" if rng.random() < 0.5 else "\\u%04X\\u%04x") % (hi, lo))
        else:
            out.append(("\\u%04x" if rng.random() < 0.5 else "\\u%04X") % c)
    out.append('"')
    return "".join(out)


def respell_real(sp, rng):
    """another JSON spelling of the same non-integer value that still is a non-integer spelling (PDF distinguishes 1 and 1.0)"""
    if "." not in sp or "e" in sp or "E" in sp:
        return sp
    ip, fp = sp.split(".")
    k = rng.randrange(4)
    if k == 0:
        return ip + "." + fp + "0" * rng.choice([1, 2, 5])
    if k == 1:
        f2 = fp.rstrip("0")
        return ip + "." + (f2 or "0")
    if k == 2 and fp.strip("0") == "":
        return ip + ".0"
    return sp


def is_stream_members(v):
    return isinstance(v, JO) and v and set(k for k, _ in v) <= {"data", "datafile", "dict"}


def render(v, st, depth=0, in_stream=False):
    rng = st.rng

    def w(kind):
        if st.ws == "compact":
            return ""
        if st.ws == "wild":
            return rng.choice(WS_WILD)
        return {"open": "\n" + "  " * (depth + 1), "sep": "\n" + "  " * (depth + 1), "close": "\n" + "  " * depth, "colon": " ", "none": ""}[kind]
    if v is None:
        return "null"
    if v is True:
        return "true"
    if v is False:
        return "false"
    if isinstance(v, JNum):
        return respell_real(str(v), rng) if st.nums else str(v)
    if isinstance(v, str):
        return render_string(v, st)
    if isinstance(v, JO):
        ms = list(v)
        if st.order == "shuffle":
            rng.shuffle(ms)
        elif st.order == "dict-first" and is_stream_members(v):
            ms.sort(key=lambda m: m[0] != "dict")
        elif st.order == "sorted":
            ms.sort(key=lambda m: m[0].encode("utf-8"))
        elif st.order == "reverse":
            ms.reverse()
        if not ms:
            return "{" + (w("none") if st.ws != "wild" else rng.choice(WS_WILD)) + "}"
        stream = is_stream_members(v)
        parts = []
        for k, x in ms:
            if stream and k == "data" and isinstance(x, str) and not isinstance(x, JNum):
                val = render_string(x, Style(rng, esc=1.0 if rng.random() < 0.3 else 0.5) if st.esc_data else st, force_plain=not st.esc_data)
            else:
                val = render(x, st, depth + 1)
            parts.append(render_string(k, st) + (w("none") if st.ws != "wild" else rng.choice(WS_WILD)) + ":" + w("colon") + val)
        return "{" + w("open") + ("," + w("sep")).join(p + (rng.choice(WS_WILD) if st.ws == "wild" else "") for p in parts) + w("close") + "}"
    if isinstance(v, list):
        if not v:
            return "[" + (rng.choice(WS_WILD) if st.ws == "wild" else "") + "]"
        return "[" + w("open") + ("," + w("sep")).join(render(x, st, depth + 1) + (rng.choice(WS_WILD) if st.ws == "wild" else "") for x in v) + w("close") + "]"
    raise TypeError(type(v))


def render_text(v, st):
    lead = st.rng.choice(WS_WILD) if st.ws == "wild" else ""
    return (lead + render(v, st) + ("\n" if st.ws != "compact" else "")).encode("utf-8")


def styles(rng, n, with_dict_first=True):
    """the variants of one text: pure member-order variants first (the domain of the theorems), then every freedom at once"""
    out = []
    if with_dict_first:
        out.append(Style(rng, order="dict-first"))
    out.append(Style(rng, order="shuffle"))
    out.append(Style(rng, order="reverse", ws="compact"))
    out.append(Style(rng, order="keep", ws="wild"))
    out.append(Style(rng, order="keep", esc=0.5))
    out.append(Style(rng, order="keep", nums=True))
    out.append(Style(rng, order="sorted", ws="compact", esc=1.0))
    while len(out) < n:
        out.append(Style(rng, order=rng.choice(["shuffle", "shuffle", "dict-first", "reverse"]), ws=rng.choice(["pretty", "compact", "wild"]),
                         esc=rng.choice([0.0, 0.2, 1.0]), nums=rng.random() < 0.5))
    return out[:n]


# ------------------------------------------------------------------ qpdf JSON documents built by hand (in-process part)

U_STRINGS = ["u:plain", "u:caf\u00e9 \u20ac", "u:\U0001f600 astral", "u:A/B\\C\"D", "u:tab\there", "u:", "b:", "b:00ff80", "b:feffd83dde00", "u:\u007f del", "u:1 0 R"]
NAMES = ["/Plain", "/A#B", "/caf\u00e9", "n:/Bin#80", "n:/Sp#20ace", "/", "/Sl/ash", "n:/Q#22uote", "/\U0001f600"]
REALS = ["1.5", "-0.25", "0.0", "100.000", "3.14159", "-12345.678900", "0.5", "2.50"]
INTS = ["0", "1", "-1", "42", "2147483648", "-9223372036854775808", "9223372036854775807"]


def gen_scalar(rng, maxobj):
    k = rng.randrange(8)
    if k == 0:
        return rng.choice([None, True, False])
    if k == 1:
        return JNum(rng.choice(INTS))
    if k == 2:
        return JNum(rng.choice(REALS))
    if k in (3, 4):
        return rng.choice(U_STRINGS)
    if k == 5:
        return rng.choice(NAMES)
    if k == 6:
        return "%d 0 R" % rng.randint(1, maxobj + 1)
    return JNum(str(rng.randint(-1000, 1000)))


def gen_value(rng, depth, maxobj):
    r = rng.random()
    if depth <= 0 or r < 0.5:
        return gen_scalar(rng, maxobj)
    if r < 0.72:
        return [gen_value(rng, depth - 1, maxobj) for _ in range(rng.choice([0, 1, 2, 3]))]
    return gen_pdf_dict(rng, depth - 1, maxobj)


DICT_KEYS = ["/Type", "/K", "/A#B", "/caf\u00e9", "n:/Bin#80", "/Sub/Key", "/Z", "/\U0001f600", "n:/Sp#20ace", "/Kids", "/V"]


def gen_pdf_dict(rng, depth, maxobj, n=None):
    keys = rng.sample(DICT_KEYS, n if n is not None else rng.choice([0, 1, 2, 3, 5]))
    return JO((k, gen_value(rng, depth, maxobj)) for k in keys)


FILTER_SHAPES = [
    [],
    [("/Filter", "/FlateDecode")],
    [("/Filter", ["/ASCIIHexDecode", "/FlateDecode"])],
    [("/Filter", "/FlateDecode"), ("/DecodeParms", JO([("/Columns", JNum("4")), ("/Predictor", JNum("12"))]))],
    [("/Filter", ["/ASCIIHexDecode", "/FlateDecode"]), ("/DecodeParms", [None, JO([("/Columns", JNum("4")), ("/Predictor", JNum("12"))])])],
    [("/DecodeParms", JO([("/K", JNum("-1"))])), ("/Filter", "/CCITTFaxDecode")],
    [("/Filter", "/JBIG2Decode"), ("/Length", JNum("17"))],
    [("/Filter", "7 0 R"), ("/DecodeParms", "8 0 R")],
]


def gen_stream(rng, wd, tag, maxobj, data_kind=None):
    """("stream", JO members) with dict and data|datafile in qpdf's own order (data first)"""
    d = JO(rng.choice(FILTER_SHAPES))
    for k in rng.sample(["/K", "/Type", "/Marker", "/Z"], rng.choice([0, 1, 2])):
        d.append((k, gen_scalar(rng, maxobj)))
    raw = bytes(rng.randrange(256) for _ in range(rng.choice([0, 1, 2, 3, 30, 200])))
    kind = data_kind or rng.choice(["data", "data", "datafile"])
    ms = JO()
    if kind == "data":
        ms.append(("data", base64.b64encode(raw).decode()))
    elif kind == "datafile":
        p = os.path.join(wd, "side-%s" % tag)
        open(p, "wb").write(raw)
        ms.append(("datafile", p))
    ms.append(("dict", d))
    return ms


def meta(rng, maxobj, version="1.7"):
    return JO([("jsonversion", JNum("2")), ("pdfversion", version), ("pushedinheritedpageresources", False),
               ("calledgetallpages", False), ("maxobjectid", JNum(str(maxobj)))])


def gen_complete(rng, wd, tag, nstreams=None):
    """a complete qpdf JSON v2 document: catalog, pages, page with a content stream, value objects, streams, trailer"""
    nv = rng.choice([1, 2, 4])
    ns = nstreams if nstreams is not None else rng.choice([1, 2, 3])
    maxobj = 4 + nv + ns
    objs = JO()
    objs.append(("obj:1 0 R", JO([("value", JO([("/Pages", "2 0 R"), ("/Type", "/Catalog"), ("/Extra", ["%d 0 R" % i for i in range(5, maxobj + 1)])]))])))
    objs.append(("obj:2 0 R", JO([("value", JO([("/Count", JNum("1")), ("/Kids", ["3 0 R"]), ("/Type", "/Pages")]))])))
    objs.append(("obj:3 0 R", JO([("value", JO([("/Contents", "4 0 R"), ("/MediaBox", [JNum("0"), JNum("0"), JNum("612"), JNum("792.0")]), ("/Parent", "2 0 R"),
                                                ("/Resources", JO()), ("/Type", "/Page")]))])))
    objs.append(("obj:4 0 R", JO([("stream", JO([("data", base64.b64encode(zlib.compress(b"BT /F1 12 Tf (x) Tj ET\n")).decode()),
                                                 ("dict", JO([("/Filter", "/FlateDecode")]))]))])))
    n = 5
    for _ in range(nv):
        objs.append(("obj:%d 0 R" % n, JO([("value", gen_value(rng, 3, maxobj))])))
        n += 1
    for _ in range(ns):
        objs.append(("obj:%d 0 R" % n, JO([("stream", gen_stream(rng, wd, "%s-%d" % (tag, n), maxobj))])))
        n += 1
    objs.append(("trailer", JO([("value", JO([("/Root", "1 0 R"), ("/Size", JNum(str(maxobj + 1))), ("/Info", gen_pdf_dict(rng, 1, maxobj, 2))]))])))
    return JO([("qpdf", [meta(rng, maxobj, rng.choice(["1.3", "1.7", "2.0"])), objs])]), maxobj


def gen_update(rng, wd, tag, base, maxobj):
    """a JSON for updateFromJSON on `base`: a subset of objects with every kind of change"""
    bobjs = dict(base[0][1][1])
    objs = JO()
    keys = [k for k in bobjs if k != "trailer"]
    for k in rng.sample(keys, rng.choice([1, 2, 3])):
        cur = bobjs[k]
        is_stream = cur and cur[0][0] == "stream"
        c = rng.randrange(6)
        if is_stream and c <= 1:      # dictionary only: the stream keeps its data
            objs.append((k, JO([("stream", JO([("dict", JO(rng.choice(FILTER_SHAPES) + [("/Upd", JNum("1"))]))]))])))
        elif is_stream and c <= 3:    # dictionary and new data
            objs.append((k, JO([("stream", gen_stream(rng, wd, "%s-u%s" % (tag, k.split(":")[1].split(" ")[0]), maxobj))])))
        elif c == 4:                  # becomes a stream / a new stream
            objs.append((k, JO([("stream", gen_stream(rng, wd, "%s-n%s" % (tag, k.split(":")[1].split(" ")[0]), maxobj))])))
        else:
            objs.append((k, JO([("value", gen_value(rng, 2, maxobj))])))
    if rng.random() < 0.4:
        objs.append(("obj:%d 0 R" % (maxobj + 1), JO([("stream", gen_stream(rng, wd, "%s-new" % tag, maxobj))])))
    if rng.random() < 0.3:
        objs.append(("trailer", JO([("value", JO([("/Root", "1 0 R"), ("/Upd", True)]))])))
    m = JO([("jsonversion", JNum("2"))])
    if rng.random() < 0.5:
        m.append(("pushedinheritedpageresources", False))
    return JO([("qpdf", [m, objs])])


def malformed(rng, wd, tag):
    """texts outside the domain of the theorems / outside well-formed qpdf JSON: the model must still say what qpdf does"""
    base, maxobj = gen_complete(rng, wd, tag, nstreams=1)
    top = base
    metad, objs = top[0][1]
    k = rng.randrange(20)
    okey = "obj:%d 0 R" % maxobj      # the last stream
    sidx = [i for i, (kk, _) in enumerate(objs) if kk == okey][0]
    sm = objs[sidx][1][0][1]
    if k == 0:
        sm.append(("data", "AAAA"))                                  # duplicate data / data + datafile
    elif k == 1:
        sm.append(("datafile", os.path.join(wd, "nonexistent")))
    elif k == 2:
        objs[sidx][1].append(("value", JNum("3")))                   # value and stream
    elif k == 3:
        objs[sidx] = (okey, JO([("stream", JO([m for m in sm if m[0] != "dict"]))]))     # no dict
    elif k == 4:
        objs[sidx] = (okey, JO([("stream", JO([m for m in sm if m[0] == "dict"]))]))     # new stream without data
    elif k == 5:
        objs[sidx] = (okey, JO([("stream", [JNum("1"), JNum("2")])]))
    elif k == 6:
        objs[sidx] = (okey, JO())                                    # neither
    elif k == 7:
        objs.append(("obj:5  0  R", JO([("value", "u:same object, other spelling of the key")])))
    elif k == 8:
        objs.append(("obj:05 0 R", JO([("value", JNum("5"))])))
    elif k == 9:
        objs.append(("object:9", JO([("value", JNum("5"))])))
    elif k == 10:
        objs[0][1][0][1].append(("n:/Type", "/Other"))               # /Type twice after decoding
    elif k == 11:
        objs[0][1][0][1].append(("/Pages", None))                    # duplicate key, null erases
    elif k == 12:
        drop = rng.choice(["jsonversion", "pdfversion"])
        metad[:] = [m for m in metad if m[0] != drop]
    elif k == 13:
        metad[0] = ("jsonversion", JNum(rng.choice(["1", "2.0", "2.9", "3", "-2", "20"])))
    elif k == 14:
        metad[1] = ("pdfversion", rng.choice(["1", "1.", ".5", "1.7x", "12.34", "a.b", "2.0 "]))
    elif k == 15:
        top[0][1].append(JO([("x", JNum("1"))]))                     # third element
    elif k == 16:
        objs[:] = [m for m in objs if m[0] != "trailer"]
    elif k == 17:
        objs[1] = ("obj:2 0 R", JO([("value", rng.choice(["2 0 R", "1 0 R", "plain", "n:/A B", "b:0", "b:zz"]))]))
    elif k == 18:
        top.insert(0, ("version", JNum("2")))
        top.append(("qpdf", [JO([("jsonversion", JNum("2"))]), JO()]))   # "qpdf" twice
    else:
        objs[sidx][1][0][1].append(("dict", JO([("/Second", True)])))      # dict twice
    return top


REAL_TOK = re.compile(r"(?<![0-9a-zA-Z])r([0-9a-f]+)(?=[,;:]|$)")


def norm_dump(d):
    """a document dump with reals replaced by their value"""
    def f(m):
        sp = bytes.fromhex(m.group(1)).decode("latin-1")
        try:
            ip, _, fp = sp.lstrip("+-").partition(".")
            v = Fraction(int((ip + fp) or "0"), 10 ** len(fp))
            return "r=%s%s" % ("-" if sp.startswith("-") and v != 0 else "", v)
        except ValueError:
            return m.group(0)
    return REAL_TOK.sub(f, d)


def subst_files(dump):
    """model: F<hex file name>[#<size pipeStreamData insists on>] -> D<hex file contents> | E (the model names a side file, the library reads it)"""
    def f(m):
        try:
            data = open(bytes.fromhex(m.group(1)).decode("utf-8"), "rb").read()
        except OSError:
            return ":E"
        if m.group(2) and int(m.group(2)[1:]) != len(data):
            return ":E"
        return ":D" + data.hex()
    return re.sub(r":F([0-9a-f]*)(#\d+)?", f, dump)


def part_import_reactor(cx):
    chk, rng = cx.chk, cx.rng
    wd = os.path.join(common.workdir("C14-import"))
    cases = []        # (kind, base index or None, texts tuple (bytes,...), style description)
    nbase = 80 if cx.quick else 600
    nvar = 9 if cx.quick else 14
    for i in range(nbase):
        doc, maxobj = gen_complete(rng, wd, "c%d" % i)
        base_text = render_text(doc, Style(rng))
        b = len(cases)
        cases.append(("base", None, (base_text,), "qpdf's own layout"))
        for st in styles(rng, nvar):
            cases.append(("variant", b, (render_text(doc, st),), st.describe()))
        st = Style(rng, order=rng.choice(["keep", "shuffle"]), esc_data=True)
        cases.append(("variant-escaped-data", b, (render_text(doc, st),), st.describe()))
        # update mode on this document
        for j in range(2 if cx.quick else 4):
            upd = gen_update(rng, wd, "c%d-%d" % (i, j), doc, maxobj)
            ub = len(cases)
            cases.append(("update-base", None, (base_text, render_text(upd, Style(rng))), "qpdf's own layout"))
            for st in styles(rng, 5 if cx.quick else 9):
                cases.append(("update-variant", ub, (base_text, render_text(upd, st)), st.describe()))
        # "value": "n g R" at the top of an object is not a value (manual: the value of an object may not be an indirect object
        # reference): it must be refused for a stream as it is for any other object
        if i % 4 == 0:
            for k, v in doc[0][1][1]:
                if k != "trailer" and (v[0][0] == "stream" or rng.random() < 0.2):
                    ref = k[4:]
                    upd = JO([("qpdf", [JO([("jsonversion", JNum("2"))]), JO([(k, JO([("value", ref)]))])])])
                    cases.append(("self-reference", None, (base_text, render_text(upd, Style(rng))), "qpdf's own layout"))
    for i in range(60 if cx.quick else 1500):
        doc = malformed(rng, wd, "m%d" % i)
        st = Style(rng, order=rng.choice(["keep", "keep", "shuffle", "dict-first"]), ws=rng.choice(["pretty", "compact"]))
        cases.append(("tie-only", None, (render_text(doc, st),), st.describe()))
    trees = []
    for kind, b, texts, descr in cases:
        trees.append([parse_text(t) for t in texts])
    ilines = ["jrimp " + " ".join(hexs(t) for t in texts) for _, _, texts, _ in cases]
    mlines = ["jrimp " + " ".join(tree_arg(t) for t in tr) for tr in trees]
    impl, model = cx.impl(ilines), cx.model(mlines)
    # the domain of the member-order theorems: variants that are the base text up to member order
    dom_idx = [i for i, c in enumerate(cases) if c[1] is not None]
    dom = dict(zip(dom_idx, cx.model(["jrsame %s %s" % (tree_arg(trees[cases[i][1]][-1]), tree_arg(trees[i][-1])) for i in dom_idx])))
    kinds = {}
    nontriv = set()
    in_domain = 0
    for i, (kind, b, texts, descr) in enumerate(cases):
        kinds[kind] = kinds.get(kind, 0) + 1
        case = {"json_texts_hex": [t.hex() for t in texts] if sum(len(t) for t in texts) < 20000 else "too large", "api": "QPDF::createFromJSON" + (" + updateFromJSON" if len(texts) > 1 else ""),
                "spelling": descr, "kind": kind,
                "cli": "save the (last) text as x.json: qpdf --json-input x.json --json-output -" if len(texts) == 1 else
                       "save the texts as a.json, b.json: qpdf --json-input a.json a.pdf; qpdf a.pdf --update-from-json=b.json --json-output -"}
        a = impl[i]
        m = " ".join(subst_files(x) for x in model[i].split(" "))
        if "unmodelled" in m or kind == "variant-escaped-data":
            # outside the model: exponents, page-tree calls; a "data" string spelled with escapes (the model takes string VALUES, the
            # reactor reads the text between the quotes: known finding C14-F2, decided below on the implementation alone)
            kinds["outside-model"] = kinds.get("outside-model", 0) + 1
        else:
            if a not in m.split(" "):
                case = dict(case, first_difference_model_vs_implementation=first_diff(m.split(" ")[-1], a))
            cx.match("import-reactor", case, a, m)
        if a.startswith("ok;"):
            nontriv.add(texts)
        if kind == "self-reference" and a != "none":
            cx.bad("import-reactor", case, "an update whose \"value\" is the object's own reference is accepted and leaves an object that refers to itself "
                   "(for an object that is not a stream the same text is refused): " + a[:400],
                   signature=SIG_F4 if re.search(r";(\d+)\.(\d+)=v:R\1\.\2(;|$)", a) else "", implementation=a[:1500])
        if b is None:
            continue
        # the property on the implementation: the variant gives the document the base text gives
        ref = impl[b]
        sig = SIG_F2 if kind == "variant-escaped-data" else SIG_F3 if has_length_with_data(trees[i][-1]) else ""
        if norm_dump(a) != norm_dump(ref):
            case2 = dict(case, base_json_text_hex=cases[b][2][-1].hex())
            cx.bad("import-reactor", case2, "a JSON text that differs from the base text only in %s is imported as a different document: %s" %
                   (descr, first_diff(norm_dump(ref), norm_dump(a))), signature=sig, implementation=a[:1500], base_result=ref[:1500])
        if dom.get(i, "00") == "11":
            in_domain += 1
            # jr_import_member_order (about the tree after the repair of C14-F3): the extracted model agrees with its theorem
            if model[i].split(" ")[-1] != model[b].split(" ")[-1]:
                cx.tie("import-reactor-theorem", case, "model(variant) = " + model[i].split(" ")[-1][:300], "model(base) = " + model[b].split(" ")[-1][:300])
    chk.count("import-reactor", len(cases), nontriv, samples=[{"text": cases[1][2][0][:300].decode("latin-1"), "result": impl[1][:200]}])
    chk.cov["parts"]["import-reactor"]["distribution"] = kinds
    chk.cov["parts"]["import-reactor"]["variants_in_the_domain_of_jr_import_member_order"] = in_domain


def first_diff(a, b):
    pa, pb = a.split(";"), b.split(";")
    for x, y in zip(pa, pb):
        if x != y:
            return "%s  vs  %s" % (x[:260], y[:260])
    if len(pa) != len(pb):
        return "%d vs %d objects" % (len(pa), len(pb))
    return "?"


# ------------------------------------------------------------------ CLI: variants of qpdf's own exports

def q(args, cwd=None, timeout=120):
    return common.run_qpdf(args, cwd=cwd, timeout=timeout)


def canon(v):
    """decoded JSON with non-integer numbers replaced by their value (for comparing exports of documents read from texts that
    spell a real differently)"""
    if isinstance(v, JNum):
        if "." in v and "e" not in v and "E" not in v:
            ip, _, fp = v.lstrip("-").partition(".")
            f = Fraction(int(ip + fp), 10 ** len(fp))
            return "real:%s" % (-f if v.startswith("-") else f)
        return "num:" + v
    if isinstance(v, JO):
        return {k: canon(x) for k, x in v}
    if isinstance(v, list):
        return [canon(x) for x in v]
    return v


def load_canon(path):
    try:
        return canon(parse_text(open(path, "rb").read()))
    except (OSError, ValueError):
        return None


def objects_of(c):
    try:
        return c["qpdf"][1]
    except (TypeError, KeyError, IndexError):
        return None


def diff_objects(a, b):
    """keys whose entries differ"""
    return sorted(k for k in set(a) | set(b) if json.dumps(a.get(k), sort_keys=True) != json.dumps(b.get(k), sort_keys=True))


def run_cli_variants(cx, docs, wd):
    """docs: [{"name", "path", "kind"}] readable PDFs. For stream data inline|file x decode level none|generalized:
    G1 = the export; every variant V of G1 must behave as G1 under --json-input and --update-from-json; an edited subset written
    as a variant must change exactly the edited objects."""
    chk, rng = cx.chk, cx.rng
    jobs = []
    for dd in docs:
        modes = [("inline", "none"), ("file", "none"), ("inline", "generalized"), ("file", "generalized")]
        if cx.quick and dd["kind"] != "generated-stream-layer":
            modes = [("inline", "none"), rng.choice(modes[1:])]
        for sd, dl in modes:
            jobs.append((dd, sd, dl))

    def run_g1(i):
        dd, sd, dl = jobs[i]
        g1 = os.path.join(wd, "v%d-g1.json" % i)
        args = ["--json-output", "--json-stream-data=" + sd, "--decode-level=" + dl]
        if sd == "file":
            args.append("--json-stream-prefix=" + os.path.join(wd, "v%d-data" % i))
        r = q(args + [dd["path"], g1], cwd=wd)
        ref_in = g1 + ".in.json"
        ref_upd = g1 + ".upd.json"
        own = g1 + ".own.json"
        r_in = q(["--json-input", "--json-output", "--json-stream-data=inline", "--decode-level=none", g1, ref_in], cwd=wd) if r[0] in (0, 3) else None
        r_upd = q(["--update-from-json=" + g1, "--json-output", "--json-stream-data=inline", "--decode-level=none", dd["path"], ref_upd], cwd=wd) if r[0] in (0, 3) else None
        q(["--json-output", "--json-stream-data=inline", "--decode-level=none", dd["path"], own], cwd=wd)
        return r, g1, ref_in, ref_upd, own, r_in, r_upd
    g1s = common.par_map(run_g1, range(len(jobs)))
    vjobs = []
    for i, (r, g1, ref_in, ref_upd, own, r_in, r_upd) in enumerate(g1s):
        dd, sd, dl = jobs[i]
        if r[0] not in (0, 3) or r_in is None or r_in[0] not in (0, 3) or r_upd[0] not in (0, 3):
            continue       # qpdf's own JSON not accepted: the round-trip part reports that
        try:
            tree = parse_text(open(g1, "rb").read())
        except ValueError:
            continue
        sts = [Style(rng, order="dict-first"), Style(rng, order="shuffle", ws=rng.choice(["pretty", "compact"])),
               Style(rng, order=rng.choice(["shuffle", "reverse", "dict-first"]), ws="wild", esc=rng.choice([0.2, 1.0]), nums=True),
               Style(rng, order="keep", esc_data=True)]
        if not cx.quick:
            sts += styles(rng, 6, with_dict_first=False)
        if sd == "file":
            sts = [s for s in sts if not s.esc_data]
        for k, st in enumerate(sts):
            vjobs.append((i, k, st, render_text(tree, st)))       # rendered here: the generator is not shared between threads

    def run_v(t):
        i, k, st, text = t
        dd, sd, dl = jobs[i]
        vp = os.path.join(wd, "v%d-var%d.json" % (i, k))
        open(vp, "wb").write(text)
        out_in, out_upd = vp + ".in.json", vp + ".upd.json"
        a = q(["--json-input", "--json-output", "--json-stream-data=inline", "--decode-level=none", vp, out_in], cwd=wd)
        b = q(["--update-from-json=" + vp, "--json-output", "--json-stream-data=inline", "--decode-level=none", dd["path"], out_upd], cwd=wd)
        return vp, a, out_in, b, out_upd
    vres = common.par_map(run_v, vjobs)
    nontriv = set()
    refs = {}
    for (i, k, st, _text), (vp, a, out_in, b, out_upd) in zip(vjobs, vres):
        dd, sd, dl = jobs[i]
        r, g1, ref_in, ref_upd, own, r_in, r_upd = g1s[i]
        if i not in refs:
            refs[i] = (objects_of(load_canon(ref_in)), objects_of(load_canon(ref_upd)))
        want_in, want_upd = refs[i]
        sig = SIG_F2 if st.esc_data else dd.get("sig", "")
        base = {"input": dd["path"], "input_kind": dd["kind"], "generation1": ["qpdf", "--json-output", "--json-stream-data=" + sd, "--decode-level=" + dl, dd["path"], "g1.json"],
                "variant_of_g1": st.describe(), "variant_json": vp}
        for what, res, outp, want, argv in (("--json-input", a, out_in, want_in, ["qpdf", "--json-input", "variant.json", "--json-output", "out.json"]),
                                            ("--update-from-json", b, out_upd, want_upd, ["qpdf", "--update-from-json=variant.json", dd["path"], "--json-output", "out.json"])):
            case = dict(base, argv=argv, qpdf_exit=res[0])
            if want is None:
                continue
            if res[0] not in (0, 3):
                bad_json(cx, "cli-import-variants", case, "%s rejects a JSON text that differs from qpdf's own export only in %s: %s" %
                         (what, st.describe(), res[2].decode("latin-1")[-200:]), sig, vp)
                continue
            got = objects_of(load_canon(outp))
            if got is None:
                bad_json(cx, "cli-import-variants", case, "%s of the variant: the re-export is not valid JSON" % what, sig, vp)
                continue
            d = diff_objects(want, got)
            if d:
                bad_json(cx, "cli-import-variants", case, "%s of a JSON text that differs from qpdf's own export only in %s gives a different document: %s: %s  vs  %s" %
                         (what, st.describe(), d[:4], json.dumps(want.get(d[0]))[:220], json.dumps(got.get(d[0]))[:220]), sig, vp)
            else:
                nontriv.add((dd["name"], sd, dl, k, what))
    chk.count("cli-import-variants", 2 * len(vjobs) + 4 * len(jobs), nontriv,
              samples=[{"variant": vjobs[0][2].describe(), "input": jobs[vjobs[0][0]][0]["name"]}] if vjobs else [])

    # ---- an edited subset, written as a variant, changes exactly the edited objects (and these become the edit)
    ejobs = []
    for i, (r, g1, ref_in, ref_upd, own, r_in, r_upd) in enumerate(g1s):
        dd, sd, dl = jobs[i]
        if i not in refs or refs[i][1] is None or dl != "none":
            continue
        try:
            tree = parse_text(open(g1, "rb").read())
        except ValueError:
            continue
        objs = tree[0][1][1]
        # (not the containers of the file structure: editing a cross-reference stream - whose dictionary qpdf also uses as the
        # trailer - or an object stream says nothing about the document)
        streams = [k for k, v in objs if v and v[0][0] == "stream" and
                   dict(dict(v[0][1]).get("dict") or []).get("/Type") not in ("/XRef", "/ObjStm")]
        values = [k for k, v in objs if k != "trailer" and v and v[0][0] == "value" and isinstance(v[0][1], JO)]
        for rep in range(2 if cx.quick else 5):
            pick = rng.sample(streams, min(len(streams), rng.choice([1, 2]))) + rng.sample(values, min(len(values), 1 if dd["kind"] != "generated-objstm" else 3))
            sub = JO()
            for k, v in objs:
                if k not in pick:
                    continue
                if v[0][0] == "stream":
                    ms = JO(v[0][1])
                    dct = JO(dict(ms)["dict"])
                    dct.append(("/EditedByC14", JNum("22")))
                    ms = JO((kk, dct if kk == "dict" else x) for kk, x in ms)
                    if rng.random() < 0.3:
                        ms = JO(m for m in ms if m[0] == "dict")          # dictionary only: the stream keeps its data
                    sub.append((k, JO([("stream", ms)])))
                else:
                    val = JO(v[0][1])
                    val.append(("/EditedByC14", "u:changed \u20ac \U0001f600"))
                    sub.append((k, JO([("value", val)])))
            edit = JO([("qpdf", [JO([("jsonversion", JNum("2"))]), sub])])
            st = rng.choice([Style(rng, order="dict-first"), Style(rng, order="shuffle", ws="compact", esc=0.3), Style(rng, order="reverse", ws="wild", nums=True)])
            ejobs.append((i, rep, pick, (render_text(edit, Style(rng)), render_text(edit, st)), st))

    def run_e(t):
        i, rep, pick, texts, st = t
        dd, sd, dl = jobs[i]
        outs = []
        for tag, text in zip(("own", "var"), texts):
            ep = os.path.join(wd, "v%d-edit%d-%s.json" % (i, rep, tag))
            open(ep, "wb").write(text)
            after = ep + ".after.json"
            r = q(["--update-from-json=" + ep, "--json-output", "--json-stream-data=inline", "--decode-level=none", dd["path"], after], cwd=wd)
            outs.append((ep, r, after))
        return outs
    eres = common.par_map(run_e, ejobs)
    nontriv = set()
    pend = []
    for (i, rep, pick, _texts, st), outs in zip(ejobs, eres):
        dd, sd, dl = jobs[i]
        own = objects_of(load_canon(g1s[i][4]))
        (ep0, r0, after0), (ep1, r1, after1) = outs
        case = {"input": dd["path"], "input_kind": dd["kind"], "edited_objects": pick, "variant_of_edit": st.describe(), "variant_json": ep1,
                "argv": ["qpdf", "--update-from-json=variant.json", dd["path"], "--json-output", "after.json"], "qpdf_exit": r1[0]}
        if own is None or r0[0] not in (0, 3):
            continue
        if r1[0] not in (0, 3):
            bad_json(cx, "cli-import-variants", case, "--update-from-json rejects an edited subset written with %s: %s" % (st.describe(), r1[2].decode("latin-1")[-200:]), dd.get("sig", ""), ep1)
            continue
        got0, got1 = objects_of(load_canon(after0)), objects_of(load_canon(after1))
        if got0 is None or got1 is None:
            continue
        changed = diff_objects(own, got1)
        if sorted(changed) != sorted(pick):
            # an edit that does not arrive at all: objects that live in an object stream and are replaced before they were ever resolved
            # are overwritten when a sibling in the same object stream is resolved later (known finding C14-F5)
            lost = set(pick) - set(changed)
            sig = dd.get("sig", "")
            if lost and not (set(changed) - set(pick)) and lost <= compressed_objects(dd["path"]):
                sig = SIG_F5
            bad_json(cx, "cli-import-variants", case, "an edited subset (%s) written with %s changed %s%s" %
                     (sorted(pick), st.describe(), changed[:6], " (the edit of %s, stored in an object stream, is lost)" % sorted(lost) if sig == SIG_F5 else ""), sig, ep1)
            continue
        d = diff_objects(got0, got1)
        if d:
            bad_json(cx, "cli-import-variants", case, "the same edit written in qpdf's layout and with %s gives different documents: %s: %s  vs  %s" %
                     (st.describe(), d[:4], json.dumps(got0.get(d[0]))[:200], json.dumps(got1.get(d[0]))[:200]), dd.get("sig", ""), ep1)
            continue
        # the edited objects are the edit: the marker is there, and nothing else of the dictionary changed (a text string may come
        # back in binary form with the same text: import normalises the byte encoding)
        import c14_cli
        ok = True
        for k in pick:
            o, n = own[k], got1[k]
            od = o["stream"]["dict"] if "stream" in o else o["value"]
            nd = dict(n["stream"]["dict"] if "stream" in n else n["value"])
            mark = nd.pop("/EditedByC14", None)
            pl = []
            p = c14_cli.cmp_gen(od, nd, pl, k)
            pend += [(case, dd.get("sig", ""), ep1) + tuple(x) for x in pl]
            if mark is None or p or ("stream" in o and o["stream"].get("data") != n.get("stream", {}).get("data")):
                bad_json(cx, "cli-import-variants", case, "%s after the edit is not the edited object: %s (%s -> %s)" % (k, p or "marker / data", json.dumps(o)[:200], json.dumps(n)[:200]),
                         dd.get("sig", ""), ep1)
                ok = False
                break
        if ok:
            nontriv.add((dd["name"], sd, rep))
    texts = c14_cli.Texts(cx)
    tmap = texts.get([b for _, _, _, _, b, _ in pend])
    for case, sig, ep1, path, b, u in pend:
        got = "1 " + (",".join(str(ord(c)) for c in u) or "-")
        if tmap[b] != got:
            bad_json(cx, "cli-import-variants", case, "%s: text of a string in the edited object changed" % path, sig, ep1)
    chk.count("cli-import-variants", 2 * len(ejobs), nontriv)


_COMPRESSED = {}


def compressed_objects(path):
    """keys "obj:n 0 R" of the objects the file keeps in object streams (qpdf --show-xref)"""
    if path not in _COMPRESSED:
        rc, so, se = q(["--show-xref", path])
        _COMPRESSED[path] = set("obj:%s %s R" % (m.group(1), m.group(2)) for m in re.finditer(r"^(\d+)/(\d+): compressed;", so.decode("latin-1"), re.M))
    return _COMPRESSED[path]


def bad_json(cx, part, case, why, sig, json_path):
    kw = {}
    try:
        if os.path.getsize(json_path) < 300000 and not (sig and cx.chk.known_match(sig)) and len(cx.chk.violations) < 5:
            kw["input_json_base64"] = base64.b64encode(open(json_path, "rb").read()).decode()
    except OSError:
        pass
    cx.bad(part, case, why, signature=sig, **kw)


# ------------------------------------------------------------------ replay

def replay(chk, rep):
    """re-run a recorded case of the import parts; returns 0 when the property holds on it now"""
    import shutil, tempfile
    case = rep.get("case", {})
    drv = os.path.join(common.DRV, "drv")
    runner = os.path.join(common.EXTRACT, "model_runner")
    if isinstance(case.get("json_texts_hex"), list):
        texts = [bytes.fromhex(h) for h in case["json_texts_hex"]]
        a = common.run_lines(drv, ["jrimp " + " ".join(hexs(t) for t in texts)])[0]
        m = common.run_lines(runner, ["jrimp " + " ".join(tree_arg(parse_text(t)) for t in texts)])[0]
        m = " ".join(subst_files(x) for x in m.split(" "))
        print("replayed: %s on %d text(s) [%s]\n implementation: %s\n model (as is | after the repair of C14-F3): %s" % (case.get("api"), len(texts), case.get("spelling"), a[:600], m[:1200]))
        bad = a not in m.split(" ") and case.get("kind") != "variant-escaped-data"
        if "base_json_text_hex" in case:
            bt = texts[:-1] + [bytes.fromhex(case["base_json_text_hex"])]
            ref = common.run_lines(drv, ["jrimp " + " ".join(hexs(t) for t in bt)])[0]
            same = norm_dump(ref) == norm_dump(a)
            print(" base text gives: %s\n same document: %s%s" % (ref[:600], same, "" if same else "  (" + first_diff(norm_dump(ref), norm_dump(a)) + ")"))
            bad = bad or not same
        return 1 if bad else 0
    if "variant_json" in case and "argv" in case:
        wd = tempfile.mkdtemp(prefix="replay", dir=common.BUILD)
        try:
            inp = case.get("input")
            if "input_pdf_base64" in rep:
                inp = os.path.join(wd, "input.pdf")
                open(inp, "wb").write(base64.b64decode(rep["input_pdf_base64"]))
            vp = case["variant_json"]
            if "input_json_base64" in rep:
                vp = os.path.join(wd, "variant.json")
                open(vp, "wb").write(base64.b64decode(rep["input_json_base64"]))
            argv = [a.replace("variant.json", vp) if "variant.json" in a else (inp if a == case.get("input") else a) for a in case["argv"]]
            argv = [os.path.join(wd, a) if a in ("out.json", "after.json") else a for a in argv]
            rc, so, se = common.run_qpdf(argv[1:], cwd=wd)
            print("replayed: %s\n exit %s %s" % (" ".join(argv), rc, se.decode("latin-1")[-300:]))
            if rc not in (0, 3):
                return 1
            got = objects_of(load_canon(argv[-1]))
            # the reference: the same operation with qpdf's own spelling of the same JSON (the variant parsed and written plainly)
            plain = os.path.join(wd, "plain.json")
            open(plain, "wb").write(render_text(parse_text(open(vp, "rb").read()), Style(__import__("random").Random(0), order="sorted")))
            # (sorted members = qpdf's own member order inside streams: "data" / "datafile" before "dict")
            argv2 = [a.replace(vp, plain) for a in argv[:-1]] + [os.path.join(wd, "ref.json")]
            rc2, so2, se2 = common.run_qpdf(argv2[1:], cwd=wd)
            want = objects_of(load_canon(argv2[-1]))
            d = diff_objects(want or {}, got or {})
            print(" the same JSON with sorted members and plain spelling: exit %s; objects that differ: %s" % (rc2, d[:8]))
            return 1 if d or got is None else 0
        finally:
            shutil.rmtree(wd, ignore_errors=True)
    return None
