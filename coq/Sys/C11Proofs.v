(* C11 - --replace-input as a directory state machine with crash and fault points, over the sink model. *)
From QV Require Import Base.Bytes Sys.StdioModel Sys.StdioProofs Sys.SinkModel Sys.OutputSpec Sys.C10Proofs.
From Coq Require Import Arith Lia.
Local Open Scope nat_scope.

(* what an observer finds in the directory after the run (or after the kill) *)
Definition c11_dir_of (r : c10_result) (orig new : list N) (inp backup temp : nat) : c11_dirobs :=
  mk_dirobs (c11_classify orig new (c10_file_of r inp))
            (c11_classify orig new (c10_file_of r backup))
            (c11_classify orig new (c10_file_of r temp)).

Lemma c11_list_eqb_refl l : list_eqb N.eqb l l = true.
Proof. apply list_eqb_N_eq. reflexivity. Qed.
Lemma c11_classify_orig orig new : c11_classify orig new (Some orig) = ClOrig.
Proof. unfold c11_classify. rewrite c11_list_eqb_refl. reflexivity. Qed.
Lemma c11_classify_new orig new : c11_complete (c11_classify orig new (Some new)) = true.
Proof. unfold c11_classify. destruct (list_eqb N.eqb new orig); [reflexivity|]. rewrite c11_list_eqb_refl. reflexivity. Qed.

Lemma c11_file_of_static code w name content :
  c10_at w name = Some (sio_static content) ->
  c10_file_of (mk_result code (c10_exit_flush_all w)) name = Some content.
Proof.
  intros H. unfold c10_file_of, c10_exit_flush_all. simpl. rewrite c10_lookup_map. unfold c10_at in H. rewrite H. simpl.
  unfold sio_disk, sio_static. simpl. rewrite !rev'_rev, rev_involutive. reflexivity.
Qed.
Lemma c11_file_of_absent code w name :
  c10_at w name = None -> c10_file_of (mk_result code (c10_exit_flush_all w)) name = None.
Proof.
  intros H. unfold c10_file_of, c10_exit_flush_all. simpl. rewrite c10_lookup_map. unfold c10_at in H. rewrite H. reflexivity.
Qed.

(* C11, second sentence, repaired sinks, for every fault oracle / buffer size / data / file-size limit:
   exit status 0 or 3 means: the complete new file is under the input name, nothing is left under the
   temporary name, and under the backup name there is the original (always when there were warnings; without
   warnings only if its removal failed, which qpdf reports without making it an error) or nothing. *)
Lemma replace_input_final_lemma : forall en warn wx0 inp backup temp chunks orig,
  ck_finish (en_ck en) = true -> inp <> backup -> inp <> temp -> backup <> temp ->
  let r := c10_run en warn wx0 (ScReplace inp backup temp chunks) orig in
  (rs_exit r = Some 0 \/ rs_exit r = Some 3) ->
  c10_file_of r inp = Some (concat chunks) /\ c10_file_of r temp = None /\
  (c10_file_of r backup = Some orig \/ (warn = false /\ c10_file_of r backup = None)).
Proof.
  intros en warn wx0 inp backup temp chunks orig Hck Hib Hit Hbt r Hx. subst r.
  rewrite (c10_run_writer_scen en warn wx0 (ScReplace inp backup temp chunks) orig eq_refl) in *. simpl in *.
  destruct (c10_replace en warn inp backup temp chunks _) as [[] w1|e w1|w1] eqn:Hw; simpl in *;
    try (destruct Hx; discriminate).
  assert (Horig : c10_at (c10_initial en (ScReplace inp backup temp chunks) orig) inp = Some (sio_static orig)).
  { unfold c10_at, c10_initial. simpl. rewrite Nat.eqb_refl. reflexivity. }
  destruct (c10_replace_complete _ _ _ _ _ _ _ _ _ Hck Hib Hit Hbt Horig Hw) as (Hcl & Ht & Hb).
  set (w1' := if warn || false then c10_say w1 DgWarn else w1).
  assert (Hat : forall m, c10_at w1' m = c10_at w1 m) by (intros m; subst w1'; destruct (warn || false); reflexivity).
  split; [|split].
  - apply c10_file_of_clean. destruct Hcl as (f & Hf & Hr). exists f. rewrite Hat. split; [exact Hf|exact Hr].
  - apply c11_file_of_absent. rewrite Hat. exact Ht.
  - destruct Hb as [Hb|[Hwn Hb]].
    + left. apply c11_file_of_static. rewrite Hat. exact Hb.
    + right. split; [exact Hwn|]. apply c11_file_of_absent. rewrite Hat. exact Hb.
Qed.

(* The pinned sinks: the device fills up at the first write of the temporary file; nothing is noticed, both
   renames and the removal are performed: exit status 0, the input name bound to an EMPTY file, the original gone. *)
Lemma replace_input_atomic_refuted_lemma :
  exists en chunks orig,
    en_ck en = c10_unrepaired /\
    let r := c10_run en false false (ScReplace 1 2 3 chunks) orig in
    rs_exit r = Some 0 /\ c11_safe (c11_dir_of r orig (concat chunks) 1 2 3) = false /\
    c11_dir_of r orig (concat chunks) 1 2 3 = mk_dirobs ClOther ClAbsent ClAbsent.
Proof.
  exists (mk_env 4096 (fun n => if Nat.eqb n 2 then FaFull else FaNone) None 2 c10_unrepaired),
         [[37; 80; 68; 70]%N; [10]%N], [111; 114; 105; 103]%N.
  repeat split; vm_compute; reflexivity.
Qed.
