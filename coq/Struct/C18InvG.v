(* C18 unbounded refinement, part G: remove (through the iterator and by key), including the pruning
   of emptied nodes and the repositioning of the iterator. *)
From Coq Require Import Sorting.Sorted.
From QV Require Import Base.Bytes Struct.NNTreeModel Struct.NNTreeSpec Struct.C18Proofs Struct.C18ProofsC
  Struct.C18InvA Struct.C18InvB Struct.C18InvC Struct.C18InvD Struct.C18InvE Struct.C18InvF.
Local Open Scope Z_scope.

Lemma first_last_drop_mid : forall lim (L R : list node) E, L <> [] -> R <> [] ->
  nn_first_last Z (NInner lim (L ++ E :: R)) = nn_first_last Z (NInner lim (L ++ R)).
Proof.
  intros lim L R E HL HR. destruct L as [|x L]; [congruence|]. cbn [nn_first_last app].
  change (x :: L ++ E :: R) with ((x :: L) ++ E :: R). change (x :: L ++ R) with ((x :: L) ++ R).
  rewrite (c18_last_app (x :: L) (E :: R)) by discriminate. rewrite (c18_last_app (x :: L) R) by exact HR.
  rewrite c18_last_cons. rewrite (c18_last_indep R E x HR). reflexivity.
Qed.
Lemma lo_hi_drop_mid : forall (IA IB : zmap) e, IA <> [] -> IB <> [] -> lo_hi (IA ++ e :: IB) = lo_hi (IA ++ IB).
Proof.
  intros IA IB e HA HB. destruct IA as [|[k v] IA]; [congruence|]. cbn [lo_hi app].
  change ((k, v) :: IA ++ e :: IB) with (((k, v) :: IA) ++ e :: IB). change ((k, v) :: IA ++ IB) with (((k, v) :: IA) ++ IB).
  rewrite (c18_last_app ((k, v) :: IA) (e :: IB)) by discriminate. rewrite (c18_last_app ((k, v) :: IA) IB) by exact HB.
  rewrite c18_last_cons. rewrite (c18_last_indep IB e (k, 0) HB). reflexivity.
Qed.

Lemma plug_ne : forall fs (a : node), match a with NInner _ [] => False | _ => True end ->
  match plug a fs with NInner _ [] => False | _ => True end.
Proof.
  induction fs as [|fr fs IH]; intros a H; [exact H|]. cbn [plug]. apply IH.
  unfold fill. destruct (fr_L fr); exact I.
Qed.

(* the node from which a kid was erased, after the conditional resetLimits *)
Lemma prune_fix : forall fs' lim (L R : list node) E path w,
  L ++ R <> [] -> sibs_ok (Fr lim L R :: fs') -> chain_ok E (Fr lim L R :: fs') ->
  firstn (length fs') path = zpath fs' ->
  exists lim' fs'',
    (if (nn_zlen L =? 0) || (nn_zlen L =? nn_zlen (L ++ R))
     then nn_reset_loop Z nn_zcmp (length fs') (length fs') path (plug (NInner lim (L ++ R)) fs') w
     else (plug (NInner lim (L ++ R)) fs', w)) = (plug (NInner lim' (L ++ R)) fs'', w) /\
    same_sibs fs' fs'' /\ root_ok (plug (NInner lim' (L ++ R)) fs'').
Proof.
  intros fs' lim L R E path w Hne Hsibs Hchain Hfirst.
  inversion Hsibs as [|? ? [HL HR] Hsibs']; subst. cbn [fr_L fr_R] in HL, HR.
  assert (Hkids : Forall sub_ok (L ++ R)) by (rewrite Forall_app; split; assumption).
  destruct (first_last_inner lim (L ++ R) Hkids Hne) as [Hfl Hflne].
  destruct (nn_first_last Z (NInner lim (L ++ R))) as [flN|] eqn:EflN.
  2:{ exfalso. symmetry in Hfl. apply lo_hi_none in Hfl. congruence. }
  destruct fs' as [|fr2 fs3].
  - cbn [chain_ok fr_lim] in Hchain. destruct Hchain as [-> _].
    exists None, []. split; [|split; [apply same_sibs_refl|split; [reflexivity|exact Hkids]]].
    destruct ((nn_zlen L =? 0) || (nn_zlen L =? nn_zlen (L ++ R))); reflexivity.
  - destruct Hchain as [Hlc Hchain'].
    assert (Hc2 : chain_ok (NInner lim (L ++ R)) (fr2 :: fs3)).
    { apply (chain_ok_lim _ (fill (Fr lim L R) E)); [reflexivity|exact Hchain']. }
    destruct ((nn_zlen L =? 0) || (nn_zlen L =? nn_zlen (L ++ R))) eqn:Ec.
    + destruct (reset_loop_zip (fr2 :: fs3) (NInner lim (L ++ R)) path w flN ltac:(discriminate) Hfirst EflN Hsibs' Hc2)
        as (fs'' & Hres & Hsame & Hch).
      rewrite Hres. exists (Some flN), fs''. split; [reflexivity|]. split; [exact Hsame|].
      destruct fs'' as [|fr'' fs'']; [destruct Hsame as [Hs _]; discriminate|].
      apply plug_ok_iff; [discriminate|]. split; [|split; [apply (sibs_ok_same _ _ Hsame Hsibs')|exact Hch]].
      apply (sub_ok_set_first_last (NInner lim (L ++ R)) flN EflN). exact Hkids.
    + apply orb_false_iff in Ec. destruct Ec as [E1 E2]. apply Z.eqb_neq in E1, E2.
      assert (HLne : L <> []) by (intros ->; apply E1; reflexivity).
      assert (HRne : R <> []) by (intros ->; apply E2; rewrite app_nil_r; reflexivity).
      exists lim, (fr2 :: fs3). split; [reflexivity|]. split; [apply same_sibs_refl|].
      apply plug_ok_iff; [discriminate|]. split; [|split; [exact Hsibs'|exact Hc2]].
      apply sok_inner; [|exact Hkids]. destruct Hlc as [Hl1 Hl2]. unfold fill in Hl1, Hl2. cbn [fr_lim fr_L fr_R nn_lim] in Hl1, Hl2.
      rewrite (first_last_drop_mid lim L R E HLne HRne) in Hl1, Hl2. split; assumption.
Qed.

Lemma remove_up_S : forall fu kn rp (s : zst),
  nn_remove_up Z nn_zcmp (S fu) (kn :: rp) s =
  match zget (st_root Z s) (rev' rp) with
  | Some (NInner l kids) =>
      if (kn <? 0) then None else
      let kids' := nn_erase_at kids (Z.to_nat kn) in
      let r1 := zupd (st_root Z s) (rev' rp) (fun _ => NInner l kids') in
      let nkids := nn_zlen kids' in
      if 0 <? nkids then
        let path := rev' (kn :: rp) in
        let de := length rp in
        let '(r2, w2) :=
          if (kn =? 0) || (kn =? nkids)
          then nn_reset_loop Z nn_zcmp de de path r1 (st_warn Z s)
          else (r1, st_warn Z s) in
        let s2 := NNSt Z r2 path (-1) w2 in
        if kn =? nkids then
          let kn' := kn - 1 in
          let cur := rev' (kn' :: rp) in
          match zget r2 cur with
          | Some kid =>
              let '(ok, s3) := nn_deepen Z (nn_height Z kid) false true kid cur (kn' :: rp)
                                         (st_with_iter Z s2 cur (-1)) in
              if 0 <=? st_item Z s3 then Some (nn_increment Z false s3) else Some s3
          | None => Some (st_warned Z (st_with_iter Z s2 cur (-1)))
          end
        else
          let cur := rev' (kn :: rp) in
          match zget r2 cur with
          | Some kid =>
              Some (snd (nn_deepen Z (nn_height Z kid) true true kid cur (kn :: rp) (st_with_iter Z s2 cur (-1))))
          | None => Some (st_warned Z (st_with_iter Z s2 cur (-1)))
          end
      else
        match rp with
        | [] => Some (NNSt Z (NLeaf l []) [] (-1) (st_warn Z s))
        | _ => nn_remove_up Z nn_zcmp fu rp (st_with_root Z s r1)
        end
  | _ => None
  end.
Proof. reflexivity. Qed.

(* deepen into a kid of a node of the tree: where the iterator lands *)
Lemma deepen_in_plug : forall (first ae : bool) (kid : node) lim (L R : list node) fs (s0 : zst) cur,
  sub_ok kid ->
  exists path item A e B,
    nn_deepen Z (nn_height Z kid) first ae kid cur (nn_zlen L :: rzpath fs) s0 = (true, st_with_iter Z s0 path item) /\
    at_pos (plug kid (Fr lim L R :: fs)) path item ((zpre fs ++ flat_map zabs L) ++ A) e (B ++ flat_map zabs R ++ zpost fs) /\
    zabs kid = A ++ e :: B /\ (if first then A = [] else B = []).
Proof.
  intros first ae kid lim L R fs s0 cur Hk.
  destruct (sub_ok_abs _ Hk) as [Hne _].
  destruct (deepen_ok first ae cur s0 kid (sub_ok_kids _ Hk) Hne (nn_height Z kid) (nn_zlen L :: rzpath fs) (le_n _))
    as (gs & item & A & e & B & Hd & Hp & HAB).
  exists (rev' (rzpath gs ++ nn_zlen L :: rzpath fs)), item, A, e, B.
  split; [exact Hd|]. split; [|split; [apply (at_pos_abs _ _ _ _ _ _ Hp)|exact HAB]].
  pose proof (at_pos_plug kid (zpath gs) item A e B (Fr lim L R :: fs) Hp) as X.
  assert (Hpath : zpath (Fr lim L R :: fs) ++ zpath gs = rev' (rzpath gs ++ nn_zlen L :: rzpath fs)).
  { rewrite rev'_rev, rev_app_distr. cbn [rev]. reflexivity. }
  rewrite Hpath in X. exact X.
Qed.

Lemma remove_up_ok : forall t, 0 <= t -> forall fs (E : node) (s : zst) fuel,
  st_root Z s = plug E fs -> fs <> [] -> zabs E = [] -> sibs_ok fs -> chain_ok E fs -> fsize_ok t fs ->
  (length fs < fuel)%nat ->
  exists s', nn_remove_up Z nn_zcmp fuel (rzpath fs) s = Some s' /\ st_warn Z s' = st_warn Z s /\
    root_ok (st_root Z s') /\ match st_root Z s' with NInner _ [] => False | _ => True end /\
    size_ok Z t (st_root Z s') = true /\
    zabs (st_root Z s') = zpre fs ++ zpost fs /\
    (zpost fs = [] -> st_item Z s' < 0) /\
    (forall e' B', zpost fs = e' :: B' -> at_pos (st_root Z s') (st_path Z s') (st_item Z s') (zpre fs) e' B').
Proof.
  intros t Ht. induction fs as [|[lim L R] fs' IH]; intros E s fuel Hr Hne HE Hsibs Hchain Hfsz Hfuel; [congruence|].
  destruct fuel as [|fu]; [simpl in Hfuel; lia|].
  cbn [rzpath map]. fold (rzpath fs'). unfold fidx at 1. cbn [fr_L]. rewrite remove_up_S.
  rewrite rev'_rzpath. cbn [plug] in Hr. rewrite Hr, get_plug. unfold fill at 1. cbn [fr_lim fr_L fr_R].
  pose proof (c18_zlen_nonneg L) as HLnn.
  replace (nn_zlen L <? 0) with false by (symmetry; apply Z.ltb_ge; lia). cbv zeta.
  rewrite c18_to_nat_zlen, c18_erase_at_mid, upd_plug.
  inversion Hsibs as [|? ? [HL HR] Hsibs']; subst. cbn [fr_L fr_R] in HL, HR.
  inversion Hfsz as [|? ? (Hfr1 & Hfr2 & Hfr3) Hfsz']; subst. cbn [fr_L fr_R] in Hfr1, Hfr2, Hfr3.
  destruct (0 <? nn_zlen (L ++ R)) eqn:Enk.
  - apply Z.ltb_lt in Enk.
    assert (HLRne : L ++ R <> []) by (intros E0; rewrite E0 in Enk; unfold nn_zlen in Enk; simpl in Enk; lia).
    assert (Hpath : rev' (nn_zlen L :: rzpath fs') = zpath (Fr lim L R :: fs')) by (apply rev'_rev).
    assert (Hlenr : length (rzpath fs') = length fs') by (unfold rzpath; apply map_length).
    rewrite Hpath, !Hlenr.
    destruct (prune_fix fs' lim L R E (zpath (Fr lim L R :: fs')) (st_warn Z s) HLRne Hsibs Hchain)
      as (lim' & fs'' & Hfix & Hsame & Hrok).
    { rewrite <- (app_nil_r (zpath (Fr lim L R :: fs'))). apply firstn_zpath_tail. }
    rewrite Hfix. cbv beta iota zeta.
    assert (Hzp : zpath fs'' = zpath fs') by (symmetry; apply same_sibs_zpath; exact Hsame).
    assert (Hsz2 : size_ok Z t (plug (NInner lim' (L ++ R)) fs'') = true).
    { apply size_ok_plug. split; [|apply (fsize_ok_same t fs'); assumption].
      cbn [size_ok]. rewrite forallb_app, Hfr2, Hfr3. rewrite c18_zlen_app.
      replace (nn_zlen L + nn_zlen R <=? t) with true by (symmetry; apply Z.leb_le; lia). reflexivity. }
    assert (Hne2 : match plug (NInner lim' (L ++ R)) fs'' with NInner _ [] => False | _ => True end).
    { apply plug_ne. destruct (L ++ R); [congruence|exact I]. }
    assert (Habs2 : zabs (plug (NInner lim' (L ++ R)) fs'') = zpre (Fr lim L R :: fs') ++ zpost (Fr lim L R :: fs')).
    { rewrite abs_plug. cbn [nn_abs zpre zpost fr_L fr_R]. rewrite flat_map_app.
      rewrite (same_sibs_zpre _ _ Hsame), (same_sibs_zpost _ _ Hsame), <- !app_assoc. reflexivity. }
    assert (Hrz : rzpath fs' = rzpath fs'') by (apply same_sibs_rzpath; exact Hsame).
    destruct (nn_zlen L =? nn_zlen (L ++ R)) eqn:Elast.
    + (* the last kid was erased: to the last item of the new last kid, then ++ *)
      apply Z.eqb_eq in Elast. rewrite c18_zlen_app in Elast.
      assert (HR0 : R = []).
      { destruct R; [reflexivity|]. rewrite c18_zlen_cons in Elast. pose proof (c18_zlen_nonneg R). lia. }
      subst R. rewrite app_nil_r in *.
      destruct (c18_last_or_nil L) as [->|(L' & kl & ->)]; [congruence|].
      assert (HzL : nn_zlen (L' ++ [kl]) - 1 = nn_zlen L') by (rewrite c18_zlen_app, c18_zlen_cons, c18_zlen_nil; lia).
      rewrite HzL.
      assert (Hcur : rev' (nn_zlen L' :: rzpath fs') = zpath fs'' ++ [nn_zlen L']).
      { rewrite rev'_rev. cbn [rev]. fold (zpath fs'). rewrite Hzp. reflexivity. }
      rewrite Hcur, get_plug_app. cbn [nn_get]. rewrite c18_znth_mid.
      rewrite Forall_app in HL. destruct HL as [HL' Hkl]. inversion Hkl as [|? ? Hklok _]; subst.
      rewrite Hrz.
      match goal with |- context [nn_deepen Z _ false true kl ?cur _ ?s0] =>
        destruct (deepen_in_plug false true kl lim' L' [] fs'' s0 cur Hklok) as (p3 & item & Ak & ek & Bk & Hd & Hp3 & Hka & ->)
      end.
      rewrite Hd. cbv beta iota. cbn [st_item st_with_iter].
      pose proof (at_pos_item _ _ _ _ _ _ Hp3) as Hi3.
      replace (0 <=? item) with true by (symmetry; apply Z.leb_le; exact Hi3).
      match goal with |- context [nn_increment Z false ?s3] =>
        destruct (increment_fwd s3 _ ek _ Hrok Hp3) as (p4 & i4 & Hinc & H41 & H42)
      end.
      rewrite Hinc. eexists. split; [reflexivity|]. cbn [st_warn st_root st_path st_item st_with_iter].
      split; [reflexivity|]. split; [exact Hrok|]. split; [exact Hne2|]. split; [exact Hsz2|]. split; [exact Habs2|].
      cbn [zpost zpre fr_L fr_R flat_map app] in *.
      split.
      * intros Hz. assert (Hlt : i4 = -1); [|lia]. apply H41. rewrite <- (same_sibs_zpost _ _ Hsame), Hz. reflexivity.
      * intros e' B' Hz. eapply at_pos_eq; [apply (H42 e' B')| |reflexivity].
        -- rewrite <- (same_sibs_zpost _ _ Hsame), Hz. reflexivity.
        -- rewrite flat_map_app. cbn [flat_map]. rewrite Hka, app_nil_r, (same_sibs_zpre _ _ Hsame), <- !app_assoc. reflexivity.
    + (* otherwise: to the first item of the kid that moved into the erased slot *)
      apply Z.eqb_neq in Elast. rewrite c18_zlen_app in Elast.
      destruct R as [|kr R']; [rewrite c18_zlen_nil in Elast; lia|].
      rewrite zpath_cons. unfold fidx at 1 2 3. cbn [fr_L]. rewrite <- Hzp, get_plug_app. cbn [nn_get]. rewrite c18_znth_mid.
      inversion HR as [|? ? Hkrok HR']; subst.
      rewrite Hrz.
      match goal with |- context [nn_deepen Z _ true true kr ?cur _ ?s0] =>
        destruct (deepen_in_plug true true kr lim' L R' fs'' s0 cur Hkrok) as (p3 & item & Ak & ek & Bk & Hd & Hp3 & Hka & ->)
      end.
      rewrite Hd. cbn [snd]. eexists. split; [reflexivity|]. cbn [st_warn st_root st_path st_item st_with_iter].
      split; [reflexivity|]. split; [exact Hrok|]. split; [exact Hne2|]. split; [exact Hsz2|]. split; [exact Habs2|].
      cbn [zpost zpre fr_L fr_R flat_map app] in *. rewrite Hka. cbn [app].
      split; [intros Hz; discriminate|].
      intros e' B' Hz. injection Hz as <- <-.
      eapply at_pos_eq; [exact Hp3| |].
      * rewrite app_nil_r, (same_sibs_zpre _ _ Hsame). reflexivity.
      * rewrite (same_sibs_zpost _ _ Hsame), <- !app_assoc. reflexivity.
  - (* the node is empty now: erase it from its parent in turn, or leave an empty root *)
    apply Z.ltb_ge in Enk. rewrite c18_zlen_app in Enk. pose proof (c18_zlen_nonneg R) as HRnn.
    assert (HL0 : L = []) by (destruct L; [reflexivity|rewrite c18_zlen_cons in Enk; pose proof (c18_zlen_nonneg L); lia]).
    assert (HR0 : R = []) by (destruct R; [reflexivity|rewrite c18_zlen_cons in Enk; pose proof (c18_zlen_nonneg R); lia]).
    subst L R. cbn [app].
    destruct fs' as [|fr2 fs3].
    + cbn [rzpath map]. cbn [chain_ok fr_lim] in Hchain. destruct Hchain as [-> _].
      eexists. split; [reflexivity|]. cbn [st_warn st_root st_path st_item zpre zpost fr_L fr_R flat_map app nn_abs size_ok].
      split; [reflexivity|]. split; [split; [reflexivity|exact I]|]. split; [exact I|].
      split; [apply Z.leb_le; rewrite c18_zlen_nil; exact Ht|]. split; [reflexivity|]. split; [intros _; lia|].
      intros e' B' Hz. discriminate.
    + change (match rzpath (fr2 :: fs3) with [] => Some (NNSt Z (NLeaf lim []) [] (-1) (st_warn Z s)) | _ :: _ =>
               nn_remove_up Z nn_zcmp fu (rzpath (fr2 :: fs3)) (st_with_root Z s (plug (NInner lim []) (fr2 :: fs3))) end)
        with (nn_remove_up Z nn_zcmp fu (rzpath (fr2 :: fs3)) (st_with_root Z s (plug (NInner lim []) (fr2 :: fs3)))).
      destruct Hchain as [Hlc Hchain'].
      destruct (IH (NInner lim []) (st_with_root Z s (plug (NInner lim []) (fr2 :: fs3))) fu)
        as (s' & Hru & Hw & Hrok & Hne' & Hsz & Habs & H1 & H2).
      * reflexivity.
      * discriminate.
      * reflexivity.
      * exact Hsibs'.
      * apply (chain_ok_lim _ (fill (Fr lim [] []) E)); [reflexivity|exact Hchain'].
      * exact Hfsz'.
      * simpl in Hfuel. simpl. lia.
      * exists s'. split; [exact Hru|]. split; [exact Hw|]. split; [exact Hrok|]. split; [exact Hne'|]. split; [exact Hsz|].
        cbn [zpre zpost fr_L fr_R flat_map app]. rewrite app_nil_r. split; [exact Habs|]. split; [exact H1|exact H2].
Qed.

(* the leaf from which an item was erased (and that is not empty), after the conditional resetLimits *)
Lemma leaf_fix : forall fs l (IA IB : zmap) e item w,
  IA ++ IB <> [] -> root_ok (plug (NLeaf l (IA ++ e :: IB)) fs) ->
  exists l' fs',
    (if (nn_zlen IA =? 0) || (nn_zlen IA =? nn_zlen (IA ++ IB))
     then nn_reset_limits Z nn_zcmp (length fs) (NNSt Z (plug (NLeaf l (IA ++ IB)) fs) (zpath fs) item w)
     else NNSt Z (plug (NLeaf l (IA ++ IB)) fs) (zpath fs) item w)
    = NNSt Z (plug (NLeaf l' (IA ++ IB)) fs') (zpath fs) item w /\
    same_sibs fs fs' /\ root_ok (plug (NLeaf l' (IA ++ IB)) fs').
Proof.
  intros fs l IA IB e item w Hne Hok.
  assert (Hsibs : sibs_ok fs) by (apply (root_ok_sibs _ _ Hok)).
  assert (Hchain : chain_ok (NLeaf l (IA ++ IB)) fs).
  { destruct fs as [|fr fs]; [exact I|]. apply plug_ok_iff in Hok; [|discriminate].
    apply (chain_ok_lim _ (NLeaf l (IA ++ e :: IB))); [reflexivity|tauto]. }
  assert (Hnolim : nn_lim Z (plug (NLeaf l (IA ++ IB)) fs) = None).
  { rewrite <- (plug_lim fs (NLeaf l (IA ++ e :: IB)) (NLeaf l (IA ++ IB)) eq_refl). apply Hok. }
  destruct ((nn_zlen IA =? 0) || (nn_zlen IA =? nn_zlen (IA ++ IB))) eqn:Ec.
  - assert (Hfl : nn_first_last Z (NLeaf l (IA ++ IB)) <> None) by (rewrite first_last_leaf; apply lo_hi_some; exact Hne).
    destruct (nn_first_last Z (NLeaf l (IA ++ IB))) as [fl|] eqn:Efl; [|congruence].
    destruct (reset_limits_zip fs (NLeaf l (IA ++ IB)) (NNSt Z (plug (NLeaf l (IA ++ IB)) fs) (zpath fs) item w) [] fl
                eq_refl (eq_sym (app_nil_r _)) Hnolim Efl Hsibs Hchain) as (a' & fs' & Hres & Hsame & Hch & Ha').
    rewrite Hres. cbn [st_path st_item st_warn].
    destruct fs as [|fr fs].
    + destruct Hsame as [Hs _]. destruct fs'; [|discriminate]. subst a'. exists l, []. split; [reflexivity|].
      split; [apply same_sibs_refl|]. split; [exact Hnolim|exact I].
    + subst a'. cbn [nn_set_lim]. exists (Some fl), fs'. split; [reflexivity|]. split; [exact Hsame|].
      destruct fs' as [|fr' fs']; [destruct Hsame as [Hs _]; discriminate|]. apply plug_ok_iff; [discriminate|].
      split; [apply (sub_ok_set_first_last (NLeaf l (IA ++ IB)) fl Efl I)|]. split; [apply (sibs_ok_same _ _ Hsame Hsibs)|exact Hch].
  - apply orb_false_iff in Ec. destruct Ec as [E1 E2]. apply Z.eqb_neq in E1, E2.
    assert (HAne : IA <> []) by (intros ->; apply E1; reflexivity).
    assert (HBne : IB <> []) by (intros ->; apply E2; rewrite app_nil_r; reflexivity).
    exists l, fs. split; [reflexivity|]. split; [apply same_sibs_refl|].
    destruct fs as [|fr fs]; [split; [exact Hnolim|exact I]|].
    apply plug_ok_iff in Hok; [|discriminate]. destruct Hok as (Hsa & _ & _).
    apply plug_ok_iff; [discriminate|]. split; [|split; [exact Hsibs|exact Hchain]].
    destruct (sub_ok_lc _ Hsa) as [Hl1 Hl2]. apply sok_leaf. unfold lc in *. cbn [nn_lim] in *.
    rewrite first_last_leaf in *. rewrite (lo_hi_drop_mid IA IB e HAne HBne) in Hl1, Hl2. split; assumption.
Qed.

(* remove through a valid iterator *)
Lemma iter_remove_ok : forall t, 0 <= t -> forall (s : zst) A e B, tree_inv t (st_root Z s) ->
  at_pos (st_root Z s) (st_path Z s) (st_item Z s) A e B ->
  exists s', nn_iter_remove Z nn_zcmp s = Some s' /\ st_warn Z s' = st_warn Z s /\
    tree_inv t (st_root Z s') /\ zabs (st_root Z s') = A ++ B /\
    (B = [] -> st_item Z s' < 0) /\
    (forall e' B', B = e' :: B' -> at_pos (st_root Z s') (st_path Z s') (st_item Z s') A e' B').
Proof.
  intros t Ht s A e B Hinv Hpos.
  pose proof (at_pos_abs _ _ _ _ _ _ Hpos) as Habs.
  pose proof (ti_sorted _ _ Hinv) as Hsorted. rewrite Habs in Hsorted. apply zsorted_drop_mid in Hsorted.
  destruct Hpos as (fs & l & items & Hr & Hpath & Hi & Hn & HA & HB).
  unfold nn_iter_remove. replace (st_item Z s <? 0) with false by (symmetry; apply Z.ltb_ge; lia).
  unfold nn_leaf_items. rewrite Hr, Hpath, get_plug.
  pose proof (c18_nth_lt _ _ _ Hn) as Hlt. set (n := Z.to_nat (st_item Z s)) in *.
  replace (nn_zlen items <? st_item Z s + 1) with false by (symmetry; apply Z.ltb_ge; unfold nn_zlen; lia).
  pose proof (c18_nth_split _ _ _ Hn) as Hsplit.
  set (IA := firstn n items) in *. set (IB := skipn (S n) items) in *.
  assert (HlenIA : length IA = n) by (unfold IA; rewrite firstn_length; lia).
  assert (Her : nn_erase_at items n = IA ++ IB).
  { rewrite Hsplit at 1. rewrite <- HlenIA. apply c18_erase_at_mid. }
  cbv zeta. rewrite Her. unfold st_with_root. rewrite upd_plug, Hpath, zpath_length. cbn [nn_set_items].
  assert (Hitem : st_item Z s = nn_zlen IA) by (unfold nn_zlen; rewrite HlenIA; unfold n; lia).
  rewrite Hitem.
  rewrite Hr in Hinv. pose proof (tree_inv_root_ok _ _ Hinv) as Hok. rewrite Hsplit in Hok.
  pose proof (ti_size _ _ Hinv) as Hsz. apply size_ok_plug in Hsz. destruct Hsz as [Hlsz Hfsz].
  cbn [size_ok] in Hlsz. apply Z.leb_le in Hlsz. rewrite Hsplit, c18_zlen_app, c18_zlen_cons in Hlsz.
  destruct (0 <? nn_zlen (IA ++ IB)) eqn:En'.
  - apply Z.ltb_lt in En'.
    assert (Hne : IA ++ IB <> []) by (intros E0; rewrite E0 in En'; unfold nn_zlen in En'; simpl in En'; lia).
    destruct (leaf_fix fs l IA IB e (nn_zlen IA) (st_warn Z s) Hne Hok) as (l' & fs' & Hfix & Hsame & Hrok).
    rewrite Hfix. cbn [st_path].
    assert (Hinv2 : tree_inv t (plug (NLeaf l' (IA ++ IB)) fs')).
    { constructor.
      - apply Hrok.
      - apply Hrok.
      - apply plug_ne. exact I.
      - rewrite abs_plug. cbn [nn_abs]. rewrite <- (same_sibs_zpre _ _ Hsame), <- (same_sibs_zpost _ _ Hsame).
        rewrite HA, HB in Hsorted. rewrite <- !app_assoc in *. exact Hsorted.
      - apply size_ok_plug. split; [|apply (fsize_ok_same t fs); assumption]. cbn [size_ok]. apply Z.leb_le.
        rewrite c18_zlen_app. lia. }
    assert (Habs2 : zabs (plug (NLeaf l' (IA ++ IB)) fs') = A ++ B).
    { rewrite abs_plug. cbn [nn_abs]. rewrite <- (same_sibs_zpre _ _ Hsame), <- (same_sibs_zpost _ _ Hsame), HA, HB.
      rewrite <- !app_assoc. reflexivity. }
    assert (Hzp : zpath fs = zpath fs') by (apply same_sibs_zpath; exact Hsame).
    destruct (nn_zlen IA =? nn_zlen (IA ++ IB)) eqn:Elast.
    + apply Z.eqb_eq in Elast. rewrite c18_zlen_app in Elast.
      assert (HB0 : IB = []).
      { destruct IB as [|x IB']; [reflexivity|]. rewrite c18_zlen_cons in Elast. pose proof (c18_zlen_nonneg IB'). lia. }
      rewrite HB0 in *. rewrite app_nil_r in *.
      destruct (c18_last_or_nil IA) as [E0|(IA' & ep & HIA)]; [congruence|]. rewrite HIA in *.
      assert (Hp3 : at_pos (plug (NLeaf l' (IA' ++ [ep])) fs') (zpath fs) (nn_zlen (IA' ++ [ep]) - 1)
                      (zpre fs' ++ IA') ep ([] ++ zpost fs')).
      { pose proof (at_pos_plug _ _ _ _ _ _ fs' (at_pos_leaf_intro l' IA' ep [])) as X.
        rewrite app_nil_r, <- Hzp in X.
        replace (nn_zlen (IA' ++ [ep]) - 1) with (nn_zlen IA') by (rewrite c18_zlen_app, c18_zlen_cons, c18_zlen_nil; lia).
        exact X. }
      match goal with |- context [nn_increment Z false ?s3] =>
        destruct (increment_fwd s3 _ ep _ Hrok Hp3) as (p4 & i4 & Hinc & H41 & H42)
      end.
      rewrite Hinc. eexists. split; [reflexivity|]. cbn [st_warn st_root st_path st_item st_with_iter].
      split; [reflexivity|]. split; [exact Hinv2|]. split; [exact Habs2|].
      cbn [app] in *. rewrite HB.
      split.
      * intros Hz. assert (Hlt' : i4 = -1); [|lia]. apply H41. rewrite <- (same_sibs_zpost _ _ Hsame). exact Hz.
      * intros e' B' Hz. eapply at_pos_eq; [apply (H42 e' B')| |reflexivity].
        -- rewrite <- (same_sibs_zpost _ _ Hsame). exact Hz.
        -- rewrite HA, <- (same_sibs_zpre _ _ Hsame), <- !app_assoc. reflexivity.
    + apply Z.eqb_neq in Elast. rewrite c18_zlen_app in Elast.
      destruct IB as [|e1 IB']; [rewrite c18_zlen_nil in Elast; lia|].
      eexists. split; [reflexivity|]. cbn [st_warn st_root st_path st_item].
      split; [reflexivity|]. split; [exact Hinv2|]. split; [exact Habs2|].
      rewrite HB. cbn [app]. split; [discriminate|].
      intros e' B' Hz. injection Hz as <- <-.
      pose proof (at_pos_plug _ _ _ _ _ _ fs' (at_pos_leaf_intro l' IA e1 IB')) as X.
      rewrite app_nil_r, <- Hzp in X. eapply at_pos_eq; [exact X| |].
      * rewrite HA, (same_sibs_zpre _ _ Hsame). reflexivity.
      * rewrite (same_sibs_zpost _ _ Hsame). reflexivity.
  - apply Z.ltb_ge in En'. rewrite c18_zlen_app in En'.
    assert (HA0 : IA = []) by (destruct IA as [|x IA']; [reflexivity|rewrite c18_zlen_cons in En'; pose proof (c18_zlen_nonneg IA'); pose proof (c18_zlen_nonneg IB); lia]).
    assert (HB0 : IB = []) by (destruct IB as [|x IB']; [reflexivity|rewrite c18_zlen_cons in En'; pose proof (c18_zlen_nonneg IB'); pose proof (c18_zlen_nonneg IA); lia]).
    rewrite HA0, HB0 in *. cbn [app] in *. rewrite app_nil_r in HA. subst A B.
    destruct fs as [|fr fs'].
    + cbn [zpath rzpath map rev plug zpre zpost app] in *.
      eexists. split; [reflexivity|]. cbn [st_warn st_root st_path st_item st_with_iter].
      destruct Hok as [Hnl _]. cbn [nn_lim] in Hnl. subst l.
      split; [reflexivity|]. split; [|split; [reflexivity|split; [intros _; lia|intros e' B' Hz; discriminate]]].
      constructor; try exact I; try reflexivity.
      * constructor.
      * cbn [size_ok]. apply Z.leb_le. rewrite c18_zlen_nil. exact Ht.
    + rewrite c18_match_ne by (rewrite zpath_cons; destruct (zpath fs'); discriminate).
      rewrite rev'_zpath.
      apply plug_ok_iff in Hok; [|discriminate]. destruct Hok as (_ & Hsibs & Hchain).
      match goal with |- context [nn_remove_up Z nn_zcmp _ _ ?s1] =>
      destruct (remove_up_ok t Ht (fr :: fs') (NLeaf l []) s1
                  (S (length (fr :: fs'))) eq_refl ltac:(discriminate) eq_refl Hsibs)
        as (s' & Hru & Hw & Hrok & Hne' & Hsz' & Habs' & H1 & H2) end.
      * apply (chain_ok_lim _ (NLeaf l [e])); [reflexivity|exact Hchain].
      * exact Hfsz.
      * lia.
      * exists s'. split; [exact Hru|]. split; [exact Hw|]. split; [|split; [exact Habs'|split; [exact H1|exact H2]]].
        constructor; [apply Hrok|apply Hrok|exact Hne'|rewrite Habs'; exact Hsorted|exact Hsz'].
Qed.

(* M3: remove through the iterator and remove by key, from any valid tree: pruning of emptied
   nodes up to the root, /Limits, the successor the iterator lands on, the returned value *)
Lemma nn_remove_refines_lemma : forall (t : Z) (s : nnst Z) (m : smst Z) (op : nnop Z),
  0 <= t -> c18_rel t s m -> (op = OpIterRemove \/ exists k, op = OpRemove k) -> c18_step_ok t op s m.
Proof.
  intros t s m op Ht (Hinv & Hmap & Hun & Hcur) Hop.
  pose proof (ti_sorted _ _ Hinv) as Hsorted.
  unfold c18_step_ok. destruct Hop as [->|[k ->]].
  - change (nn_step Z nn_zcmp t OpIterRemove s) with
      (match nn_iter_remove Z nn_zcmp s with Some s' => (RIter (nn_cur Z s'), s') | None => (RErr, s) end).
    unfold sm_step.
    destruct Hcur as [[Hi Hc]|(A & e & B & Hpos & Hc)]; rewrite Hc.
    + unfold nn_iter_remove. apply Z.ltb_lt in Hi. rewrite Hi. cbn [fst snd].
      split; [reflexivity|]. split; [|reflexivity].
      split; [exact Hinv|]. split; [exact Hmap|]. split; [exact Hun|]. left. split; [apply Z.ltb_lt; exact Hi|exact Hc].
    + pose proof (at_pos_abs _ _ _ _ _ _ Hpos) as Habs. rewrite Habs in Hsorted.
      assert (Hsucc : sm_succ Z nn_zcmp (fst e) (sm_map Z m) = hd_error B)
        by (rewrite Hmap, Habs; apply sm_succ_mid; exact Hsorted).
      assert (Hrem : sm_remove Z nn_zcmp (fst e) (sm_map Z m) = A ++ B)
        by (rewrite Hmap, Habs; apply sm_remove_mid; exact Hsorted).
      rewrite Hsucc, Hrem.
      destruct (iter_remove_ok t Ht s A e B Hinv Hpos) as (s' & Hir & Hw & Hinv' & Habs' & H1 & H2).
      rewrite Hir. cbn [fst snd].
      destruct B as [|e' B'].
      * rewrite (cur_none _ (H1 eq_refl)). split; [reflexivity|]. split; [|exact Hw].
        split; [exact Hinv'|]. split; [symmetry; exact Habs'|]. split; [exact Hun|]. left. split; [apply H1; reflexivity|reflexivity].
      * rewrite (at_pos_cur s' A e' B' (H2 e' B' eq_refl)). split; [reflexivity|]. split; [|exact Hw].
        split; [exact Hinv'|]. split; [symmetry; exact Habs'|]. split; [exact Hun|].
        right. exists A, e', B'. split; [apply H2; reflexivity|reflexivity].
  - change (nn_step Z nn_zcmp t (OpRemove k) s) with
      (match nn_remove Z nn_zcmp k s with Some (v, s') => (RRemoved v, nn_fresh Z s') | None => (@RErr Z, s) end).
    change (sm_step Z nn_zcmp (OpRemove k) m) with
      (@RRemoved Z (option_map snd (sm_at Z nn_zcmp k (sm_map Z m))),
       SmSt Z (sm_remove Z nn_zcmp k (sm_map Z m)) None (sm_unspec Z m)).
    unfold nn_remove.
    destruct (find_ok t k false s Hinv) as (it & Hf & Hr & Hw & Hpost). rewrite Hf.
    destruct Hpost as [[Hall Hi]|(A & e & B & HAeB & He & HB & Hc)].
    + rewrite (cur_none _ Hi). replace (st_item Z it <? 0) with true by (symmetry; apply Z.ltb_lt; exact Hi).
      rewrite <- Hmap in Hall. destruct (sm_before_all _ _ Hall) as (Hat & _ & _ & Hrm). rewrite Hat, Hrm. cbn [fst snd option_map].
      split; [reflexivity|]. split; [|exact Hw].
      split; [cbn; rewrite Hr; exact Hinv|]. split; [cbn; rewrite Hr; exact Hmap|]. split; [exact Hun|].
      left. split; [cbn; lia|reflexivity].
    + rewrite HAeB in Hsorted. destruct Hc as [[Hc Hpos]|(Hneq & _ & Hi)].
      * destruct Hc as [Heq|?]; [|discriminate]. rewrite <- Hr in Hpos, Hinv.
        rewrite (at_pos_cur it A e B Hpos). destruct e as [ke ve]. cbn [fst] in Heq. subst ke.
        destruct (iter_remove_ok t Ht it A (k, ve) B Hinv Hpos) as (s' & Hir & Hw' & Hinv' & Habs' & _ & _).
        rewrite Hir.
        assert (Hat : sm_at Z nn_zcmp k (sm_map Z m) = Some (k, ve))
          by (rewrite Hmap, HAeB; apply (sm_at_mid A (k, ve) B Hsorted)).
        assert (Hrm : sm_remove Z nn_zcmp k (sm_map Z m) = A ++ B)
          by (rewrite Hmap, HAeB; apply (sm_remove_mid A (k, ve) B Hsorted)).
        rewrite Hat, Hrm. cbn [fst snd option_map].
        split; [reflexivity|]. split; [|cbn; rewrite Hw'; exact Hw].
        split; [exact Hinv'|]. split; [cbn; symmetry; exact Habs'|]. split; [exact Hun|].
        left. split; [cbn; lia|reflexivity].
      * rewrite (cur_none _ Hi). replace (st_item Z it <? 0) with true by (symmetry; apply Z.ltb_lt; exact Hi).
        assert (Hat : sm_at Z nn_zcmp k (sm_map Z m) = None)
          by (rewrite Hmap, HAeB; apply (sm_at_mid_other A e B Hsorted); [lia|exact HB]).
        assert (Hrm : sm_remove Z nn_zcmp k (sm_map Z m) = sm_map Z m)
          by (rewrite Hmap, HAeB; apply (sm_remove_mid_other A e B Hsorted); [lia|exact HB]).
        rewrite Hat, Hrm. cbn [fst snd option_map].
        split; [reflexivity|]. split; [|exact Hw].
        split; [cbn; rewrite Hr; exact Hinv|]. split; [cbn; rewrite Hr; exact Hmap|]. split; [exact Hun|].
        left. split; [cbn; lia|reflexivity].
Qed.
