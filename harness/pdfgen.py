# Explicit PDF object model with ground truth, serialisers (with spelling freedoms), and
# conversion from qpdf JSON v2 back into the same model. Used by the file-level checks.
import base64, json, re, zlib


class Real:
    def __init__(self, s):
        self.s = s if isinstance(s, str) else repr(s)

    def __eq__(self, o):
        return isinstance(o, Real) and self.s == o.s

    def __hash__(self):
        return hash(("Real", self.s))

    def __repr__(self):
        return "Real(%s)" % self.s


class Str:
    def __init__(self, b):
        self.b = b if isinstance(b, bytes) else b.encode("latin-1")

    def __eq__(self, o):
        return isinstance(o, Str) and self.b == o.b

    def __hash__(self):
        return hash(("Str", self.b))

    def __repr__(self):
        return "Str(%r)" % self.b


class Name:
    def __init__(self, b):
        self.b = b if isinstance(b, bytes) else b.encode("latin-1")

    def __eq__(self, o):
        return isinstance(o, Name) and self.b == o.b

    def __hash__(self):
        return hash(("Name", self.b))

    def __repr__(self):
        return "/" + self.b.decode("latin-1")


class Ref:
    def __init__(self, n, g=0):
        self.n, self.g = n, g

    def __eq__(self, o):
        return isinstance(o, Ref) and (self.n, self.g) == (o.n, o.g)

    def __hash__(self):
        return hash(("Ref", self.n, self.g))

    def __repr__(self):
        return "%d %d R" % (self.n, self.g)


class Stream:
    def __init__(self, d, data):
        self.d, self.data = d, data

    def __eq__(self, o):
        return isinstance(o, Stream) and self.d == o.d and self.data == o.data

    def __repr__(self):
        return "Stream(%r, %d bytes)" % (self.d, len(self.data))


N = Name

# ---------------------------------------------------------------- serialisation

REGULAR = set(range(33, 127)) - set(b"()<>[]{}/%#")


def ser_name(b):
    out = bytearray(b"/")
    for c in b:
        if c in REGULAR:
            out.append(c)
        else:
            out += b"#%02x" % c
    return bytes(out)


def ser_str(b, hexstr=False):
    if hexstr:
        return b"<" + b.hex().encode() + b">"
    out = bytearray(b"(")
    for c in b:
        if c in b"()\\":
            out += b"\\" + bytes([c])
        elif c == 13:
            out += b"\\r"
        elif c == 10:
            out += b"\\n"
        else:
            out.append(c)
    out += b")"
    return bytes(out)


def ser(o, rng=None, sp=None):
    """serialise an object. sp: optional spelling chooser with methods ws(), string(b), name(b)"""
    if o is None:
        return b"null"
    if o is True:
        return b"true"
    if o is False:
        return b"false"
    if isinstance(o, int):
        return sp.integer(o) if sp else str(o).encode()
    if isinstance(o, Real):
        return o.s.encode()
    if isinstance(o, Str):
        return sp.string(o.b) if sp else ser_str(o.b)
    if isinstance(o, Name):
        return sp.name(o.b) if sp else ser_name(o.b)
    if isinstance(o, Ref):
        w = sp.ws1() if sp else b" "
        return str(o.n).encode() + w + str(o.g).encode() + (sp.ws1() if sp else b" ") + b"R"
    if isinstance(o, list):
        w = (lambda: sp.ws()) if sp else (lambda: b" ")
        return b"[" + b"".join(w() + ser(x, rng, sp) for x in o) + w() + b"]"
    if isinstance(o, dict):
        w = (lambda: sp.ws()) if sp else (lambda: b" ")
        parts = []
        for k, v in o.items():
            kb = k.b if isinstance(k, Name) else (k if isinstance(k, bytes) else k.encode("latin-1"))
            parts.append(w() + (sp.name(kb) if sp else ser_name(kb)) + (sp.ws1() if sp else b" ") + ser(v, rng, sp))
        return b"<<" + b"".join(parts) + w() + b">>"
    raise TypeError(type(o))


def nm(k):
    return k if isinstance(k, bytes) else k.encode("latin-1")


def D(**kw):
    """dict with byte keys from keyword args"""
    return {nm(k): v for k, v in kw.items()}


class Doc:
    """objects: {num: obj or Stream}; trailer: dict (without /Size); generation always 0 here"""

    def __init__(self):
        self.objects = {}
        self.trailer = {}
        self.version = b"1.4"

    def add(self, o, num=None):
        if num is None:
            num = max(self.objects.keys(), default=0) + 1
        self.objects[num] = o
        return Ref(num)


def ser_indirect(num, o, sp=None, gen=0, eol=b"\n", stream_eol=b"\n"):
    head = b"%d %d obj" % (num, gen) + eol
    if isinstance(o, Stream):
        d = dict(o.d)
        d[b"Length"] = len(o.data)
        return head + ser(d, None, sp) + eol + b"stream" + stream_eol + o.data + eol + b"endstream" + eol + b"endobj" + eol
    return head + ser(o, None, sp) + eol + b"endobj" + eol


def write_classic(doc, sp=None, junk=b"", order=None, extra_trailer=None, with_id=None):
    """classic single-section file. Returns (bytes, offsets{num: offset relative to header})"""
    out = bytearray()
    out += b"%PDF-" + doc.version + b"\n%\xbf\xf7\xa2\xfe\n"
    offs = {}
    nums = order if order is not None else sorted(doc.objects)
    for n in nums:
        offs[n] = len(out)
        out += ser_indirect(n, doc.objects[n], sp)
    size = max(doc.objects, default=0) + 1
    xref_off = len(out)
    out += b"xref\n0 %d\n" % size
    for i in range(size):
        if i == 0:
            out += b"0000000000 65535 f \n"
        elif i in offs:
            out += b"%010d 00000 n \n" % offs[i]
        else:
            out += b"0000000000 00000 f \n"
    tr = dict(doc.trailer)
    tr[b"Size"] = size
    if with_id:
        tr[b"ID"] = [Str(with_id[0]), Str(with_id[1])]
    if extra_trailer:
        tr.update(extra_trailer)
    out += b"trailer\n" + ser(tr, None, sp) + b"\nstartxref\n%d\n%%%%EOF\n" % xref_off
    return junk + bytes(out), offs


# ---------------------------------------------------------------- simple documents

def page_doc(npages, marker="P", kids_levels=1, rotate=None, mediabox=None, shared_font=True, extra=None,
             labels=None):
    """document with npages pages, each content '(<marker><k>) Tj'. kids_levels=2 builds an
    intermediate /Pages level (groups of 3) with inherited attributes."""
    d = Doc()
    cat = d.add(None)      # 1
    pages = d.add(None)    # 2
    font = d.add(D(Type=N("Font"), Subtype=N("Type1"), BaseFont=N("Helvetica")))
    page_refs = []
    for k in range(1, npages + 1):
        cs = d.add(Stream({}, ("BT /F1 12 Tf 72 720 Td (%s%d) Tj ET\n" % (marker, k)).encode()))
        pg = D(Type=N("Page"), Parent=pages, Contents=cs, Resources=D(Font=D(F1=font)))
        if mediabox and k in mediabox:
            pg[b"MediaBox"] = mediabox[k]
        if rotate and k in rotate:
            pg[b"Rotate"] = rotate[k]
        page_refs.append(d.add(pg))
    root_pages = D(Type=N("Pages"), Count=npages, MediaBox=[0, 0, 612, 792])
    if kids_levels == 2 and npages > 1:
        kids = []
        for i in range(0, npages, 3):
            grp = page_refs[i:i + 3]
            node = D(Type=N("Pages"), Parent=pages, Count=len(grp), Kids=list(grp))
            if (i // 3) % 2 == 1:
                node[b"Rotate"] = 90
                node[b"MediaBox"] = [0, 0, 300 + i, 400]
            nr = d.add(node)
            for r in grp:
                d.objects[r.n][b"Parent"] = nr
            kids.append(nr)
        root_pages[b"Kids"] = kids
    else:
        root_pages[b"Kids"] = list(page_refs)
    d.objects[2] = root_pages
    c = D(Type=N("Catalog"), Pages=pages)
    if labels:
        c[b"PageLabels"] = labels
    if extra:
        c.update(extra)
    d.objects[1] = c
    d.trailer = {b"Root": cat}
    return d


# ---------------------------------------------------------------- qpdf JSON v2 -> model

def from_qjson_value(v):
    if v is None or v is True or v is False:
        return v
    if isinstance(v, bool):
        return v
    if isinstance(v, int):
        return v
    if isinstance(v, float):
        return Real(repr(v))
    if isinstance(v, str):
        if v.startswith("u:"):
            return ("ustr", v[2:])
        if v.startswith("b:"):
            return Str(bytes.fromhex(v[2:]))
        if v.startswith("n:"):
            return Name(unescape_name(v[3:].encode("latin-1")))
        if v.startswith("/"):
            return Name(v[1:].encode("utf-8"))
        m = re.fullmatch(r"(\d+) (\d+) R", v)
        if m:
            return Ref(int(m.group(1)), int(m.group(2)))
        raise ValueError("bad qpdf json string %r" % v)
    if isinstance(v, list):
        return [from_qjson_value(x) for x in v]
    if isinstance(v, dict):
        return {key_of(k): from_qjson_value(x) for k, x in v.items()}
    raise ValueError(v)


def unescape_name(b):
    out = bytearray()
    i = 0
    while i < len(b):
        if b[i] == 35 and i + 2 < len(b) + 0 and re.fullmatch(rb"[0-9a-fA-F]{2}", b[i + 1:i + 3]):
            out.append(int(b[i + 1:i + 3], 16))
            i += 3
        else:
            out.append(b[i])
            i += 1
    return bytes(out)


def key_of(k):
    if k.startswith("n:"):
        return unescape_name(k[3:].encode("latin-1"))
    return k[1:].encode("utf-8")


class RealTok(float):
    pass


def load_qjson(text):
    """returns (objects{(n,g): obj|Stream}, trailer, meta). Real numbers keep their spelling."""
    def pf(s):
        return Real(s)
    j = json.loads(text, parse_float=pf)
    meta, objs = j["qpdf"][0], j["qpdf"][1]
    out = {}
    trailer = None
    for k, v in objs.items():
        if k == "trailer":
            trailer = conv(v["value"])
            continue
        m = re.fullmatch(r"obj:(\d+) (\d+) R", k)
        og = (int(m.group(1)), int(m.group(2)))
        if "stream" in v:
            d = conv(v["stream"]["dict"])
            data = base64.b64decode(v["stream"]["data"]) if "data" in v["stream"] else None
            out[og] = Stream(d, data)
        else:
            out[og] = conv(v["value"])
    return out, trailer, meta


def conv(v):
    if isinstance(v, Real):
        return v
    if isinstance(v, list):
        return [conv(x) for x in v]
    if isinstance(v, dict):
        return {key_of(k): conv(x) for k, x in v.items()}
    return from_qjson_value(v)


PDFDOC_HIGH = None


def ustr_to_bytes_candidates(u):
    """a text string exported as u: — return its text (for comparison up to encoding)"""
    return u
