(* C10/C11 - model of the environment below qpdf's output sinks: one stdio stream over a kernel
   file whose capacity may run out (ENOSPC on a full device, EFBIG at RLIMIT_FSIZE).

   Written from glibc 2.36 libio (fileops.c: _IO_new_file_xsputn, new_do_write, _IO_new_file_overflow,
   _IO_new_file_sync, _IO_new_file_close_it; genops.c: _IO_default_xsputn; iofwrite.c), because what
   qpdf can observe of a failed write is decided there:
     - a failed flush RESETS the buffer (the data is gone), sets the sticky error flag, and the
       next fflush/fclose with an empty buffer reports success;
     - fwrite reports the bytes it had copied into the buffer before the failed flush, and the
       FULL count when everything had been copied and only the (line) flush failed.
   The buffer size B and the buffering mode are parameters; nothing is assumed about them in the
   theorems.  Lists are kept reversed so that the extracted model is linear. *)
From QV Require Import Base.Bytes.
From Coq Require Import Arith.
Local Open Scope nat_scope.

Record sfile := mk_sfile {
  sf_rdisk : list N;      (* bytes the kernel accepted, most recent first *)
  sf_rbuf : list N;       (* user-space buffer, most recent first *)
  sf_err : bool;          (* ferror(): sticky *)
  sf_cap : option nat;    (* bytes the kernel will still accept; None = no limit *)
  sf_put : bool;          (* _IO_CURRENTLY_PUTTING: the buffer has been set up by a first write *)
  sf_line : bool;         (* _IO_LINE_BUF (qpdf: QUtil::setLineBuf(stdout)) *)
  sf_open : bool;
  sf_glitch : option nat  (* a transient fault: Some k = the (k+1)-th write(2) from now on fails ONCE (EINTR, EIO, a
                             momentary ENOSPC) and accepts nothing; the writes after it succeed *)
}.

Definition sio_new (cap : option nat) (line : bool) : sfile := mk_sfile [] [] false cap false line true None.
Definition sio_new_glitch (cap : option nat) (line : bool) (g : option nat) : sfile := mk_sfile [] [] false cap false line true g.
(* a file that is simply there (the input of --replace-input): content, no stream *)
Definition sio_static (content : list N) : sfile := mk_sfile (rev' content) [] false None false false false None.

Definition sio_disk (f : sfile) : list N := rev' (sf_rdisk f).
(* what the stream has been given and not lost: kernel part followed by the buffer *)
Definition sio_logical (f : sfile) : list N := rev' (sf_rbuf f ++ sf_rdisk f).

Definition sio_set_cap (f : sfile) (c : option nat) : sfile :=
  mk_sfile (sf_rdisk f) (sf_rbuf f) (sf_err f) c (sf_put f) (sf_line f) (sf_open f) (sf_glitch f).
Definition sio_set_put (f : sfile) : sfile :=
  mk_sfile (sf_rdisk f) (sf_rbuf f) (sf_err f) (sf_cap f) true (sf_line f) (sf_open f) (sf_glitch f).
Definition sio_set_closed (f : sfile) : sfile :=
  mk_sfile (sf_rdisk f) (sf_rbuf f) (sf_err f) (sf_cap f) (sf_put f) (sf_line f) false (sf_glitch f).
Definition sio_copy (f : sfile) (d : list N) : sfile :=
  mk_sfile (sf_rdisk f) (rev_append d (sf_rbuf f)) (sf_err f) (sf_cap f) (sf_put f) (sf_line f) (sf_open f) (sf_glitch f).

(* write(2) as _IO_new_file_write drives it: it loops on short counts, so what comes back is
   "everything" or "what fitted, and the error flag". *)
Definition sio_kwrite_cap (f : sfile) (g : option nat) (d : list N) : nat * sfile :=
  match sf_cap f with
  | None => (length d, mk_sfile (rev_append d (sf_rdisk f)) (sf_rbuf f) (sf_err f) None (sf_put f) (sf_line f) (sf_open f) g)
  | Some c =>
    let a := Nat.min c (length d) in
    (a, mk_sfile (rev_append (firstn a d) (sf_rdisk f)) (sf_rbuf f)
          (sf_err f || (a <? length d)) (Some (c - a)) (sf_put f) (sf_line f) (sf_open f) g)
  end.
Definition sio_kwrite (f : sfile) (d : list N) : nat * sfile :=
  match sf_glitch f with
  | Some O =>       (* this one write fails: nothing accepted, _IO_ERR_SEEN set; the fault is over *)
    (0, mk_sfile (sf_rdisk f) (sf_rbuf f) true (sf_cap f) (sf_put f) (sf_line f) (sf_open f) None)
  | Some (S k) => sio_kwrite_cap f (Some k) d
  | None => sio_kwrite_cap f None d
  end.

(* _IO_do_flush / new_do_write on the buffer: nothing to write = no system call; otherwise the
   buffer pointers are reset whatever the kernel said. *)
Definition sio_flushbuf (f : sfile) : bool * sfile :=
  match sf_rbuf f with
  | [] => (true, f)
  | _ =>
    let d := rev' (sf_rbuf f) in
    let '(a, f1) := sio_kwrite f d in
    (Nat.eqb a (length d),
     mk_sfile (sf_rdisk f1) [] (sf_err f1) (sf_cap f1) (sf_put f1) (sf_line f1) (sf_open f1) (sf_glitch f1))
  end.

(* _IO_default_xsputn / __overflow(f, ch) one character at a time; `room` = free bytes in the
   buffer.  In line mode every '\n' flushes. Returns the number of characters accounted as written. *)
Fixpoint sio_putchars (B : nat) (room : nat) (f : sfile) (d : list N) : nat * sfile :=
  match d with
  | [] => (0, f)
  | ch :: tl =>
    let '(ok1, f1, room1) :=
      match room with
      | O => let '(ok, g) := sio_flushbuf f in (ok, g, B)
      | _ => (true, f, room)
      end in
    if negb ok1 then (0, f1) else
    let f2 := sio_copy f1 [ch] in
    if sf_line f && N.eqb ch 10 then
      let '(ok2, f3) := sio_flushbuf f2 in
      if negb ok2 then (0, f3) else
      let '(c, f4) := sio_putchars B B f3 tl in (S c, f4)
    else
      let '(c, f4) := sio_putchars B (pred room1) f2 tl in (S c, f4)
  end.

(* position just after the last '\n' of d, if any *)
Fixpoint sio_last_nl_from (d : list N) (i : nat) (acc : option nat) : option nat :=
  match d with
  | [] => acc
  | ch :: tl => sio_last_nl_from tl (S i) (if N.eqb ch 10 then Some (S i) else acc)
  end.
Definition sio_last_nl (d : list N) : option nat := sio_last_nl_from d 0 None.

(* _IO_new_file_xsputn. None = EOF (everything was copied but the flush failed). *)
Definition sio_xsputn (B : nat) (f : sfile) (d : list N) : option nat * sfile :=
  let n := length d in
  let room := B - length (sf_rbuf f) in
  let '(count, must_flush) :=
    if sf_put f then
      if sf_line f then
        if n <=? room then
          match sio_last_nl d with Some i => (i, true) | None => (room, false) end
        else (room, false)
      else (room, false)
    else (0, false) in
  let c := Nat.min count n in
  let f1 := sio_copy f (firstn c d) in
  let rest := skipn c d in
  let to_do := n - c in
  if (to_do =? 0) && negb must_flush then (Some n, f1)
  else
    let '(ok, f2) := sio_flushbuf (sio_set_put f1) in
    if negb ok then ((if to_do =? 0 then None else Some (n - to_do)), f2)
    else
      let blocks := if 128 <=? B then to_do - to_do mod B else to_do in
      let '(a, f3) := if blocks =? 0 then (0, f2) else sio_kwrite f2 (firstn blocks rest) in
      if a <? blocks then (Some (n - (to_do - a)), f3)
      else
        let '(cc, f4) := sio_putchars B B f3 (skipn blocks rest) in
        (Some (n - (to_do - blocks - cc)), f4).

(* fwrite(buf, 1, n, f): EOF from xsputn is reported as the full count (iofwrite.c) *)
Definition sio_fwrite (B : nat) (f : sfile) (d : list N) : nat * sfile :=
  match d with
  | [] => (0, f)
  | _ => match sio_xsputn B f d with
         | (None, f') => (length d, f')
         | (Some r, f') => (r, f')
         end
  end.

(* fflush: true = 0, false = EOF *)
Definition sio_fflush (f : sfile) : bool * sfile := sio_flushbuf f.

(* fclose: flushes what is pending, then closes; the status is the flush status *)
Definition sio_fclose (f : sfile) : bool * sfile :=
  let '(ok, f1) := sio_flushbuf f in (ok, sio_set_closed f1).

(* exit(): _IO_cleanup flushes every stream that is still open; nobody looks at the result *)
Definition sio_exit_flush (f : sfile) : sfile :=
  if sf_open f then snd (sio_flushbuf f) else f.
