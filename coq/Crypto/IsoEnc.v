(* C06 specification: a reference ENCRYPTOR for the standard security handler, written from
   ISO 32000-2 section 7.6 (7.6.2 general, 7.6.3 Algorithm 1 / 1.A, 7.6.4 Algorithms 2-10, 7.6.6 crypt
   filters, Tables 20-25; 7.4.10 the Crypt filter, Table 14), i.e. what an independent PRODUCER may
   legally emit and what every conforming READER must therefore make of it:
     - the encryption dictionary values /O /U (/OE /UE /Perms) from the two passwords,
     - which strings and which streams are encrypted and by which crypt filter method
       (the "ISO rule" the method-selection theorems are stated against),
     - the encryption of one string / stream (RC4, AES-CBC with a 16-byte IV in front and
       1..16 bytes of padding),
     - what the permission bits of /P mean (Table 22) and the documented exit codes of
       --is-encrypted / --requires-password (manual/cli.rst).
   It shares only the primitives (MD5, SHA-2, AES block cipher, RC4) and the ISO-side reader
   algorithms of IsoRef.v with anything else; nothing of qpdf's code is used here. *)
From QV Require Import Base.Bytes Crypto.Nib Filters.Filters Crypto.MD5 Crypto.SHA2Fast Crypto.AES Crypto.IsoRef.
Local Open Scope N_scope.

(* ------------------------------------------------------------------ crypt filters (7.6.6) *)

(* Table 25, /CFM: None, V2 (RC4), AESV2, AESV3 *)
Inductive c06_cfm := C6None | C6V2 | C6AESV2 | C6AESV3.

Definition c06_cfm_eqb (a b : c06_cfm) : bool :=
  match a, b with
  | C6None, C6None | C6V2, C6V2 | C6AESV2, C6AESV2 | C6AESV3, C6AESV3 => true
  | _, _ => false
  end.

Definition c06_name_identity : list N := [73; 100; 101; 110; 116; 105; 116; 121].   (* Identity *)
Definition c06_name_crypt : list N := [67; 114; 121; 112; 116].                     (* Crypt *)

(* what the producer chose: the scheme and the crypt filters *)
Record c06_cfg := {
  c6_V : N;
  c6_R : N;
  c6_keylen : N;                       (* length of the file encryption key in bytes *)
  c6_P : N;                            (* /P as unsigned 32-bit *)
  c6_encmeta : bool;                   (* /EncryptMetadata *)
  c6_id : list N;                      (* first element of /ID *)
  c6_cf : list (list N * c06_cfm);     (* /CF: crypt filter name -> /CFM *)
  c6_stmf : list N;                    (* /StmF (default Identity) *)
  c6_strf : list N                     (* /StrF (default Identity) *)
}.

(* 7.6.6: "Identity" is predefined and cannot be redefined; any other name is looked up in /CF *)
Fixpoint c06_cf_lookup (cf : list (list N * c06_cfm)) (name : list N) : option c06_cfm :=
  match cf with
  | [] => None
  | (n, m) :: t => if bytes_eqb n name then Some m else c06_cf_lookup t name
  end.

Definition c06_named_method (c : c06_cfg) (name : list N) : option c06_cfm :=
  if bytes_eqb name c06_name_identity then Some C6None else c06_cf_lookup (c6_cf c) name.

(* the method every string / stream of a file with V < 4 is encrypted with: RC4 (7.6.3) *)
Definition c06_default_method (c : c06_cfg) (name : list N) : option c06_cfm :=
  if c6_V c <? 4 then Some C6V2 else c06_named_method c name.

(* ------------------------------------------------------------------ where a string lives (7.6.2) *)
(* "strings in the encryption dictionary / the trailer (/ID) are not encrypted"; "strings inside an
   object stream are not separately encrypted: the object stream as a whole is"; every other
   string belongs to an indirect object (number, generation) and is encrypted with its key *)
(* 7.6.2 (fourth exception, ISO 32000-2): the hexadecimal string that is the /Contents of a signature dictionary is not
   encrypted (it is written after everything else was laid out). Table 255: the /Type /Sig entry of a signature
   dictionary is optional; `typed` records whether the producer wrote it. *)
Inductive c06_where := C6InObject | C6InObjStm | C6InTrailer | C6InSigContents (typed : bool).

(* ------------------------------------------------------------------ the part of a stream dictionary that matters *)
(* one entry of /DecodeParms: null / a dictionary (is /Type /CryptFilterDecodeParms there; /Name if any)
   / anything else *)
Inductive c06_parm :=
| C6PmNull
| C6PmDict (has_type : bool) (name : option (list N))
| C6PmOther.
(* /Filter: absent, one name, or an array (Some name | None for a non-name element) *)
Inductive c06_filter :=
| C6FlNone
| C6FlName (n : list N)
| C6FlArray (l : list (option (list N))).
(* /DecodeParms: one object (null when absent) or an array *)
Inductive c06_dparms :=
| C6DpOne (p : c06_parm)
| C6DpArray (l : list c06_parm).

Record c06_sdict := {
  c6d_xref : bool;         (* /Type /XRef *)
  c6d_filter : c06_filter;
  c6d_dparms : c06_dparms;
  c6d_rootmeta : bool      (* the document-level metadata stream: the catalog's /Metadata, /Type /Metadata /Subtype /XML *)
}.

(* 7.4.10 / Table 14: the decode parameters that belong to the Crypt filter of this stream, if it has one *)
Fixpoint c06_index_of (l : list (option (list N))) (i : nat) : option nat :=
  match l with
  | [] => None
  | x :: t => match x with
              | Some n => if bytes_eqb n c06_name_crypt then Some i else c06_index_of t (S i)
              | None => c06_index_of t (S i)
              end
  end.

Definition c06_crypt_parm (s : c06_sdict) : option c06_parm :=
  match c6d_filter s with
  | C6FlNone => None
  | C6FlName n =>
      if bytes_eqb n c06_name_crypt then
        Some (match c6d_dparms s with C6DpOne p => p | C6DpArray (p :: _) => p | C6DpArray [] => C6PmNull end)
      else None
  | C6FlArray l =>
      match c06_index_of l 0 with
      | None => None
      | Some i => Some (match c6d_dparms s with
                        | C6DpOne p => match l with [_] => p | _ => C6PmNull end
                        | C6DpArray ps => nth i ps C6PmNull
                        end)
      end
  end.

(* Table 14: /Type optional, /Name optional with default Identity *)
Definition c06_crypt_name (p : c06_parm) : list N :=
  match p with
  | C6PmDict _ (Some n) => n
  | _ => c06_name_identity
  end.

(* ---- THE ISO RULE: which method a conforming reader must undo ---- *)
(* None = the file is not well formed (a crypt filter name that is neither Identity nor in /CF) *)
Definition c06_iso_string_method (c : c06_cfg) (w : c06_where) : option c06_cfm :=
  match w with
  | C6InObject => c06_default_method c (c6_strf c)
  | C6InObjStm | C6InTrailer | C6InSigContents _ => Some C6None
  end.

Definition c06_iso_stream_method (c : c06_cfg) (s : c06_sdict) : option c06_cfm :=
  if c6d_xref s then Some C6None                      (* 7.5.8.2: cross-reference streams are never encrypted *)
  else if c6_V c <? 4 then Some C6V2                  (* no crypt filters before V 4 *)
  else match c06_crypt_parm s with
       | Some p => c06_named_method c (c06_crypt_name p)       (* 7.6.6: an explicit Crypt filter overrides /StmF *)
       | None =>
           if c6d_rootmeta s && negb (c6_encmeta c) then Some C6None      (* Table 20, /EncryptMetadata false *)
           else c06_named_method c (c6_stmf c)
       end.

(* ------------------------------------------------------------------ Algorithm 1 / 1.A: one string or stream *)
Definition c06_dict_R (R : N) : iso_dict :=
  {| iso_R := R; iso_keylen := 0; iso_P := 0; iso_O := []; iso_U := []; iso_OE := []; iso_UE := [];
     iso_Perms := []; iso_id := []; iso_encmeta := true |}.

(* "pad the data with n bytes of value n, n = 16 - (length mod 16)", 1..16 bytes *)
Definition c06_pad16 (data : list N) : list N :=
  let n := (16 - length data mod 16)%nat in data ++ repeat (N.of_nat n) n.

Definition c06_aes_cbc (key iv data : list N) : list N :=
  iv ++ iso_cbc_enc (aes_key_schedule key) iv (iso_blocks (c06_pad16 data)).

(* R, file key, method, object number / generation, the 16 bytes the producer drew for the IV, the data *)
Definition c06_iso_encrypt (R : N) (file_key : list N) (m : c06_cfm) (num gen : N) (iv data : list N) : list N :=
  match m with
  | C6None => data
  | C6V2 => rc4 (iso_object_key (c06_dict_R R) file_key false num gen) data
  | C6AESV2 => c06_aes_cbc (iso_object_key (c06_dict_R R) file_key true num gen) iv data
  | C6AESV3 => c06_aes_cbc file_key iv data                         (* Algorithm 1.A: the file key itself *)
  end.

(* ------------------------------------------------------------------ a document as its leaves *)
Inductive c06_kind :=
| C6String (w : c06_where)
| C6Stream (s : c06_sdict).

Record c06_leaf := {
  c6l_kind : c06_kind;
  c6l_num : N;          (* the indirect object the leaf belongs to *)
  c6l_gen : N;
  c6l_iv : list N;      (* producer's random IV for this leaf (used by the AES methods only) *)
  c6l_data : list N
}.

Definition c06_leaf_method (c : c06_cfg) (l : c06_leaf) : option c06_cfm :=
  match c6l_kind l with
  | C6String w => c06_iso_string_method c w
  | C6Stream s => c06_iso_stream_method c s
  end.

Definition c06_with_data (l : c06_leaf) (d : list N) : c06_leaf :=
  {| c6l_kind := c6l_kind l; c6l_num := c6l_num l; c6l_gen := c6l_gen l; c6l_iv := c6l_iv l; c6l_data := d |}.

Definition c06_iso_encrypt_leaf (c : c06_cfg) (file_key : list N) (l : c06_leaf) : option c06_leaf :=
  match c06_leaf_method c l with
  | Some m => Some (c06_with_data l (c06_iso_encrypt (c6_R c) file_key m (c6l_num l) (c6l_gen l) (c6l_iv l) (c6l_data l)))
  | None => None
  end.

(* ---- the reference READER for one leaf: the ISO rule for the method, then Algorithm 1 / 1.A of IsoRef.v. Used to judge
   encrypted files that qpdf WRITES (preserved / copied encryption): a conforming reader honours a /Crypt filter that is
   still in a stream dictionary. None = ill-formed crypt filter name, or malformed AES data. ---- *)
Definition c06_iso_decrypt_leaf (c : c06_cfg) (file_key : list N) (l : c06_leaf) : option (list N) :=
  match c06_leaf_method c l with
  | None => None
  | Some C6None => Some (c6l_data l)
  | Some C6V2 => iso_decrypt_data (c06_dict_R (c6_R c)) file_key false (c6l_num l) (c6l_gen l) (c6l_data l)
  | Some _ => iso_decrypt_data (c06_dict_R (c6_R c)) file_key true (c6l_num l) (c6l_gen l) (c6l_data l)
  end.

(* ------------------------------------------------------------------ Algorithms 2-10: the encryption dictionary *)
Record c06_secrets := {
  c6s_user : list N;
  c6s_owner : list N;
  c6s_rnd : list N     (* R <= 4: the 16 arbitrary bytes that end /U (R >= 3).
                          R >= 5: file key 32, user validation salt 8, user key salt 8, owner validation
                          salt 8, owner key salt 8, /Perms filler 4 *)
}.

Definition c06_dict_of (c : c06_cfg) (O U OE UE Perms : list N) : iso_dict :=
  {| iso_R := c6_R c; iso_keylen := c6_keylen c; iso_P := c6_P c; iso_O := O; iso_U := U; iso_OE := OE;
     iso_UE := UE; iso_Perms := Perms; iso_id := c6_id c; iso_encmeta := c6_encmeta c |}.

(* Algorithm 3: /O from the owner password (the user password when there is none) and the user password *)
Definition c06_alg3_O (c : c06_cfg) (s : c06_secrets) : list N :=
  let d := c06_dict_of c [] [] [] [] [] in
  let opw := match c6s_owner s with [] => c6s_user s | _ => c6s_owner s end in
  let k := iso_owner_key d opw in
  let x := rc4 k (iso_pad32 (c6s_user s)) in
  if c6_R c =? 2 then x
  else fold_left (fun y i => rc4 (iso_xor_key k i) y) (map N.of_nat (seq 1 19)) x.

(* Algorithms 4 / 5: /U; revision 3 and 4: 16 significant bytes + 16 bytes of arbitrary padding *)
Definition c06_alg45_U (c : c06_cfg) (s : c06_secrets) (O : list N) : list N :=
  let d := c06_dict_of c O [] [] [] [] in
  if c6_R c =? 2 then iso_U_alg45 d (c6s_user s)
  else iso_U_alg45 d (c6s_user s) ++ firstn 16 (c6s_rnd s ++ repeat 0 16%nat).

(* Algorithms 8, 9, 10 (R 6; R 5 differs only in the hash) *)
Definition c06_rnd_key (s : c06_secrets) : list N := iso_sub (c6s_rnd s) 0 32.
Definition c06_ecb_block (key block : list N) : list N := aes_cipher (aes_key_schedule key) block.
Definition c06_wrap_key (ik file_key : list N) : list N :=
  iso_cbc_enc (aes_key_schedule ik) iso_zero_iv (iso_blocks file_key).

Definition c06_alg8_U (c : c06_cfg) (s : c06_secrets) : list N * list N :=
  let pw := iso_pw_V5 (c6s_user s) in
  let uvs := iso_sub (c6s_rnd s) 32 8 in
  let uks := iso_sub (c6s_rnd s) 40 8 in
  (iso_hash (c6_R c) pw uvs [] ++ uvs ++ uks, c06_wrap_key (iso_hash (c6_R c) pw uks []) (c06_rnd_key s)).

Definition c06_alg9_O (c : c06_cfg) (s : c06_secrets) (U : list N) : list N * list N :=
  let pw := iso_pw_V5 (c6s_owner s) in
  let ovs := iso_sub (c6s_rnd s) 48 8 in
  let oks := iso_sub (c6s_rnd s) 56 8 in
  (iso_hash (c6_R c) pw ovs U ++ ovs ++ oks, c06_wrap_key (iso_hash (c6_R c) pw oks U) (c06_rnd_key s)).

Definition c06_alg10_Perms (c : c06_cfg) (s : c06_secrets) : list N :=
  c06_ecb_block (c06_rnd_key s)
    (iso_le32 (c6_P c) ++ [255; 255; 255; 255] ++ [if c6_encmeta c then 84 else 70] ++ [97; 100; 98]
     ++ firstn 4 (iso_sub (c6s_rnd s) 64 4 ++ [0; 0; 0; 0])).

(* the dictionary a producer writes, and the file key it encrypts the document with *)
Definition c06_iso_make (c : c06_cfg) (s : c06_secrets) : iso_dict * list N :=
  if c6_R c <=? 4 then
    let Ov := c06_alg3_O c s in
    let Uv := c06_alg45_U c s Ov in
    let d := c06_dict_of c Ov Uv [] [] [] in
    (d, iso_key_alg2 d (c6s_user s))
  else
    let UUE := c06_alg8_U c s in
    let OOE := c06_alg9_O c s (fst UUE) in
    (c06_dict_of c (fst OOE) (fst UUE) (snd OOE) (snd UUE) (c06_alg10_Perms c s), c06_rnd_key s).

(* the combinations this check generates ("what an independent producer may emit") *)
Definition c06_supported (c : c06_cfg) : bool :=
  ((c6_V c =? 1) && (c6_R c =? 2) && (c6_keylen c =? 5))
  || ((c6_V c =? 2) && (c6_R c =? 3) && (5 <=? c6_keylen c) && (c6_keylen c <=? 16))
  || ((c6_V c =? 4) && (c6_R c =? 4) && (c6_keylen c =? 16)
      && forallb (fun e => negb (c06_cfm_eqb (snd e) C6AESV3)) (c6_cf c))
  || ((c6_V c =? 5) && ((c6_R c =? 5) || (c6_R c =? 6)) && (c6_keylen c =? 32)
      && forallb (fun e => c06_cfm_eqb (snd e) C6AESV3 || c06_cfm_eqb (snd e) C6None) (c6_cf c)).

(* ------------------------------------------------------------------ Table 22: user access permissions *)
(* bit numbers are 1-based as in the standard. The eight questions qpdf --show-encryption answers,
   in its order: extract for accessibility, extract for any purpose, print low resolution, print
   high resolution, modify document assembly, modify forms, modify annotations, modify other.
   Revision 2 knows only bits 3..6; from revision 3 on bits 9..12 refine them
   (manual/encryption.rst, "Command-line Arguments and P Bit Values": --accessibility bit 10,
   --extract 5, --print 3 and 12, --assemble 11, --annotate 6, --form 9, --modify-other 4). *)
Definition c06_bit (P : N) (bit : N) : bool := N.testbit P (bit - 1).
Definition c06_iso_perms (R P : N) : list bool :=
  if R <? 3 then
    [c06_bit P 5; c06_bit P 5; c06_bit P 3; c06_bit P 3; c06_bit P 4; c06_bit P 6; c06_bit P 6; c06_bit P 4]
  else
    [c06_bit P 10; c06_bit P 5; c06_bit P 3; c06_bit P 3 && c06_bit P 12; c06_bit P 11; c06_bit P 9;
     c06_bit P 6; c06_bit P 4].

(* ------------------------------------------------------------------ documented exit codes (manual/cli.rst) *)
(* --is-encrypted: 0 if the file is encrypted, 2 if not.
   --requires-password: 0 a password other than as supplied is required; 2 the file is not encrypted;
   3 the file is encrypted and the correct password (if any) has been supplied. *)
Inductive c06_query := C6QIsEncrypted | C6QRequiresPassword.
Definition c06_manual_exit (q : c06_query) (encrypted password_ok : bool) : N :=
  match q with
  | C6QIsEncrypted => if encrypted then 0 else 2
  | C6QRequiresPassword => if negb encrypted then 2 else if password_ok then 3 else 0
  end.
