(* Model of /repo/qpdf/fix-qdf.cc (QdfFixer::processLines, checkObjId, adjustOstreamXref, writeOstream,
   writeBinary and the exit paths of realmain), written from the C++, line for line.

   The input is the byte string read from the file; processLines cuts it into lines (each line keeps its
   '\n'; the text after the last '\n' - possibly empty - is processed as one more line) and runs a 14-state
   machine over them.  The five std::regex objects are anchored patterns over one line and are written out as
   explicit matchers (ECMAScript grammar, no multiline flag: ^ and $ match only at the ends of the searched
   range, which is exactly the current line).

   Fix C17-F5: the lines of an object-stream dictionary behind its /Type /ObjStm line that fix-qdf does not write itself
   (is_regenerated_ostream_line) are collected in ostream_kept and written back by writeOstream().

   Integers: qpdf_offset_t / size_t / int are Z here; the conversions QIntC::to_size etc. never fail on the
   values that reach them (all are non-negative by construction of the machine; see FixQdfProofs.v), the two
   places where the C++ can throw on data (std::stoi out of range, QPDFXRefEntry::getOffset on a type-2 entry)
   are outcomes.  Output is accumulated as a reversed list of chunks (linear time when extracted). *)
From Coq Require Import String Ascii.
From QV Require Import Base.Bytes File.WriterArith.
Local Open Scope Z_scope.

Definition fq_bs (s : string) : list N := map N_of_ascii (list_ascii_of_string s).

(* ---------- the literals of fix-qdf.cc ---------- *)
Definition fqk_obj_tail : list N := Eval vm_compute in (fq_bs " 0 obj" ++ [10%N]).          (* " 0 obj\n" *)
Definition fqk_xref_nl : list N := Eval vm_compute in (fq_bs "xref" ++ [10%N]).
Definition fqk_stream_nl : list N := Eval vm_compute in (fq_bs "stream" ++ [10%N]).
Definition fqk_endstream_nl : list N := Eval vm_compute in (fq_bs "endstream" ++ [10%N]).
Definition fqk_endobj_nl : list N := Eval vm_compute in (fq_bs "endobj" ++ [10%N]).
Definition fqk_type_objstm : list N := Eval vm_compute in (fq_bs "/Type /ObjStm").
Definition fqk_type_xref : list N := Eval vm_compute in (fq_bs "/Type /XRef").
Definition fqk_extends_sp : list N := Eval vm_compute in (fq_bs "/Extends ").
Definition fqk_0_R : list N := Eval vm_compute in (fq_bs " 0 R").
Definition fqk_ostream_obj : list N := Eval vm_compute in (fq_bs "%% Object stream: object ").
Definition fqk_size_sp : list N := Eval vm_compute in (fq_bs "  /Size ").
Definition fqk_length_sp : list N := Eval vm_compute in (fq_bs "  /Length ").
Definition fqk_N_sp : list N := Eval vm_compute in (fq_bs "  /N ").
Definition fqk_first_sp : list N := Eval vm_compute in (fq_bs "  /First ").
Definition fqk_extends_key : list N := Eval vm_compute in (fq_bs "  /Extends ").
Definition fqk_dict_end : list N := Eval vm_compute in (fq_bs ">>" ++ [10%N]).
Definition fqk_W_open : list N := Eval vm_compute in (fq_bs "  /W [ 1 ").
Definition fqk_W_close : list N := Eval vm_compute in (fq_bs " ]" ++ [10%N]).
Definition fqk_slash_length : list N := Eval vm_compute in (fq_bs "/Length").
Definition fqk_slash_length_sp : list N := Eval vm_compute in (fq_bs "/Length ").
Definition fqk_slash_N_sp : list N := Eval vm_compute in (fq_bs "/N ").
Definition fqk_slash_first_sp : list N := Eval vm_compute in (fq_bs "/First ").
Definition fqk_slash_W : list N := Eval vm_compute in (fq_bs "/W").
Definition fqk_slash_size : list N := Eval vm_compute in (fq_bs "/Size").
Definition fqk_ignore_newline : list N := Eval vm_compute in (fq_bs "%QDF: ignore_newline" ++ [10%N]).
Definition fqk_trailer_open : list N := Eval vm_compute in (fq_bs "trailer <<" ++ [10%N]).
Definition fqk_xref_free : list N := Eval vm_compute in (fq_bs "0000000000 65535 f " ++ [10%N]).
Definition fqk_xstream_end : list N :=
  Eval vm_compute in ([10%N] ++ fq_bs "endstream" ++ [10%N] ++ fq_bs "endobj" ++ [10%N; 10%N] ++ fq_bs "startxref" ++ [10%N]).
Definition fqk_startxref_nl : list N := Eval vm_compute in (fq_bs "startxref" ++ [10%N]).
Definition fqk_eof : list N := Eval vm_compute in ([10%N] ++ fq_bs "%%EOF" ++ [10%N]).
Definition fqk_nl : list N := [10%N].
Definition fqk_sp : list N := [32%N].
Definition fqk_zero_sp : list N := [48%N; 32%N].

(* ---------- string helpers ---------- *)
Definition fq_eqb (a b : list N) : bool := list_eqb N.eqb a b.

(* Some rest when s = p ++ rest *)
Fixpoint fq_strip (p s : list N) : option (list N) :=
  match p with
  | [] => Some s
  | x :: p' => match s with
               | y :: s' => if (x =? y)%N then fq_strip p' s' else None
               | [] => None
               end
  end.

(* std::string_view::find(pat) != npos *)
Fixpoint fq_contains (pat s : list N) : bool :=
  match fq_strip pat s with
  | Some _ => true
  | None => match s with [] => false | _ :: t => fq_contains pat t end
  end.

(* is_type_line(l, type) (fix e1b84020): l without leading spaces/tabs and without trailing LF, CR, spaces, tabs
   equals type; a line of spaces and tabs only is no type line *)
Definition fq_is_lead (c : N) : bool := (c =? 32)%N || (c =? 9)%N.
Definition fq_is_trail (c : N) : bool := (c =? 10)%N || (c =? 13)%N || (c =? 32)%N || (c =? 9)%N.
Fixpoint fq_drop_lead (l : list N) : list N :=
  match l with
  | c :: t => if fq_is_lead c then fq_drop_lead t else l
  | [] => []
  end.
Fixpoint fq_drop_trail (l : list N) : list N :=
  match l with
  | [] => []
  | c :: t => match fq_drop_trail t with
              | [] => if fq_is_trail c then [] else [c]
              | r => c :: r
              end
  end.
Definition fq_is_type_line (l ty : list N) : bool :=
  match fq_drop_lead l with
  | [] => false
  | l' => fq_eqb (fq_drop_trail l') ty
  end.

(* is_regenerated_ostream_line(l) (fix C17-F5): l is ">>\n", or l without leading spaces/tabs starts with "/Length ",
   "/N " or "/First "; a line of spaces and tabs only is not regenerated *)
Definition fq_starts (p s : list N) : bool := match fq_strip p s with Some _ => true | None => false end.
Definition fq_is_regenerated (l : list N) : bool :=
  if fq_eqb l fqk_dict_end then true else
  match fq_drop_lead l with
  | [] => false
  | l' => fq_starts fqk_slash_length_sp l' || fq_starts fqk_slash_N_sp l' || fq_starts fqk_slash_first_sp l'
  end.

(* \d+ greedy: (digits, rest); digits may be empty *)
Fixpoint fq_digits (s : list N) : list N * list N :=
  match s with
  | c :: t => if is_digit c then let (d, r) := fq_digits t in (c :: d, r) else ([], s)
  | [] => ([], [])
  end.

(* re_n_0_obj  ^(\d+) 0 obj\n$   -> m[1] *)
Definition fq_match_n_0_obj (line : list N) : option (list N) :=
  let (d, r) := fq_digits line in
  match d with
  | [] => None
  | _ => if fq_eqb r fqk_obj_tail then Some d else None
  end.

(* re_num  ^\d+\n$ *)
Definition fq_match_num (line : list N) : bool :=
  let (d, r) := fq_digits line in
  match d with [] => false | _ => fq_eqb r fqk_nl end.

(* re_size_n  ^  /Size \d+\n$ *)
Definition fq_match_size_n (line : list N) : bool :=
  match fq_strip fqk_size_sp line with
  | Some r => fq_match_num r
  | None => false
  end.

(* re_ostream_obj  ^%% Object stream: object (\d+)   -> m[1] *)
Definition fq_match_ostream_obj (line : list N) : option (list N) :=
  match fq_strip fqk_ostream_obj line with
  | Some r => let (d, _) := fq_digits r in match d with [] => None | _ => Some d end
  | None => None
  end.

(* re_extends  /Extends (\d+ 0 R)  searched anywhere in the line, leftmost match -> m[1].
   After the greedy \d+ the next character is not a digit, so giving back digits can never help. *)
Fixpoint fq_match_extends (s : list N) : option (list N) :=
  let here :=
    match fq_strip fqk_extends_sp s with
    | Some r => let (d, r2) := fq_digits r in
                match d with
                | [] => None
                | _ => match fq_strip fqk_0_R r2 with Some _ => Some (d ++ fqk_0_R) | None => None end
                end
    | None => None
    end in
  match here with
  | Some m => Some m
  | None => match s with [] => None | _ :: t => fq_match_extends t end
  end.

(* input_view.find('\n') loop: lines keep their '\n'; the remainder after the last '\n' is a line too *)
Fixpoint fq_split_aux (s : list N) (cur : list N) (acc : list (list N)) : list (list N) :=
  match s with
  | [] => rev' (rev' cur :: acc)
  | c :: t => if (c =? 10)%N then fq_split_aux t [] (rev' (c :: cur) :: acc) else fq_split_aux t (c :: cur) acc
  end.
Definition fq_split_lines (s : list N) : list (list N) := fq_split_aux s [] [].

Definition fq_len (l : list N) : Z := Z.of_nat (length l).
Definition fq_dec (z : Z) : list N := dec_of_Z z.                 (* std::to_string / operator<< of an integer *)

(* ---------- state ---------- *)
Inductive fq_state :=
| Fq_top | Fq_in_obj | Fq_in_stream | Fq_after_stream | Fq_in_ostream_dict | Fq_in_ostream_offsets
| Fq_in_ostream_outer | Fq_in_ostream_obj | Fq_in_xref_stream_dict | Fq_in_length | Fq_at_xref
| Fq_before_trailer | Fq_in_trailer | Fq_done.

(* QPDFXRefEntry(1, offset, 0) / QPDFXRefEntry(2, ostream_id, index) *)
Inductive fq_xent := FqX1 (off : Z) | FqX2 (stm idx : Z).

Inductive fq_err :=
| FqFatalObj (lineno expected : Z)     (* fatal "<file>:<lineno>: expected object <n>"  -> exit 2 *)
| FqFatalInt (lineno : Z)              (* fatal "<file>:<lineno>: expected integer"      -> exit 2 *)
| FqExcStoi                            (* std::out_of_range("stoi") caught in realmain   -> exit 2 *)
| FqExcGetOffset                       (* std::logic_error getOffset called for xref entry of type != 1 -> exit 2 *)
| FqExcOther (what : N).               (* 1: xref.back() on an empty vector, 2: writeBinary > 8 bytes,
                                          3: ostream_offsets.at(0) on an empty vector (all unreachable) *)

Record fqs := mkfq {
  q_st : fq_state;
  q_lineno : Z;
  q_offset : Z;
  q_last_offset : Z;
  q_last_obj : Z;
  q_xref : list fq_xent;               (* reversed: the head is xref.back() *)
  q_stream_start : Z;
  q_stream_length : Z;
  q_xref_offset : Z;
  q_f1 : N;                            (* xref_f1_nbytes *)
  q_f2 : N;                            (* xref_f2_nbytes *)
  q_xref_size : Z;
  q_ostream : list (list N);           (* reversed *)
  q_ooffs : list Z;                    (* ostream_offsets, reversed *)
  q_odisc : list (list N);             (* ostream_discarded, reversed *)
  q_oidx : Z;
  q_oid : Z;
  q_oext : list N;                     (* ostream_extends *)
  q_okept : list (list N);             (* ostream_kept (fix C17-F5): the lines appended to it, reversed *)
  q_out : list (list N)                (* everything written to `out`, reversed list of chunks *)
}.

Definition fq_init : fqs :=
  mkfq Fq_top 0 0 0 0 [] 0 0 0 0%N 0%N 0 [] [] [] 0 0 [] [] [].

Definition fq_set_st (s : fqs) (v : fq_state) : fqs :=
  mkfq v (q_lineno s) (q_offset s) (q_last_offset s) (q_last_obj s) (q_xref s) (q_stream_start s) (q_stream_length s)
       (q_xref_offset s) (q_f1 s) (q_f2 s) (q_xref_size s) (q_ostream s) (q_ooffs s) (q_odisc s) (q_oidx s) (q_oid s)
       (q_oext s) (q_okept s) (q_out s).
Definition fq_set_pos (s : fqs) (lineno offset last_offset : Z) : fqs :=
  mkfq (q_st s) lineno offset last_offset (q_last_obj s) (q_xref s) (q_stream_start s) (q_stream_length s)
       (q_xref_offset s) (q_f1 s) (q_f2 s) (q_xref_size s) (q_ostream s) (q_ooffs s) (q_odisc s) (q_oidx s) (q_oid s)
       (q_oext s) (q_okept s) (q_out s).
Definition fq_set_offset (s : fqs) (v : Z) : fqs := fq_set_pos s (q_lineno s) v (q_last_offset s).
Definition fq_set_obj (s : fqs) (last_obj : Z) (xref : list fq_xent) : fqs :=
  mkfq (q_st s) (q_lineno s) (q_offset s) (q_last_offset s) last_obj xref (q_stream_start s) (q_stream_length s)
       (q_xref_offset s) (q_f1 s) (q_f2 s) (q_xref_size s) (q_ostream s) (q_ooffs s) (q_odisc s) (q_oidx s) (q_oid s)
       (q_oext s) (q_okept s) (q_out s).
Definition fq_set_stream (s : fqs) (start len : Z) : fqs :=
  mkfq (q_st s) (q_lineno s) (q_offset s) (q_last_offset s) (q_last_obj s) (q_xref s) start len
       (q_xref_offset s) (q_f1 s) (q_f2 s) (q_xref_size s) (q_ostream s) (q_ooffs s) (q_odisc s) (q_oidx s) (q_oid s)
       (q_oext s) (q_okept s) (q_out s).
Definition fq_set_xr (s : fqs) (xref_offset : Z) (f1 f2 : N) (xref_size : Z) : fqs :=
  mkfq (q_st s) (q_lineno s) (q_offset s) (q_last_offset s) (q_last_obj s) (q_xref s) (q_stream_start s) (q_stream_length s)
       xref_offset f1 f2 xref_size (q_ostream s) (q_ooffs s) (q_odisc s) (q_oidx s) (q_oid s)
       (q_oext s) (q_okept s) (q_out s).
Definition fq_set_os (s : fqs) (ostream : list (list N)) (ooffs : list Z) (odisc : list (list N)) (oidx oid : Z) (oext : list N) : fqs :=
  mkfq (q_st s) (q_lineno s) (q_offset s) (q_last_offset s) (q_last_obj s) (q_xref s) (q_stream_start s) (q_stream_length s)
       (q_xref_offset s) (q_f1 s) (q_f2 s) (q_xref_size s) ostream ooffs odisc oidx oid oext (q_okept s) (q_out s).
Definition fq_set_okept (s : fqs) (okept : list (list N)) : fqs :=
  mkfq (q_st s) (q_lineno s) (q_offset s) (q_last_offset s) (q_last_obj s) (q_xref s) (q_stream_start s) (q_stream_length s)
       (q_xref_offset s) (q_f1 s) (q_f2 s) (q_xref_size s) (q_ostream s) (q_ooffs s) (q_odisc s) (q_oidx s) (q_oid s)
       (q_oext s) okept (q_out s).
Definition fq_set_out (s : fqs) (out : list (list N)) : fqs :=
  mkfq (q_st s) (q_lineno s) (q_offset s) (q_last_offset s) (q_last_obj s) (q_xref s) (q_stream_start s) (q_stream_length s)
       (q_xref_offset s) (q_f1 s) (q_f2 s) (q_xref_size s) (q_ostream s) (q_ooffs s) (q_odisc s) (q_oidx s) (q_oid s)
       (q_oext s) (q_okept s) out.

(* out << chunk *)
Definition fq_emit (s : fqs) (chunk : list N) : fqs := fq_set_out s (chunk :: q_out s).

Definition fq_res := (fqs + (list (list N) * fq_err))%type.

(* checkObjId: std::stoi(m[1]) != ++last_obj -> fatal; xref.push_back(QPDFXRefEntry(1, last_offset, 0)) *)
Definition fq_check_obj_id (s : fqs) (digits : list N) : fq_res :=
  let v := Z.of_N (dec_value digits) in
  if 2147483647 <? v then inr (q_out s, FqExcStoi) else
  let lo := q_last_obj s + 1 in
  if v =? lo then inl (fq_set_obj s lo (FqX1 (q_last_offset s) :: q_xref s))
  else inr (q_out s, FqFatalObj (q_lineno s) lo).

(* adjustOstreamXref: xref.back() = QPDFXRefEntry(2, ostream_id, ostream_idx++) *)
Definition fq_adjust_ostream_xref (s : fqs) : fqs :=
  let s1 := fq_set_obj s (q_last_obj s) (FqX2 (q_oid s) (q_oidx s) :: tl (q_xref s)) in
  fq_set_os s1 (q_ostream s1) (q_ooffs s1) (q_odisc s1) (q_oidx s1 + 1) (q_oid s1) (q_oext s1).

(* the "offsets" string of writeOstream: one "<onum> <offset - first>\n" per member, onum counting from ostream_id+1 *)
Fixpoint fq_offsets_lines (offs : list Z) (first onum : Z) : list (list N) :=
  match offs with
  | [] => []
  | o :: t => (fq_dec (onum + 1) ++ fqk_sp ++ fq_dec (o - first) ++ fqk_nl) :: fq_offsets_lines t first (onum + 1)
  end.

Definition fq_sum_len (ls : list (list N)) : Z := fold_left (fun a l => a + fq_len l) ls 0.

Definition fq_write_ostream (s : fqs) : fq_res :=
  let offs := rev' (q_ooffs s) in
  match offs with
  | [] => inr (q_out s, FqExcOther 3)
  | first :: _ =>
      let offsets := concat (fq_offsets_lines offs first (q_oid s)) in
      let n := Z.of_nat (length offs) in
      let offset_adjust := fq_len offsets in
      let first' := first + offset_adjust in
      let stream_length := q_stream_length s + offset_adjust in
      let dict_data :=
        fqk_length_sp ++ fq_dec stream_length ++ fqk_nl ++
        fqk_N_sp ++ fq_dec n ++ fqk_nl ++
        fqk_first_sp ++ fq_dec first' ++ fqk_nl ++
        (match q_oext s with [] => [] | e => fqk_extends_key ++ e ++ fqk_nl end) ++
        concat (rev' (q_okept s)) ++
        fqk_dict_end in
      let offset_adjust' := offset_adjust + fq_len dict_data in
      (* out << dict_data << "stream\n" << offsets; then every saved line of the stream *)
      let out := q_ostream s ++ (offsets :: fqk_stream_nl :: dict_data :: q_out s) in
      let offset := q_offset s - fq_sum_len (q_odisc s) + offset_adjust' in
      let s1 := fq_set_stream s (q_stream_start s) stream_length in
      let s2 := fq_set_offset s1 offset in
      let s3 := fq_set_out s2 out in
      inl (fq_set_okept (fq_set_os s3 [] [] [] 0 0 []) [])
  end.

(* the binary entries of the xref stream, in order *)
Fixpoint fq_xref_binary (xs : list fq_xent) (f1 f2 : nat) : list (list N) :=
  match xs with
  | [] => []
  | FqX1 off :: t => ([1%N] ++ write_binary (Z.to_N off) f1 ++ write_binary 0 f2) :: fq_xref_binary t f1 f2
  | FqX2 stm idx :: t => ([2%N] ++ write_binary (Z.to_N stm) f1 ++ write_binary (Z.to_N idx) f2) :: fq_xref_binary t f1 f2
  end.

(* the in-use lines of the regenerated classic table; Some partial output when getOffset throws *)
Fixpoint fq_xref_table (xs : list fq_xent) (acc : list (list N)) : list (list N) * bool :=
  match xs with
  | [] => (acc, true)
  | FqX1 off :: t => fq_xref_table t (xref_line (Z.to_N off) :: acc)
  | FqX2 _ _ :: _ => (acc, false)
  end.

Definition fq_max_index (xs : list fq_xent) : Z :=
  fold_left (fun m e => match e with FqX2 _ idx => if m <? idx then idx else m | FqX1 _ => m end) xs 1.

(* ---------- one iteration of the while loop ---------- *)
Definition fq_step (s0 : fqs) (line : list N) : fq_res :=
  (* ++lineno; last_offset = offset; offset += len_line *)
  let s := fq_set_pos s0 (q_lineno s0 + 1) (q_offset s0 + fq_len line) (q_offset s0) in
  match q_st s with
  | Fq_top =>
      match fq_match_n_0_obj line with
      | Some d => match fq_check_obj_id s d with
                  | inl s1 => inl (fq_emit (fq_set_st s1 Fq_in_obj) line)
                  | inr e => inr e
                  end
      | None =>
          if fq_eqb line fqk_xref_nl
          then inl (fq_emit (fq_set_st (fq_set_xr s (q_last_offset s) (q_f1 s) (q_f2 s) (q_xref_size s)) Fq_at_xref) line)
          else inl (fq_emit s line)
      end
  | Fq_in_obj =>
      let s1 := fq_emit s line in
      if fq_eqb line fqk_stream_nl then inl (fq_set_st (fq_set_stream s1 (q_offset s1) (q_stream_length s1)) Fq_in_stream)
      else if fq_eqb line fqk_endobj_nl then inl (fq_set_st s1 Fq_top)
      else if fq_is_type_line line fqk_type_objstm then
        inl (fq_set_st (fq_set_os s1 (q_ostream s1) (q_ooffs s1) (q_odisc s1) (q_oidx s1) (q_last_obj s1) (q_oext s1)) Fq_in_ostream_dict)
      else if fq_is_type_line line fqk_type_xref then
        match q_xref s1 with
        | [] => inr (q_out s1, FqExcOther 1)
        | FqX2 _ _ :: _ => inr (q_out s1, FqExcGetOffset)
        | FqX1 xoff :: _ =>
            let f1 := bytes_needed (Z.to_N xoff) in                          (* while (t) { t >>= 8; ++f1; } *)
            let f2 := (q_f2 s1 + bytes_needed (Z.to_N (fq_max_index (q_xref s1))))%N in
            let esize := 1 + Z.of_N f1 + Z.of_N f2 in
            let xsize := 1 + Z.of_nat (length (q_xref s1)) in
            let len := xsize * esize in
            let s2 := fq_set_xr s1 xoff f1 f2 xsize in
            let s3 := fq_emit s2 (fqk_length_sp ++ fq_dec len ++ fqk_nl ++
                                  fqk_W_open ++ fq_dec (Z.of_N f1) ++ fqk_sp ++ fq_dec (Z.of_N f2) ++ fqk_W_close) in
            inl (fq_set_st s3 Fq_in_xref_stream_dict)
        end
      else inl s1
  | Fq_in_ostream_dict =>
      if fq_eqb line fqk_stream_nl then inl (fq_set_st s Fq_in_ostream_offsets)
      else
        match fq_match_extends line with
        | Some m => inl (fq_set_os s (q_ostream s) (q_ooffs s) (line :: q_odisc s) (q_oidx s) (q_oid s) m)
        | None =>
            let s1 := fq_set_os s (q_ostream s) (q_ooffs s) (line :: q_odisc s) (q_oidx s) (q_oid s) (q_oext s) in
            inl (if fq_is_regenerated line then s1 else fq_set_okept s1 (line :: q_okept s1))
        end
  | Fq_in_ostream_offsets =>
      match fq_match_ostream_obj line with
      | Some d => match fq_check_obj_id s d with
                  | inl s1 =>
                      let s2 := fq_set_stream s1 (q_last_offset s1) (q_stream_length s1) in
                      inl (fq_set_st (fq_set_os s2 (line :: q_ostream s2) (q_ooffs s2) (q_odisc s2) (q_oidx s2) (q_oid s2) (q_oext s2))
                                     Fq_in_ostream_outer)
                  | inr e => inr e
                  end
      | None => inl (fq_set_os s (q_ostream s) (q_ooffs s) (line :: q_odisc s) (q_oidx s) (q_oid s) (q_oext s))
      end
  | Fq_in_ostream_outer =>
      let s1 := fq_adjust_ostream_xref s in
      inl (fq_set_st (fq_set_os s1 (line :: q_ostream s1) ((q_last_offset s1 - q_stream_start s1) :: q_ooffs s1) (q_odisc s1)
                                (q_oidx s1) (q_oid s1) (q_oext s1)) Fq_in_ostream_obj)
  | Fq_in_ostream_obj =>
      let s1 := fq_set_os s (line :: q_ostream s) (q_ooffs s) (q_odisc s) (q_oidx s) (q_oid s) (q_oext s) in
      match fq_match_ostream_obj line with
      | Some d => match fq_check_obj_id s1 d with
                  | inl s2 => inl (fq_set_st s2 Fq_in_ostream_outer)
                  | inr e => inr e
                  end
      | None =>
          if fq_eqb line fqk_endstream_nl then
            match fq_write_ostream (fq_set_stream s1 (q_stream_start s1) (q_last_offset s1 - q_stream_start s1)) with
            | inl s2 => inl (fq_set_st s2 Fq_in_obj)
            | inr e => inr e
            end
          else inl s1
      end
  | Fq_in_xref_stream_dict =>
      let s1 :=
        if fq_contains fqk_slash_length line || fq_contains fqk_slash_W line then s
        else if fq_contains fqk_slash_size line
             then fq_emit s (fqk_size_sp ++ fq_dec (1 + Z.of_nat (length (q_xref s))) ++ fqk_nl)
             else fq_emit s line in
      if fq_eqb line fqk_stream_nl then
        let f1 := N.to_nat (q_f1 s1) in let f2 := N.to_nat (q_f2 s1) in
        if (8 <? q_f1 s1)%N then inr ([0%N] :: q_out s1, FqExcOther 2) else
        let s2 := fq_emit s1 ([0%N] ++ write_binary 0 f1 ++ write_binary 0 f2) in
        let s3 := fq_set_out s2 (rev_append (fq_xref_binary (rev' (q_xref s2)) f1 f2) (q_out s2)) in
        let s4 := fq_emit s3 (fqk_xstream_end ++ fq_dec (q_xref_offset s3) ++ fqk_eof) in
        inl (fq_set_st s4 Fq_done)
      else inl s1
  | Fq_in_stream =>
      let s1 := if fq_eqb line fqk_endstream_nl
                then fq_set_st (fq_set_stream s (q_stream_start s) (q_last_offset s - q_stream_start s)) Fq_after_stream
                else s in
      inl (fq_emit s1 line)
  | Fq_after_stream =>
      if fq_eqb line fqk_ignore_newline then
        inl (fq_emit (if 0 <? q_stream_length s then fq_set_stream s (q_stream_start s) (q_stream_length s - 1) else s) line)
      else
        match fq_match_n_0_obj line with
        | Some d => match fq_check_obj_id s d with
                    | inl s1 => inl (fq_emit (fq_set_st s1 Fq_in_length) line)
                    | inr e => inr e
                    end
        | None => inl (fq_emit s line)
        end
  | Fq_in_length =>
      if fq_match_num line then
        let new_length := fq_dec (q_stream_length s) ++ fqk_nl in
        let s1 := fq_set_offset s (q_offset s - fq_len line + fq_len new_length) in
        inl (fq_set_st (fq_emit s1 new_length) Fq_top)
      else inr (q_out s, FqFatalInt (q_lineno s))
  | Fq_at_xref =>
      let n := Z.of_nat (length (q_xref s)) in
      let s1 := fq_emit s (fqk_zero_sp ++ fq_dec (1 + n) ++ fqk_nl ++ fqk_xref_free) in
      let (lines, ok) := fq_xref_table (rev' (q_xref s1)) (q_out s1) in
      if ok then inl (fq_set_st (fq_set_out s1 lines) Fq_before_trailer)
      else inr (lines, FqExcGetOffset)
  | Fq_before_trailer =>
      if fq_eqb line fqk_trailer_open then inl (fq_set_st (fq_emit s line) Fq_in_trailer) else inl s
  | Fq_in_trailer =>
      let s1 := if fq_match_size_n line
                then fq_emit s (fqk_size_sp ++ fq_dec (1 + Z.of_nat (length (q_xref s))) ++ fqk_nl)
                else fq_emit s line in
      if fq_eqb line fqk_dict_end
      then inl (fq_set_st (fq_emit s1 (fqk_startxref_nl ++ fq_dec (q_xref_offset s1) ++ fqk_eof)) Fq_done)
      else inl s1
  | Fq_done => inl s
  end.

Fixpoint fq_run (s : fqs) (lines : list (list N)) : fq_res :=
  match lines with
  | [] => inl s
  | l :: rest => match fq_step s l with
                 | inl s' => fq_run s' rest
                 | inr e => inr e
                 end
  end.

Definition fq_flatten (chunks : list (list N)) : list N := concat (rev' chunks).

(* what the process leaves behind: everything written to standard output, and the exit status with its cause *)
Inductive fq_result := FqDone (out : list N) | FqFail (out : list N) (e : fq_err).

Definition fixqdf_lines (lines : list (list N)) : fq_result :=
  match fq_run fq_init lines with
  | inl s => FqDone (fq_flatten (q_out s))
  | inr (out, e) => FqFail (fq_flatten out) e
  end.

Definition fixqdf (input : list N) : fq_result := fixqdf_lines (fq_split_lines input).

Definition fq_exit_status (r : fq_result) : Z := match r with FqDone _ => 0 | FqFail _ _ => 2 end.
Definition fq_output (r : fq_result) : list N := match r with FqDone o => o | FqFail o _ => o end.
