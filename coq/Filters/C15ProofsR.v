(* C15 extension (c): corner cases of the RunLength and ASCII85 decoders not covered by C15ProofsA.v:
   RunLength - any mix of literal and run blocks followed by EOD; what happens to bytes AFTER the EOD marker
   (finding: Pl_RunLength::decode goes on decoding them, ISO 32000-1 7.4.5 says 128 is EOD);
   ASCII85 - white space anywhere in the encoded stream, zero groups written as "!!!!!" instead of "z",
   bytes after "~>" are ignored. *)
From QV Require Import Base.Bytes Filters.Filters Filters.FilterSpec.
From Coq Require Import Lia.
From QV Require Import Filters.C15ProofsA.
Local Open Scope N_scope.

(* ================= RunLength ================= *)
Lemma rlx_blocks_top : forall e d, rl_blocks e d -> forall l,
  exists l', write_bytes rld_step {| rld_state := RlTop; rld_len := l |} e
             = ({| rld_state := RlTop; rld_len := l' |}, d, false).
Proof.
  induction 1 as [|blk e d Hl H IH|x n e d Hn H IH]; intros l.
  - exists l. reflexivity.
  - cbn [write_bytes]. unfold rld_step at 1. cbn [rld_state].
    replace (N.of_nat (length blk) - 1 <? 128) with true by (symmetry; apply N.ltb_lt; lia).
    rewrite (rld_copy_block blk e (1 + (N.of_nat (length blk) - 1))).
    + destruct (IH 0) as [l' Hl']. fold rld_init in Hl'. rewrite Hl'. exists l'. reflexivity.
    + intros E. rewrite E in Hl. cbn [length] in Hl. lia.
    + lia.
  - cbn [write_bytes]. unfold rld_step at 1. cbn [rld_state].
    replace (257 - N.of_nat n <? 128) with false by (symmetry; apply N.ltb_ge; lia).
    replace (128 <? 257 - N.of_nat n) with true by (symmetry; apply N.ltb_lt; lia).
    unfold rld_step at 1. cbn [rld_state rld_len].
    destruct (IH (257 - (257 - N.of_nat n))) as [l' Hl']. rewrite Hl'. exists l'.
    replace (257 - (257 - N.of_nat n)) with (N.of_nat n) by lia. rewrite Nat2N.id. reflexivity.
Qed.

(* full statement "decoding stops at EOD":
     forall e d rest, rl_blocks e d -> rld_run [e ++ [128] ++ rest] = (d, false)
   is FALSE on the faithful model (and on the real Pl_RunLength, see DESIGN.md): *)
Lemma rld_stops_at_eod_refuted_lemma :
  exists e d rest, rl_blocks e d /\ rld_run [e ++ [128] ++ rest] <> (d, false).
Proof.
  exists [0; 65], [65], [13; 10]. split.
  - apply (rlb_copy [65] [] []); [cbn; lia|constructor].
  - vm_compute. discriminate.
Qed.

(* what holds: any mix of literal and run blocks, then EOD, then nothing that starts a block with data *)
Lemma rld_stops_at_eod_partial_lemma : forall e d, rl_blocks e d -> rld_run [e ++ [128]] = (d, false).
Proof.
  intros e d H. unfold rld_run. rewrite run_chunks_single, write_bytes_app.
  destruct (rlx_blocks_top e d H 0) as [l' Hl']. fold rld_init in Hl'. rewrite Hl'.
  cbn [write_bytes]. unfold rld_step. cbn [rld_state]. change (128 <? 128) with false. cbv iota.
  rewrite app_nil_r. reflexivity.
Qed.

(* exactly what the model does with bytes after EOD: it decodes them as further blocks *)
Lemma rld_after_eod_lemma : forall e d e2 d2, rl_blocks e d -> rl_blocks e2 d2 ->
  rld_run [e ++ [128] ++ e2] = (d ++ d2, false).
Proof.
  intros e d e2 d2 H H2. unfold rld_run. rewrite run_chunks_single, write_bytes_app.
  destruct (rlx_blocks_top e d H 0) as [l' Hl']. fold rld_init in Hl'. rewrite Hl'.
  cbn [app write_bytes]. unfold rld_step at 1. cbn [rld_state]. change (128 <? 128) with false. cbv iota.
  destruct (rlx_blocks_top e2 d2 H2 l') as [l2 Hl2]. rewrite Hl2. reflexivity.
Qed.

(* ================= ASCII85 ================= *)
(* e' is e with white-space characters inserted anywhere *)
Inductive a8x_ws_ins : list N -> list N -> Prop :=
| a8x_wi_nil : a8x_ws_ins [] []
| a8x_wi_keep : forall c e e', a8x_ws_ins e e' -> a8x_ws_ins (c :: e) (c :: e')
| a8x_wi_ws : forall w e e', ahx_is_ws w = true -> a8x_ws_ins e e' -> a8x_ws_ins e (w :: e').

Lemma a8x_ws_write : forall e e', a8x_ws_ins e e' -> forall s,
  write_bytes a85_step s e' = write_bytes a85_step s e.
Proof.
  induction 1 as [|c e e' H IH|w e e' Hw H IH]; intros s.
  - reflexivity.
  - cbn [write_bytes]. destruct (a85_step s c) as [[s1 o1] e1]. destruct e1; [reflexivity|]. rewrite IH. reflexivity.
  - cbn [write_bytes]. unfold a85_step at 1. rewrite Hw. cbv iota. rewrite IH.
    destruct (write_bytes a85_step s e) as [[s2 o2] e2]. reflexivity.
Qed.

Lemma a85_whitespace_ignored_lemma : forall e e', a8x_ws_ins e e' -> a85_run [e'] = a85_run [e].
Proof.
  intros e e' H. unfold a85_run. rewrite !run_chunks_single, (a8x_ws_write e e' H). reflexivity.
Qed.

Lemma a85_decode_encode_ws_lemma : forall d e', bytes_ok d -> a8x_ws_ins (ref_a85_encode d) e' ->
  a85_run [e'] = (d, false).
Proof.
  intros d e' Hd H. rewrite (a85_whitespace_ignored_lemma _ _ H). apply a85_decode_encode_lemma. exact Hd.
Qed.

(* bytes after "~>" are ignored *)
Lemma a8x_after_eod : forall rest buf,
  write_bytes a85_step {| a85_eod := 2; a85_buf := buf |} rest = ({| a85_eod := 2; a85_buf := buf |}, [], false).
Proof.
  induction rest as [|b t IH]; intros buf; [reflexivity|].
  cbn [write_bytes]. unfold a85_step at 1. cbn [a85_eod].
  destruct (ahx_is_ws b); cbv iota; [rewrite IH; reflexivity|].
  change (1 <? 2) with true. cbv iota. rewrite IH. reflexivity.
Qed.

Lemma a85_stops_at_eod_lemma : forall d rest, bytes_ok d -> a85_run [ref_a85_encode d ++ rest] = (d, false).
Proof.
  intros d rest Hd. unfold a85_run. rewrite run_chunks_single, write_bytes_app.
  rewrite (a85_main (length d) d (le_n _) Hd). cbv iota. rewrite a8x_after_eod.
  cbn [a85_buf a85_flush]. rewrite !app_nil_r. reflexivity.
Qed.

(* a second reference encoder that never uses the "z" shortcut (7.4.3 allows both for a zero group) *)
Fixpoint a8x_ref_encode_noz (d : list N) : list N :=
  match d with
  | a :: b :: c :: e :: t => a85_digits (be32 a b c e) ++ a8x_ref_encode_noz t
  | [] => [126; 62]
  | [a] => firstn 2 (a85_digits (be32 a 0 0 0)) ++ [126; 62]
  | [a; b] => firstn 3 (a85_digits (be32 a b 0 0)) ++ [126; 62]
  | [a; b; c] => firstn 4 (a85_digits (be32 a b c 0)) ++ [126; 62]
  end.

Lemma a8x_main_noz : forall n d, (length d <= n)%nat -> bytes_ok d ->
  write_bytes a85_step a85_init (a8x_ref_encode_noz d) = ({| a85_eod := 2; a85_buf := [] |}, d, false).
Proof.
  induction n as [|n IH]; intros d Hl Hd.
  - destruct d; [reflexivity|cbn [length] in Hl; lia].
  - destruct d as [|a [|b [|c [|e t]]]].
    + reflexivity.
    + exact (a85_main 1 [a] ltac:(cbn; lia) Hd).
    + exact (a85_main 2 [a; b] ltac:(cbn; lia) Hd).
    + exact (a85_main 3 [a; b; c] ltac:(cbn; lia) Hd).
    + inversion Hd as [|? ? Ha Hd1]; subst. inversion Hd1 as [|? ? Hb Hd2]; subst.
      inversion Hd2 as [|? ? Hc Hd3]; subst. inversion Hd3 as [|? ? He Ht]; subst.
      cbn [a8x_ref_encode_noz].
      assert (IHt : write_bytes a85_step a85_init (a8x_ref_encode_noz t)
                    = ({| a85_eod := 2; a85_buf := [] |}, t, false)).
      { apply IH; [cbn [length] in Hl; lia|exact Ht]. }
      pose proof (a85_digits_dig (be32 a b c e)) as HF. unfold a85_digits in HF |- *.
      inversion HF as [|? ? H1 HF1]; subst. inversion HF1 as [|? ? H2 HF2]; subst.
      inversion HF2 as [|? ? H3 HF3]; subst. inversion HF3 as [|? ? H4 HF4]; subst.
      inversion HF4 as [|? ? H5 _]; subst.
      rewrite a85_group by assumption. rewrite IHt.
      fold (a85_digits (be32 a b c e)). rewrite a85_flush_full by assumption. reflexivity.
Qed.

Lemma a85_decode_encode_noz_lemma : forall d, bytes_ok d -> a85_run [a8x_ref_encode_noz d] = (d, false).
Proof.
  intros d Hd. unfold a85_run. rewrite run_chunks_single.
  rewrite (a8x_main_noz (length d) d (le_n _) Hd). cbn [a85_buf a85_flush]. rewrite app_nil_r. reflexivity.
Qed.

(* ================= ASCIIHex: bytes after '>' are ignored ================= *)
Lemma ahx_ref_ends_gt : forall d style, exists l, ref_ahx_encode d style = l ++ [62].
Proof.
  induction d as [|b d IH]; intros style.
  - exists []. reflexivity.
  - cbn [ref_ahx_encode].
    destruct (match style with (l, w1, w2) :: s' => (l, w1, w2, s') | [] => (false, [], [], []) end) as [[[lower ws1] ws2] style'].
    destruct (IH style') as [l Hl]. rewrite Hl. eexists. rewrite !app_assoc. reflexivity.
Qed.

Lemma ahx_step_gt_eod : forall s, ahx_eod (fst (fst (ahx_step s 62))) = true.
Proof.
  intros s. unfold ahx_step. destruct (ahx_eod s) eqn:E; [exact E|].
  change (c_toupper 62) with 62. change (ahx_is_ws 62) with false. change (62 =? 62) with true. cbv iota zeta.
  unfold ahx_flush. cbn [ahx_pos ahx_eod]. destruct (ahx_pos s =? 0); reflexivity.
Qed.

Lemma ahx_after_eod : forall rest s, ahx_eod s = true -> write_bytes ahx_step s rest = (s, [], false).
Proof.
  induction rest as [|b t IH]; intros s He; [reflexivity|].
  cbn [write_bytes]. unfold ahx_step at 1. rewrite He. rewrite (IH s He). reflexivity.
Qed.

Lemma ahx_stops_at_eod_lemma : forall d style rest, bytes_ok d -> style_ok style ->
  ahx_run [ref_ahx_encode d style ++ rest] = (d, false).
Proof.
  intros d style rest Hd Hst. unfold ahx_run. rewrite run_chunks_single, write_bytes_app.
  destruct (ahx_main d style ahx_init Hd Hst eq_refl eq_refl) as (s' & Hs' & Hp').
  assert (He : ahx_eod s' = true).
  { destruct (ahx_ref_ends_gt d style) as [l Hl]. rewrite Hl, write_bytes_app in Hs'.
    destruct (write_bytes ahx_step ahx_init l) as [[s1 o1] e1]. destruct e1; [discriminate|].
    cbn [write_bytes] in Hs'. pose proof (ahx_step_gt_eod s1) as H62.
    destruct (ahx_step s1 62) as [[s2 o2] e2]. cbn [fst] in H62. destruct e2; injection Hs' as E1 E2; subst; exact H62. }
  rewrite Hs'. cbv iota. rewrite (ahx_after_eod rest s' He).
  unfold ahx_flush. rewrite Hp'. change (0 =? 0) with true. cbv iota. cbn [snd]. rewrite !app_nil_r. reflexivity.
Qed.
