(* C16.  The resource name InlineImageTracker gives to an externalised inline image, written from
     libqpdf/QPDFObjectHandle.cc    QPDFObjectHandle::getUniqueResourceName(prefix, min_suffix&, namesp = nullptr)
     libqpdf/QPDFPageObjectHelper.cc InlineImageTracker::handleToken:
         name = resources.getUniqueResourceName("/IIm", min_suffix);  resources./XObject.replaceKey(name, image)
   `names` is the std::set returned by resources.getResourceNames(): the keys of all second-level dictionaries of the
   page's (form XObject's) /Resources, as a duplicate-free list.  min_suffix is a member of the tracker (starts at 1)
   and is left at the suffix that was used.  No proofs in this file. *)
From QV Require Import Base.Bytes.
Local Open Scope N_scope.

Definition c16_name_mem (x : list N) (names : list (list N)) : bool := existsb (list_eqb N.eqb x) names.

(* while (min_suffix <= max_suffix) { candidate = prefix + to_string(min_suffix); if (!names.contains(candidate)) return;
   ++min_suffix; }  with max_suffix = min_suffix + names.size(): names.size() + 1 iterations; None = std::logic_error *)
Fixpoint c16_name_loop (fuel : nat) (names : list (list N)) (prefix : list N) (k : N) : option (list N * N) :=
  match fuel with
  | O => None
  | S f =>
      let cand := prefix ++ dec_of_N k in
      if c16_name_mem cand names then c16_name_loop f names prefix (k + 1) else Some (cand, k)
  end.

Definition c16_unique_name (names : list (list N)) (prefix : list N) (min_suffix : N) : option (list N * N) :=
  c16_name_loop (S (length names)) names prefix min_suffix.

Definition c16_iim_prefix : list N := [47; 73; 73; 109].     (* "/IIm" *)

(* the names given to n images converted one after the other; each name is added to the resources before the next *)
Fixpoint c16_alloc_names (n : nat) (names : list (list N)) (min_suffix : N) : option (list (list N)) :=
  match n with
  | O => Some []
  | S n' =>
      match c16_unique_name names c16_iim_prefix min_suffix with
      | None => None
      | Some (nm, k) =>
          match c16_alloc_names n' (nm :: names) k with
          | Some l => Some (nm :: l)
          | None => None
          end
      end
  end.
