(* C16.  The hypothesis under which the normaliser's handling of inline images is proved correct, as an
   executable test: at every ID that the independent reading (Struct/ContentSem.v) meets, qpdf's
   Tokenizer::findEI (model: Struct/ContentNorm.v) chooses the same end of the image data, and the data are
   not empty.  (findEI accepts the first "EI" followed by a delimiter in qpdf's sense - VT included, whatever
   precedes - after which ten plausible tokens follow, else the last candidate; ISO 32000-1 8.9.7 as worded by
   the property takes the first "EI" between white space and white space / delimiter / end.)  No proofs here. *)
From QV Require Import Base.Bytes Lex.TokModel Lex.LexSpec Struct.ContentNorm Struct.ContentSem.
Local Open Scope N_scope.

Definition c16_is_nil {A} (l : list A) : bool := match l with [] => true | _ => false end.

Fixpoint c16_ei_okb_fuel (fuel : nat) (c : list N) : bool :=
  match fuel with
  | O => false
  | S f =>
      match c16_step c with
      | CsEnd => true
      | CsInvalid => false
      | CsStep toks rest =>
          match toks with
          | [_] => c16_ei_okb_fuel f rest
          | [CsOp _; CsImage data] =>
              negb (c16_is_nil data) && (c16_find_ei (data ++ 69 :: 73 :: rest) =? N.of_nat (length data)) && c16_ei_okb_fuel f rest
          | _ => false
          end
      end
  end.

Definition c16_ei_okb (c : list N) : bool := c16_ei_okb_fuel (S (length c)) c.

(* the class of inputs of the main theorem: bytes, no raw VT (finding D11 / C16-F1), readable, images unambiguous *)
Definition c16_clean (c : list N) : bool :=
  forallb (fun b => (b <? 256) && negb (b =? 11)) c && c16_ei_okb c.
