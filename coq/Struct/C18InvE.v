(* C18 unbounded refinement, part E: resetLimits along a zipper, and split (with the recursion
   towards the root and the root push-down). *)
From Coq Require Import Sorting.Sorted.
From QV Require Import Base.Bytes Struct.NNTreeModel Struct.NNTreeSpec Struct.C18Proofs Struct.C18ProofsC
  Struct.C18InvA Struct.C18InvB Struct.C18InvC Struct.C18InvD.
Local Open Scope Z_scope.

(* ------------------------------------------------------------------ resetLimits *)
Lemma reset_loop_S : forall j da path (root : node) w,
  nn_reset_loop Z nn_zcmp (S j) da path root w =
  match zget root (firstn da path) with
  | None => (root, w)
  | Some a =>
      let continue_up (root' : node) (warn' : Z) :=
        match j with O => (root', warn') | S _ => nn_reset_loop Z nn_zcmp j j path root' warn' end in
      match nn_first_last Z a with
      | None => continue_up root (w + 1)
      | Some (f, l) =>
          let same := match nn_lim Z a with
                      | Some (of, ol) => nn_keq Z nn_zcmp f of && nn_keq Z nn_zcmp l ol
                      | None => false
                      end in
          if same then (root, w)
          else
            let root' := match da with
                         | O => root
                         | S _ => zupd root (firstn da path) (nn_set_lim Z (Some (f, l)))
                         end in
            continue_up root' w
      end
  end.
Proof. reflexivity. Qed.

Lemma zkeq_iff : forall a b, nn_keq Z nn_zcmp a b = true <-> a = b.
Proof.
  intros a b. unfold nn_keq, nn_zcmp. destruct (Z.compare_spec a b); split; intros; try lia; try discriminate; reflexivity.
Qed.

Lemma firstn_prefix {A} (path p : list A) (x : A) : firstn (S (length p)) path = p ++ [x] -> firstn (length p) path = p.
Proof.
  intros H. rewrite <- (Nat.min_l (length p) (S (length p))) by lia.
  rewrite <- firstn_firstn, H. apply c18_firstn_mid.
Qed.

Lemma sub_ok_lim_some : forall n, sub_ok n -> nn_lim Z n <> None.
Proof. intros n H. destruct (sub_ok_lc _ H) as [H1 H2]. rewrite H1. exact H2. Qed.

Lemma first_last_fill_some : forall fr a, nn_lim Z a <> None ->
  Forall sub_ok (fr_L fr) -> Forall sub_ok (fr_R fr) -> nn_first_last Z (fill fr a) <> None.
Proof.
  intros fr a Ha HL HR. rewrite first_last_fill. unfold lim_pair.
  assert (H1 : nn_lim Z (fst_kid fr a) <> None).
  { unfold fst_kid. destruct (fr_L fr) as [|x L]; [exact Ha|]. inversion HL; subst. apply sub_ok_lim_some. assumption. }
  assert (H2 : nn_lim Z (lst_kid fr a) <> None).
  { unfold lst_kid. destruct (fr_R fr) as [|x R] eqn:E; [exact Ha|].
    apply sub_ok_lim_some. rewrite Forall_forall in HR. apply HR. apply c18_last_in. discriminate. }
  destruct (nn_lim Z (fst_kid fr a)) as [[? ?]|]; [|congruence].
  destruct (nn_lim Z (lst_kid fr a)) as [[? ?]|]; [|congruence]. discriminate.
Qed.

Lemma set_lim_fill : forall l fr a, nn_set_lim Z l (fill fr a) = fill (Fr l (fr_L fr) (fr_R fr)) a.
Proof. reflexivity. Qed.

Lemma reset_loop_zip : forall fs a path w fl,
  fs <> [] -> firstn (length fs) path = zpath fs ->
  nn_first_last Z a = Some fl -> sibs_ok fs -> chain_ok a fs ->
  exists fs', nn_reset_loop Z nn_zcmp (length fs) (length fs) path (plug a fs) w
              = (plug (nn_set_lim Z (Some fl) a) fs', w) /\
    same_sibs fs fs' /\ chain_ok (nn_set_lim Z (Some fl) a) fs'.
Proof.
  induction fs as [|fr fs IH]; intros a path w fl Hne Hfirst Hfl Hsibs Hchain; [congruence|].
  cbn [length]. rewrite reset_loop_S. cbn [length] in Hfirst. rewrite Hfirst, get_plug, Hfl.
  destruct fl as [f l]. cbv zeta.
  destruct (match nn_lim Z a with
            | Some (of, ol) => nn_keq Z nn_zcmp f of && nn_keq Z nn_zcmp l ol
            | None => false
            end) eqn:Esame.
  - destruct (nn_lim Z a) as [[of ol]|] eqn:El; [|discriminate].
    apply andb_true_iff in Esame. destruct Esame as [E1 E2]. apply zkeq_iff in E1, E2. subst of ol.
    assert (Ha : nn_set_lim Z (Some (f, l)) a = a) by (rewrite <- El; apply set_lim_same).
    rewrite Ha. exists (fr :: fs). split; [reflexivity|]. split; [apply same_sibs_refl|exact Hchain].
  - rewrite upd_plug. set (a' := nn_set_lim Z (Some (f, l)) a).
    assert (Hla' : nn_lim Z a' = Some (f, l)) by apply lim_set_lim.
    destruct fs as [|fr2 fs].
    + cbn [length]. exists [fr]. split; [reflexivity|]. split; [apply same_sibs_refl|].
      cbn [chain_ok] in *. tauto.
    + cbn [length].
      inversion Hsibs as [|? ? [HL HR] Hsibs']; subst.
      destruct Hchain as [Hlc Hchain'].
      destruct (nn_first_last Z (fill fr a')) as [fl'|] eqn:Efl'.
      2:{ exfalso. revert Efl'. apply first_last_fill_some; [rewrite Hla'; discriminate|exact HL|exact HR]. }
      assert (Hfirst' : firstn (length (fr2 :: fs)) path = zpath (fr2 :: fs)).
      { rewrite <- (zpath_length (fr2 :: fs)). apply (firstn_prefix path (zpath (fr2 :: fs)) (fidx fr)).
        rewrite zpath_length. exact Hfirst. }
      assert (Hchain2 : chain_ok (fill fr a') (fr2 :: fs)) by (apply (chain_ok_lim _ (fill fr a)); [reflexivity|exact Hchain']).
      destruct (IH (fill fr a') path w fl' ltac:(discriminate) Hfirst' Efl' Hsibs' Hchain2) as (fs3 & Hres & Hsame & Hch3).
      cbn [length] in Hres. change (plug a' (fr :: fr2 :: fs)) with (plug (fill fr a') (fr2 :: fs)). rewrite Hres.
      destruct fr as [pl L R]. exists (Fr (Some fl') L R :: fs3).
      split; [reflexivity|]. split; [apply same_sibs_cons; exact Hsame|].
      rewrite set_lim_fill in Hch3. cbn [fr_L fr_R] in Hch3.
      destruct fs3 as [|fr3 fs3]; [destruct Hsame as [Hs _]; discriminate|].
      change (lc (fill (Fr (Some fl') L R) a') /\ chain_ok (fill (Fr (Some fl') L R) a') (fr3 :: fs3)).
      split; [|exact Hch3]. split.
      * cbn [fill nn_lim fr_lim]. symmetry. exact Efl'.
      * change (fill (Fr (Some fl') L R) a') with (nn_set_lim Z (Some fl') (fill (Fr pl L R) a')).
        rewrite first_last_set_lim, Efl'. discriminate.
Qed.

(* resetLimits of the node the path leads to (depth = number of frames) *)
Lemma reset_limits_zip : forall fs a (s : zst) q fl,
  st_root Z s = plug a fs -> st_path Z s = zpath fs ++ q -> nn_lim Z (plug a fs) = None ->
  nn_first_last Z a = Some fl -> sibs_ok fs -> chain_ok a fs ->
  exists a' fs', nn_reset_limits Z nn_zcmp (length fs) s = NNSt Z (plug a' fs') (st_path Z s) (st_item Z s) (st_warn Z s) /\
    same_sibs fs fs' /\ chain_ok a' fs' /\
    a' = match fs with [] => a | _ :: _ => nn_set_lim Z (Some fl) a end.
Proof.
  intros fs a s q fl Hr Hp Hnolim Hfl Hsibs Hchain. unfold nn_reset_limits. rewrite Hr, Hp.
  destruct fs as [|fr fs].
  - cbn [length nn_reset_loop firstn nn_upd plug] in *. rewrite <- Hnolim, set_lim_same.
    exists a, []. split; [reflexivity|]. split; [apply same_sibs_refl|]. split; [exact I|reflexivity].
  - destruct (reset_loop_zip (fr :: fs) a (zpath (fr :: fs) ++ q) (st_warn Z s) fl ltac:(discriminate)
                (firstn_zpath _ _) Hfl Hsibs Hchain) as (fs' & Hres & Hsame & Hch).
    rewrite Hres. exists (nn_set_lim Z (Some fl) a), fs'.
    split; [reflexivity|]. split; [exact Hsame|]. split; [exact Hch|reflexivity].
Qed.

(* a resetLimits that finds nothing to change *)
Lemma reset_loop_noop : forall dp path (root P : node) w fl,
  zget root (firstn dp path) = Some P -> nn_first_last Z P = Some fl ->
  (dp = 0%nat \/ nn_lim Z P = Some fl) ->
  nn_reset_loop Z nn_zcmp (S dp) dp path root w = (root, w).
Proof.
  intros dp path root P w [f l] Hg Hfl Hc. rewrite reset_loop_S, Hg, Hfl. cbv zeta.
  destruct Hc as [->|Hl].
  - destruct (match nn_lim Z P with
              | Some (of, ol) => nn_keq Z nn_zcmp f of && nn_keq Z nn_zcmp l ol
              | None => false
              end); reflexivity.
  - rewrite Hl. assert (E : nn_keq Z nn_zcmp f f && nn_keq Z nn_zcmp l l = true).
    { apply andb_true_iff. split; apply zkeq_iff; reflexivity. }
    rewrite E. reflexivity.
Qed.

(* ------------------------------------------------------------------ positions, structurally *)
Lemma plug_nonleaf : forall gs (a : node), gs <> [] -> exists l kids, plug a gs = NInner l kids.
Proof.
  induction gs as [|g gs IH]; intros a H; [congruence|]. destruct gs as [|g2 gs].
  - exists (fr_lim g), (fr_L g ++ a :: fr_R g). reflexivity.
  - apply (IH (fill g a)). discriminate.
Qed.

Lemma at_pos_leaf_intro : forall l A e B, at_pos (NLeaf l (A ++ e :: B)) [] (nn_zlen A) A e B.
Proof.
  intros l A e B. exists [], l, (A ++ e :: B). rewrite c18_to_nat_zlen. repeat split.
  - apply c18_zlen_nonneg.
  - rewrite nth_error_app2 by lia. rewrite Nat.sub_diag. reflexivity.
  - simpl. rewrite c18_firstn_mid. reflexivity.
  - rewrite c18_skipn_mid_S, app_nil_r. reflexivity.
Qed.
Lemma at_pos_leaf_inv : forall l items q item A e B, at_pos (NLeaf l items) q item A e B ->
  q = [] /\ items = A ++ e :: B /\ item = nn_zlen A.
Proof.
  intros l items q item A e B (gs & l' & items' & Hr & Hp & Hi & Hn & HA & HB).
  destruct gs as [|g gs].
  - cbn [plug] in Hr. injection Hr as <- <-. simpl in HA, HB. rewrite app_nil_r in HB. subst.
    split; [reflexivity|]. split; [apply c18_nth_split; exact Hn|].
    pose proof (c18_nth_lt _ _ _ Hn). unfold nn_zlen. rewrite firstn_length. lia.
  - exfalso. destruct (plug_nonleaf (g :: gs) (NLeaf l' items') ltac:(discriminate)) as (? & ? & E).
    rewrite E in Hr. discriminate.
Qed.
Lemma at_pos_inner_intro : forall l KL c KR q item A e B, at_pos c q item A e B ->
  at_pos (NInner l (KL ++ c :: KR)) (nn_zlen KL :: q) item (flat_map zabs KL ++ A) e (B ++ flat_map zabs KR).
Proof.
  intros l KL c KR q item A e B H.
  pose proof (at_pos_plug c q item A e B [Fr l KL KR] H) as X.
  eapply at_pos_eq; [exact X|reflexivity|]. simpl. rewrite app_nil_r. reflexivity.
Qed.
Lemma at_pos_inner_inv : forall l kids q item A e B, at_pos (NInner l kids) q item A e B ->
  exists KL c KR q' A' B', kids = KL ++ c :: KR /\ q = nn_zlen KL :: q' /\ at_pos c q' item A' e B' /\
    A = flat_map zabs KL ++ A' /\ B = B' ++ flat_map zabs KR.
Proof.
  intros l kids q item A e B (gs & l' & items & Hr & Hp & Hi & Hn & HA & HB).
  destruct (c18_last_or_nil gs) as [->|(gs' & [gl KL KR] & ->)]; [discriminate|].
  rewrite plug_app in Hr. cbn [plug] in Hr. unfold fill in Hr. cbn [fr_lim fr_L fr_R] in Hr.
  injection Hr as _ ->.
  exists KL, (plug (NLeaf l' items) gs'), KR, (zpath gs'),
         (zpre gs' ++ firstn (Z.to_nat item) items), (skipn (S (Z.to_nat item)) items ++ zpost gs').
  split; [reflexivity|]. split; [rewrite Hp, zpath_app; reflexivity|].
  split; [exists gs', l', items; repeat split; assumption|].
  split.
  - rewrite HA, zpre_app. simpl. rewrite <- app_assoc. reflexivity.
  - rewrite HB, zpost_app. simpl. rewrite app_nil_r, <- app_assoc. reflexivity.
Qed.
Lemma at_pos_set_lim : forall lim a q item A e B, at_pos a q item A e B -> at_pos (nn_set_lim Z lim a) q item A e B.
Proof.
  intros lim [l items|l kids] q item A e B H.
  - destruct (at_pos_leaf_inv _ _ _ _ _ _ _ H) as (-> & -> & ->). apply at_pos_leaf_intro.
  - destruct (at_pos_inner_inv _ _ _ _ _ _ _ H) as (KL & c & KR & q' & A' & B' & -> & -> & Hc & -> & ->).
    apply at_pos_inner_intro. exact Hc.
Qed.
Lemma at_pos_arity : forall a q item A e B, at_pos a q item A e B -> 1 <= arity a.
Proof.
  intros [l items|l kids] q item A e B H.
  - destruct (at_pos_leaf_inv _ _ _ _ _ _ _ H) as (_ & -> & _). cbn [arity].
    rewrite c18_zlen_app, c18_zlen_cons. pose proof (c18_zlen_nonneg A). pose proof (c18_zlen_nonneg B). lia.
  - destruct (at_pos_inner_inv _ _ _ _ _ _ _ H) as (KL & c & KR & q' & A' & B' & -> & _). cbn [arity].
    rewrite c18_zlen_app, c18_zlen_cons. pose proof (c18_zlen_nonneg KL). pose proof (c18_zlen_nonneg KR). lia.
Qed.

(* ------------------------------------------------------------------ the two halves of a split *)
Definition split_start (n : node) : Z :=
  match n with
  | NLeaf _ items => nn_start_idx (2 * nn_zlen items)
  | NInner _ kids => nn_start_idx (nn_zlen kids)
  end.
Definition split_pt (n : node) : nat :=
  match n with
  | NLeaf _ items => Z.to_nat (nn_start_idx (2 * nn_zlen items) / 2)
  | NInner _ kids => Z.to_nat (nn_start_idx (nn_zlen kids))
  end.
Definition half1 (n : node) : node :=
  match n with
  | NLeaf l items => NLeaf l (firstn (split_pt n) items)
  | NInner l kids => NInner l (firstn (split_pt n) kids)
  end.
Definition half2 (n : node) : node :=
  match n with
  | NLeaf l items => NLeaf None (skipn (split_pt n) items)
  | NInner l kids => NInner None (skipn (split_pt n) kids)
  end.
Definition is_leaf (n : node) : bool := match n with NLeaf _ _ => true | NInner _ _ => false end.

(* where split_body re-points the iterator *)
Definition split_iter (a : node) (dp : nat) (path : list Z) (item : Z) : list Z * Z :=
  let old_idx := if is_leaf a then 2 * item
                 else match nn_znth path (Z.of_nat (S dp)) with Some x => x | None => 0 end in
  if split_start a <=? old_idx then
    let p1 := nn_upd_nth path dp (fun x => x + 1) in
    if is_leaf a then (p1, item - split_start a / 2)
    else (nn_upd_nth p1 (S dp) (fun x => x - split_start a), item)
  else (path, item).

Lemma split_pt_arith : forall t n, 3 <= t -> t < arity n <= t + 1 ->
  2 <= Z.of_nat (split_pt n) <= t /\ 1 <= arity n - Z.of_nat (split_pt n) <= t /\
  (is_leaf n = true -> split_start n = 2 * Z.of_nat (split_pt n)) /\
  (is_leaf n = false -> split_start n = Z.of_nat (split_pt n)).
Proof.
  intros t [l items|l kids] Ht Ha; cbn [arity split_pt split_start is_leaf] in *; unfold nn_start_idx.
  - set (n := nn_zlen items) in *. rewrite Z2Nat.id by (Z.div_mod_to_equations; lia).
    repeat split; try discriminate; try (Z.div_mod_to_equations; lia).
  - set (n := nn_zlen kids) in *. rewrite Z2Nat.id by (Z.div_mod_to_equations; lia).
    repeat split; try discriminate; try (Z.div_mod_to_equations; lia).
Qed.

Lemma znth_zpath_tail : forall fr fs q, nn_znth (zpath (fr :: fs) ++ q) (Z.of_nat (length fs)) = Some (fidx fr).
Proof. intros. rewrite zpath_cons, <- app_assoc. rewrite znth_zpath. reflexivity. Qed.

Lemma lc_set_first_last : forall n fl, nn_first_last Z n = Some fl -> lc (nn_set_lim Z (Some fl) n).
Proof. intros n fl H. split; rewrite first_last_set_lim, ?lim_set_lim, H; [reflexivity|discriminate]. Qed.

Lemma split_body_zip : forall t fr fs' (a : node) (s : zst) q fl1 fl2,
  st_root Z s = plug a (fr :: fs') -> st_path Z s = zpath (fr :: fs') ++ q ->
  nn_first_last Z (half1 a) = Some fl1 -> nn_first_last Z (half2 a) = Some fl2 ->
  sibs_ok (fr :: fs') -> kids_ok (half2 a) ->
  (fs' <> [] -> nn_lim Z a <> None) -> chain_ok a (fr :: fs') ->
  exists pl4 fs4,
    nn_split_body Z nn_zcmp t (S (length fs')) s =
      Some (NNSt Z (plug (nn_set_lim Z (Some fl1) (half1 a))
                         (Fr pl4 (fr_L fr) (nn_set_lim Z (Some fl2) (half2 a) :: fr_R fr) :: fs4))
                   (fst (split_iter a (length fs') (st_path Z s) (st_item Z s)))
                   (snd (split_iter a (length fs') (st_path Z s) (st_item Z s))) (st_warn Z s)) /\
    same_sibs fs' fs4 /\
    chain_ok (nn_set_lim Z (Some fl1) (half1 a))
             (Fr pl4 (fr_L fr) (nn_set_lim Z (Some fl2) (half2 a) :: fr_R fr) :: fs4).
Proof.
  intros t [pl L R] fs' a s q fl1 fl2 Hr Hp Hfl1 Hfl2 Hsibs Hk2 Hlim Hchain.
  cbn [fr_L fr_R].
  set (a2 := nn_set_lim Z (Some fl2) (half2 a)).
  inversion Hsibs as [|? ? [HL HR] Hsibs']; subst. cbn [fr_L fr_R] in HL, HR.
  assert (Ha2 : sub_ok a2).
  { apply sub_ok_intro; [apply lc_set_first_last; exact Hfl2|apply kids_ok_set_lim; exact Hk2]. }
  assert (Hlim1 : nn_lim Z (half1 a) = nn_lim Z a) by (destruct a; reflexivity).
  (* after attaching the second half: resetLimits from the parent *)
  assert (H3 : exists pl3 fs3,
    (match length fs' with
     | O => (plug (half1 a) (Fr pl L (a2 :: R) :: fs'), st_warn Z s)
     | S _ => nn_reset_loop Z nn_zcmp (length fs') (length fs') (st_path Z s)
                (plug (half1 a) (Fr pl L (a2 :: R) :: fs')) (st_warn Z s)
     end) = (plug (half1 a) (Fr pl3 L (a2 :: R) :: fs3), st_warn Z s) /\
    same_sibs fs' fs3 /\ chain_ok (half1 a) (Fr pl3 L (a2 :: R) :: fs3)).
  { destruct fs' as [|fr2 fs''].
    - exists pl, []. split; [reflexivity|]. split; [apply same_sibs_refl|].
      cbn [chain_ok] in *. tauto.
    - cbn [length].
      change (plug (half1 a) (Fr pl L (a2 :: R) :: fr2 :: fs'')) with (plug (fill (Fr pl L (a2 :: R)) (half1 a)) (fr2 :: fs'')).
      destruct Hchain as [Hlc Hchain'].
      destruct (nn_first_last Z (fill (Fr pl L (a2 :: R)) (half1 a))) as [flP|] eqn:EflP.
      2:{ exfalso. revert EflP. apply first_last_fill_some; cbn [fr_L fr_R].
          - rewrite Hlim1. apply Hlim. discriminate.
          - exact HL.
          - constructor; assumption. }
      assert (Hf : firstn (length (fr2 :: fs'')) (st_path Z s) = zpath (fr2 :: fs'')).
      { rewrite Hp. apply firstn_zpath_tail. }
      assert (Hc2 : chain_ok (fill (Fr pl L (a2 :: R)) (half1 a)) (fr2 :: fs'')).
      { apply (chain_ok_lim _ (fill (Fr pl L R) a)); [reflexivity|exact Hchain']. }
      destruct (reset_loop_zip (fr2 :: fs'') _ (st_path Z s) (st_warn Z s) flP ltac:(discriminate) Hf EflP Hsibs' Hc2)
        as (fs3 & Hres & Hsame & Hch).
      cbn [length] in Hres. rewrite Hres. exists (Some flP), fs3. split; [reflexivity|]. split; [exact Hsame|].
      destruct fs3 as [|fr3 fs3]; [destruct Hsame as [Hs _]; discriminate|].
      change (lc (fill (Fr (Some flP) L (a2 :: R)) (half1 a)) /\ chain_ok (fill (Fr (Some flP) L (a2 :: R)) (half1 a)) (fr3 :: fs3)).
      split; [|exact Hch].
      change (fill (Fr (Some flP) L (a2 :: R)) (half1 a)) with (nn_set_lim Z (Some flP) (fill (Fr pl L (a2 :: R)) (half1 a))).
      apply lc_set_first_last. exact EflP. }
  destruct H3 as (pl3 & fs3 & H3eq & Hsame3 & Hch3).
  (* resetLimits of the first half *)
  assert (Hf4 : firstn (length (Fr pl3 L (a2 :: R) :: fs3)) (st_path Z s) = zpath (Fr pl3 L (a2 :: R) :: fs3)).
  { rewrite Hp. cbn [length]. rewrite <- (same_sibs_length _ _ Hsame3).
    change (S (length fs')) with (length (Fr pl L R :: fs')).
    rewrite (firstn_zpath (Fr pl L R :: fs') q). rewrite !zpath_cons. rewrite (same_sibs_zpath _ _ Hsame3). reflexivity. }
  assert (Hsibs4 : sibs_ok (Fr pl3 L (a2 :: R) :: fs3)).
  { constructor; [split; [exact HL|constructor; assumption]|]. apply (sibs_ok_same fs'); assumption. }
  destruct (reset_loop_zip (Fr pl3 L (a2 :: R) :: fs3) (half1 a) (st_path Z s) (st_warn Z s) fl1 ltac:(discriminate)
              Hf4 Hfl1 Hsibs4 Hch3) as (fs4' & H4eq & Hsame4 & Hch4).
  destruct (same_sibs_inv _ _ _ Hsame4) as (pl4 & fs4 & -> & Hsame4'). cbn [fr_L fr_R] in *.
  exists pl4, fs4. split; [|split; [apply (same_sibs_trans _ fs3); assumption|exact Hch4]].
  cbn [length] in H4eq. rewrite <- (same_sibs_length _ _ Hsame3) in H4eq.
  (* the computation *)
  assert (Hfd : firstn (S (length fs')) (st_path Z s) = zpath (Fr pl L R :: fs')).
  { rewrite Hp. apply (firstn_zpath (Fr pl L R :: fs') q). }
  assert (Hfdp : firstn (length fs') (st_path Z s) = zpath fs').
  { rewrite Hp. apply firstn_zpath_tail. }
  assert (Hzn : nn_znth (st_path Z s) (Z.of_nat (length fs')) = Some (nn_zlen L)).
  { rewrite Hp. apply znth_zpath_tail. }
  assert (Htriple : match a with
       | NLeaf l items =>
           (NLeaf l (firstn (Z.to_nat (nn_start_idx (2 * nn_zlen items) / 2)) items),
            NLeaf None (skipn (Z.to_nat (nn_start_idx (2 * nn_zlen items) / 2)) items),
            nn_start_idx (2 * nn_zlen items))
       | NInner l kids =>
           (NInner l (firstn (Z.to_nat (nn_start_idx (nn_zlen kids))) kids),
            NInner None (skipn (Z.to_nat (nn_start_idx (nn_zlen kids))) kids),
            nn_start_idx (nn_zlen kids))
       end = (half1 a, half2 a, split_start a)) by (destruct a; reflexivity).
  unfold nn_split_body. rewrite Hr, Hfd, get_plug, Hzn, Htriple. cbv beta iota zeta.
  rewrite upd_plug, Hfdp.
  change (plug (half1 a) (Fr pl L R :: fs')) with (plug (fill (Fr pl L R) (half1 a)) fs').
  rewrite get_plug. unfold fill at 1. cbn [fr_lim fr_L fr_R]. cbv beta iota.
  assert (Hrange : (nn_zlen L <? 0) || (nn_zlen (L ++ half1 a :: R) <? nn_zlen L + 1) = false).
  { apply orb_false_iff. rewrite c18_zlen_app, c18_zlen_cons.
    pose proof (c18_zlen_nonneg L). pose proof (c18_zlen_nonneg R). split; apply Z.ltb_ge; lia. }
  rewrite Hrange, Hfl2. cbv beta iota. fold a2. rewrite upd_plug.
  assert (Hins : nn_insert_at (L ++ half1 a :: R) (Z.to_nat (nn_zlen L + 1)) a2 = L ++ half1 a :: a2 :: R).
  { replace (Z.to_nat (nn_zlen L + 1)) with (S (length L)) by (unfold nn_zlen; lia). apply c18_insert_at_mid. }
  rewrite Hins.
  change (plug (NInner pl (L ++ half1 a :: a2 :: R)) fs') with (plug (half1 a) (Fr pl L (a2 :: R) :: fs')).
  rewrite H3eq. cbv beta iota. rewrite H4eq. cbv beta iota.
  unfold split_iter, is_leaf.
  destruct (split_start a <=? (if match a with NLeaf _ _ => true | NInner _ _ => false end then 2 * st_item Z s
                               else match nn_znth (st_path Z s) (Z.of_nat (S (length fs'))) with Some x => x | None => 0 end));
    [destruct a|]; reflexivity.
Qed.

Lemma upd_nth_zpath : forall fs (x : Z) rest f,
  nn_upd_nth (zpath fs ++ x :: rest) (length fs) f = zpath fs ++ f x :: rest.
Proof. intros. rewrite <- (zpath_length fs). apply c18_upd_nth_mid. Qed.
Lemma upd_nth_zpath_S : forall fs (x y : Z) rest f,
  nn_upd_nth (zpath fs ++ x :: y :: rest) (S (length fs)) f = zpath fs ++ x :: f y :: rest.
Proof.
  intros. replace (zpath fs ++ x :: y :: rest) with ((zpath fs ++ [x]) ++ y :: rest) by (rewrite <- app_assoc; reflexivity).
  replace (S (length fs)) with (length (zpath fs ++ [x])) by (rewrite app_length, zpath_length; simpl; lia).
  rewrite c18_upd_nth_mid. rewrite <- app_assoc. reflexivity.
Qed.

(* the iterator stands on the same entry after split_body re-pointed it *)
Lemma split_iter_pos : forall (a : node) pl L R fs' q item A e B l1 l2 pl4,
  at_pos a q item A e B -> (split_pt a <= Z.to_nat (arity a))%nat ->
  (is_leaf a = true -> split_start a = 2 * Z.of_nat (split_pt a)) ->
  (is_leaf a = false -> split_start a = Z.of_nat (split_pt a)) ->
  exists q4,
    fst (split_iter a (length fs') (zpath (Fr pl L R :: fs') ++ q) item) = zpath fs' ++ q4 /\
    at_pos (fill (Fr pl4 L (nn_set_lim Z l2 (half2 a) :: R)) (nn_set_lim Z l1 (half1 a))) q4
           (snd (split_iter a (length fs') (zpath (Fr pl L R :: fs') ++ q) item))
           (flat_map zabs L ++ A) e (B ++ flat_map zabs R).
Proof.
  intros a pl L R fs' q item A e B l1 l2 pl4 Hpos Hsp Hst1 Hst2.
  unfold split_iter. rewrite zpath_cons, <- app_assoc. cbn [app]. unfold fidx. cbn [fr_L].
  destruct a as [l items|l kids].
  - destruct (at_pos_leaf_inv _ _ _ _ _ _ _ Hpos) as (-> & Hitems & ->).
    cbn [is_leaf half1 half2 nn_set_lim]. specialize (Hst1 eq_refl). rewrite Hst1.
    set (sp := split_pt (NLeaf l items)) in *. cbn [arity] in Hsp. rewrite c18_to_nat_zlen in Hsp.
    assert (Hlen1 : length (firstn sp items) = sp) by (rewrite firstn_length; lia).
    pose proof (firstn_skipn sp items) as Hfs. rewrite Hitems in Hfs at 3.
    destruct (c18_app_split _ _ _ _ _ Hfs) as [(Q' & H1 & H2)|(P' & H1 & H2)].
    + assert (Hlt : nn_zlen A < Z.of_nat sp).
      { rewrite <- Hlen1, H1. rewrite app_length. unfold nn_zlen. simpl. lia. }
      replace (2 * Z.of_nat sp <=? 2 * nn_zlen A) with false by (symmetry; apply Z.leb_gt; lia).
      cbn [fst snd]. exists [nn_zlen L]. split; [reflexivity|].
      unfold fill. cbn [fr_lim fr_L fr_R]. rewrite H1.
      pose proof (at_pos_inner_intro pl4 L (NLeaf l1 (A ++ e :: Q')) (NLeaf l2 (skipn sp items) :: R) [] (nn_zlen A) A e Q'
                    (at_pos_leaf_intro l1 A e Q')) as X.
      eapply at_pos_eq; [exact X|reflexivity|]. cbn [flat_map nn_abs]. rewrite H2, <- !app_assoc. reflexivity.
    + assert (Hge : nn_zlen A = Z.of_nat sp + nn_zlen P').
      { rewrite H1. rewrite c18_zlen_app. unfold nn_zlen at 1. rewrite Hlen1. reflexivity. }
      pose proof (c18_zlen_nonneg P') as HP'.
      replace (2 * Z.of_nat sp <=? 2 * nn_zlen A) with true by (symmetry; apply Z.leb_le; lia).
      cbn [fst snd]. rewrite upd_nth_zpath. exists [nn_zlen L + 1]. split; [reflexivity|].
      replace (nn_zlen A - 2 * Z.of_nat sp / 2) with (nn_zlen P').
      2:{ rewrite (Z.mul_comm 2), Z.div_mul by lia. lia. }
      unfold fill. cbn [fr_lim fr_L fr_R]. rewrite H2.
      pose proof (at_pos_inner_intro pl4 (L ++ [NLeaf l1 (firstn sp items)]) (NLeaf l2 (P' ++ e :: B)) R [] (nn_zlen P') P' e B
                    (at_pos_leaf_intro l2 P' e B)) as X.
      rewrite <- app_assoc in X. cbn [app] in X.
      rewrite c18_zlen_app, c18_zlen_cons, c18_zlen_nil in X. replace (nn_zlen L + (1 + 0)) with (nn_zlen L + 1) in X by lia.
      eapply at_pos_eq; [exact X| |reflexivity].
      rewrite flat_map_app. cbn [flat_map nn_abs]. rewrite H1, app_nil_r, <- !app_assoc. reflexivity.
  - destruct (at_pos_inner_inv _ _ _ _ _ _ _ Hpos) as (KL & c & KR & q' & A' & B' & Hkids & -> & Hc & -> & ->).
    cbn [is_leaf half1 half2 nn_set_lim]. specialize (Hst2 eq_refl). rewrite Hst2.
    set (sp := split_pt (NInner l kids)) in *. cbn [arity] in Hsp. rewrite c18_to_nat_zlen in Hsp.
    assert (Hlen1 : length (firstn sp kids) = sp) by (rewrite firstn_length; lia).
    assert (Hold : nn_znth (zpath fs' ++ nn_zlen L :: nn_zlen KL :: q') (Z.of_nat (S (length fs'))) = Some (nn_zlen KL)).
    { replace (zpath fs' ++ nn_zlen L :: nn_zlen KL :: q') with (zpath (Fr pl L R :: fs') ++ nn_zlen KL :: q')
        by (rewrite zpath_cons, <- app_assoc; reflexivity).
      change (S (length fs')) with (length (Fr pl L R :: fs')). rewrite znth_zpath. reflexivity. }
    rewrite Hold.
    pose proof (firstn_skipn sp kids) as Hfs. rewrite Hkids in Hfs at 3.
    destruct (c18_app_split _ _ _ _ _ Hfs) as [(Q' & H1 & H2)|(P' & H1 & H2)].
    + assert (Hlt : nn_zlen KL < Z.of_nat sp).
      { rewrite <- Hlen1, H1. rewrite app_length. unfold nn_zlen. simpl. lia. }
      replace (Z.of_nat sp <=? nn_zlen KL) with false by (symmetry; apply Z.leb_gt; lia).
      cbn [fst snd]. exists (nn_zlen L :: nn_zlen KL :: q'). split; [reflexivity|].
      unfold fill. cbn [fr_lim fr_L fr_R]. rewrite H1.
      pose proof (at_pos_inner_intro pl4 L (NInner l1 (KL ++ c :: Q')) (NInner l2 (skipn sp kids) :: R) _ item _ e _
                    (at_pos_inner_intro l1 KL c Q' q' item A' e B' Hc)) as X.
      eapply at_pos_eq; [exact X|reflexivity|]. cbn [flat_map nn_abs]. rewrite H2, flat_map_app, <- !app_assoc. reflexivity.
    + assert (Hge : nn_zlen KL = Z.of_nat sp + nn_zlen P').
      { rewrite H1. rewrite c18_zlen_app. unfold nn_zlen at 1. rewrite Hlen1. reflexivity. }
      pose proof (c18_zlen_nonneg P') as HP'.
      replace (Z.of_nat sp <=? nn_zlen KL) with true by (symmetry; apply Z.leb_le; lia).
      cbn [fst snd]. rewrite upd_nth_zpath, upd_nth_zpath_S.
      exists (nn_zlen L + 1 :: nn_zlen KL - Z.of_nat sp :: q'). split; [reflexivity|].
      replace (nn_zlen KL - Z.of_nat sp) with (nn_zlen P') by lia.
      unfold fill. cbn [fr_lim fr_L fr_R]. rewrite H2.
      pose proof (at_pos_inner_intro pl4 (L ++ [NInner l1 (firstn sp kids)]) (NInner l2 (P' ++ c :: KR)) R _ item _ e _
                    (at_pos_inner_intro l2 P' c KR q' item A' e B' Hc)) as X.
      rewrite <- app_assoc in X. cbn [app] in X.
      rewrite c18_zlen_app, c18_zlen_cons, c18_zlen_nil in X. replace (nn_zlen L + (1 + 0)) with (nn_zlen L + 1) in X by lia.
      eapply at_pos_eq; [exact X| |rewrite <- app_assoc; reflexivity].
      rewrite flat_map_app. cbn [flat_map nn_abs]. rewrite H1, flat_map_app, app_nil_r, <- !app_assoc. reflexivity.
Qed.

(* ------------------------------------------------------------------ split *)
Lemma nn_split_eq : forall t d (s : zst), nn_split Z nn_zcmp t d s =
  if st_item Z s <? 0 then None else
  match zget (st_root Z s) (firstn d (st_path Z s)) with
  | None => None
  | Some nd =>
      match nn_split_needed Z t nd with
      | None => None
      | Some false => Some s
      | Some true =>
          match d with
          | O => nn_split_body Z nn_zcmp t 1
                   (NNSt Z (NInner None [nn_set_lim Z None nd]) (0 :: st_path Z s) (st_item Z s) (st_warn Z s))
          | S dp =>
              match nn_split_body Z nn_zcmp t d s with
              | None => None
              | Some s2 =>
                  let '(r, w) := nn_reset_loop Z nn_zcmp d dp (st_path Z s2) (st_root Z s2) (st_warn Z s2) in
                  nn_split Z nn_zcmp t dp (NNSt Z r (st_path Z s2) (st_item Z s2) w)
              end
          end
      end
  end.
Proof. intros t [|dp] s; reflexivity. Qed.

Lemma split_needed_eq : forall t (a : node), 1 <= arity a -> nn_split_needed Z t a = Some (t <? arity a).
Proof.
  intros t [l items|l kids] H; cbn [arity nn_split_needed] in *.
  - destruct items as [|x items]; [rewrite c18_zlen_nil in H; lia|]. f_equal.
    destruct (Z.ltb_spec (2 * t) (2 * nn_zlen (x :: items))); destruct (Z.ltb_spec t (nn_zlen (x :: items))); try reflexivity; lia.
  - destruct kids as [|x kids]; [rewrite c18_zlen_nil in H; lia|]. reflexivity.
Qed.

Lemma half_set_lim : forall lim (a : node),
  half1 (nn_set_lim Z lim a) = nn_set_lim Z lim (half1 a) /\ half2 (nn_set_lim Z lim a) = half2 a /\
  split_pt (nn_set_lim Z lim a) = split_pt a /\ split_start (nn_set_lim Z lim a) = split_start a /\
  is_leaf (nn_set_lim Z lim a) = is_leaf a /\ arity (nn_set_lim Z lim a) = arity a.
Proof. intros lim [l items|l kids]; repeat split; reflexivity. Qed.

Lemma c18_Forall_firstn {A} (P : A -> Prop) (n : nat) (l : list A) : Forall P l -> Forall P (firstn n l).
Proof. intros H. rewrite <- (firstn_skipn n l) in H. apply Forall_app in H. tauto. Qed.
Lemma c18_Forall_skipn {A} (P : A -> Prop) (n : nat) (l : list A) : Forall P l -> Forall P (skipn n l).
Proof. intros H. rewrite <- (firstn_skipn n l) in H. apply Forall_app in H. tauto. Qed.
Lemma c18_forallb_firstn {A} (p : A -> bool) (n : nat) (l : list A) : forallb p l = true -> forallb p (firstn n l) = true.
Proof. intros H. rewrite <- (firstn_skipn n l), forallb_app in H. apply andb_true_iff in H. tauto. Qed.
Lemma c18_forallb_skipn {A} (p : A -> bool) (n : nat) (l : list A) : forallb p l = true -> forallb p (skipn n l) = true.
Proof. intros H. rewrite <- (firstn_skipn n l), forallb_app in H. apply andb_true_iff in H. tauto. Qed.
Lemma c18_firstn_ne {A} (n : nat) (l : list A) : (1 <= n)%nat -> l <> [] -> firstn n l <> [].
Proof. intros Hn Hl. destruct n; [lia|]. destruct l; [congruence|discriminate]. Qed.
Lemma c18_skipn_ne {A} (n : nat) (l : list A) : (n < length l)%nat -> skipn n l <> [].
Proof. intros Hn E. pose proof (skipn_length n l) as H. rewrite E in H. simpl in H. lia. Qed.

(* the two halves of a node that is split are themselves well-formed *)
Lemma halves_ok : forall t (a : node), kids_ok a -> kids_size_ok t a = true ->
  (1 <= split_pt a)%nat -> Z.of_nat (split_pt a) < arity a ->
  (nn_first_last Z (half1 a) <> None /\ kids_ok (half1 a) /\ kids_size_ok t (half1 a) = true /\
   arity (half1 a) = Z.of_nat (split_pt a)) /\
  (nn_first_last Z (half2 a) <> None /\ kids_ok (half2 a) /\ kids_size_ok t (half2 a) = true /\
   arity (half2 a) = arity a - Z.of_nat (split_pt a)).
Proof.
  intros t [l items|l kids] Hk Hsz H1 H2; cbn [half1 half2 arity kids_ok kids_size_ok] in *;
    set (sp := split_pt _) in *; unfold nn_zlen in H2.
  - assert (Hne : items <> []) by (intros ->; simpl in H2; lia).
    split; (split; [rewrite first_last_leaf; apply lo_hi_some|split; [exact I|split; [reflexivity|]]]).
    + apply c18_firstn_ne; assumption.
    + unfold nn_zlen. rewrite firstn_length. lia.
    + apply c18_skipn_ne. lia.
    + unfold nn_zlen. rewrite skipn_length. lia.
  - assert (Hne : kids <> []) by (intros ->; simpl in H2; lia).
    split.
    + pose proof (c18_Forall_firstn _ sp _ Hk) as Hk1.
      destruct (first_last_inner l (firstn sp kids) Hk1 (c18_firstn_ne sp kids H1 Hne)) as [E Hfne].
      split; [rewrite E; apply lo_hi_some; exact Hfne|]. split; [exact Hk1|].
      split; [apply c18_forallb_firstn; exact Hsz|]. unfold nn_zlen. rewrite firstn_length. lia.
    + pose proof (c18_Forall_skipn _ sp _ Hk) as Hk2.
      destruct (first_last_inner None (skipn sp kids) Hk2 (c18_skipn_ne sp kids ltac:(lia))) as [E Hfne].
      split; [rewrite E; apply lo_hi_some; exact Hfne|]. split; [exact Hk2|].
      split; [apply c18_forallb_skipn; exact Hsz|]. unfold nn_zlen. rewrite skipn_length. lia.
Qed.

Lemma size_ok_set_lim : forall t lim (n : node), size_ok Z t (nn_set_lim Z lim n) = size_ok Z t n.
Proof. intros t lim [? ?|? ?]; reflexivity. Qed.
Lemma sub_ok_set_first_last : forall n fl, nn_first_last Z n = Some fl -> kids_ok n -> sub_ok (nn_set_lim Z (Some fl) n).
Proof. intros n fl H Hk. apply sub_ok_intro; [apply lc_set_first_last; exact H|apply kids_ok_set_lim; exact Hk]. Qed.

Lemma split_ok : forall t, 3 <= t -> forall n fs, length fs = n -> forall (a : node) (s : zst) q A e B,
  st_root Z s = plug a fs -> st_path Z s = zpath fs ++ q -> at_pos a q (st_item Z s) A e B ->
  root_ok (plug a fs) -> fsize_ok t fs -> kids_size_ok t a = true -> arity a <= t + 1 ->
  exists s', nn_split Z nn_zcmp t (length fs) s = Some s' /\ st_warn Z s' = st_warn Z s /\
    root_ok (st_root Z s') /\ size_ok Z t (st_root Z s') = true /\
    at_pos (st_root Z s') (st_path Z s') (st_item Z s') (zpre fs ++ A) e (B ++ zpost fs).
Proof.
  intros t Ht. induction n as [|n IH]; intros fs Hlen a s q A e B Hr Hp Hpos Hok Hfsz Hksz Har.
  all: rewrite nn_split_eq.
  all: pose proof (at_pos_item _ _ _ _ _ _ Hpos) as Hitem;
       replace (st_item Z s <? 0) with false by (symmetry; apply Z.ltb_ge; lia).
  all: assert (Hget : zget (st_root Z s) (firstn (length fs) (st_path Z s)) = Some a)
         by (rewrite Hr, Hp, firstn_zpath, get_plug; reflexivity); rewrite Hget.
  all: pose proof (at_pos_arity _ _ _ _ _ _ Hpos) as Har1; rewrite (split_needed_eq t a Har1).
  all: destruct (t <? arity a) eqn:Et;
    [apply Z.ltb_lt in Et|
     apply Z.ltb_ge in Et; exists s; split; [reflexivity|]; split; [reflexivity|]; rewrite Hr; split; [exact Hok|];
     split; [apply size_ok_plug; split; [rewrite size_ok_split, Hksz; replace (arity a <=? t) with true by (symmetry; apply Z.leb_le; lia); reflexivity|exact Hfsz]|];
     rewrite Hp; apply at_pos_plug; exact Hpos].
  all: destruct (split_pt_arith t a Ht (conj Et Har)) as (Hsp1 & Hsp2 & Hst1 & Hst2).
  - (* the root: push down, then split the only kid *)
    destruct fs; [|discriminate]. cbn [length plug zpath zpre zpost app] in *.
    destruct Hok as [Hnolim Hka].
    destruct (halves_ok t a Hka Hksz ltac:(lia) ltac:(lia)) as ((Hf1 & Hk1 & Hs1 & Ha1) & (Hf2 & Hk2 & Hs2 & Ha2)).
    destruct (nn_first_last Z (half1 a)) as [fl1|] eqn:Efl1; [|congruence].
    destruct (nn_first_last Z (half2 a)) as [fl2|] eqn:Efl2; [|congruence].
    destruct (half_set_lim None a) as (Hh1 & Hh2 & Hhsp & Hhst & Hhl & Hhar).
    set (a0 := nn_set_lim Z None a) in *.
    set (s1 := NNSt Z (NInner None [a0]) (0 :: st_path Z s) (st_item Z s) (st_warn Z s)).
    assert (Hp1 : st_path Z s1 = zpath [Fr None [] []] ++ q) by (cbn [st_path s1]; rewrite Hp; reflexivity).
    destruct (split_body_zip t (Fr None [] []) [] a0 s1 q fl1 fl2) as (pl4 & fs4 & Hbody & Hsame & Hch).
    + reflexivity.
    + exact Hp1.
    + rewrite Hh1, first_last_set_lim. exact Efl1.
    + rewrite Hh2. exact Efl2.
    + constructor; [split; constructor|constructor].
    + rewrite Hh2. exact Hk2.
    + intros H; congruence.
    + cbn [chain_ok fr_lim]. split; [reflexivity|exact I].
    + cbn [length] in Hbody. rewrite Hbody. eexists. split; [reflexivity|]. cbn [st_warn st_root st_path st_item fr_L fr_R].
      destruct fs4 as [|? ?]; [|destruct Hsame as [Hs _]; discriminate].
      cbn [fr_L fr_R] in Hch.
      rewrite Hh1, Hh2 in *.
      set (a1 := nn_set_lim Z (Some fl1) (nn_set_lim Z None (half1 a))) in *.
      set (a2 := nn_set_lim Z (Some fl2) (half2 a)) in *.
      assert (Hsa1 : sub_ok a1).
      { apply sub_ok_set_first_last; [rewrite first_last_set_lim; exact Efl1|apply kids_ok_set_lim; exact Hk1]. }
      assert (Hsa2 : sub_ok a2) by (apply sub_ok_set_first_last; assumption).
      split; [reflexivity|]. split; [|split].
      * apply plug_ok_iff; [discriminate|]. split; [exact Hsa1|]. split; [|exact Hch].
        constructor; [split; [constructor|constructor; [exact Hsa2|constructor]]|constructor].
      * apply size_ok_plug. split.
        -- unfold a1. rewrite !size_ok_set_lim, size_ok_split, Hs1, Ha1.
           replace (Z.of_nat (split_pt a) <=? t) with true by (symmetry; apply Z.leb_le; lia). reflexivity.
        -- constructor; [|constructor]. unfold frame_size_ok. cbn [fr_L fr_R forallb].
           split; [unfold nn_zlen; simpl; lia|]. split; [reflexivity|].
           unfold a2. rewrite size_ok_set_lim, size_ok_split, Hs2, Ha2.
           replace (arity a - Z.of_nat (split_pt a) <=? t) with true by (symmetry; apply Z.leb_le; lia). reflexivity.
      * destruct (split_iter_pos a0 None [] [] [] q (st_item Z s) A e B (Some fl1) (Some fl2) pl4
                    (at_pos_set_lim None a q _ A e B Hpos)) as (q4 & Hq4 & Hpos4).
        -- rewrite Hhsp, Hhar. lia.
        -- rewrite Hhl, Hhst, Hhsp. exact Hst1.
        -- rewrite Hhl, Hhst, Hhsp. exact Hst2.
        -- rewrite Hh1, Hh2 in Hpos4. fold a1 a2 in Hpos4. rewrite <- Hp1 in Hq4, Hpos4.
           cbn [length zpath rzpath map rev app] in Hq4. cbn [st_item s1]. cbn [length] in Hpos4.
           rewrite Hq4. eapply at_pos_eq; [exact Hpos4|reflexivity|reflexivity].
  - (* a node below the root *)
    destruct fs as [|[pl L R] fs']; [discriminate|]. injection Hlen as Hlen.
    apply plug_ok_iff in Hok; [|discriminate]. destruct Hok as (Hsa & Hsibs & Hchain).
    pose proof (sub_ok_kids _ Hsa) as Hka.
    destruct (halves_ok t a Hka Hksz ltac:(lia) ltac:(lia)) as ((Hf1 & Hk1 & Hs1 & Ha1) & (Hf2 & Hk2 & Hs2 & Ha2)).
    destruct (nn_first_last Z (half1 a)) as [fl1|] eqn:Efl1; [|congruence].
    destruct (nn_first_last Z (half2 a)) as [fl2|] eqn:Efl2; [|congruence].
    destruct (split_body_zip t (Fr pl L R) fs' a s q fl1 fl2 Hr Hp Efl1 Efl2 Hsibs Hk2
                (fun _ => sub_ok_lim_some _ Hsa) Hchain) as (pl4 & fs4 & Hbody & Hsame & Hch).
    cbn [length]. rewrite Hbody. cbn [fr_L fr_R] in *.
    set (a1 := nn_set_lim Z (Some fl1) (half1 a)) in *.
    set (a2 := nn_set_lim Z (Some fl2) (half2 a)) in *.
    assert (Hsa1 : sub_ok a1) by (apply sub_ok_set_first_last; assumption).
    assert (Hsa2 : sub_ok a2) by (apply sub_ok_set_first_last; assumption).
    inversion Hsibs as [|? ? [HL HR] Hsibs']; subst. cbn [fr_L fr_R] in HL, HR.
    inversion Hfsz as [|? ? (Hfr1 & Hfr2 & Hfr3) Hfsz']; subst. cbn [fr_L fr_R] in Hfr1, Hfr2, Hfr3.
    destruct (split_iter_pos a pl L R fs' q (st_item Z s) A e B (Some fl1) (Some fl2) pl4 Hpos
                ltac:(lia) Hst1 Hst2) as (q4 & Hq4 & Hpos4).
    fold a1 a2 in Hpos4. rewrite <- Hp in Hq4, Hpos4.
    set (path2 := fst (split_iter a (length fs') (st_path Z s) (st_item Z s))) in *.
    set (item2 := snd (split_iter a (length fs') (st_path Z s) (st_item Z s))) in *.
    cbv beta iota. cbn [st_path st_root st_warn st_item].
    set (P4 := fill (Fr pl4 L (a2 :: R)) a1) in *.
    assert (Hsibs4 : sibs_ok (Fr pl4 L (a2 :: R) :: fs4)).
    { constructor; [split; [exact HL|constructor; assumption]|]. apply (sibs_ok_same fs'); assumption. }
    assert (HflP : nn_first_last Z P4 <> None).
    { apply first_last_fill_some; cbn [fr_L fr_R]; [apply sub_ok_lim_some; exact Hsa1|exact HL|constructor; assumption]. }
    destruct (nn_first_last Z P4) as [flP|] eqn:EflP; [|congruence].
    assert (Hlen4 : length fs4 = length fs') by (symmetry; apply same_sibs_length; exact Hsame).
    assert (Hzp4 : zpath fs4 = zpath fs') by (symmetry; apply same_sibs_zpath; exact Hsame).
    rewrite (reset_loop_noop (length fs') path2 (plug a1 (Fr pl4 L (a2 :: R) :: fs4)) P4 (st_warn Z s) flP).
    2:{ rewrite Hq4, <- Hzp4, <- Hlen4, firstn_zpath. change (plug a1 (Fr pl4 L (a2 :: R) :: fs4)) with (plug P4 fs4). apply get_plug. }
    2:{ exact EflP. }
    2:{ destruct fs4 as [|fr5 fs4]; [left; rewrite <- Hlen4; reflexivity|right].
        destruct Hch as [[Hl _] _]. fold P4 in Hl. rewrite Hl. exact EflP. }
    assert (Hroot4 : root_ok (plug P4 fs4)).
    { change (plug P4 fs4) with (plug a1 (Fr pl4 L (a2 :: R) :: fs4)). apply plug_ok_iff; [discriminate|].
      split; [exact Hsa1|]. split; [exact Hsibs4|exact Hch]. }
    assert (Hsz1 : size_ok Z t a1 = true).
    { unfold a1. rewrite size_ok_set_lim, size_ok_split, Hs1, Ha1.
      replace (Z.of_nat (split_pt a) <=? t) with true by (symmetry; apply Z.leb_le; lia). reflexivity. }
    assert (Hsz2 : size_ok Z t a2 = true).
    { unfold a2. rewrite size_ok_set_lim, size_ok_split, Hs2, Ha2.
      replace (arity a - Z.of_nat (split_pt a) <=? t) with true by (symmetry; apply Z.leb_le; lia). reflexivity. }
    destruct (IH fs4 ltac:(lia) P4
                (NNSt Z (plug a1 (Fr pl4 L (a2 :: R) :: fs4)) path2 item2 (st_warn Z s)) q4
                (flat_map zabs L ++ A) e (B ++ flat_map zabs R))
      as (s' & Hsp & Hw & Hok' & Hsz' & Hpos').
    + reflexivity.
    + cbn [st_path]. rewrite Hq4, Hzp4. reflexivity.
    + exact Hpos4.
    + exact Hroot4.
    + apply (fsize_ok_same t fs'); assumption.
    + unfold P4, fill. cbn [kids_size_ok fr_L fr_R fr_lim]. rewrite forallb_app. cbn [forallb].
      rewrite Hfr2, Hsz1, Hsz2, Hfr3. reflexivity.
    + unfold P4, fill. cbn [arity fr_L fr_R fr_lim]. rewrite c18_zlen_app, !c18_zlen_cons. lia.
    + rewrite Hlen4 in Hsp. exists s'. split; [exact Hsp|]. split; [exact Hw|]. split; [exact Hok'|]. split; [exact Hsz'|].
      eapply at_pos_eq; [exact Hpos'| |].
      * cbn [zpre fr_L]. rewrite (same_sibs_zpre _ _ Hsame), app_assoc. reflexivity.
      * cbn [zpost fr_R]. rewrite (same_sibs_zpost _ _ Hsame), <- app_assoc. reflexivity.
Qed.
