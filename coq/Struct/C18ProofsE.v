(* C18 proofs, part 6: the descent step of findInternal -- binarySearch over /Kids with
   compareKeyKid on the kids' /Limits -- picks the kid whose interval contains the key, otherwise
   the last kid entirely below the key; for every number of kids. *)
From Coq Require Import Sorting.Sorted.
From QV Require Import Base.Bytes Struct.NNTreeModel Struct.NNTreeSpec Struct.C18Proofs.
Local Open Scope Z_scope.

(* a search over any array whose entries are classified Gt ... Gt [Eq|Lt] Lt ... Lt *)
Lemma binsearch_classified {A} (g : A -> comparison) (f : Z -> option comparison) (lo hi : list A) prev :
  (forall i, f i = option_map g (nn_znth (lo ++ hi) i)) ->
  Forall (fun x => g x = Gt) lo ->
  match hi with [] => True | h :: t => g h <> Gt /\ Forall (fun x => g x = Lt) t end ->
  nn_binsearch (nn_zlen (lo ++ hi)) f prev =
  Some (match hi with
        | h :: _ => match g h with Eq => nn_zlen lo | _ => if prev then nn_zlen lo - 1 else -1 end
        | [] => if prev then nn_zlen lo - 1 else -1
        end).
Proof.
  intros Hf Hlo Hhi.
  set (c := nn_zlen lo).
  assert (Hlen : nn_zlen (lo ++ hi) = c + nn_zlen hi).
  { unfold c, nn_zlen. rewrite app_length. lia. }
  assert (Hcpos : 0 <= c) by (unfold c, nn_zlen; lia).
  assert (Hhipos : 0 <= nn_zlen hi) by (unfold nn_zlen; lia).
  assert (Fbelow : forall i, 0 <= i < c -> f i = Some Gt).
  { intros i Hi. rewrite Hf, nn_znth_app_lo by exact Hi.
    destruct (nn_znth_some lo i Hi) as [x Hx]. rewrite Hx. simpl.
    f_equal. exact (nn_znth_Forall _ _ _ _ Hlo Hx). }
  assert (Fabove : forall i, c < i < nn_zlen (lo ++ hi) -> f i = Some Lt).
  { intros i Hi. rewrite Hf, nn_znth_app_hi by (fold c; lia). fold c.
    destruct hi as [|h t]; [unfold nn_zlen in *; simpl in *; lia|].
    destruct Hhi as [_ Ht].
    assert (Hi' : 0 <= i - c - 1 < nn_zlen t).
    { rewrite Hlen in Hi. unfold nn_zlen in *. simpl length in Hi. lia. }
    destruct (nn_znth_some t (i - c - 1) Hi') as [x Hx].
    replace (nn_znth (h :: t) (i - c)) with (nn_znth t (i - c - 1)).
    - rewrite Hx. simpl. f_equal. exact (nn_znth_Forall _ _ _ _ Ht Hx).
    - unfold nn_znth. destruct (i - c - 1 <? 0) eqn:E1; [apply Z.ltb_lt in E1; lia|].
      destruct (i - c <? 0) eqn:E2; [apply Z.ltb_lt in E2; lia|].
      replace (Z.to_nat (i - c)) with (S (Z.to_nat (i - c - 1))) by lia. reflexivity. }
  assert (Hat : f c = match hi with [] => None | h :: _ => Some (g h) end).
  { rewrite Hf, nn_znth_app_hi by (fold c; lia). fold c.
    replace (c - c) with 0 by lia. destruct hi as [|h t]; reflexivity. }
  assert (Fat : c < nn_zlen (lo ++ hi) -> f c = Some Eq \/ f c = Some Lt).
  { intros Hlt. rewrite Hat. destruct hi as [|h t]; [unfold nn_zlen in *; simpl in *; lia|].
    destruct Hhi as [Hne _]. destruct (g h); [left|right|]; congruence. }
  rewrite (nn_binsearch_abstract (nn_zlen (lo ++ hi)) c f ltac:(lia) Fbelow Fabove Fat prev).
  f_equal. unfold bs_result. rewrite Hat.
  destruct hi as [|h t].
  - replace (c <? nn_zlen (lo ++ [])) with false; [reflexivity|].
    symmetry. apply Z.ltb_ge. rewrite Hlen. unfold nn_zlen. simpl. lia.
  - replace (c <? nn_zlen (lo ++ h :: t)) with true; [reflexivity|].
    symmetry. apply Z.ltb_lt. rewrite Hlen. unfold nn_zlen. simpl length. lia.
Qed.

Section Kids.
  Variable K : Type.
  Variable kcmp : K -> K -> comparison.
  Hypothesis kcmp_antisym : forall a b, kcmp b a = CompOpp (kcmp a b).
  Hypothesis kcmp_trans : forall a b c, kcmp a b = Lt -> kcmp b c = Lt -> kcmp a c = Lt.
  Hypothesis kcmp_eq : forall a b, kcmp a b = Eq -> a = b.

  (* compareKeyKid as a classifier of an interval *)
  Definition in_limits (key : K) (l : K * K) : comparison :=
    match kcmp key (fst l) with
    | Lt => Lt
    | _ => match kcmp key (snd l) with Gt => Gt | _ => Eq end
    end.

  (* /Limits of consecutive kids: lo <= hi, and hi of a kid below lo of every later kid *)
  Definition limits_ordered (ls : list (K * K)) : Prop :=
    StronglySorted (fun a b => kcmp (snd a) (fst b) = Lt) ls /\
    Forall (fun a => kcmp (fst a) (snd a) <> Gt) ls.

  Lemma le_lt_trans : forall a b c, kcmp a b <> Gt -> kcmp b c = Lt -> kcmp a c = Lt.
  Proof.
    intros a b c H1 H2. destruct (kcmp a b) eqn:E; [| |congruence].
    - apply kcmp_eq in E. subst. exact H2.
    - eapply kcmp_trans; eassumption.
  Qed.
  Lemma lt_le_trans : forall a b c, kcmp a b = Lt -> kcmp b c <> Gt -> kcmp a c = Lt.
  Proof.
    intros a b c H1 H2. destruct (kcmp b c) eqn:E; [| |congruence].
    - apply kcmp_eq in E. subst. exact H1.
    - eapply kcmp_trans; eassumption.
  Qed.

  (* the kids split into those entirely below the key and the rest *)
  Lemma limits_split : forall key ls, limits_ordered ls ->
    exists lo hi, ls = lo ++ hi /\
      Forall (fun l => kcmp key (snd l) = Gt /\ kcmp key (fst l) <> Lt) lo /\
      match hi with
      | [] => True
      | h :: t => kcmp key (snd h) <> Gt /\
                  Forall (fun l => kcmp key (fst l) = Lt /\ kcmp key (snd l) = Lt) t
      end.
  Proof.
    intros key ls [Hs Hle]. induction ls as [|[a b] ls IH].
    - exists [], []. repeat split; constructor.
    - inversion Hs as [|? ? Hs' Hall]; subst. inversion Hle as [|? ? Hab Hle']; subst. simpl in Hab.
      destruct (kcmp key b) eqn:Eb.
      1,2: (exists [], ((a, b) :: ls); simpl; repeat split; [constructor|congruence|];
            assert (Hkb : kcmp key b <> Gt) by congruence;
            rewrite Forall_forall in *; intros [a' b'] Hin;
            pose proof (Hall _ Hin) as H1; pose proof (Hle' _ Hin) as H2; simpl in *;
            pose proof (le_lt_trans key b a' Hkb H1) as H3;
            split; [exact H3|exact (lt_le_trans key a' b' H3 H2)]).
      destruct (IH Hs' Hle') as (lo & hi & -> & Hlo & Hhi).
      exists ((a, b) :: lo), hi. repeat split; [|assumption].
      constructor; [|assumption]. simpl. split; [exact Eb|].
      (* a <= b < key *)
      intros Hka. pose proof (lt_le_trans key a b Hka Hab). congruence.
  Qed.

  (* what the descent must choose: the kid containing the key, else the last kid below it *)
  Definition spec_kid_search (key : K) (ls : list (K * K)) : Z :=
    let below := Z.of_nat (length (filter (fun l => k_lt K kcmp (snd l) key) ls)) in
    if existsb (fun l => k_le K kcmp (fst l) key && k_le K kcmp key (snd l)) ls then below else below - 1.

  Definition kid_limits (kids : list (nnode K)) : option (list (K * K)) :=
    fold_right (fun kid acc => match nn_lim K kid, acc with
                               | Some l, Some r => Some (l :: r)
                               | _, _ => None
                               end) (Some []) kids.

  Lemma kid_limits_znth : forall kids ls key i, kid_limits kids = Some ls ->
    nn_cmp_kid K kcmp key kids i = option_map (in_limits key) (nn_znth ls i).
  Proof.
    intros kids ls key i H. unfold nn_cmp_kid, nn_znth. destruct (i <? 0); [reflexivity|].
    generalize (Z.to_nat i). clear i. revert ls H.
    induction kids as [|kid kids IH]; intros ls H j; simpl in H.
    - injection H as <-. destruct j; reflexivity.
    - destruct (nn_lim K kid) as [[a b]|] eqn:El; [|discriminate].
      destruct (kid_limits kids) as [r|] eqn:Er; [|discriminate]. injection H as <-.
      destruct j as [|j]; simpl.
      + rewrite El. unfold in_limits. simpl. destruct (kcmp key a); try reflexivity; destruct (kcmp key b); reflexivity.
      + apply IH. reflexivity.
  Qed.

  Lemma kid_limits_length : forall kids ls, kid_limits kids = Some ls -> nn_zlen ls = nn_zlen kids.
  Proof.
    induction kids as [|kid kids IH]; intros ls H; simpl in H.
    - injection H as <-. reflexivity.
    - destruct (nn_lim K kid); [|discriminate]. destruct (kid_limits kids) as [r|]; [|discriminate].
      injection H as <-. unfold nn_zlen in *. simpl. specialize (IH r eq_refl). lia.
  Qed.

  Theorem binsearch_kids_correct : forall key kids ls,
    kid_limits kids = Some ls -> limits_ordered ls ->
    nn_binsearch (nn_zlen kids) (nn_cmp_kid K kcmp key kids) true = Some (spec_kid_search key ls).
  Proof.
    intros key kids ls Hl Hord.
    destruct (limits_split key ls Hord) as (lo & hi & -> & Hlo & Hhi).
    rewrite <- (kid_limits_length kids _ Hl).
    assert (Hlo' : Forall (fun l => in_limits key l = Gt) lo).
    { eapply Forall_impl; [|exact Hlo]. intros [a b] [H1 H2]. unfold in_limits. simpl in *.
      rewrite H1. destruct (kcmp key a); congruence. }
    assert (Hhi' : match hi with [] => True | h :: t => in_limits key h <> Gt /\ Forall (fun l => in_limits key l = Lt) t end).
    { destruct hi as [|[a b] t]; [exact I|]. destruct Hhi as [Hb Ht]. split.
      - unfold in_limits. simpl in *. destruct (kcmp key a); try congruence; destruct (kcmp key b); congruence.
      - eapply Forall_impl; [|exact Ht]. intros [a' b'] [H1 _]. unfold in_limits. simpl in *. rewrite H1. reflexivity. }
    rewrite (binsearch_classified (in_limits key) (nn_cmp_kid K kcmp key kids) lo hi true
               (fun i => kid_limits_znth kids _ key i Hl) Hlo' Hhi').
    f_equal. unfold spec_kid_search.
    assert (Hbelow : filter (fun l => k_lt K kcmp (snd l) key) (lo ++ hi) = lo).
    { rewrite filter_app, filter_all, filter_none.
      - apply app_nil_r.
      - destruct hi as [|[a b] t]; [constructor|]. destruct Hhi as [Hb Ht]. constructor.
        + unfold k_lt. simpl in *. rewrite (kcmp_antisym key b). destruct (kcmp key b); simpl; congruence.
        + eapply Forall_impl; [|exact Ht]. intros [a' b'] [_ H2]. unfold k_lt. simpl in *.
          rewrite (kcmp_antisym key b'), H2. reflexivity.
      - eapply Forall_impl; [|exact Hlo]. intros [a b] [H1 _]. unfold k_lt. simpl in *.
        rewrite (kcmp_antisym key b), H1. reflexivity. }
    rewrite Hbelow. fold (nn_zlen lo).
    rewrite existsb_app. rewrite (existsb_none _ lo).
    2:{ eapply Forall_impl; [|exact Hlo]. intros [a b] [H1 _]. unfold k_le. simpl in *.
        rewrite H1. apply andb_false_r. }
    simpl orb.
    destruct hi as [|[a b] t]; [reflexivity|]. destruct Hhi as [Hb Ht].
    simpl existsb. rewrite (existsb_none _ t).
    2:{ eapply Forall_impl; [|exact Ht]. intros [a' b'] [H1 _]. unfold k_le. simpl in *.
        rewrite (kcmp_antisym key a'), H1. reflexivity. }
    rewrite orb_false_r. unfold in_limits, k_le. simpl in *. rewrite (kcmp_antisym key a).
    destruct (kcmp key a); simpl; try reflexivity; destruct (kcmp key b); simpl; try reflexivity; congruence.
  Qed.
End Kids.

(* C18 theorem: the kid chosen at every level of the descent, number trees and name trees *)
Lemma binsearch_kids_correct_lemma : forall (key : Z) (kids : list (nnode Z)) (ls : list (Z * Z)),
  kid_limits Z kids = Some ls -> limits_ordered Z nn_zcmp ls ->
  nn_binsearch (nn_zlen kids) (nn_cmp_kid Z nn_zcmp key kids) true = Some (spec_kid_search Z nn_zcmp key ls).
Proof.
  intros. apply binsearch_kids_correct;
    [exact nn_zcmp_antisym|exact nn_zcmp_trans|exact nn_zcmp_eq|assumption|assumption].
Qed.

Lemma binsearch_kids_names_correct_lemma : forall (key : list N) (kids : list (nnode (list N))) (ls : list (list N * list N)),
  kid_limits (list N) kids = Some ls -> limits_ordered (list N) nn_scmp ls ->
  nn_binsearch (nn_zlen kids) (nn_cmp_kid (list N) nn_scmp key kids) true
  = Some (spec_kid_search (list N) nn_scmp key ls).
Proof.
  intros. apply binsearch_kids_correct;
    [exact nn_scmp_antisym|exact nn_scmp_trans|exact nn_scmp_eq|assumption|assumption].
Qed.
